//! C11 / C14 / C02: several runs on ONE interpreter, with collection and quiescence snapshots in between.
use crate::prog;
use tsrun::{JsValue, ModulePath, OrderResponse, RuntimeValue, StepResult};

/// line: JSON {"gc": threshold|null, "runs": [{"src": "...", "mode": "eval"|"steps", "path": "/m/x"|null,
///              "abandon": k|null, "collect_every": n|null, "mods": {path: src}}, …], "internal": {specifier: src}}
/// per run output (joined by '|'):  `<outcome>;live=<n>;st=<quiescence flags>`
///   outcome: OK <value> | ERR <class> | ABANDONED@k | SUSPENDED | NEED
///   st: g<env_is_global>e<env_guards>c<call_stack>v<active_vm>s<saved_env>m<module_env>x<exports>r<root_guard_len>d<call_depth>
pub fn line(l: &str) -> String {
    let v: serde_json::Value = match serde_json::from_str(l) {
        Ok(v) => v,
        Err(_) => return "bad-case".into(),
    };
    let (mut interp, log) = prog::new_interp();
    if let Some(t) = v["gc"].as_u64() {
        interp.set_gc_threshold(t as usize);
    }
    // internal source modules ("internal": {specifier: source}) are registered once, before the first run
    if let Some(m) = v["internal"].as_object() {
        for (spec, src) in m {
            if let Some(src) = src.as_str() {
                interp.register_internal_module(tsrun::InternalModule::source(spec.as_str(), src));
            }
        }
    }
    let mut out: Vec<String> = Vec::new();
    let empty = Vec::new();
    for run in v["runs"].as_array().unwrap_or(&empty) {
        let src = run["src"].as_str().unwrap_or("");
        let path = run["path"].as_str().map(|p| ModulePath::new(p.to_string()));
        let abandon = run["abandon"].as_u64();
        let collect_every = run["collect_every"].as_u64();
        let want_trace = run["trace"].as_bool().unwrap_or(false);
        let mut trace: Vec<String> = Vec::new();
        log.borrow_mut().clear();
        let outcome: String = if run["mode"].as_str() == Some("eval") {
            match interp.eval(src, path) {
                Ok(StepResult::Complete(v)) => format!("OK {}", prog::show_value(v.value())),
                Ok(StepResult::Suspended { .. }) => "SUSPENDED".into(),
                Ok(StepResult::NeedImports(_)) => "NEED".into(),
                Ok(_) => "OTHER".into(),
                Err(e) => format!("ERR {}", prog::error_class(&e)),
            }
        } else {
            let mut r = interp.prepare(src, path);
            let mut k: u64 = 0;
            loop {
                match r {
                    Ok(StepResult::Continue) => {
                        if want_trace && trace.len() < 4000 {
                            let s = interp.verif_state();
                            let t = format!(
                                "{}:{}:{}",
                                s.env_guards,
                                s.call_stack,
                                s.scope_profile.iter().map(|x| x.to_string()).collect::<Vec<_>>().join(".")
                            );
                            if trace.last() != Some(&t) {
                                trace.push(t);
                            }
                        }
                        if abandon == Some(k) {
                            break format!("ABANDONED@{}", k);
                        }
                        if let Some(n) = collect_every {
                            if n > 0 && k % n == 0 {
                                interp.collect();
                            }
                        }
                        k += 1;
                        if k > 5_000_000 {
                            break "ERR budget".into();
                        }
                        r = interp.step();
                    }
                    Ok(StepResult::Complete(v)) => break format!("OK {}", prog::show_value(v.value())),
                    Ok(StepResult::Suspended { pending, .. }) => {
                        if abandon.is_some() || pending.is_empty() {
                            break "SUSPENDED".into();
                        }
                        // answer every order with 100+id and go on
                        let responses = pending
                            .iter()
                            .map(|o| OrderResponse { id: o.id, result: Ok(RuntimeValue::unguarded(JsValue::Number(100.0 + o.id.0 as f64))) })
                            .collect();
                        interp.fulfill_orders(responses);
                        r = interp.step();
                    }
                    Ok(StepResult::NeedImports(reqs)) => {
                        let mut provided = false;
                        for q in &reqs {
                            if let Some(s) = run["mods"][q.resolved_path.as_str()].as_str() {
                                if interp.provide_module(q.resolved_path.clone(), s).is_ok() {
                                    provided = true;
                                }
                            }
                        }
                        if !provided {
                            break "NEED".into();
                        }
                        r = interp.step();
                    }
                    Ok(StepResult::Done) => break "DONE".into(),
                    Err(e) => break format!("ERR {}", prog::error_class(&e)),
                }
            }
        };
        let console = log.borrow().join("\u{1}");
        interp.collect();
        let live = interp.gc_stats().live_objects;
        let s = interp.verif_state();
        out.push(format!(
            "{} ~{};live={};st=g{}e{}c{}v{}s{}m{}x{}r{}d{}",
            outcome,
            prog::esc(&console),
            live,
            s.env_is_global as u8,
            s.env_guards,
            s.call_stack,
            s.has_active_vm as u8,
            s.has_active_saved_env as u8,
            s.has_active_module_env as u8,
            s.exports_scratch,
            s.root_guard_len,
            interp.call_depth()
        ));
        if want_trace {
            if let Some(last) = out.last_mut() {
                last.push_str(&format!(";tr={}", trace.join(",")));
            }
        }
    }
    out.join("|")
}
