//! C15: number <-> text / integer conversions of the real code.
use crate::prog;
use tsrun::value::{number_to_string, string_to_number, to_int32, to_uint32};

fn literal(bits: u64) -> String {
    let x = f64::from_bits(bits);
    if x.is_nan() {
        return "NaN".into();
    }
    if x.is_infinite() {
        return if x > 0.0 { "Infinity".into() } else { "(-Infinity)".into() };
    }
    let a = format!("{:e}", x.abs());
    if x.is_sign_negative() { format!("(-{})", a) } else { format!("({})", a) }
}

fn eval_str(expr: &str) -> String {
    let o = prog::run_fresh(&format!("{};", expr));
    match o.error {
        Some(c) => format!("ERR {}", c),
        None => o.value.strip_prefix("s:").map(|s| s.to_string()).unwrap_or(o.value),
    }
}

pub fn line(l: &str) -> String {
    let parts: Vec<&str> = l.splitn(3, ' ').collect();
    let bits = |s: &str| s.parse::<u64>().ok();
    match parts.as_slice() {
        ["S", b] => match bits(b) {
            Some(b) => number_to_string(f64::from_bits(b)),
            None => "bad-case".into(),
        },
        ["I", b] => match bits(b) {
            Some(b) => {
                let x = f64::from_bits(b);
                format!("{},{}", to_int32(x), to_uint32(x))
            }
            None => "bad-case".into(),
        },
        ["F", b, f] => match bits(b) {
            Some(b) => eval_str(&format!("{}.toFixed({})", literal(b), f)),
            None => "bad-case".into(),
        },
        ["R", b, p] => match bits(b) {
            Some(b) => eval_str(&format!("{}.toPrecision({})", literal(b), p)),
            None => "bad-case".into(),
        },
        ["E", b, f] => match bits(b) {
            Some(b) => {
                if *f == "-" {
                    eval_str(&format!("{}.toExponential()", literal(b)))
                } else {
                    eval_str(&format!("{}.toExponential({})", literal(b), f))
                }
            }
            None => "bad-case".into(),
        },
        // decimal text → bits, through string_to_number (Number("...")) and through the lexer (literal)
        ["D", t] => {
            let a = string_to_number(t);
            if a.is_nan() { "nan".into() } else { a.to_bits().to_string() }
        }
        ["X", t] => {
            // literal through lexer/parser/compiler/VM: return its bits via number_to_string-independent path
            let o = prog::run_fresh(&format!("{};", t));
            match (o.error, o.value.strip_prefix("n:")) {
                (Some(c), _) => format!("ERR {}", c),
                (None, Some(s)) => {
                    let v = string_to_number(s);
                    if v.is_nan() { "nan".into() } else { v.to_bits().to_string() }
                }
                _ => o.value,
            }
        }
        // in-program bitwise ops: `B <op> <bitsA> <bitsB>`
        ["B", op, rest] => {
            let ab: Vec<&str> = rest.split(' ').collect();
            match ab.as_slice() {
                [a, b] => match (bits(a), bits(b)) {
                    (Some(a), Some(b)) => eval_str(&format!("String({} {} {})", literal(a), op, literal(b))),
                    _ => "bad-case".into(),
                },
                _ => "bad-case".into(),
            }
        }
        _ => "bad-case".into(),
    }
}
