//! C16: the JSON boundary of the real code through its five entry points.
use crate::prog;
use tsrun::{JsString, JsValue, api, js_value_to_json};

const WALK: &str = r#"
function __walk(v: any): any {
  if (v === null || typeof v !== "object") return v;
  if (Array.isArray(v)) { const r: any[] = []; for (let i = 0; i < v.length; i++) r.push(__walk(v[i])); return r; }
  const r: any = {};
  for (const k of Object.keys(v)) { r[k] = __walk(v[k]); }
  return r;
}
"#;

fn out_str(o: &prog::Outcome) -> String {
    match &o.error {
        Some(c) => format!("ERR {}", c),
        None => o.value.strip_prefix("s:").map(|s| s.to_string()).unwrap_or_else(|| format!("NONSTRING {}", o.value)),
    }
}

/// `P <json>` → five observations separated by TAB:
///   1 JSON.stringify(JSON.parse(text))            (script parse + script stringify)
///   2 JSON.stringify(walk(JSON.parse(text)))      (script read-back of every member/element)
///   3 js_value_to_json(create_from_json(doc))     (host in, host out)
///   4 JSON.stringify(walk(hostValue))             (host in, script read-back)
///   5 JSON.stringify(JSON.parse(text), null, 2)   (indentation must not change the document)
pub fn line(l: &str) -> String {
    if let Some(text) = l.strip_prefix("P ") {
        let (mut interp, log) = prog::new_interp();
        let name = interp.intern("__input");
        interp.env_define(name, JsValue::String(JsString::from(text)), false);
        let o1 = prog::eval_on(&mut interp, &log, "JSON.stringify(JSON.parse(__input));");
        let o2 = prog::eval_on(&mut interp, &log, &format!("{}\nJSON.stringify(__walk(JSON.parse(__input)));", WALK));
        let (r3, r4) = match serde_json::from_str::<serde_json::Value>(text) {
            Ok(doc) => {
                let guard = api::create_guard(&interp);
                match api::create_from_json(&mut interp, &guard, &doc) {
                    Ok(v) => {
                        let r3 = match js_value_to_json(&v) {
                            Ok(j) => j.to_string(),
                            Err(e) => format!("ERR {}", prog::error_class(&e)),
                        };
                        let hname = interp.intern("__host");
                        interp.env_define(hname, v.clone(), false);
                        let o4 = prog::eval_on(&mut interp, &log, "JSON.stringify(__walk(__host));");
                        (r3, out_str(&o4))
                    }
                    Err(e) => (format!("ERR {}", prog::error_class(&e)), "-".into()),
                }
            }
            Err(_) => ("ERR serde".into(), "-".into()),
        };
        let o5 = prog::eval_on(&mut interp, &log, "JSON.stringify(JSON.parse(__input), null, 2);");
        return format!("{}\t{}\t{}\t{}\t{}", out_str(&o1), out_str(&o2), r3, r4, out_str(&o5).replace('\n', " "));
    }
    if let Some(text) = l.strip_prefix("K ") {
        let mut interp = tsrun::Interpreter::new();
        return match interp.property_key(text) {
            tsrun::value::PropertyKey::Index(n) => format!("index {}", n),
            tsrun::value::PropertyKey::String(s) => format!("str {}", s.as_str()),
            _ => "symbol".into(),
        };
    }
    if let Some(body) = l.strip_prefix("E ") {
        // a JSON string body: parse with serde_json, print with serde_json
        let quoted = format!("\"{}\"", body);
        return match serde_json::from_str::<serde_json::Value>(&quoted) {
            Ok(v) => {
                let s = v.to_string();
                s.get(1..s.len().saturating_sub(1)).unwrap_or("").to_string()
            }
            Err(_) => "parse-error".into(),
        };
    }
    // `Y <program>`: a script builds a value; observe JSON.stringify of it (functions, undefined, cycles …)
    if let Some(src) = l.strip_prefix("Y ") {
        let o = prog::run_fresh(&src.replace("\\n", "\n"));
        return out_str(&o);
    }
    "bad-case".into()
}
