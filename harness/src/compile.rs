//! C01 (compiler): compile one statement with the real `Compiler::compile_statement` and print the
//! instruction listing in the model's notation (`showOp` of Driver/Compile.lean), constants resolved.
use tsrun::compiler::{BytecodeChunk, Compiler, Constant, Op};
use tsrun::parser::Parser;
use tsrun::StringDict;

fn konst(chunk: &BytecodeChunk, idx: u16) -> String {
    match chunk.constants.get(idx as usize) {
        Some(Constant::String(s)) => format!("s:{}", s.as_str()),
        Some(Constant::Number(n)) => format!("n:{}", n),
        Some(other) => format!("?{:?}", other),
        None => "?missing".into(),
    }
}

fn name(chunk: &BytecodeChunk, idx: u16) -> String {
    match chunk.constants.get(idx as usize) {
        Some(Constant::String(s)) => s.as_str().to_string(),
        other => format!("?{:?}", other),
    }
}

fn show(chunk: &BytecodeChunk, op: &Op) -> String {
    macro_rules! bin {
        ($n:expr, $d:expr, $l:expr, $r:expr) => {
            format!("{} {} {} {}", $n, $d, $l, $r)
        };
    }
    match op {
        Op::LoadNull { dst } => format!("LoadNull {}", dst),
        Op::LoadUndefined { dst } => format!("LoadUndefined {}", dst),
        Op::LoadBool { dst, value } => format!("LoadBool {} {}", dst, value),
        Op::LoadInt { dst, value } => format!("LoadInt {} {}", dst, value),
        Op::LoadConst { dst, idx } => format!("LoadConst {} {}", dst, konst(chunk, *idx)),
        Op::GetVar { dst, name: n } => format!("GetVar {} {}", dst, name(chunk, *n)),
        Op::TryGetVar { dst, name: n } => format!("TryGetVar {} {}", dst, name(chunk, *n)),
        Op::SetVar { name: n, src } => format!("SetVar {} {}", name(chunk, *n), src),
        Op::Move { dst, src } => format!("Move {} {}", dst, src),
        Op::Neg { dst, src } => format!("Neg {} {}", dst, src),
        Op::Plus { dst, src } => format!("Plus {} {}", dst, src),
        Op::Not { dst, src } => format!("Not {} {}", dst, src),
        Op::BitNot { dst, src } => format!("BitNot {} {}", dst, src),
        Op::Void { dst, src } => format!("Void {} {}", dst, src),
        Op::Typeof { dst, src } => format!("Typeof {} {}", dst, src),
        Op::Add { dst, left, right } => bin!("Add", dst, left, right),
        Op::Sub { dst, left, right } => bin!("Sub", dst, left, right),
        Op::Mul { dst, left, right } => bin!("Mul", dst, left, right),
        Op::Div { dst, left, right } => bin!("Div", dst, left, right),
        Op::Mod { dst, left, right } => bin!("Mod", dst, left, right),
        Op::Exp { dst, left, right } => bin!("Exp", dst, left, right),
        Op::Eq { dst, left, right } => bin!("Eq", dst, left, right),
        Op::NotEq { dst, left, right } => bin!("NotEq", dst, left, right),
        Op::StrictEq { dst, left, right } => bin!("StrictEq", dst, left, right),
        Op::StrictNotEq { dst, left, right } => bin!("StrictNotEq", dst, left, right),
        Op::Lt { dst, left, right } => bin!("Lt", dst, left, right),
        Op::LtEq { dst, left, right } => bin!("LtEq", dst, left, right),
        Op::Gt { dst, left, right } => bin!("Gt", dst, left, right),
        Op::GtEq { dst, left, right } => bin!("GtEq", dst, left, right),
        Op::BitAnd { dst, left, right } => bin!("BitAnd", dst, left, right),
        Op::BitOr { dst, left, right } => bin!("BitOr", dst, left, right),
        Op::BitXor { dst, left, right } => bin!("BitXor", dst, left, right),
        Op::LShift { dst, left, right } => bin!("LShift", dst, left, right),
        Op::RShift { dst, left, right } => bin!("RShift", dst, left, right),
        Op::URShift { dst, left, right } => bin!("URShift", dst, left, right),
        Op::In { dst, left, right } => bin!("In", dst, left, right),
        Op::Instanceof { dst, left, right } => bin!("Instanceof", dst, left, right),
        Op::Jump { target } => format!("Jump {}", target),
        Op::JumpIfTrue { cond, target } => format!("JumpIfTrue {} {}", cond, target),
        Op::JumpIfFalse { cond, target } => format!("JumpIfFalse {} {}", cond, target),
        Op::JumpIfNotNullish { cond, target } => format!("JumpIfNotNullish {} {}", cond, target),
        Op::PushScope => "PushScope".into(),
        Op::PopScope => "PopScope".into(),
        Op::PushTry {
            catch_target,
            finally_target,
        } => format!("PushTry {} {}", catch_target, finally_target),
        Op::PopTry => "PopTry".into(),
        Op::Throw { value } => format!("Throw {}", value),
        Op::Halt => "Halt".into(),
        other => format!("?{:?}", other),
    }
}

fn counters() -> (u64, u64) {
    use std::sync::atomic::Ordering;
    (
        tsrun::compiler::VERIF_BAD_FREES.load(Ordering::Relaxed),
        tsrun::compiler::VERIF_BAD_ALLOCS.load(Ordering::Relaxed),
    )
}

/// `P<TAB>json string of a whole program`: compile it (all nested functions too) and report how often
/// the register allocator was asked to free a register that was not held, or handed out a held one
fn discipline(json_src: &str) -> String {
    let src: String = match serde_json::from_str(json_src) {
        Ok(s) => s,
        Err(_) => return "bad-case".into(),
    };
    let mut dict = StringDict::new();
    let program = match Parser::new(&src, &mut dict).parse_program() {
        Ok(p) => p,
        Err(_) => return "parse-error".into(),
    };
    let (f0, a0) = counters();
    let r = Compiler::compile_program(&program);
    let (f1, a1) = counters();
    format!("{} badfree={} badalloc={}", if r.is_ok() { "ok" } else { "ERR" }, f1 - f0, a1 - a0)
}

/// line: `C<TAB>source of one statement` → listing, `ERR` when the compiler refuses
pub fn line(l: &str) -> String {
    let src = match l.split_once('\t') {
        Some(("C", s)) => s,
        Some(("P", s)) => return discipline(s),
        _ => return "bad-case".into(),
    };
    let mut dict = StringDict::new();
    let program = match Parser::new(src, &mut dict).parse_program() {
        Ok(p) => p,
        Err(e) => return format!("parse-error {}", e),
    };
    if program.body.len() != 1 {
        return format!("?shape {} statements", program.body.len());
    }
    let stmt = match program.body.first() {
        Some(s) => s,
        None => return "?shape".into(),
    };
    match Compiler::compile_statement(stmt) {
        Ok(chunk) => {
            let ops: Vec<String> = chunk.code.iter().map(|op| show(&chunk, op)).collect();
            format!("{} regs={}", ops.join(";"), chunk.register_count)
        }
        Err(_) => "ERR".into(),
    }
}
