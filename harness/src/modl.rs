//! C09: drive the real module loader with a host supply policy.
use crate::prog;
use std::collections::BTreeMap;
use tsrun::{ModulePath, StepResult};

/// line: JSON {"main_path": "...", "main": "src", "mods": {path: src}, "policy": ["all", "0+/m/c", …]}
/// output events: `N:p,p#importer,importer` · `X:name` per executed module body · `R` entry program started ·
/// final `C:<value>` / `E:<class>`; `S:…` for a suspension.
pub fn line(l: &str) -> String {
    let v: serde_json::Value = match serde_json::from_str(l) {
        Ok(v) => v,
        Err(_) => return "bad-case".into(),
    };
    let main_path = v["main_path"].as_str().unwrap_or("/m/main").to_string();
    let main = v["main"].as_str().unwrap_or("").to_string();
    let mods: BTreeMap<String, String> = v["mods"]
        .as_object()
        .map(|m| m.iter().map(|(k, s)| (k.clone(), s.as_str().unwrap_or("").to_string())).collect())
        .unwrap_or_default();
    let mut policy: Vec<String> = v["policy"]
        .as_array()
        .map(|a| a.iter().map(|x| x.as_str().unwrap_or("all").to_string()).collect())
        .unwrap_or_default();
    policy.reverse();
    let (mut interp, log) = prog::new_interp();
    let mut evs: Vec<String> = Vec::new();
    let flush = |evs: &mut Vec<String>| {
        for l in log.borrow_mut().drain(..) {
            if let Some(name) = l.strip_prefix("log:exec:") {
                if name == "main" {
                    evs.push("R".into());
                } else {
                    evs.push(format!("X:{}", name));
                }
            }
        }
    };
    let mut r = interp.prepare(&main, Some(ModulePath::new(main_path.clone())));
    let mut steps = 0usize;
    loop {
        steps += 1;
        if steps > 2_000_000 {
            evs.push("E:step-budget".into());
            break;
        }
        match r {
            Ok(StepResult::Continue) => {
                r = interp.step();
            }
            Ok(StepResult::NeedImports(reqs)) => {
                flush(&mut evs);
                let mut items: Vec<(String, String)> = reqs
                    .iter()
                    .map(|q| {
                        (
                            q.resolved_path.as_str().to_string(),
                            q.importer.as_ref().map(|p| p.as_str().to_string()).unwrap_or_else(|| "none".into()),
                        )
                    })
                    .collect();
                items.sort();
                evs.push(format!(
                    "N:{}#{}",
                    items.iter().map(|x| x.0.clone()).collect::<Vec<_>>().join(","),
                    items.iter().map(|x| x.1.clone()).collect::<Vec<_>>().join(",")
                ));
                if evs.len() > 400 {
                    evs.push("E:event-budget".into());
                    break;
                }
                let item = policy.pop().unwrap_or_else(|| "all".into());
                let mut parts = item.split('+');
                let sel = parts.next().unwrap_or("all");
                let extras: Vec<String> = parts.map(|s| s.to_string()).collect();
                let chosen: Vec<String> = if sel == "all" {
                    items.iter().map(|x| x.0.clone()).collect()
                } else {
                    match sel.parse::<usize>() {
                        Ok(k) if !items.is_empty() => vec![items[k % items.len()].0.clone()],
                        _ => items.iter().map(|x| x.0.clone()).collect(),
                    }
                };
                for p in chosen.iter().chain(extras.iter()) {
                    if let Some(src) = mods.get(p) {
                        if let Err(e) = interp.provide_module(ModulePath::new(p.clone()), src) {
                            evs.push(format!("E:provide:{}", prog::error_class(&e)));
                        }
                    }
                }
                r = interp.step();
            }
            Ok(StepResult::Complete(v)) => {
                flush(&mut evs);
                evs.push(format!("C:{}", prog::show_value(v.value())));
                break;
            }
            Ok(StepResult::Suspended { .. }) => {
                flush(&mut evs);
                evs.push("S".into());
                break;
            }
            Ok(StepResult::Done) => {
                flush(&mut evs);
                evs.push("D".into());
                break;
            }
            Err(e) => {
                flush(&mut evs);
                evs.push(format!("E:{}:{}", prog::error_class(&e), prog::esc(&e.to_string())));
                break;
            }
        }
    }
    evs.join("|")
}
