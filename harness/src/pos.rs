//! C20: token positions, source-map lookups and error reports of the real code.
use crate::prog;
use std::rc::Rc;
use tsrun::compiler::{BytecodeChunk, Compiler, Constant};
use tsrun::lexer::{Lexer, TokenKind};
use tsrun::parser::Parser;
use tsrun::{JsError, ModulePath, StringDict};

fn decode(body: &str) -> Option<String> {
    serde_json::from_str::<String>(&format!("\"{}\"", body)).ok()
}

fn dump_chunk(c: &Rc<BytecodeChunk>, out: &mut Vec<String>, depth: usize) {
    let entries: Vec<String> = c
        .source_map
        .iter()
        .map(|e| format!("{}:{}:{}:{}", e.bytecode_offset, e.span.start, e.span.line, e.span.column))
        .collect();
    let lookups: Vec<String> = (0..c.code.len() + 2)
        .map(|i| match c.get_source_location(i) {
            Some(s) => format!("{}:{}:{}", s.start, s.line, s.column),
            None => "-".into(),
        })
        .collect();
    out.push(format!("{};{};{}", c.code.len() + 2, entries.join(","), lookups.join(",")));
    if depth > 6 {
        return;
    }
    for k in &c.constants {
        if let Constant::Chunk(inner) = k {
            dump_chunk(inner, out, depth + 1);
        }
    }
}

pub fn line(l: &str) -> String {
    // `T <json string body>`: token start positions  charOffset:line:col,...
    if let Some(body) = l.strip_prefix("T ") {
        let Some(src) = decode(body) else { return "bad-case".into() };
        let mut dict = StringDict::new();
        let mut lx = Lexer::new(&src, &mut dict);
        let mut out = Vec::new();
        for _ in 0..100000 {
            let t = lx.next_token();
            let char_off = src.get(..t.span.start).map(|p| p.chars().count()).unwrap_or(usize::MAX);
            out.push(format!("{}:{}:{}", char_off, t.span.line, t.span.column));
            if matches!(t.kind, TokenKind::Eof) {
                break;
            }
        }
        return out.join(",");
    }
    // `M <json string body>`: source map entries and lookups of every chunk of the compiled program
    if let Some(body) = l.strip_prefix("M ") {
        let Some(src) = decode(body) else { return "bad-case".into() };
        let mut dict = StringDict::new();
        let program = match Parser::new(&src, &mut dict).parse_program() {
            Ok(p) => p,
            Err(e) => return format!("ERR {}", prog::error_class(&e)),
        };
        let chunk = match Compiler::compile_program(&program) {
            Ok(c) => c,
            Err(e) => return format!("ERR {}", prog::error_class(&e)),
        };
        let mut out = Vec::new();
        dump_chunk(&chunk, &mut out, 0);
        return out.join("|");
    }
    // `R <json string body>`: run as module /t/main.ts, report the error with location and trace
    if let Some(body) = l.strip_prefix("R ") {
        let Some(src) = decode(body) else { return "bad-case".into() };
        let (mut interp, _log) = prog::new_interp();
        return match interp.eval(&src, Some(ModulePath::new("/t/main.ts"))) {
            Ok(_) => "OK".into(),
            Err(e) => describe(&e),
        };
    }
    // `X <json>`: {"main": src, "mods": {path: src}}: run /t/main.ts with the modules supplied on demand,
    // report the error with location and trace
    if let Some(body) = l.strip_prefix("X ") {
        let v: serde_json::Value = match serde_json::from_str(body) {
            Ok(v) => v,
            Err(_) => return "bad-case".into(),
        };
        let main = v["main"].as_str().unwrap_or("").to_string();
        let (mut interp, _log) = prog::new_interp();
        let mut r = interp.prepare(&main, Some(ModulePath::new("/t/main.ts")));
        for _ in 0..2_000_000 {
            match r {
                Ok(tsrun::StepResult::Continue) => r = interp.step(),
                Ok(tsrun::StepResult::NeedImports(reqs)) => {
                    for q in reqs.iter() {
                        let path = q.resolved_path.as_str().to_string();
                        if let Some(src) = v["mods"][&path].as_str() {
                            if let Err(e) = interp.provide_module(ModulePath::new(path), src) {
                                return describe(&e);
                            }
                        }
                    }
                    r = interp.step();
                }
                Ok(_) => return "OK".into(),
                Err(e) => return describe(&e),
            }
        }
        return "ERR budget".into();
    }
    "bad-case".into()
}

pub fn describe(e: &JsError) -> String {
    match e {
        JsError::SyntaxError { location, .. } => {
            format!("SyntaxError|{}:{}|", location.line, location.column)
        }
        JsError::RuntimeError { kind, stack, .. } => {
            let frames: Vec<String> = stack
                .iter()
                .map(|f| {
                    format!(
                        "{}@{}:{}:{}",
                        f.function_name.as_deref().unwrap_or("<anonymous>"),
                        f.file.as_deref().unwrap_or("<none>"),
                        f.line,
                        f.column
                    )
                })
                .collect();
            format!("{}||{}", kind, frames.join(";"))
        }
        JsError::TypeError { location, .. } => match location {
            Some(l) => format!("TypeError|{}:{}|", l.line, l.column),
            None => "TypeError||".into(),
        },
        other => format!("{}||", prog::error_class(other)),
    }
}
