//! C03: compile a source text with the real parser and compiler and dump the bytecode of every
//! chunk (instructions, constants, function metadata) without source positions.
use std::rc::Rc;
use tsrun::compiler::{BytecodeChunk, Compiler, Constant};
use tsrun::parser::Parser;
use tsrun::StringDict;

fn dump(c: &Rc<BytecodeChunk>, out: &mut String, depth: usize) {
    out.push_str(&format!("[regs={} info={:?} code=", c.register_count, c.function_info));
    for op in &c.code {
        out.push_str(&format!("{:?};", op));
    }
    out.push_str(" consts=");
    for k in &c.constants {
        match k {
            Constant::Chunk(inner) => {
                if depth < 12 {
                    dump(inner, out, depth + 1);
                }
            }
            other => out.push_str(&format!("{:?},", other)),
        }
    }
    out.push(']');
}

/// line: JSON string of the source → `ACC <dump>` or `ERR <class> <message>`
pub fn line(l: &str) -> String {
    let Ok(src) = serde_json::from_str::<String>(l) else { return "bad-case".into() };
    let mut dict = StringDict::new();
    let program = match Parser::new(&src, &mut dict).parse_program() {
        Ok(p) => p,
        Err(e) => return format!("ERR parse {}", crate::prog::esc(&format!("{}", e))),
    };
    match Compiler::compile_program(&program) {
        Ok(chunk) => {
            let mut out = String::new();
            dump(&chunk, &mut out, 0);
            format!("ACC {}", crate::prog::esc(&out))
        }
        Err(e) => format!("ERR compile {}", crate::prog::esc(&format!("{}", e))),
    }
}
