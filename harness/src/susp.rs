//! C07: run a script whose `order({v, err, p})` calls are answered by the host under a schedule.
//! The answer is a function of the payload alone, so the same script with an in-program stub
//! must behave identically.
//!   payload {v: X}          → value X            payload {err: "m"} → error response "m"
//!   payload {v: X, p: true} → a host promise, settled later with X (or rejected with err)
use crate::prog;
use tsrun::{JsError, JsString, JsValue, OrderId, OrderResponse, RuntimeValue, StepResult, api, js_value_to_json};

fn json_to_value(interp: &mut tsrun::Interpreter, j: &serde_json::Value) -> RuntimeValue {
    match j {
        serde_json::Value::Number(n) => RuntimeValue::unguarded(JsValue::Number(n.as_f64().unwrap_or(0.0))),
        serde_json::Value::String(s) => RuntimeValue::unguarded(JsValue::String(JsString::from(s.as_str()))),
        serde_json::Value::Bool(b) => RuntimeValue::unguarded(JsValue::Boolean(*b)),
        serde_json::Value::Null => RuntimeValue::unguarded(JsValue::Null),
        other => api::create_response_object(interp, other).unwrap_or_else(|_| RuntimeValue::unguarded(JsValue::Undefined)),
    }
}

/// line: JSON {"script", "delay": n (extra steps before answering), "batch": bool (answer only when
/// nothing else can run), "perm": [i, …] (priority among outstanding orders / unsettled promises),
/// "gc": bool, "split": bool (fulfil one order per fulfill_orders call)}
/// output: `C:<value>` | `ERR:<class>:<message>` | `STUCK`, then ` | ` and the console lines
pub fn line(l: &str) -> String {
    let v: serde_json::Value = match serde_json::from_str(l) {
        Ok(v) => v,
        Err(_) => return "bad-case".into(),
    };
    let script = v["script"].as_str().unwrap_or("").to_string();
    let delay = v["delay"].as_u64().unwrap_or(0);
    let batch = v["batch"].as_bool().unwrap_or(false);
    let split = v["split"].as_bool().unwrap_or(false);
    let gc = v["gc"].as_bool().unwrap_or(false);
    let perm: Vec<u64> = v["perm"].as_array().map(|a| a.iter().filter_map(|x| x.as_u64()).collect()).unwrap_or_default();
    let rank = |k: usize| -> u64 { perm.get(k % perm.len().max(1)).copied().unwrap_or(k as u64) };

    let (mut interp, log) = prog::new_interp();
    if gc {
        interp.set_gc_threshold(1);
    }
    // outstanding orders: (id, payload json, sequence number)
    let mut outstanding: Vec<(u64, serde_json::Value, usize)> = Vec::new();
    // host promises: (promise, payload, sequence number)
    let mut promises: Vec<(RuntimeValue, serde_json::Value, usize)> = Vec::new();
    let mut seq = 0usize;
    let mut r = interp.prepare(&script, None);
    let mut steps = 0usize;
    let outcome = loop {
        steps += 1;
        if steps > 2_000_000 {
            break "ERR:budget".to_string();
        }
        match r {
            Ok(StepResult::Continue) => r = interp.step(),
            Ok(StepResult::Suspended { pending, .. }) => {
                let fresh = !pending.is_empty();
                for o in &pending {
                    let pj = js_value_to_json(o.payload.value()).unwrap_or(serde_json::Value::Null);
                    outstanding.push((o.id.0, pj, seq));
                    seq += 1;
                }
                for _ in 0..delay {
                    let _ = interp.step();
                }
                if batch && fresh {
                    // see whether the script can go on without an answer
                    r = interp.step();
                    continue;
                }
                if !outstanding.is_empty() {
                    outstanding.sort_by_key(|o| rank(o.2));
                    let mut responses = Vec::new();
                    for (id, pj, s) in outstanding.drain(..) {
                        let result: Result<RuntimeValue, JsError> = if pj.get("p").and_then(|x| x.as_bool()) == Some(true) {
                            let p = api::create_promise(&mut interp);
                            let copy = RuntimeValue::unguarded(p.value().clone());
                            promises.push((p, pj.clone(), s));
                            Ok(copy)
                        } else if let Some(m) = pj.get("err").and_then(|x| x.as_str()) {
                            Err(JsError::type_error(m.to_string()))
                        } else {
                            Ok(json_to_value(&mut interp, pj.get("v").unwrap_or(&serde_json::Value::Null)))
                        };
                        responses.push(OrderResponse { id: OrderId(id), result });
                    }
                    if split {
                        for resp in responses {
                            interp.fulfill_orders(vec![resp]);
                        }
                    } else {
                        interp.fulfill_orders(responses);
                    }
                } else if !promises.is_empty() {
                    // settle one host promise (by priority)
                    let mut best = 0usize;
                    for i in 0..promises.len() {
                        if rank(promises[i].2) < rank(promises[best].2) {
                            best = i;
                        }
                    }
                    let (p, pj, _) = promises.remove(best);
                    let handle = RuntimeValue::unguarded(p.value().clone());
                    if let Some(m) = pj.get("err").and_then(|x| x.as_str()) {
                        let reason = RuntimeValue::unguarded(JsValue::String(JsString::from(m)));
                        let _ = api::reject_promise(&mut interp, &handle, reason);
                    } else {
                        let val = json_to_value(&mut interp, pj.get("v").unwrap_or(&serde_json::Value::Null));
                        let _ = api::resolve_promise(&mut interp, &handle, val);
                    }
                } else {
                    break "STUCK".to_string();
                }
                if gc {
                    interp.collect();
                }
                r = interp.step();
            }
            Ok(StepResult::Complete(v)) => break format!("C:{}", prog::show_value(v.value())),
            Ok(StepResult::NeedImports(_)) => break "ERR:imports".to_string(),
            Ok(StepResult::Done) => break "D".to_string(),
            Err(e) => break format!("ERR:{}:{}", prog::error_class(&e), prog::esc(&e.to_string().chars().take(100).collect::<String>())),
        }
    };
    let lines: Vec<String> = log.borrow().iter().map(|l| prog::esc(l.strip_prefix("log:").unwrap_or(l))).collect();
    format!("{} | {}", outcome, lines.join("\u{1}"))
}
