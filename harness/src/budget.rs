//! C06: a host that counts steps and watches the call depth.
use crate::prog;
use tsrun::StepResult;

/// line: JSON {"src", "max_steps": n, "max_depth": d}
/// output: `<outcome> steps=<n> max_instr_per_step=<m> steps_gt1=<k> max_reentry=<r> max_depth=<d> instr=<total>`
pub fn line(l: &str) -> String {
    let v: serde_json::Value = match serde_json::from_str(l) {
        Ok(v) => v,
        Err(_) => return "bad-case".into(),
    };
    let src = v["src"].as_str().unwrap_or("");
    let max_steps = v["max_steps"].as_u64().unwrap_or(1_000_000);
    let max_depth = v["max_depth"].as_u64().unwrap_or(u64::MAX) as usize;
    let (mut interp, _log) = prog::new_interp();
    let mut r = interp.prepare(src, None);
    interp.verif_instr_count = 0;
    interp.verif_max_reentry = 0;
    let (mut steps, mut max_per, mut gt1, mut total, mut depth_seen) = (0u64, 0u64, 0u64, 0u64, 0usize);
    let outcome = loop {
        match r {
            Ok(StepResult::Continue) => {
                if steps >= max_steps {
                    break "BUDGET".to_string();
                }
                let d = interp.call_depth();
                depth_seen = depth_seen.max(d);
                if d > max_depth {
                    break "DEPTH".to_string();
                }
                let before = interp.verif_instr_count;
                r = interp.step();
                let delta = interp.verif_instr_count - before;
                steps += 1;
                total += delta;
                max_per = max_per.max(delta);
                if delta > 1 {
                    gt1 += 1;
                }
            }
            Ok(StepResult::Complete(v)) => break format!("OK {}", prog::show_value(v.value())),
            Ok(StepResult::Suspended { .. }) => break "SUSPENDED".to_string(),
            Ok(StepResult::NeedImports(_)) => break "NEED".to_string(),
            Ok(StepResult::Done) => break "DONE".to_string(),
            Err(e) => break format!("ERR {}", prog::error_class(&e)),
        }
    };
    format!(
        "{} steps={} max_instr_per_step={} steps_gt1={} max_reentry={} max_depth={} instr={}",
        outcome, steps, max_per, gt1, interp.verif_max_reentry, depth_seen, total
    )
}
