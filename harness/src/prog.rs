//! run a TypeScript program on a fresh or shared interpreter and return a canonical outcome.
use std::cell::RefCell;
use std::rc::Rc;
use tsrun::platform::{ConsoleLevel, ConsoleProvider};
use tsrun::{Interpreter, JsError, JsValue, StepResult};

pub struct Capture(pub Rc<RefCell<Vec<String>>>);

impl ConsoleProvider for Capture {
    fn write(&self, level: ConsoleLevel, message: &str) {
        let tag = match level {
            ConsoleLevel::Log => "log",
            ConsoleLevel::Info => "info",
            ConsoleLevel::Warn => "warn",
            ConsoleLevel::Error => "error",
            ConsoleLevel::Debug => "debug",
        };
        self.0.borrow_mut().push(format!("{}:{}", tag, message));
    }
}

pub fn error_class(e: &JsError) -> String {
    match e {
        JsError::SyntaxError { .. } => "SyntaxError".into(),
        JsError::TypeError { .. } => "TypeError".into(),
        JsError::ReferenceError { .. } => "ReferenceError".into(),
        JsError::RangeError { .. } => "RangeError".into(),
        JsError::RuntimeError { kind, .. } => kind.clone(),
        JsError::ModuleError { .. } => "ModuleError".into(),
        JsError::Internal(_) => "Internal".into(),
        JsError::Thrown => "Thrown".into(),
        JsError::ThrownValue { .. } => "ThrownValue".into(),
        _ => "Other".into(),
    }
}

pub fn show_value(v: &JsValue) -> String {
    match v {
        JsValue::Undefined => "undefined".into(),
        JsValue::Null => "null".into(),
        JsValue::Boolean(b) => b.to_string(),
        JsValue::Number(n) => format!("n:{}", tsrun::value::number_to_string(*n)),
        JsValue::String(s) => format!("s:{}", s.as_str()),
        JsValue::Object(_) => "object".into(),
        _ => "other".into(),
    }
}

pub struct Outcome {
    pub value: String,
    pub console: Vec<String>,
    pub error: Option<String>,
    pub message: String,
}

/// evaluate `src` with `eval` on `interp`; orders/imports are reported as outcome kinds.
pub fn eval_on(interp: &mut Interpreter, log: &Rc<RefCell<Vec<String>>>, src: &str) -> Outcome {
    log.borrow_mut().clear();
    let r = interp.eval(src, None);
    let (value, error, message) = match r {
        Ok(StepResult::Complete(v)) => (show_value(v.value()), None, String::new()),
        Ok(StepResult::Suspended { .. }) => ("<suspended>".into(), None, String::new()),
        Ok(StepResult::NeedImports(_)) => ("<need-imports>".into(), None, String::new()),
        Ok(StepResult::Continue) => ("<continue>".into(), None, String::new()),
        Ok(StepResult::Done) => ("<done>".into(), None, String::new()),
        Err(e) => (String::new(), Some(error_class(&e)), e.to_string()),
    };
    Outcome { value, console: log.borrow().clone(), error, message }
}

pub fn new_interp() -> (Interpreter, Rc<RefCell<Vec<String>>>) {
    let log = Rc::new(RefCell::new(Vec::new()));
    let interp = Interpreter::with_console(Box::new(Capture(log.clone())));
    (interp, log)
}

pub fn run_fresh(src: &str) -> Outcome {
    let (mut interp, log) = new_interp();
    eval_on(&mut interp, &log, src)
}

pub fn esc(s: &str) -> String {
    s.replace('\\', "\\\\").replace('\n', "\\n").replace('\t', "\\t").replace('\r', "\\r")
}

pub fn outcome_line(o: &Outcome) -> String {
    match &o.error {
        Some(c) => format!("ERR {} | {}", c, esc(&o.console.join("\u{1}"))),
        None => format!("OK {} | {}", esc(&o.value), esc(&o.console.join("\u{1}"))),
    }
}

/// `prog` model: one program per line (newlines as the two characters backslash-n).
/// output: `OK <value> | <console>` or `ERR <class> <message> | <console>`
pub fn line(l: &str) -> String {
    let src = l.replace("\\n", "\n");
    let o = run_fresh(&src);
    match &o.error {
        Some(c) => format!("ERR {} {} | {}", c, esc(&o.message), esc(&o.console.join("\u{1}"))),
        None => format!("OK {} | {}", esc(&o.value), esc(&o.console.join("\u{1}"))),
    }
}

/// inverse of `esc`
pub fn unesc(s: &str) -> String {
    let mut out = String::with_capacity(s.len());
    let mut it = s.chars();
    while let Some(c) = it.next() {
        if c != '\\' {
            out.push(c);
            continue;
        }
        match it.next() {
            Some('n') => out.push('\n'),
            Some('t') => out.push('\t'),
            Some('r') => out.push('\r'),
            Some('\\') => out.push('\\'),
            Some(o) => {
                out.push('\\');
                out.push(o);
            }
            None => out.push('\\'),
        }
    }
    out
}

/// `proge` model: as `prog`, but the program text is escaped with `esc` (backslashes doubled).
pub fn line_escaped(l: &str) -> String {
    let o = run_fresh(&unesc(l));
    match &o.error {
        Some(c) => format!("ERR {} {} | {}", c, esc(&o.message), esc(&o.console.join("\u{1}"))),
        None => format!("OK {} | {}", esc(&o.value), esc(&o.console.join("\u{1}"))),
    }
}
