//! C19: one program through five entry points; each yields the same canonical transcript.
use crate::prog;
use std::cell::RefCell;
use std::collections::BTreeMap;
use std::ffi::{CStr, CString, c_char, c_void};
use std::rc::Rc;
use tsrun::ffi::*;
use tsrun::{JsValue, ModulePath, OrderResponse, RuntimeValue, StepResult, js_value_to_json};

// The extern "C" entry points live in private modules of the crate; they are exported
// (`#[no_mangle]`) from the rlib, so declare the ones used here.
unsafe extern "C" {
    safe fn tsrun_new() -> *mut TsRunContext;
    safe fn tsrun_free(ctx: *mut TsRunContext);
    safe fn tsrun_set_console(ctx: *mut TsRunContext, func: Option<TsRunConsoleFn>, userdata: *mut c_void) -> TsRunResult;
    safe fn tsrun_prepare(ctx: *mut TsRunContext, code: *const c_char, path: *const c_char) -> TsRunResult;
    safe fn tsrun_step(out: *mut TsRunStepResult, ctx: *mut TsRunContext);
    safe fn tsrun_run(out: *mut TsRunStepResult, ctx: *mut TsRunContext);
    safe fn tsrun_step_result_free(result: *mut TsRunStepResult);
    safe fn tsrun_free_string(s: *mut c_char);
    safe fn tsrun_free_strings(s: *mut *mut c_char, count: usize);
    safe fn tsrun_provide_module(ctx: *mut TsRunContext, path: *const c_char, code: *const c_char) -> TsRunResult;
    safe fn tsrun_get_export(ctx: *mut TsRunContext, name: *const c_char) -> TsRunValueResult;
    safe fn tsrun_get_export_names(ctx: *mut TsRunContext, count_out: *mut usize) -> *mut *mut c_char;
    safe fn tsrun_fulfill_orders(ctx: *mut TsRunContext, responses: *const TsRunOrderResponse, count: usize) -> TsRunResult;
    safe fn tsrun_number(ctx: *mut TsRunContext, n: f64) -> *mut TsRunValue;
    safe fn tsrun_value_free(val: *mut TsRunValue);
    safe fn tsrun_json_stringify(ctx: *mut TsRunContext, val: *mut TsRunValue) -> *mut c_char;
}

struct Tr {
    ev: Vec<String>,
}

fn json_of(v: &JsValue) -> String {
    match js_value_to_json(v) {
        Ok(j) => j.to_string(),
        Err(_) => "<unserialisable>".into(),
    }
}

/// Rust API: mode 0 = eval then step, 1 = prepare + step, 2 = prepare + step with interleaved reads/collections
fn rust_entry(mode: u8, progs: &[(String, Option<String>)], mods: &BTreeMap<String, String>) -> String {
    let (mut interp, log) = prog::new_interp();
    let mut segs: Vec<String> = Vec::new();
    // a session: every program of the list runs in the same interpreter, through the same entry point
    for (src, path) in progs {
    let (src, path) = (src.as_str(), path.as_deref());
    let mut t = Tr { ev: vec![] };
    let mp = path.map(|p| ModulePath::new(p.to_string()));
    let mut r = if mode == 0 { interp.eval(src, mp) } else { interp.prepare(src, mp) };
    let mut k = 0u64;
    loop {
        k += 1;
        if k > 3_000_000 {
            t.ev.push("BUDGET".into());
            break;
        }
        match r {
            Ok(StepResult::Continue) => {
                if mode == 2 {
                    let _ = interp.gc_stats();
                    let _ = interp.call_depth();
                    let _ = interp.get_export_names();
                    if k % 5 == 0 {
                        interp.collect();
                    }
                }
                r = interp.step();
            }
            Ok(StepResult::NeedImports(reqs)) => {
                let mut names: Vec<String> = reqs.iter().map(|q| q.resolved_path.as_str().to_string()).collect();
                names.sort();
                t.ev.push(format!("N:{}", names.join(",")));
                let mut any = false;
                for n in &names {
                    if let Some(s) = mods.get(n) {
                        any |= interp.provide_module(ModulePath::new(n.clone()), s).is_ok();
                    }
                }
                if !any {
                    t.ev.push("UNSATISFIED".into());
                    break;
                }
                r = interp.step();
            }
            Ok(StepResult::Suspended { pending, cancelled }) => {
                t.ev.push(format!(
                    "S:{}:{}",
                    pending.iter().map(|o| format!("{}={}", o.id.0, json_of(o.payload.value()))).collect::<Vec<_>>().join(","),
                    cancelled.iter().map(|c| c.0.to_string()).collect::<Vec<_>>().join(",")
                ));
                if pending.is_empty() {
                    t.ev.push("STUCK".into());
                    break;
                }
                let responses = pending
                    .iter()
                    .map(|o| OrderResponse { id: o.id, result: Ok(RuntimeValue::unguarded(JsValue::Number(100.0 + o.id.0 as f64))) })
                    .collect();
                interp.fulfill_orders(responses);
                r = interp.step();
            }
            Ok(StepResult::Complete(v)) => {
                t.ev.push(format!("C:{}", json_of(v.value())));
                break;
            }
            Ok(StepResult::Done) => {
                t.ev.push("D".into());
                break;
            }
            Err(e) => {
                t.ev.push(format!("E:{}", prog::error_class(&e)));
                break;
            }
        }
    }
    let mut names = interp.get_export_names();
    names.sort();
    let exports: Vec<String> = names.iter().map(|n| format!("{}={}", n, interp.get_export(n).map(|v| json_of(&v)).unwrap_or_default())).collect();
    segs.push(format!("{} X:{}", t.ev.join("|"), exports.join(",")));
    }
    format!("{} L:{}", segs.join(" ;; "), prog::esc(&log.borrow().iter().map(|l| l.splitn(2, ':').nth(1).unwrap_or("").to_string()).collect::<Vec<_>>().join("\u{1}")))
}

extern "C" fn console_cb(_level: TsRunConsoleLevel, message: *const c_char, len: usize, userdata: *mut c_void) {
    let log = unsafe { &*(userdata as *const RefCell<Vec<String>>) };
    let bytes = unsafe { std::slice::from_raw_parts(message as *const u8, len) };
    log.borrow_mut().push(String::from_utf8_lossy(bytes).to_string());
}

fn cstr(p: *const c_char) -> String {
    if p.is_null() { String::new() } else { unsafe { CStr::from_ptr(p) }.to_string_lossy().to_string() }
}

/// C API: use_run = true → tsrun_run, false → tsrun_step
fn c_entry(use_run: bool, progs: &[(String, Option<String>)], mods: &BTreeMap<String, String>) -> String {
    let ctx = tsrun_new();
    let log: Rc<RefCell<Vec<String>>> = Rc::new(RefCell::new(Vec::new()));
    tsrun_set_console(ctx, Some(console_cb), Rc::as_ptr(&log) as *mut c_void);
    let mut segs: Vec<String> = Vec::new();
    for (src, path) in progs {
    let (src, path) = (src.as_str(), path.as_deref());
    let code = CString::new(src).unwrap_or_default();
    let cpath = path.map(|p| CString::new(p).unwrap_or_default());
    let mut ev: Vec<String> = Vec::new();
    let pr = tsrun_prepare(ctx, code.as_ptr(), cpath.as_ref().map(|c| c.as_ptr()).unwrap_or(std::ptr::null()));
    let mut k = 0u64;
    if !pr.ok {
        // prepare-time error (syntax error): class is the prefix of the message
        let msg = cstr(pr.error);
        ev.push(format!("E:{}", msg.split(':').next().unwrap_or("")));
    } else {
        loop {
            k += 1;
            if k > 3_000_000 {
                ev.push("BUDGET".into());
                break;
            }
            let mut out = std::mem::MaybeUninit::<TsRunStepResult>::uninit();
            if use_run {
                tsrun_run(out.as_mut_ptr(), ctx);
            } else {
                tsrun_step(out.as_mut_ptr(), ctx);
            }
            let mut res = unsafe { out.assume_init() };
            let mut stop = false;
            match res.status {
                TsRunStepStatus::Continue => {}
                TsRunStepStatus::Complete => {
                    let s = tsrun_json_stringify(ctx, res.value);
                    let txt = cstr(s);
                    if !s.is_null() {
                        tsrun_free_string(s);
                    }
                    ev.push(format!("C:{}", if txt.is_empty() { "null".to_string() } else { txt }));
                    stop = true;
                }
                TsRunStepStatus::NeedImports => {
                    let reqs = unsafe { std::slice::from_raw_parts(res.imports, res.import_count) };
                    let mut names: Vec<String> = reqs.iter().map(|q| cstr(q.resolved_path)).collect();
                    names.sort();
                    ev.push(format!("N:{}", names.join(",")));
                    let mut any = false;
                    for n in &names {
                        if let Some(s) = mods.get(n) {
                            let cp = CString::new(n.as_str()).unwrap_or_default();
                            let cs = CString::new(s.as_str()).unwrap_or_default();
                            any |= tsrun_provide_module(ctx, cp.as_ptr(), cs.as_ptr()).ok;
                        }
                    }
                    if !any {
                        ev.push("UNSATISFIED".into());
                        stop = true;
                    }
                }
                TsRunStepStatus::Suspended => {
                    let orders = if res.pending_count == 0 { &[][..] } else { unsafe { std::slice::from_raw_parts(res.pending_orders, res.pending_count) } };
                    let cancelled = if res.cancelled_count == 0 { &[][..] } else { unsafe { std::slice::from_raw_parts(res.cancelled_orders, res.cancelled_count) } };
                    let mut items = Vec::new();
                    let mut responses = Vec::new();
                    for o in orders {
                        let s = tsrun_json_stringify(ctx, o.payload);
                        items.push(format!("{}={}", o.id, cstr(s)));
                        if !s.is_null() {
                            tsrun_free_string(s);
                        }
                        responses.push(TsRunOrderResponse { id: o.id, value: tsrun_number(ctx, 100.0 + o.id as f64), error: std::ptr::null() });
                    }
                    ev.push(format!("S:{}:{}", items.join(","), cancelled.iter().map(|c| c.to_string()).collect::<Vec<_>>().join(",")));
                    if orders.is_empty() {
                        ev.push("STUCK".into());
                        stop = true;
                    } else {
                        tsrun_fulfill_orders(ctx, responses.as_ptr(), responses.len());
                        for r in &responses {
                            tsrun_value_free(r.value);
                        }
                    }
                }
                TsRunStepStatus::Done => {
                    ev.push("D".into());
                    stop = true;
                }
                TsRunStepStatus::Error => {
                    let msg = cstr(res.error);
                    ev.push(format!("E:{}", msg.split(':').next().unwrap_or("")));
                    stop = true;
                }
            }
            tsrun_step_result_free(&mut res);
            if stop {
                break;
            }
        }
    }
    // exports
    let mut count: usize = 0;
    let names_ptr = tsrun_get_export_names(ctx, &mut count);
    let mut exports: Vec<String> = Vec::new();
    if !names_ptr.is_null() {
        let names = unsafe { std::slice::from_raw_parts(names_ptr, count) };
        let mut ns: Vec<String> = names.iter().map(|p| cstr(*p)).collect();
        ns.sort();
        for n in ns {
            let cn = CString::new(n.as_str()).unwrap_or_default();
            let vr = tsrun_get_export(ctx, cn.as_ptr());
            let txt = if vr.value.is_null() {
                String::new()
            } else {
                let s = tsrun_json_stringify(ctx, vr.value);
                let t = cstr(s);
                if !s.is_null() {
                    tsrun_free_string(s);
                }
                tsrun_value_free(vr.value);
                t
            };
            exports.push(format!("{}={}", n, txt));
        }
        tsrun_free_strings(names_ptr, count);
    }
    segs.push(format!("{} X:{}", ev.join("|"), exports.join(",")));
    }
    let l = prog::esc(&log.borrow().join("\u{1}"));
    tsrun_free(ctx);
    format!("{} L:{}", segs.join(" ;; "), l)
}

/// line: JSON {"src", "path": null|"/m/main", "mods": {path: src}} → five transcripts joined by '\t'
pub fn line(l: &str) -> String {
    let v: serde_json::Value = match serde_json::from_str(l) {
        Ok(v) => v,
        Err(_) => return "bad-case".into(),
    };
    let src = v["src"].as_str().unwrap_or("");
    let path = v["path"].as_str();
    let mods: BTreeMap<String, String> = v["mods"]
        .as_object()
        .map(|m| m.iter().map(|(k, s)| (k.clone(), s.as_str().unwrap_or("").to_string())).collect())
        .unwrap_or_default();
    // optional "pre": [{"src", "path"}]: programs run before `src` in the same interpreter, through the same entry point
    let mut progs: Vec<(String, Option<String>)> = v["pre"]
        .as_array()
        .map(|a| a.iter().map(|p| (p["src"].as_str().unwrap_or("").to_string(), p["path"].as_str().map(|s| s.to_string()))).collect())
        .unwrap_or_default();
    progs.push((src.to_string(), path.map(|s| s.to_string())));
    let a = rust_entry(0, &progs, &mods);
    let b = rust_entry(1, &progs, &mods);
    let c = rust_entry(2, &progs, &mods);
    let d = c_entry(true, &progs, &mods);
    let e = c_entry(false, &progs, &mods);
    format!("{}\t{}\t{}\t{}\t{}", a, b, c, d, e)
}

/// `roles` mode: the same module text as entry module, as host-provided dependency and as registered
/// internal source module; each transcript = `<exports as JSON object> L:<console>` (or `E:<class>`).
pub fn roles_line(l: &str) -> String {
    let v: serde_json::Value = match serde_json::from_str(l) {
        Ok(v) => v,
        Err(_) => return "bad-case".into(),
    };
    let src = v["src"].as_str().unwrap_or("");
    // optional: where the module under test lives, how the probe's entry module (/m/main) spells it, and further
    // modules the host can supply (the module's own imports, and decoys at other paths)
    let ppath = v["path"].as_str().unwrap_or("/m/p").to_string();
    let pspec = v["spec"].as_str().unwrap_or("./p").to_string();
    let mods: std::collections::HashMap<String, String> = v["mods"].as_object().map(|m| m.iter().map(|(k, x)| (k.clone(), x.as_str().unwrap_or("").to_string())).collect()).unwrap_or_default();
    // snapshot of the namespace, then call every exported `bump*` function twice and snapshot again (live bindings)
    let probe = |spec: &str| format!("import * as M from '{}';\nfunction snap(): string {{ const o: any = {{}}; for (const k of Object.keys(M).sort()) {{ const v = (M as any)[k]; if (typeof v !== 'function') o[k] = v; }} return JSON.stringify(o); }}\nconst s1 = snap();\nfor (const k of Object.keys(M).sort()) {{ if (k.startsWith('bump')) {{ (M as any)[k](); (M as any)[k](); }} }}\ns1 + ' AFTER ' + snap()", spec);
    let strip = |s: String| s;
    // (a) entry module
    let a = {
        let (mut interp, log) = prog::new_interp();
        let mut r = interp.prepare(src, Some(ModulePath::new(ppath.clone())));
        let mut k = 0u64;
        let res = loop {
            k += 1;
            if k > 3_000_000 { break "BUDGET".to_string(); }
            match r {
                Ok(StepResult::Continue) => r = interp.step(),
                Ok(StepResult::NeedImports(reqs)) => {
                    let mut any = false;
                    for q in &reqs {
                        if let Some(m) = mods.get(q.resolved_path.as_str()) {
                            any |= interp.provide_module(q.resolved_path.clone(), m).is_ok();
                        }
                    }
                    if !any { break "UNSATISFIED".to_string(); }
                    r = interp.step();
                }
                Ok(StepResult::Complete(_)) => {
                    let mut names = interp.get_export_names();
                    names.sort();
                    let mut m = serde_json::Map::new();
                    for n in names {
                        if let Some(val) = interp.get_export(&n) {
                            m.insert(n, js_value_to_json(&val).unwrap_or(serde_json::Value::Null));
                        }
                    }
                    break serde_json::Value::Object(m).to_string();
                }
                Ok(_) => break "OTHER".to_string(),
                Err(e) => break format!("E:{}", prog::error_class(&e)),
            }
        };
        format!("{} L:{}", res, prog::esc(&log.borrow().join("\u{1}")))
    };
    // (b) provided dependency, (c) internal source module
    let via = |internal: bool| {
        let (mut interp, log) = prog::new_interp();
        let spec = if internal { "virt:p" } else { pspec.as_str() };
        if internal {
            interp.register_internal_module(tsrun::InternalModule::source("virt:p", src));
        }
        let mut r = interp.prepare(&probe(spec), Some(ModulePath::new("/m/main".to_string())));
        let mut k = 0u64;
        let res = loop {
            k += 1;
            if k > 3_000_000 { break "BUDGET".to_string(); }
            match r {
                Ok(StepResult::Continue) => r = interp.step(),
                Ok(StepResult::NeedImports(reqs)) => {
                    let mut any = false;
                    for q in &reqs {
                        if q.resolved_path.as_str() == ppath {
                            any |= interp.provide_module(q.resolved_path.clone(), src).is_ok();
                        } else if let Some(m) = mods.get(q.resolved_path.as_str()) {
                            any |= interp.provide_module(q.resolved_path.clone(), m).is_ok();
                        }
                    }
                    if !any { break "UNSATISFIED".to_string(); }
                    r = interp.step();
                }
                Ok(StepResult::Complete(v)) => break v.as_str().map(|s| s.to_string()).unwrap_or_else(|| "NONSTRING".into()),
                Ok(_) => break "OTHER".to_string(),
                Err(e) => break format!("E:{}", prog::error_class(&e)),
            }
        };
        strip(format!("{} L:{}", res, prog::esc(&log.borrow().join("\u{1}"))))
    };
    if !mods.is_empty() {
        // an internal module has no directory of its own: relative imports are compared for entry vs dependency only
        let b = via(false);
        return format!("{}\t{}\t{}", a, b, b);
    }
    format!("{}\t{}\t{}", a, via(false), via(true))
}
