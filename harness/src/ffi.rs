//! C17: drive the C API with a call sequence; print one result token per call.
//! The harness never passes a released handle (it tracks what it released); it does pass NULL,
//! values whose context is gone, values of another context, and frees in any order.
use std::ffi::{CStr, CString, c_char, c_void};
use tsrun::ffi::*;

unsafe extern "C" {
    safe fn tsrun_new() -> *mut TsRunContext;
    safe fn tsrun_free(ctx: *mut TsRunContext);
    safe fn tsrun_prepare(ctx: *mut TsRunContext, code: *const c_char, path: *const c_char) -> TsRunResult;
    safe fn tsrun_step(out: *mut TsRunStepResult, ctx: *mut TsRunContext);
    safe fn tsrun_run(out: *mut TsRunStepResult, ctx: *mut TsRunContext);
    safe fn tsrun_step_result_free(result: *mut TsRunStepResult);
    safe fn tsrun_free_string(s: *mut c_char);
    safe fn tsrun_free_strings(s: *mut *mut c_char, count: usize);
    safe fn tsrun_fulfill_orders(ctx: *mut TsRunContext, responses: *const TsRunOrderResponse, count: usize) -> TsRunResult;
    safe fn tsrun_typeof(val: *const TsRunValue) -> TsRunType;
    safe fn tsrun_is_array(val: *const TsRunValue) -> bool;
    safe fn tsrun_is_function(val: *const TsRunValue) -> bool;
    safe fn tsrun_is_nullish(val: *const TsRunValue) -> bool;
    safe fn tsrun_get_bool(val: *const TsRunValue) -> bool;
    safe fn tsrun_get_number(val: *const TsRunValue) -> f64;
    safe fn tsrun_get_string(val: *const TsRunValue) -> *const c_char;
    safe fn tsrun_get_string_len(val: *const TsRunValue) -> usize;
    safe fn tsrun_undefined(ctx: *mut TsRunContext) -> *mut TsRunValue;
    safe fn tsrun_null(ctx: *mut TsRunContext) -> *mut TsRunValue;
    safe fn tsrun_boolean(ctx: *mut TsRunContext, b: bool) -> *mut TsRunValue;
    safe fn tsrun_number(ctx: *mut TsRunContext, n: f64) -> *mut TsRunValue;
    safe fn tsrun_string(ctx: *mut TsRunContext, s: *const c_char) -> *mut TsRunValue;
    safe fn tsrun_string_len(ctx: *mut TsRunContext, s: *const c_char, len: usize) -> *mut TsRunValue;
    safe fn tsrun_json_parse(ctx: *mut TsRunContext, json: *const c_char) -> TsRunValueResult;
    safe fn tsrun_object_new(ctx: *mut TsRunContext) -> TsRunValueResult;
    safe fn tsrun_array_new(ctx: *mut TsRunContext) -> TsRunValueResult;
    safe fn tsrun_value_free(val: *mut TsRunValue);
    safe fn tsrun_value_dup(ctx: *mut TsRunContext, val: *const TsRunValue) -> *mut TsRunValue;
    safe fn tsrun_get(ctx: *mut TsRunContext, obj: *mut TsRunValue, key: *const c_char) -> TsRunValueResult;
    safe fn tsrun_set(ctx: *mut TsRunContext, obj: *mut TsRunValue, key: *const c_char, val: *mut TsRunValue) -> TsRunResult;
    safe fn tsrun_has(ctx: *mut TsRunContext, obj: *mut TsRunValue, key: *const c_char) -> bool;
    safe fn tsrun_delete(ctx: *mut TsRunContext, obj: *mut TsRunValue, key: *const c_char) -> TsRunResult;
    safe fn tsrun_keys(ctx: *mut TsRunContext, obj: *mut TsRunValue, count_out: *mut usize) -> *mut *mut c_char;
    safe fn tsrun_array_len(arr: *const TsRunValue) -> usize;
    safe fn tsrun_array_get(ctx: *mut TsRunContext, arr: *mut TsRunValue, index: usize) -> TsRunValueResult;
    safe fn tsrun_array_set(ctx: *mut TsRunContext, arr: *mut TsRunValue, index: usize, val: *mut TsRunValue) -> TsRunResult;
    safe fn tsrun_array_push(ctx: *mut TsRunContext, arr: *mut TsRunValue, val: *mut TsRunValue) -> TsRunResult;
    safe fn tsrun_json_stringify(ctx: *mut TsRunContext, val: *mut TsRunValue) -> *mut c_char;
    safe fn tsrun_call(ctx: *mut TsRunContext, func: *mut TsRunValue, this_arg: *mut TsRunValue, args: *mut *mut TsRunValue, argc: usize) -> TsRunValueResult;
    safe fn tsrun_call_method(ctx: *mut TsRunContext, obj: *mut TsRunValue, method: *const c_char, args: *mut *mut TsRunValue, argc: usize) -> TsRunValueResult;
    safe fn tsrun_get_global(ctx: *mut TsRunContext, name: *const c_char) -> TsRunValueResult;
    safe fn tsrun_set_global(ctx: *mut TsRunContext, name: *const c_char, val: *mut TsRunValue) -> TsRunResult;
    safe fn tsrun_get_export(ctx: *mut TsRunContext, name: *const c_char) -> TsRunValueResult;
    safe fn tsrun_get_export_names(ctx: *mut TsRunContext, count_out: *mut usize) -> *mut *mut c_char;
    safe fn tsrun_native_function(ctx: *mut TsRunContext, name: *const c_char, func: TsRunNativeFn, arity: usize, userdata: *mut c_void) -> TsRunValueResult;
    safe fn tsrun_internal_module_new(specifier: *const c_char) -> *mut c_void;
    safe fn tsrun_internal_module_add_function(module: *mut c_void, name: *const c_char, func: TsRunNativeFn, arity: usize, userdata: *mut c_void);
    safe fn tsrun_internal_module_add_value(module: *mut c_void, name: *const c_char, value: *mut TsRunValue);
    safe fn tsrun_register_internal_module(ctx: *mut TsRunContext, module: *mut c_void) -> TsRunResult;
    safe fn tsrun_create_pending_order(ctx: *mut TsRunContext, payload: *mut TsRunValue, order_id_out: *mut u64) -> TsRunValueResult;
    safe fn tsrun_create_order_promise(ctx: *mut TsRunContext, order_id: u64) -> TsRunValueResult;
    safe fn tsrun_resolve_promise(ctx: *mut TsRunContext, promise: *mut TsRunValue, value: *mut TsRunValue) -> TsRunResult;
    safe fn tsrun_reject_promise(ctx: *mut TsRunContext, promise: *mut TsRunValue, error: *const c_char) -> TsRunResult;
    safe fn tsrun_provide_module(ctx: *mut TsRunContext, path: *const c_char, code: *const c_char) -> TsRunResult;
}

fn cstr(p: *const c_char) -> String {
    if p.is_null() { String::new() } else { unsafe { CStr::from_ptr(p) }.to_string_lossy().to_string() }
}

fn type_name(v: *const TsRunValue) -> &'static str {
    match tsrun_typeof(v) {
        TsRunType::Undefined => "undefined",
        TsRunType::Null => "null",
        TsRunType::Boolean => "boolean",
        TsRunType::Number => "number",
        TsRunType::String => "string",
        TsRunType::Object => "object",
        TsRunType::Symbol => "symbol",
    }
}

struct World {
    ctxs: Vec<*mut TsRunContext>,
    ctx_alive: Vec<bool>,
    vals: Vec<*mut TsRunValue>,
}

/// a native callback that re-enters the API: reads its arguments, builds an object, returns it
extern "C" fn native_cb(ctx: *mut TsRunContext, this_arg: *mut TsRunValue, args: *mut *mut TsRunValue, argc: usize, userdata: *mut c_void, error_out: *mut *const c_char) -> *mut TsRunValue {
    let tag = userdata as usize;
    let r = tsrun_object_new(ctx);
    if r.value.is_null() {
        return std::ptr::null_mut();
    }
    let mut sum = 0.0;
    for i in 0..argc {
        let a = unsafe { *args.add(i) };
        if !a.is_null() {
            let n = tsrun_get_number(a);
            if n.is_finite() {
                sum += n;
            }
            if tsrun_is_array(a) {
                let e = tsrun_array_get(ctx, a, 0);
                if !e.value.is_null() {
                    tsrun_value_free(e.value);
                }
                let extra = tsrun_number(ctx, 1.0);
                let _ = tsrun_array_push(ctx, a, extra);
                tsrun_value_free(extra);
            }
        }
    }
    let _ = tsrun_typeof(this_arg);
    let n = tsrun_number(ctx, sum + tag as f64);
    let k = CString::new("sum").unwrap_or_default();
    let _ = tsrun_set(ctx, r.value, k.as_ptr(), n);
    tsrun_value_free(n);
    if tag == 13 && !error_out.is_null() {
        unsafe { *error_out = c"native failure".as_ptr() };
        tsrun_value_free(r.value);
        return std::ptr::null_mut();
    }
    if tag == 14 {
        // issue an order from the native function: the returned value must be returned to the interpreter
        let mut id = 0u64;
        let o = tsrun_create_pending_order(ctx, r.value, &mut id);
        tsrun_value_free(r.value);
        return o.value;
    }
    r.value
}

impl World {
    fn ctx(&self, v: &serde_json::Value) -> *mut TsRunContext {
        match v.as_i64() {
            Some(i) if i >= 0 => self.ctxs.get(i as usize).copied().unwrap_or(std::ptr::null_mut()),
            _ => std::ptr::null_mut(),
        }
    }
    fn val(&self, v: &serde_json::Value) -> *mut TsRunValue {
        match v.as_i64() {
            Some(i) if i >= 0 => self.vals.get(i as usize).copied().unwrap_or(std::ptr::null_mut()),
            _ => std::ptr::null_mut(),
        }
    }
    fn push_val(&mut self, p: *mut TsRunValue) -> String {
        self.vals.push(p);
        if p.is_null() { "null".to_string() } else { format!("v{}:{}", self.vals.len() - 1, type_name(p)) }
    }
    fn push_res(&mut self, r: TsRunValueResult) -> String {
        if r.value.is_null() {
            self.vals.push(std::ptr::null_mut());
            format!("err:{}", cstr(r.error))
        } else {
            self.push_val(r.value)
        }
    }
}

fn res(r: TsRunResult) -> String {
    if r.ok { "ok".to_string() } else { format!("err:{}", cstr(r.error)) }
}

fn opt_c(v: &serde_json::Value) -> Option<CString> {
    v.as_str().map(|s| CString::new(s.replace('\0', "")).unwrap_or_default())
}

fn p(o: &Option<CString>) -> *const c_char {
    o.as_ref().map(|c| c.as_ptr()).unwrap_or(std::ptr::null())
}

fn step_like(w: &mut World, c: *mut TsRunContext, run: bool) -> String {
    if c.is_null() {
        return "skip".into();
    }
    let mut out = std::mem::MaybeUninit::<TsRunStepResult>::zeroed();
    if run { tsrun_run(out.as_mut_ptr(), c) } else { tsrun_step(out.as_mut_ptr(), c) }
    let mut r = unsafe { out.assume_init() };
    let s = match r.status {
        TsRunStepStatus::Continue => "continue".to_string(),
        TsRunStepStatus::Complete => {
            let j = tsrun_json_stringify(c, r.value);
            let t = if j.is_null() { format!("complete:{}", type_name(r.value)) } else { format!("complete:{}", cstr(j)) };
            if !j.is_null() {
                tsrun_free_string(j);
            }
            t
        }
        TsRunStepStatus::NeedImports => format!("imports:{}", r.import_count),
        TsRunStepStatus::Suspended => {
            let mut ids = Vec::new();
            for i in 0..r.pending_count {
                let o = unsafe { &*r.pending_orders.add(i) };
                // keep a duplicate of the payload beyond the step result's life
                let d = tsrun_value_dup(c, o.payload);
                w.vals.push(d);
                ids.push(format!("{}@v{}", o.id, w.vals.len() - 1));
            }
            format!("suspended:{}:{}", ids.join(","), r.cancelled_count)
        }
        TsRunStepStatus::Done => "done".to_string(),
        TsRunStepStatus::Error => format!("error:{}", cstr(r.error).split(':').next().unwrap_or("")),
    };
    tsrun_step_result_free(&mut r);
    // a released result holds nothing any more: every array pointer is NULL and every count 0 ...
    let stale = !r.imports.is_null() || r.import_count != 0 || !r.pending_orders.is_null() || r.pending_count != 0 || !r.cancelled_orders.is_null() || r.cancelled_count != 0;
    // ... so releasing it again (a host's cleanup path after an early release) touches no memory
    tsrun_step_result_free(&mut r);
    if stale { format!("{} STALE-FIELDS", s) } else { s }
}

/// line: JSON array of ops (each an array: name, args…)
pub fn line(l: &str) -> String {
    let ops: Vec<serde_json::Value> = match serde_json::from_str(l) {
        Ok(serde_json::Value::Array(a)) => a,
        _ => return "bad-case".into(),
    };
    let mut w = World { ctxs: vec![], ctx_alive: vec![], vals: vec![] };
    let mut out: Vec<String> = Vec::new();
    for op in &ops {
        let name = op[0].as_str().unwrap_or("");
        let r: String = match name {
            "ctx" => {
                w.ctxs.push(tsrun_new());
                w.ctx_alive.push(true);
                format!("c{}", w.ctxs.len() - 1)
            }
            "ctxfree" => {
                let c = w.ctx(&op[1]);
                if let Some(i) = op[1].as_i64().filter(|i| *i >= 0) {
                    if w.ctx_alive.get(i as usize) == Some(&true) {
                        tsrun_free(c);
                        w.ctx_alive[i as usize] = false;
                        w.ctxs[i as usize] = std::ptr::null_mut();
                    }
                } else {
                    tsrun_free(std::ptr::null_mut());
                }
                "ok".into()
            }
            "mk" => {
                let c = w.ctx(&op[1]);
                let v = match op[2].as_str().unwrap_or("") {
                    "undef" => tsrun_undefined(c),
                    "null" => tsrun_null(c),
                    "bool" => tsrun_boolean(c, op[3].as_str() == Some("1")),
                    "num" => tsrun_number(c, op[3].as_str().and_then(|s| s.parse::<f64>().ok()).or(op[3].as_f64()).unwrap_or(f64::NAN)),
                    "strn" => {
                        let s = op[3].as_str().unwrap_or("");
                        tsrun_string_len(c, s.as_ptr() as *const c_char, s.len())
                    }
                    _ => {
                        let s = opt_c(&op[3]);
                        tsrun_string(c, p(&s))
                    }
                };
                w.push_val(v)
            }
            "json" => {
                let s = opt_c(&op[2]);
                let r = tsrun_json_parse(w.ctx(&op[1]), p(&s));
                w.push_res(r)
            }
            "obj" => {
                let r = tsrun_object_new(w.ctx(&op[1]));
                w.push_res(r)
            }
            "arr" => {
                let r = tsrun_array_new(w.ctx(&op[1]));
                w.push_res(r)
            }
            "free" => {
                let v = w.val(&op[1]);
                tsrun_value_free(v);
                if let Some(i) = op[1].as_i64().filter(|i| *i >= 0) {
                    if let Some(slot) = w.vals.get_mut(i as usize) {
                        *slot = std::ptr::null_mut();
                    }
                }
                "ok".into()
            }
            "dup" => {
                let d = tsrun_value_dup(w.ctx(&op[1]), w.val(&op[2]));
                w.push_val(d)
            }
            "typeof" => type_name(w.val(&op[1])).to_string(),
            "is" => {
                let v = w.val(&op[1]);
                format!("{}{}{}", tsrun_is_array(v) as u8, tsrun_is_function(v) as u8, tsrun_is_nullish(v) as u8)
            }
            "getb" => format!("{}", tsrun_get_bool(w.val(&op[1]))),
            "getn" => {
                let n = tsrun_get_number(w.val(&op[1]));
                if n.is_nan() { "NaN".to_string() } else if n.fract() == 0.0 && n.abs() < 1e15 { format!("{}", n as i64) } else { format!("{}", n) }
            }
            "gets" => {
                let v = w.val(&op[1]);
                let s = tsrun_get_string(v);
                if s.is_null() {
                    "null".to_string()
                } else {
                    let bytes = unsafe { CStr::from_ptr(s) }.to_bytes().to_vec();
                    let len = tsrun_get_string_len(v);
                    let text = String::from_utf8(bytes.clone());
                    let r = match text {
                        Ok(t) => format!("s:{}{}", t, if len != bytes.len() { format!("!len{}vs{}", len, bytes.len()) } else { String::new() }),
                        Err(_) => "INVALID-UTF8".to_string(),
                    };
                    tsrun_free_string(s as *mut c_char);
                    r
                }
            }
            "get" => {
                let k = opt_c(&op[3]);
                let r = tsrun_get(w.ctx(&op[1]), w.val(&op[2]), p(&k));
                w.push_res(r)
            }
            "set" => {
                let k = opt_c(&op[3]);
                res(tsrun_set(w.ctx(&op[1]), w.val(&op[2]), p(&k), w.val(&op[4])))
            }
            "has" => {
                let k = opt_c(&op[3]);
                format!("{}", tsrun_has(w.ctx(&op[1]), w.val(&op[2]), p(&k)))
            }
            "del" => {
                let k = opt_c(&op[3]);
                res(tsrun_delete(w.ctx(&op[1]), w.val(&op[2]), p(&k)))
            }
            "keys" => {
                let mut n = 0usize;
                let ks = tsrun_keys(w.ctx(&op[1]), w.val(&op[2]), &mut n);
                if ks.is_null() {
                    "null".to_string()
                } else {
                    let mut names: Vec<String> = (0..n).map(|i| cstr(unsafe { *ks.add(i) })).collect();
                    names.sort();
                    tsrun_free_strings(ks, n);
                    format!("k:{}", names.join(","))
                }
            }
            "alen" => format!("{}", tsrun_array_len(w.val(&op[1]))),
            "aget" => {
                let r = tsrun_array_get(w.ctx(&op[1]), w.val(&op[2]), op[3].as_u64().unwrap_or(0) as usize);
                w.push_res(r)
            }
            "aset" => res(tsrun_array_set(w.ctx(&op[1]), w.val(&op[2]), op[3].as_u64().unwrap_or(0) as usize, w.val(&op[4]))),
            "apush" => res(tsrun_array_push(w.ctx(&op[1]), w.val(&op[2]), w.val(&op[3]))),
            "stringify" => {
                let j = tsrun_json_stringify(w.ctx(&op[1]), w.val(&op[2]));
                if j.is_null() {
                    "null".to_string()
                } else {
                    let t = cstr(j);
                    tsrun_free_string(j);
                    format!("j:{}", t)
                }
            }
            "gget" => {
                let k = opt_c(&op[2]);
                let r = tsrun_get_global(w.ctx(&op[1]), p(&k));
                w.push_res(r)
            }
            "gset" => {
                let k = opt_c(&op[2]);
                res(tsrun_set_global(w.ctx(&op[1]), p(&k), w.val(&op[3])))
            }
            "prepare" => {
                let code = opt_c(&op[2]);
                let path = opt_c(&op[3]);
                res(tsrun_prepare(w.ctx(&op[1]), p(&code), p(&path))).split(':').take(2).collect::<Vec<_>>().join(":")
            }
            "provide" => {
                let path = opt_c(&op[2]);
                let code = opt_c(&op[3]);
                res(tsrun_provide_module(w.ctx(&op[1]), p(&path), p(&code))).split(':').take(2).collect::<Vec<_>>().join(":")
            }
            "run" => {
                let c = w.ctx(&op[1]);
                step_like(&mut w, c, true)
            }
            "step" => {
                let c = w.ctx(&op[1]);
                let mut last = String::new();
                for _ in 0..op[2].as_u64().unwrap_or(1) {
                    last = step_like(&mut w, c, false);
                    if last != "continue" {
                        break;
                    }
                }
                last
            }
            "native" => {
                let nm = opt_c(&op[2]);
                let r = tsrun_native_function(w.ctx(&op[1]), p(&nm), native_cb, 2, op[3].as_u64().unwrap_or(0) as usize as *mut c_void);
                w.push_res(r)
            }
            "call" => {
                let mut args: Vec<*mut TsRunValue> = op[4].as_array().map(|a| a.iter().map(|x| w.val(x)).collect()).unwrap_or_default();
                let r = tsrun_call(w.ctx(&op[1]), w.val(&op[2]), w.val(&op[3]), if args.is_empty() { std::ptr::null_mut() } else { args.as_mut_ptr() }, args.len());
                let t = w.push_res(r);
                t.split(':').take(2).collect::<Vec<_>>().join(":")
            }
            "callm" => {
                let m = opt_c(&op[3]);
                let mut args: Vec<*mut TsRunValue> = op[4].as_array().map(|a| a.iter().map(|x| w.val(x)).collect()).unwrap_or_default();
                let r = tsrun_call_method(w.ctx(&op[1]), w.val(&op[2]), p(&m), if args.is_empty() { std::ptr::null_mut() } else { args.as_mut_ptr() }, args.len());
                let t = w.push_res(r);
                t.split(':').take(2).collect::<Vec<_>>().join(":")
            }
            "imod" => {
                let spec = opt_c(&op[2]);
                let m = tsrun_internal_module_new(p(&spec));
                if let Some(fns) = op[3].as_array() {
                    for (i, f) in fns.iter().enumerate() {
                        let nm = opt_c(f);
                        tsrun_internal_module_add_function(m, p(&nm), native_cb, 1, (i + 1) as *mut c_void);
                    }
                }
                if let Some(vs) = op[4].as_array() {
                    for kv in vs {
                        let nm = opt_c(&kv[0]);
                        tsrun_internal_module_add_value(m, p(&nm), w.val(&kv[1]));
                    }
                }
                let r = tsrun_register_internal_module(w.ctx(&op[1]), m);
                if r.ok {
                    // registration consumes the value handles that were added (documented by the examples)
                    if let Some(vs) = op[4].as_array() {
                        for kv in vs {
                            if let Some(i) = kv[1].as_i64().filter(|i| *i >= 0) {
                                if let Some(slot) = w.vals.get_mut(i as usize) {
                                    *slot = std::ptr::null_mut();
                                }
                            }
                        }
                    }
                }
                res(r).split(':').take(2).collect::<Vec<_>>().join(":")
            }
            "export" => {
                let k = opt_c(&op[2]);
                let r = tsrun_get_export(w.ctx(&op[1]), p(&k));
                let t = w.push_res(r);
                t.split(':').take(2).collect::<Vec<_>>().join(":")
            }
            "exports" => {
                let mut n = 0usize;
                let ks = tsrun_get_export_names(w.ctx(&op[1]), &mut n);
                if ks.is_null() {
                    "null".to_string()
                } else {
                    let mut names: Vec<String> = (0..n).map(|i| cstr(unsafe { *ks.add(i) })).collect();
                    names.sort();
                    tsrun_free_strings(ks, n);
                    format!("k:{}", names.join(","))
                }
            }
            "fulfill" => {
                // [[order id, value slot | -1, error | null], …], then free the response values if op[3]
                let items = op[2].as_array().cloned().unwrap_or_default();
                let errs: Vec<Option<CString>> = items.iter().map(|it| opt_c(&it[2])).collect();
                let resp: Vec<TsRunOrderResponse> = items
                    .iter()
                    .zip(errs.iter())
                    .map(|(it, e)| TsRunOrderResponse { id: it[0].as_u64().unwrap_or(0), value: w.val(&it[1]), error: p(e) })
                    .collect();
                let r = res(tsrun_fulfill_orders(w.ctx(&op[1]), if resp.is_empty() { std::ptr::null() } else { resp.as_ptr() }, resp.len()));
                if op[3].as_bool() == Some(true) {
                    for it in &items {
                        if let Some(i) = it[1].as_i64().filter(|i| *i >= 0) {
                            if let Some(slot) = w.vals.get_mut(i as usize) {
                                tsrun_value_free(*slot);
                                *slot = std::ptr::null_mut();
                            }
                        }
                    }
                }
                r.split(':').take(2).collect::<Vec<_>>().join(":")
            }
            "opromise" => {
                let r = tsrun_create_order_promise(w.ctx(&op[1]), op[2].as_u64().unwrap_or(0));
                w.push_res(r)
            }
            "resolve" => res(tsrun_resolve_promise(w.ctx(&op[1]), w.val(&op[2]), w.val(&op[3]))).split(':').take(2).collect::<Vec<_>>().join(":"),
            "reject" => {
                let m = opt_c(&op[3]);
                res(tsrun_reject_promise(w.ctx(&op[1]), w.val(&op[2]), p(&m))).split(':').take(2).collect::<Vec<_>>().join(":")
            }
            _ => "bad-op".to_string(),
        };
        out.push(r);
    }
    // release everything that is still held, values first or contexts first by parity of the op count
    if ops.len() % 2 == 0 {
        for v in w.vals.iter() {
            tsrun_value_free(*v);
        }
        for (c, a) in w.ctxs.iter().zip(w.ctx_alive.iter()) {
            if *a {
                tsrun_free(*c);
            }
        }
    } else {
        for (c, a) in w.ctxs.iter().zip(w.ctx_alive.iter()) {
            if *a {
                tsrun_free(*c);
            }
        }
        for v in w.vals.iter() {
            tsrun_value_free(*v);
        }
    }
    out.join("\u{1e}")
}
