//! C08: drive a script that issues orders with a host policy; print the protocol trace.
use crate::prog;
use tsrun::{JsError, JsValue, OrderId, OrderResponse, RuntimeValue, StepResult, api, js_value_to_json};

/// line: JSON {"script": src, "resp": ["v"|"e"|"o"|"p"|"op", …] (per order, in issue order; default "v"),
///             "settle": [[orderIndex, "res"|"rej"], …] (priority for settling host promises),
///             "spurious": n, "junk": bool, "gc": bool}
/// trace events (joined by '|'):
///   L:<console line> · S:<ids>:<cancelled ids> · P:<id>:<payload json> · s:<kind> (spurious step) ·
///   F:<id>:<kind> · Z:<id>:<res|rej> · STUCK · C:<value> · ERR:<class> · D
pub fn line(l: &str) -> String {
    let v: serde_json::Value = match serde_json::from_str(l) {
        Ok(v) => v,
        Err(_) => return "bad-case".into(),
    };
    let script = v["script"].as_str().unwrap_or("").to_string();
    let resp: Vec<String> = v["resp"].as_array().map(|a| a.iter().map(|x| x.as_str().unwrap_or("v").to_string()).collect()).unwrap_or_default();
    let settle: Vec<(u64, bool)> = v["settle"]
        .as_array()
        .map(|a| a.iter().map(|x| (x[0].as_u64().unwrap_or(0), x[1].as_str() == Some("res"))).collect())
        .unwrap_or_default();
    let spurious = v["spurious"].as_u64().unwrap_or(0);
    let junk = v["junk"].as_bool().unwrap_or(false);
    let preanswer = v["preanswer"].as_bool().unwrap_or(false);
    // "early": order ids whose host promise is settled while the script is still busy with later orders
    let early: Vec<u64> = v["early"].as_array().map(|a| a.iter().filter_map(|x| x.as_u64()).collect()).unwrap_or_default();
    let gc = v["gc"].as_bool().unwrap_or(false);
    // "partial": at successive suspensions answer only these outstanding order ids (one list per suspension);
    // when the plan is used up (or names nothing outstanding) the smallest outstanding id is answered
    let partial: Option<Vec<Vec<u64>>> = v["partial"]
        .as_array()
        .map(|a| a.iter().map(|x| x.as_array().map(|y| y.iter().filter_map(|z| z.as_u64()).collect()).unwrap_or_default()).collect());
    let mut partial_pos = 0usize;

    let (mut interp, log) = prog::new_interp();
    if gc {
        interp.set_gc_threshold(1);
    }
    let mut evs: Vec<String> = Vec::new();
    let flush = |evs: &mut Vec<String>| {
        for l in log.borrow_mut().drain(..) {
            evs.push(format!("L:{}", l.strip_prefix("log:").unwrap_or(&l)));
        }
    };
    let mut outstanding: Vec<u64> = Vec::new(); // reported, unanswered
    let mut max_seen_id: u64 = 0;
    let mut seen_orders: u64 = 0; // number of orders reported so far (issue index)
    let mut promises: Vec<(u64, RuntimeValue, bool)> = Vec::new(); // (order id, promise, settled)
    let mut r = interp.prepare(&script, None);
    let mut steps = 0usize;
    loop {
        steps += 1;
        if steps > 3_000_000 || evs.len() > 2000 {
            evs.push("ERR:budget".into());
            break;
        }
        match r {
            Ok(StepResult::Continue) => r = interp.step(),
            Ok(StepResult::Suspended { pending, cancelled }) => {
                flush(&mut evs);
                evs.push(format!(
                    "S:{}:{}",
                    pending.iter().map(|o| o.id.0.to_string()).collect::<Vec<_>>().join(","),
                    cancelled.iter().map(|c| c.0.to_string()).collect::<Vec<_>>().join(",")
                ));
                for o in &pending {
                    let pj = js_value_to_json(o.payload.value()).map(|j| j.to_string()).unwrap_or_else(|_| "?".into());
                    evs.push(format!("P:{}:{}", o.id.0, pj));
                    max_seen_id = max_seen_id.max(o.id.0);
                    outstanding.push(o.id.0);
                }
                for _ in 0..spurious {
                    match interp.step() {
                        Ok(StepResult::Suspended { pending, cancelled }) => evs.push(format!("s:S{}:{}", pending.len(), cancelled.len())),
                        Ok(StepResult::Continue) => evs.push("s:continue".into()),
                        Ok(StepResult::Complete(_)) => evs.push("s:complete".into()),
                        Ok(StepResult::Done) => evs.push("s:done".into()),
                        Ok(StepResult::NeedImports(_)) => evs.push("s:imports".into()),
                        Err(e) => evs.push(format!("s:err:{}", prog::error_class(&e))),
                    }
                }
                if !outstanding.is_empty() {
                    let mut responses = Vec::new();
                    let first_outstanding = outstanding.iter().copied().min().unwrap_or(0);
                    let answer_now: Vec<u64> = match &partial {
                        None => outstanding.drain(..).collect(),
                        Some(plan) => {
                            let mut chosen: Vec<u64> = plan.get(partial_pos).map(|ids| ids.iter().copied().filter(|i| outstanding.contains(i)).collect()).unwrap_or_default();
                            partial_pos += 1;
                            if chosen.is_empty() {
                                chosen.push(first_outstanding);
                            }
                            outstanding.retain(|i| !chosen.contains(i));
                            chosen
                        }
                    };
                    for id in answer_now {
                        let kind = if partial.is_some() {
                            resp.get((id as usize).saturating_sub(1)).cloned().unwrap_or_else(|| "v".into())
                        } else {
                            resp.get(seen_orders as usize).cloned().unwrap_or_else(|| "v".into())
                        };
                        seen_orders += 1;
                        let result: Result<RuntimeValue, JsError> = match kind.as_str() {
                            "e" => Err(JsError::type_error(format!("boom{}", id))),
                            "o" => api::create_response_object(&mut interp, &serde_json::json!({"x": id, "nested": {"y": [id, id]}})),
                            "p" => {
                                let p = api::create_promise(&mut interp);
                                let copy = RuntimeValue::unguarded(p.value().clone());
                                promises.push((id, p, false));
                                Ok(copy)
                            }
                            "op" => {
                                let p = api::create_order_promise(&mut interp, OrderId(id));
                                let copy = RuntimeValue::unguarded(p.value().clone());
                                promises.push((id, p, false));
                                Ok(copy)
                            }
                            _ => Ok(RuntimeValue::unguarded(JsValue::Number(100.0 + id as f64))),
                        };
                        evs.push(format!("F:{}:{}", id, kind));
                        responses.push(OrderResponse { id: OrderId(id), result });
                        if junk {
                            responses.push(OrderResponse { id: OrderId(9000 + id), result: Ok(RuntimeValue::unguarded(JsValue::Number(-1.0))) });
                        }
                    }
                    interp.fulfill_orders(responses);
                    // settle "early" promises created for earlier orders right now
                    for i in 0..promises.len() {
                        let id = promises[i].0;
                        if !promises[i].2 && early.contains(&id) && id < first_outstanding {
                            let res = settle.iter().find(|s| s.0 == id).map(|s| s.1).unwrap_or(true);
                            let p = RuntimeValue::unguarded(promises[i].1.value().clone());
                            let outcome = if res {
                                api::resolve_promise(&mut interp, &p, RuntimeValue::unguarded(JsValue::Number(1000.0 + id as f64)))
                            } else {
                                api::reject_promise(&mut interp, &p, RuntimeValue::unguarded(JsValue::String(tsrun::JsString::from(format!("rej{}", id)))))
                            };
                            promises[i].2 = true;
                            evs.push(format!("Z:{}:{}{}", id, if res { "res" } else { "rej" }, if outcome.is_err() { ":apierr" } else { "" }));
                        }
                    }
                    if preanswer {
                        // an answer for the id the NEXT order will get (a host that answers ahead of time): the order must still be handed over
                        let next_id = max_seen_id + 1;
                        interp.fulfill_orders(vec![OrderResponse { id: OrderId(next_id), result: Ok(RuntimeValue::unguarded(JsValue::Number(-3.0))) }]);
                    }
                    if junk && first_outstanding > 1 {
                        // a duplicate answer for an id that was answered and consumed earlier
                        interp.fulfill_orders(vec![OrderResponse { id: OrderId(first_outstanding - 1), result: Ok(RuntimeValue::unguarded(JsValue::Number(-2.0))) }]);
                    }
                } else {
                    // settle one unsettled host promise, in the priority order given
                    let mut pick: Option<usize> = None;
                    for (oidx, _) in &settle {
                        if let Some(i) = promises.iter().position(|p| !p.2 && p.0 == *oidx) {
                            pick = Some(i);
                            break;
                        }
                    }
                    if pick.is_none() {
                        pick = promises.iter().position(|p| !p.2);
                    }
                    match pick {
                        Some(i) => {
                            let id = promises[i].0;
                            let res = settle.iter().find(|s| s.0 == id).map(|s| s.1).unwrap_or(true);
                            let p = RuntimeValue::unguarded(promises[i].1.value().clone());
                            let outcome = if res {
                                api::resolve_promise(&mut interp, &p, RuntimeValue::unguarded(JsValue::Number(1000.0 + id as f64)))
                            } else {
                                api::reject_promise(&mut interp, &p, RuntimeValue::unguarded(JsValue::String(tsrun::JsString::from(format!("rej{}", id)))))
                            };
                            promises[i].2 = true;
                            evs.push(format!("Z:{}:{}{}", id, if res { "res" } else { "rej" }, if outcome.is_err() { ":apierr" } else { "" }));
                        }
                        None => {
                            evs.push("STUCK".into());
                            break;
                        }
                    }
                }
                if gc {
                    interp.collect();
                }
                r = interp.step();
            }
            Ok(StepResult::Complete(v)) => {
                flush(&mut evs);
                evs.push(format!("C:{}", prog::show_value(v.value())));
                break;
            }
            Ok(StepResult::NeedImports(_)) => {
                evs.push("ERR:imports".into());
                break;
            }
            Ok(StepResult::Done) => {
                flush(&mut evs);
                evs.push("D".into());
                break;
            }
            Err(e) => {
                flush(&mut evs);
                evs.push(format!("ERR:{}:{}", prog::error_class(&e), prog::esc(&e.to_string())));
                break;
            }
        }
    }
    evs.join("|")
}
