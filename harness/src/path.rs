use tsrun::ModulePath;

/// case line: `<specifier>\t<importer or <none>>` → `ModulePath::resolve(..).as_str()`
pub fn line(l: &str) -> String {
    let mut it = l.split('\t');
    let (Some(s), Some(b), None) = (it.next(), it.next(), it.next()) else {
        return "bad-case".into();
    };
    let base = if b == "<none>" { None } else { Some(ModulePath::new(b)) };
    ModulePath::resolve(s, base.as_ref()).as_str().to_string()
}
