//! C05: offer a source text to the real front end and report acceptance, rejection, panic or
//! exhausted work budget, with the deterministic work count (tokens produced by the lexer).
use tsrun::lexer::verif_work;
use tsrun::Interpreter;

/// line: JSON {"src": "...", "budget": n, "stack_kb": k, "module": bool}
/// output: `ACC work=<n>` | `REJ <class> work=<n>` | `PANIC <msg> work=<n>` | `BUDGET work=<n>`
pub fn line(l: &str) -> String {
    let v: serde_json::Value = match serde_json::from_str(l) {
        Ok(v) => v,
        Err(_) => return "bad-case".into(),
    };
    let src = v["src"].as_str().unwrap_or("").to_string();
    let budget = v["budget"].as_u64().unwrap_or(u64::MAX);
    let stack_kb = v["stack_kb"].as_u64().unwrap_or(2048) as usize;
    let module = v["module"].as_bool().unwrap_or(false);
    // a thread with the stack of a typical embedding; an overflow there kills the process
    let h = std::thread::Builder::new().stack_size(stack_kb * 1024).spawn(move || {
        verif_work::reset(budget);
        let r = std::panic::catch_unwind(|| {
            let mut interp = Interpreter::new();
            let path = if module { Some(tsrun::ModulePath::resolve("/m/main", None)) } else { None };
            match interp.prepare(&src, path) {
                Ok(_) => "ACC".to_string(),
                Err(e) => {
                    let msg = format!("{}", e);
                    let tag = if msg.contains("chain is too long") { " tag=chain" } else if msg.contains("nested too deeply") { " tag=depth" } else { "" };
                    format!("REJ {}{}", crate::prog::error_class(&e), tag)
                }
            }
        });
        let work = verif_work::get();
        match r {
            Ok(s) => format!("{} work={}", s, work),
            Err(p) => {
                let msg = p.downcast_ref::<&str>().map(|s| s.to_string()).or_else(|| p.downcast_ref::<String>().cloned()).unwrap_or_default();
                if msg.contains("work budget exceeded") {
                    format!("BUDGET work={}", work)
                } else {
                    format!("PANIC {} work={}", crate::prog::esc(&msg.chars().take(120).collect::<String>()), work)
                }
            }
        }
    });
    match h {
        Ok(j) => j.join().unwrap_or_else(|_| "PANIC thread".into()),
        Err(_) => "bad-thread".into(),
    }
}
