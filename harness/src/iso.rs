//! C12: determinism and isolation — programs on separate interpreters, interleaved / threaded /
//! after other instance lifetimes; and several top-level tasks on one interpreter woken together.
use crate::prog;
use tsrun::{Interpreter, JsString, JsValue, OrderResponse, RuntimeValue, StepResult, api};

struct Inst {
    interp: Interpreter,
    log: std::rc::Rc<std::cell::RefCell<Vec<String>>>,
    r: Option<Result<StepResult, tsrun::JsError>>,
    steps: u64,
    ev: Vec<String>,
    done: bool,
    mods: std::collections::HashMap<String, String>,
}

/// a program may start with a line `//MODS {"<absolute path>": "<source>", ...}`: it is then prepared as the
/// module /m/main and the listed modules are supplied when requested; its export names join the transcript
fn new_inst(src: &str) -> Inst {
    let (mut interp, log) = prog::new_interp();
    let mut mods = std::collections::HashMap::new();
    let mut body = src;
    let mut path = None;
    if let Some(rest) = src.strip_prefix("//MODS ") {
        let (head, tail) = rest.split_once('\n').unwrap_or((rest, ""));
        if let Ok(serde_json::Value::Object(m)) = serde_json::from_str::<serde_json::Value>(head) {
            for (k, v) in m {
                mods.insert(k, v.as_str().unwrap_or("").to_string());
            }
        }
        body = tail;
        path = Some(tsrun::ModulePath::new("/m/main".to_string()));
    }
    let r = interp.prepare(body, path);
    Inst { interp, log, r: Some(r), steps: 0, ev: vec![], done: false, mods }
}

/// one host action on an instance: consume the pending StepResult and (unless finished) step once more
fn advance(i: &mut Inst) {
    if i.done {
        return;
    }
    match i.r.take() {
        Some(Ok(StepResult::Continue)) => {
            i.steps += 1;
            if i.steps > 2_000_000 {
                i.ev.push("BUDGET".into());
                i.done = true;
                return;
            }
            i.r = Some(i.interp.step());
        }
        Some(Ok(StepResult::Suspended { pending, cancelled })) => {
            i.ev.push(format!("S@{}:{}:{}", i.steps, pending.iter().map(|o| o.id.0.to_string()).collect::<Vec<_>>().join(","), cancelled.len()));
            if pending.is_empty() {
                i.ev.push("STUCK".into());
                i.done = true;
                return;
            }
            let responses = pending.iter().map(|o| OrderResponse { id: o.id, result: Ok(RuntimeValue::unguarded(JsValue::Number(100.0 + o.id.0 as f64))) }).collect();
            i.interp.fulfill_orders(responses);
            i.r = Some(i.interp.step());
        }
        Some(Ok(StepResult::Complete(v))) => {
            i.ev.push(format!("C@{}:{}", i.steps, prog::show_value(v.value())));
            if !i.mods.is_empty() {
                i.ev.push(format!("X:{}", i.interp.get_export_names().join(",")));
            }
            i.done = true;
        }
        Some(Ok(StepResult::NeedImports(reqs))) => {
            let names: Vec<String> = reqs.iter().map(|q| q.resolved_path.as_str().to_string()).collect();
            i.ev.push(format!("N@{}:{}", i.steps, names.join(",")));
            let mut any = false;
            for n in &names {
                if let Some(src) = i.mods.get(n) {
                    any |= i.interp.provide_module(tsrun::ModulePath::new(n.clone()), src).is_ok();
                }
            }
            if !any {
                i.ev.push("NEED".into());
                i.done = true;
                return;
            }
            i.r = Some(i.interp.step());
        }
        Some(Ok(StepResult::Done)) => {
            i.ev.push("D".into());
            i.done = true;
        }
        Some(Err(e)) => {
            i.ev.push(format!("E@{}:{}", i.steps, prog::error_class(&e)));
            i.done = true;
        }
        None => i.done = true,
    }
}

fn transcript(i: &Inst) -> String {
    format!("{} L:{}", i.ev.join("|"), prog::esc(&i.log.borrow().join("\u{1}")))
}

fn churn_lifetimes(k: u64) {
    // create, run, fail and drop other instances first (perturbs allocator state and any would-be global state)
    for j in 0..k {
        let mut junk = new_inst(if j % 3 == 0 { "const a = []; for (let i = 0; i < 200; i++) a.push({i}); throw new Error('junk');" } else { "let s = 0; for (let i = 0; i < 50; i++) s += i; Symbol('x'); s" });
        for _ in 0..(50 + j * 37) {
            advance(&mut junk);
        }
        if j % 2 == 0 {
            std::mem::forget(Box::new([0u8; 4096])); // shift the heap a little
        }
    }
}

fn multitask(n: u64) -> String {
    // n top-level tasks on ONE interpreter, each suspended on its own continuation of one host promise;
    // the host resolves it once, all become ready together
    let (mut interp, _log) = prog::new_interp();
    let event = api::create_promise(&mut interp);
    let ev_name = interp.intern("event");
    interp.env_define(ev_name, event.value().clone(), false);
    let _ = interp.eval("(globalThis as any).tasklog = [];", None);
    for i in 0..n {
        let src = format!("const v{} = await event.then((x: number) => x + {}); (globalThis as any).tasklog.push(v{});", i, i, i);
        let mut r = interp.prepare(&src, None);
        let mut k = 0;
        loop {
            k += 1;
            match r {
                Ok(StepResult::Continue) if k < 100000 => r = interp.step(),
                _ => break,
            }
        }
    }
    let p = RuntimeValue::unguarded(event.value().clone());
    let _ = api::resolve_promise(&mut interp, &p, RuntimeValue::unguarded(JsValue::Number(1000.0)));
    let mut k = 0;
    loop {
        k += 1;
        match interp.step() {
            Ok(StepResult::Continue) if k < 1_000_000 => {}
            Ok(StepResult::Suspended { .. }) if k < 1_000_000 => {}
            _ => break,
        }
        if k > 200000 {
            break;
        }
    }
    match interp.eval("(globalThis as any).tasklog.join(',')", None) {
        Ok(StepResult::Complete(v)) => prog::show_value(v.value()),
        Ok(_) => "OTHER".into(),
        Err(e) => format!("ERR {}", prog::error_class(&e)),
    }
}

/// line: JSON {"progs": [src…], "variant": "solo"|"interleave"|"threads"|"lifetimes"|"multitask", "schedule": [idx…], "churn": k, "tasks": n}
/// output: transcripts joined by '\t'
pub fn line(l: &str) -> String {
    let v: serde_json::Value = match serde_json::from_str(l) {
        Ok(v) => v,
        Err(_) => return "bad-case".into(),
    };
    let progs: Vec<String> = v["progs"].as_array().map(|a| a.iter().map(|x| x.as_str().unwrap_or("").to_string()).collect()).unwrap_or_default();
    let variant = v["variant"].as_str().unwrap_or("solo");
    let churn = v["churn"].as_u64().unwrap_or(0);
    if churn > 0 {
        churn_lifetimes(churn);
    }
    match variant {
        "multitask" => multitask(v["tasks"].as_u64().unwrap_or(8)),
        "threads" => {
            let hs: Vec<_> = progs
                .into_iter()
                .map(|p| {
                    std::thread::Builder::new().stack_size(64 << 20).spawn(move || {
                        let mut i = new_inst(&p);
                        while !i.done {
                            advance(&mut i);
                        }
                        transcript(&i)
                    })
                })
                .collect();
            hs.into_iter().map(|h| h.ok().and_then(|h| h.join().ok()).unwrap_or_else(|| "THREAD-PANIC".into())).collect::<Vec<_>>().join("\t")
        }
        "interleave" => {
            let mut insts: Vec<Inst> = progs.iter().map(|p| new_inst(p)).collect();
            let sched: Vec<usize> = v["schedule"].as_array().map(|a| a.iter().filter_map(|x| x.as_u64().map(|y| y as usize)).collect()).unwrap_or_default();
            let n = insts.len().max(1);
            for s in sched {
                if let Some(i) = insts.get_mut(s % n) {
                    advance(i);
                }
            }
            // finish round robin
            loop {
                let mut any = false;
                for i in insts.iter_mut() {
                    if !i.done {
                        advance(i);
                        any = true;
                    }
                }
                if !any {
                    break;
                }
            }
            // drop in an arbitrary order
            let out = insts.iter().map(transcript).collect::<Vec<_>>().join("\t");
            insts.reverse();
            out
        }
        _ => progs
            .iter()
            .map(|p| {
                let mut i = new_inst(p);
                while !i.done {
                    advance(&mut i);
                }
                transcript(&i)
            })
            .collect::<Vec<_>>()
            .join("\t"),
    }
}
