//! tvharness: runs the real tsrun code on case lines and prints canonical observations.
use std::io::{self, BufRead, Write};

mod budget;
mod entry;
mod erase;
mod ffi;
mod heap;
mod iso;
mod json;
mod life;
mod modl;
mod num;
mod orders;
mod parse;
mod path;
mod pos;
mod pratt;
mod compile;
mod prog;
mod regalloc;
mod susp;

fn main() {
    let args: Vec<String> = std::env::args().collect();
    let model = args.get(1).map(|s| s.as_str()).unwrap_or("");
    let stdin = io::stdin();
    let stdout = io::stdout();
    let mut out = io::BufWriter::new(stdout.lock());
    let f: fn(&str) -> String = match model {
        "path" => path::line,
        "budget" => budget::line,
        "entry" => entry::line,
        "erase" => erase::line,
        "ffi" => ffi::line,
        "roles" => entry::roles_line,
        "heap" => heap::line,
        "iso" => iso::line,
        "life" => life::line,
        "orders" => orders::line,
        "parse" => parse::line,
        "mod" => modl::line,
        "pos" => pos::line,
        "pratt" => pratt::line,
        "compile" => compile::line,
        "prog" => prog::line,
        "proge" => prog::line_escaped,
        "regalloc" => regalloc::line,
        "susp" => susp::line,
        "json" => json::line,
        "num" => num::line,
        _ => {
            eprintln!("usage: tvharness <model>");
            std::process::exit(2);
        }
    };
    for line in stdin.lock().lines() {
        let line = line.unwrap_or_default();
        let r = std::panic::catch_unwind(|| f(&line)).unwrap_or_else(|_| "PANIC".to_string());
        let _ = writeln!(out, "{}", r);
        let _ = out.flush();
    }
}
