//! C13: drive the real `Heap/Guard/Gc` with a history and print canonical observations.
//!
//! case line: ops separated by ';'
//!   G            create guard                 D<g>        drop guard g
//!   A<g>         h := guard g .alloc()        g<g>,<h>    guard g .guard(handle h .clone())
//!   u<g>,<h>     guard g .unguard(&handle h)  c<g>        guard g .clear()
//!   L<a>,<b>     handle a .links.push(handle b .clone())
//!   U<a>,<p>     handle a .links.remove(p)    W<a>,<v>    handle a .val = v
//!   K<h>         new handle := handle h .clone()           X<h>  drop handle h
//!   C            heap.collect()               T<n>        heap.set_gc_threshold(n)
//!   H            drop the heap                S           full dump
//! output: per-op observations joined by '|'.
use std::collections::HashMap;
use tsrun::gc::{Gc, GcPtr, Guard, Heap, Reset, Traceable};

#[derive(Default)]
pub struct Node {
    val: u64,
    links: Vec<Gc<Node>>,
}

impl Reset for Node {
    fn reset(&mut self) {
        self.val = 0;
        self.links.clear();
    }
}

impl Traceable for Node {
    fn trace<F: FnMut(GcPtr<Self>)>(&self, mut visitor: F) {
        for l in &self.links {
            visitor(l.copy_ref());
        }
    }
}

struct World {
    heap: Option<Heap<Node>>,
    guards: Vec<Option<Guard<Node>>>,
    handles: Vec<Option<Gc<Node>>>,
    ids: HashMap<usize, usize>,
}

impl World {
    fn ord(&mut self, id: usize) -> usize {
        let n = self.ids.len();
        *self.ids.entry(id).or_insert(n)
    }

    fn view(&mut self, h: usize) -> String {
        if self.heap.is_none() {
            return "dead".into();
        }
        let Some(Some(gc)) = self.handles.get(h) else {
            return "-".into();
        };
        let gc = gc.clone();
        let slot = self.ord(gc.id());
        let (val, link_ids): (u64, Vec<usize>) = {
            let b = gc.borrow();
            (b.val, b.links.iter().map(|l| l.id()).collect())
        };
        let links: Vec<String> = link_ids.into_iter().map(|i| self.ord(i).to_string()).collect();
        format!("{}:{}:[{}]", slot, val, links.join(","))
    }

    fn stats(&self) -> String {
        match &self.heap {
            Some(h) => {
                let s = h.stats();
                format!("{},{},{}", s.total_objects, s.pooled_objects, s.live_objects)
            }
            None => "dead".into(),
        }
    }

    fn dump(&mut self) -> String {
        let mut parts = vec![self.stats()];
        let gl: Vec<String> = self
            .guards
            .iter()
            .map(|g| match g {
                Some(g) => g.len().to_string(),
                None => "x".into(),
            })
            .collect();
        parts.push(format!("g[{}]", gl.join(",")));
        for h in 0..self.handles.len() {
            if matches!(self.handles.get(h), Some(Some(_))) {
                let v = self.view(h);
                parts.push(format!("h{}={}", h, v));
            }
        }
        parts.join(" ")
    }
}

fn nums(s: &str) -> Vec<usize> {
    s.split(',').filter_map(|x| x.parse().ok()).collect()
}

pub fn line(l: &str) -> String {
    let mut w = World { heap: Some(Heap::new()), guards: vec![], handles: vec![], ids: HashMap::new() };
    let mut out: Vec<String> = Vec::new();
    for op in l.split(';') {
        if op.is_empty() {
            continue;
        }
        let (k, rest) = op.split_at(1);
        let a = nums(rest);
        let obs: String = match (k, a.as_slice()) {
            ("G", []) => match &w.heap {
                Some(h) => {
                    w.guards.push(Some(h.create_guard()));
                    w.stats()
                }
                None => "bad-op".into(),
            },
            ("D", [g]) => match w.guards.get_mut(*g) {
                Some(slot @ Some(_)) => {
                    *slot = None;
                    w.stats()
                }
                _ => "bad-op".into(),
            },
            ("A", [g]) => {
                if w.heap.is_none() {
                    "bad-op".into()
                } else {
                    match w.guards.get(*g) {
                        Some(Some(gd)) => {
                            let gc = gd.alloc();
                            w.handles.push(Some(gc));
                            let h = w.handles.len() - 1;
                            format!("{} {}", w.stats(), w.view(h))
                        }
                        _ => "bad-op".into(),
                    }
                }
            }
            ("g", [g, h]) => match (w.guards.get(*g), w.handles.get(*h)) {
                (Some(Some(gd)), Some(Some(gc))) => {
                    gd.guard(gc.clone());
                    format!("{}", gd.len())
                }
                _ => "bad-op".into(),
            },
            ("u", [g, h]) => match (w.guards.get(*g), w.handles.get(*h)) {
                (Some(Some(gd)), Some(Some(gc))) => {
                    let r = gd.unguard(gc);
                    format!("{} {}", r, gd.len())
                }
                _ => "bad-op".into(),
            },
            ("c", [g]) => match w.guards.get(*g) {
                Some(Some(gd)) => {
                    gd.clear();
                    format!("{}", gd.len())
                }
                _ => "bad-op".into(),
            },
            ("L", [x, y]) => {
                if w.heap.is_none() {
                    "dead".into()
                } else {
                    match (w.handles.get(*x), w.handles.get(*y)) {
                        (Some(Some(ga)), Some(Some(gb))) => {
                            let c = gb.clone();
                            ga.borrow_mut().links.push(c);
                            w.view(*x)
                        }
                        _ => "bad-op".into(),
                    }
                }
            }
            ("U", [x, p]) => {
                if w.heap.is_none() {
                    "dead".into()
                } else {
                    match w.handles.get(*x) {
                        Some(Some(ga)) => {
                            let removed = {
                                let mut b = ga.borrow_mut();
                                if *p < b.links.len() { Some(b.links.remove(*p)) } else { None }
                            };
                            drop(removed);
                            w.view(*x)
                        }
                        _ => "bad-op".into(),
                    }
                }
            }
            ("W", [x, v]) => {
                if w.heap.is_none() {
                    "dead".into()
                } else {
                    match w.handles.get(*x) {
                        Some(Some(ga)) => {
                            ga.borrow_mut().val = *v as u64;
                            w.view(*x)
                        }
                        _ => "bad-op".into(),
                    }
                }
            }
            ("K", [h]) => match w.handles.get(*h) {
                Some(Some(gc)) => {
                    let c = gc.clone();
                    w.handles.push(Some(c));
                    let n = w.handles.len() - 1;
                    w.view(n)
                }
                _ => "bad-op".into(),
            },
            ("X", [h]) => match w.handles.get_mut(*h) {
                Some(slot @ Some(_)) => {
                    *slot = None;
                    w.stats()
                }
                _ => "bad-op".into(),
            },
            ("C", []) => match &w.heap {
                Some(h) => {
                    h.collect();
                    w.dump()
                }
                None => "dead".into(),
            },
            ("T", [n]) => match &w.heap {
                Some(h) => {
                    h.set_gc_threshold(*n);
                    "ok".into()
                }
                None => "dead".into(),
            },
            ("H", []) => {
                w.heap = None;
                "dead".into()
            }
            ("S", []) => w.dump(),
            _ => "bad-op".into(),
        };
        out.push(obs);
    }
    // teardown order as a host would: handles, guards, heap (any order must be safe)
    out.join("|")
}
