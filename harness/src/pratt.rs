//! C01 (operator grammar): parse one expression statement with the real parser and print the tree of
//! binary / logical / prefix-unary / parenthesised nodes as an S-expression (the model's `showE`).
use tsrun::ast::{Expression, Statement};
use tsrun::parser::Parser;
use tsrun::StringDict;

fn show(e: &Expression, out: &mut String) {
    match e {
        Expression::Identifier(id) => out.push_str(id.name.as_str()),
        Expression::Parenthesized(inner, _) => {
            out.push_str("(P ");
            show(inner, out);
            out.push(')');
        }
        Expression::Unary(u) if u.prefix => {
            out.push_str(&format!("(U {:?} ", u.operator));
            show(&u.argument, out);
            out.push(')');
        }
        Expression::Binary(b) => {
            out.push_str(&format!("(B {:?} ", b.operator));
            show(&b.left, out);
            out.push(' ');
            show(&b.right, out);
            out.push(')');
        }
        Expression::Logical(b) => {
            out.push_str(&format!("(B {:?} ", b.operator));
            show(&b.left, out);
            out.push(' ');
            show(&b.right, out);
            out.push(')');
        }
        other => {
            let d = format!("{:?}", other);
            out.push_str("?");
            out.push_str(d.split(['(', ' ', '{']).next().unwrap_or(""));
        }
    }
}

/// line: the expression text → S-expression, `error` for a syntax error, `?shape` when the text is
/// not a single expression statement
pub fn line(l: &str) -> String {
    let mut dict = StringDict::new();
    let program = match Parser::new(l, &mut dict).parse_program() {
        Ok(p) => p,
        Err(_) => return "error".into(),
    };
    if program.body.len() != 1 {
        return format!("?shape {} statements", program.body.len());
    }
    match program.body.first() {
        Some(Statement::Expression(es)) => {
            let mut out = String::new();
            show(&es.expression, &mut out);
            out
        }
        _ => "?shape not an expression statement".into(),
    }
}
