//! C10: the real RegisterAllocator and constant pool of BytecodeBuilder under an op sequence.
use tsrun::JsString;
use tsrun::compiler::{BytecodeBuilder, Constant};

pub fn line(l: &str) -> String {
    let mut b = BytecodeBuilder::new();
    let mut out: Vec<String> = Vec::new();
    let mut issued: Vec<(u16, String)> = Vec::new();
    for op in l.split(';') {
        if op.is_empty() {
            continue;
        }
        let (k, rest) = op.split_at(1);
        let arg: usize = rest.parse().unwrap_or(0);
        let tail = |b: &mut BytecodeBuilder| format!("@{},{}", b.registers().current(), b.registers().max_used());
        let o = match k {
            "a" => match b.alloc_register() {
                Ok(r) => format!("{}{}", r, tail(&mut b)),
                Err(_) => format!("E{}", tail(&mut b)),
            },
            "f" => {
                b.free_register(arg as u8);
                format!("-{}", tail(&mut b))
            }
            "r" => match b.reserve_registers_for(arg) {
                Ok(r) => format!("{}{}", r, tail(&mut b)),
                Err(_) => format!("E{}", tail(&mut b)),
            },
            "s" => {
                b.registers().save();
                format!("-{}", tail(&mut b))
            }
            "t" => {
                b.registers().restore();
                format!("-{}", tail(&mut b))
            }
            "N" => match b.add_number(arg as f64 + 0.5) {
                Ok(i) => {
                    issued.push((i, format!("n{}", arg)));
                    format!("{}#", i)
                }
                Err(_) => "E#".to_string(),
            },
            "S" => match b.add_string(JsString::from(format!("s{}", arg))) {
                Ok(i) => {
                    issued.push((i, format!("s{}", arg)));
                    format!("{}#", i)
                }
                Err(_) => "E#".to_string(),
            },
            "C" => match b.add_constant(Constant::Number(arg as f64 + 0.25)) {
                Ok(i) => {
                    issued.push((i, format!("c{}", arg)));
                    format!("{}#", i)
                }
                Err(_) => "E#".to_string(),
            },
            _ => "bad-op".to_string(),
        };
        out.push(o);
    }
    // the pool length after each pool op is not observable cheaply; patch it in from the final chunk
    let chunk = b.finish();
    // every issued index must still address its constant
    let mut bad = 0usize;
    for (i, what) in &issued {
        let ok = match chunk.constants.get(*i as usize) {
            Some(Constant::Number(x)) => {
                (what.starts_with('n') && what[1..].parse::<f64>().ok().map(|v| v + 0.5) == Some(*x))
                    || (what.starts_with('c') && what[1..].parse::<f64>().ok().map(|v| v + 0.25) == Some(*x))
            }
            Some(Constant::String(s)) => what == s.as_str(),
            _ => false,
        };
        if !ok {
            bad += 1;
        }
    }
    format!("{}|L{}|bad{}", out.join("|"), chunk.constants.len(), bad)
}
