"""C01 — programs in the supported core evaluate as ECMAScript specifies (DESIGN.md §4 C01).

PROOF   Props/C01.lean: the operator/coercion algebra of M-Ops (symmetry of the equalities, NaN rules, string
        concatenation, the equivalent spellings of + - > >= != !==) and the completion-record semantics of M-Ctl
        (finally keeps / overrides the pending completion, catch binds the thrown value, break/continue find their
        own label, the temporal dead zone).
CORR    M-Ops == tsrun on the full cross product of primitive operands x modelled operators; M-Ctl == tsrun on
        generated control-flow programs (generator written in Lean, `tvdriver ctl <seed>`).
PROP    tsrun == reference engine on (a) operators over objects/arrays/functions as well, (b) the built-in library
        over numbers, strings, arrays, objects, Map/Set, JSON, RegExp, Date with boundary arguments, (c) feature
        programs (closures, classes, destructuring, generators, exceptions, iteration protocols);
        and, needing no reference at all, (d) equivalent spellings give equal results on tsrun.
The reference is node when a node binary is present; the committed golden file (data/c01_golden.json.gz, written
from node with bin/c01-golden) otherwise, and the two are compared when both exist.
"""
import gzip
import hashlib
import json
import os
import re
import shutil
import subprocess
from concurrent.futures import ThreadPoolExecutor
from . import common
from . import c01_corpus as corpus

LEAN_TARGETS = ["TsrunVerif.Props.C01"]
THEOREMS = ["TsrunVerif.Ops." + t for t in [
    "numEq_symm", "strictEq_symm", "looseEq_symm", "looseEq_of_strictEq", "nan_never_equal", "null_looseEq_iff", "typeOf_closed",
    "plus_string_left", "plus_string_right", "add_comm", "neg_neg", "lt_irrefl", "nan_relational_false", "not_not",
    "unary_plus_forms", "neg_eq_mul_minus_one", "neg_ne_zero_minus", "swapped_relational", "negated_equality", "le_is_not_gt",
    "toInt32_range", "toUint32_toInt32", "bitor_zero", "double_not", "ushr_zero_idem", "bitwise_comm", "shift_count_mod32"]] + \
    ["TsrunVerif.Ctl." + t for t in [
        "finally_normal_keeps_pending", "finally_abrupt_overrides", "catch_binds_thrown", "loop_break_own_label",
        "loop_break_foreign_label", "tdz_shadows_outer"]]
ASSUMPTIONS = [
    "M-Ops is a transcription of ECMA-262 (ToBoolean, ToNumber, ToString, typeof, unary + - !, Number::add/subtract/multiply, IsLessThan, IsLooselyEqual, IsStrictlyEqual, "
    "ApplyStringOrNumericBinaryOperator for +, the short-circuit operators) over undefined, null, booleans, ASCII strings and the numbers NaN, +-Infinity, -0 and integers below 2^53 "
    "(arithmetic exact there); string-to-number covers decimal integers, 0x hex, Infinity and whitespace trimming. Objects, symbols, bigint, fractions and / % ** are not in the model "
    "(fractions: M-Num of C15); they are compared with the reference engine instead",
    "M-Ctl is a small-step-free (fuel-structural) definitional interpreter for blocks, let with temporal dead zone, assignment, if, labelled while with break/continue, labelled blocks, switch with fall-through and default, "
    "return, throw, try/catch/finally with ECMAScript completion records, over integer values; the program generator is written in Lean next to it and its programs are rendered to JavaScript text",
    "the reference engine is node (V8) when present, run in a fresh vm context per program; otherwise the golden outputs recorded from node. Where the specification leaves a result implementation-defined or "
    "implementation-approximated (localeCompare collation, Date.parse of non-ISO text, the last digits of Math.pow/exp/log/trig/hypot/cbrt and **, toString(radix) beyond 2^55) the comparison is relaxed or skipped, as listed in checks/c01_corpus.py",
    "results are compared through an in-program canonical printer (type-tagged, -0 distinguished, holes distinguished, object keys sorted, Map/Set/iterators expanded, depth 4); errors are compared by class name only",
    "the cross products are enumerated exhaustively over fixed operand lists; argument tuples of arity >= 2 and the feature programs' parameters are sampled (seeded)",
]

GOLDEN = os.path.join(common.ROOT, "data", "c01_golden.json.gz")

NODE_DRIVER = r"""
const vm = require('vm'); const rl = require('readline').createInterface({input: process.stdin});
rl.on('line', l => { let out; try { const src = JSON.parse(l); const v = vm.runInNewContext(src, {}, {timeout: 10000}); out = 'OK ' + String(v); } catch (e) { out = 'ERR ' + (e && e.name); } console.log(JSON.stringify(out)); });
"""

SEP = "\u0001"


def esc(src):
    return src.replace("\\", "\\\\").replace("\n", "\\n").replace("\t", "\\t").replace("\r", "\\r")


def unesc(t):
    out = []
    i = 0
    while i < len(t):
        c = t[i]
        if c == "\\" and i + 1 < len(t):
            n = t[i + 1]
            out.append({"n": "\n", "t": "\t", "r": "\r", "\\": "\\"}.get(n, "\\" + n))
            i += 2
        else:
            out.append(c)
            i += 1
    return "".join(out)


def run_tsrun(progs, timeout=600):
    """-> list of 'OK <string value>' / 'ERR <class>' / 'CRASH' ..."""
    outs = common.harness(["proge"], [esc(p) for p in progs], timeout=timeout)
    res = []
    for o in outs:
        o = o.split(" | ")[0] if " | " in o else o.rstrip(" |")
        if o.startswith("OK s:"):
            res.append("OK " + unesc(o[5:]))
        elif o.startswith("OK "):
            res.append("OK " + unesc(o[3:]))
        elif o.startswith("ERR "):
            res.append("ERR " + o.split(" ")[1])
        else:
            res.append(o)
    return res


def run_node(node, progs, timeout=900):
    def part(ps):
        try:
            pr = subprocess.run([node, "-e", NODE_DRIVER], input="\n".join(json.dumps(p) for p in ps) + "\n",
                                stdout=subprocess.PIPE, stderr=subprocess.PIPE, text=True, timeout=timeout)
        except subprocess.TimeoutExpired:
            return ["NODE-TIMEOUT"] * len(ps)
        o = [json.loads(x) for x in pr.stdout.split("\n") if x]
        return o + ["NODE-MISSING"] * (len(ps) - len(o))
    n = len(progs)
    if n == 0:
        return []
    chunk = max(1, (n + common.NCPU - 1) // common.NCPU)
    parts = [progs[i:i + chunk] for i in range(0, n, chunk)]
    with ThreadPoolExecutor(max_workers=common.NCPU) as ex:
        outs = list(ex.map(part, parts))
    return [x for o in outs for x in o]


STRICT = "'use strict';\n"


def batch_program(exprs):
    lines = ["'use strict';", corpus.SHOW, "const out=[];"]
    for e in exprs:
        lines.append("try{out.push(show(%s));}catch(e){out.push('E:'+(e&&e.name));}" % e)
    lines.append("out.join('\\u0001')")
    return "\n".join(lines)


def eval_exprs(runner, exprs, size=100):
    """evaluate each expression (batched, a failing batch is re-run expression by expression)"""
    chunks = [exprs[i:i + size] for i in range(0, len(exprs), size)]
    outs = runner([batch_program(c) for c in chunks])
    res = [None] * len(exprs)
    redo = []
    pos = 0
    for c, o in zip(chunks, outs):
        vals = o[3:].split(SEP) if o.startswith("OK ") else None
        if vals is not None and len(vals) == len(c):
            for k, v in enumerate(vals):
                res[pos + k] = v
        else:
            redo.extend(range(pos, pos + len(c)))
        pos += len(c)
    if redo:
        outs = runner([batch_program([exprs[i]]) for i in redo])
        for i, o in zip(redo, outs):
            res[i] = o[3:] if o.startswith("OK ") else "X:" + o
    return res


# ---------------------------------------------------------------- comparison with tolerance
NUM = re.compile(r"n:(-?[0-9][0-9.]*(?:e[+-]?[0-9]+)?)")


def close_enough(a, b):
    """equal up to the last digits of the numbers in it (for implementation-approximated functions)"""
    if a == b:
        return True
    xa, xb = NUM.split(a), NUM.split(b)
    if len(xa) != len(xb):
        return False
    for i, (p, q) in enumerate(zip(xa, xb)):
        if i % 2 == 0:
            if p != q:
                return False
        else:
            try:
                u, v = float(p), float(q)
            except ValueError:
                return False
            if u != v and abs(u - v) > 4e-15 * max(abs(u), abs(v)):
                return False
    return True


def matches_finding(f, case, what, extra):
    if f.get("kind") != "site" or not isinstance(case, dict):
        return False
    for fld, key in (("expr_re", "expr"), ("tsrun_re", "tsrun"), ("ref_re", "ref")):
        pat = f.get(fld)
        if pat and not re.search(pat, case.get(key, "") or "", re.S):
            return False
    return bool(f.get("expr_re") or f.get("tsrun_re") or f.get("ref_re"))


def load_golden():
    try:
        with gzip.open(GOLDEN, "rt", encoding="utf-8") as f:
            return json.load(f)
    except OSError:
        return {}


def key_of(src):
    return hashlib.blake2b(src.encode("utf-8", "surrogatepass"), digest_size=10).hexdigest()


class Reference:
    """node when present, the golden file otherwise; counts how often each was used."""

    def __init__(self, ctx):
        self.node = None if os.environ.get("C01_NO_NODE") else shutil.which("node")
        self.golden = load_golden()
        self.ctx = ctx
        self.stats = {"node": 0, "golden": 0, "none": 0, "golden_vs_node_differs": 0}
        self.new = {}

    def exprs(self, exprs):
        if self.node:
            got = eval_exprs(lambda ps: run_node(self.node, ps), exprs)
            for e, g in zip(exprs, got):
                k = key_of("E" + e)
                self.new[k] = g
                if k in self.golden and self.golden[k] != g:
                    self.stats["golden_vs_node_differs"] += 1
            self.stats["node"] += len(exprs)
            return got
        res = []
        for e in exprs:
            g = self.golden.get(key_of("E" + e))
            self.stats["golden" if g is not None else "none"] += 1
            res.append(g)
        return res

    def programs(self, progs):
        if self.node:
            got = run_node(self.node, progs)
            for p, g in zip(progs, got):
                k = key_of("P" + p)
                self.new[k] = g
                if k in self.golden and self.golden[k] != g:
                    self.stats["golden_vs_node_differs"] += 1
            self.stats["node"] += len(progs)
            return got
        res = []
        for p in progs:
            g = self.golden.get(key_of("P" + p))
            self.stats["golden" if g is not None else "none"] += 1
            res.append(g)
        return res


# ---------------------------------------------------------------- the parts
def part_ops(ctx, ref):
    """CORR: M-Ops == tsrun (== reference) on primitive operands x modelled operators"""
    operands = corpus.model_operands(ctx.rng, 24 if ctx.tier == "quick" else 90)
    lines, exprs = [], []
    def intval(t):
        try:
            return int(t[1:]) if t[0] == "n" else None
        except ValueError:
            return None
    for op in corpus.MODEL_BIN:
        for a in operands:
            for b in operands:
                if op == "*" and intval(a) is not None and intval(b) is not None and abs(intval(a) * intval(b)) >= 2 ** 53:
                    continue        # outside the model's exact range (doubles round there): M-Num / C15 territory
                lines.append("B\t%s\t%s\t%s" % (op, a, b))
                exprs.append("(%s) %s (%s)" % (corpus.token_js(a), op, corpus.token_js(b)))
    for op in corpus.MODEL_UN:
        for a in operands:
            lines.append("U\t%s\t%s" % (op, a))
            exprs.append("%s (%s)" % (op, corpus.token_js(a)))
    model = common.driver(["ops"], lines)
    got = eval_exprs(run_tsrun, exprs, size=200)
    refv = ref.exprs(exprs) if ref.node else [None] * len(exprs)
    seen = set()
    for l, e, m, g, r in zip(lines, exprs, model, got, refv):
        ctx.cov["evaluations"] += 1
        ctx.cov["traces_validated_against_impl"] += 1
        seen.add(m)
        mm = corpus.model_show_to_js(m)
        if m in ("unmodelled", "bad-case"):
            ctx.corr_fail("M-Ops driver rejected a generated case", l, m, g)
            continue
        if r is not None and mm != r:
            # the model disagrees with the reference engine: the model is wrong (or the reference is)
            ctx.corr_fail("M-Ops differs from the reference engine", e, mm, r)
            continue
        if mm != g:
            # model (= specification, = reference) says mm, tsrun says g: a property violation with its witness
            ctx.prop_fail("operator: tsrun differs from M-Ops (and the reference engine)", {"expr": e, "tsrun": g, "ref": mm, "model_case": l})
    ctx.cov["distinct_nontrivial"] += len(seen)
    ctx.notes.append("ops: %d operands x %d binary + %d unary operators = %d cases" % (len(operands), len(corpus.MODEL_BIN), len(corpus.MODEL_UN), len(lines)))


def part_ctl(ctx, ref):
    """CORR: M-Ctl == tsrun (== reference) on generated control-flow programs"""
    n = 400 if ctx.tier == "quick" else 6000
    base = ctx.seed * 100000
    seeds = [str(base + i) for i in range(1, n + 1)]
    out = common.driver(["ctl"], seeds)
    progs, expect = [], []
    for o in out:
        p = o.split("\t")
        if len(p) != 2:
            ctx.corr_fail("M-Ctl driver output malformed", o[:200], "", "")
            return
        progs.append(unesc(p[0]))
        expect.append("OK " + p[1])
    got = run_tsrun(progs)
    refv = ref.programs(progs) if ref.node else [None] * len(progs)
    feats = {}
    for sd, p, m, g, r in zip(seeds, progs, expect, got, refv):
        ctx.cov["evaluations"] += 1
        ctx.cov["traces_validated_against_impl"] += 1
        for kw in ("finally", "catch", "switch", "continue", "break", "return", "throw", "RefErr", "while"):
            if kw in p or kw in m:
                feats[kw] = feats.get(kw, 0) + 1
        if "FUEL" in m:
            continue
        if r is not None and r != m:
            ctx.corr_fail("M-Ctl differs from the reference engine", {"seed": sd, "program": p[:3000]}, m, r)
            continue
        if g != m:
            ctx.prop_fail("control flow: tsrun differs from M-Ctl (and the reference engine)", {"expr": p[:4000], "tsrun": g[:600], "ref": m[:600], "ctl_seed": sd})
    ctx.cov["distinct_nontrivial"] += len(set(expect))
    ctx.notes.append("ctl: %d programs; constructs seen: %s" % (n, json.dumps(feats, sort_keys=True)))


def compare_ref(ctx, kind, items, got, refv, approx=lambda e: False):
    miss = 0
    for e, g, r in zip(items, got, refv):
        ctx.cov["evaluations"] += 1
        if r is None:
            miss += 1
            continue
        if g == r or (approx(e) and close_enough(g, r)):
            continue
        ctx.prop_fail("%s: tsrun differs from the reference engine" % kind, {"expr": e[:4000], "tsrun": g[:800], "ref": r[:800]})
    return miss


def part_operators(ctx, ref):
    """PROP: every operator over every operand shape (objects, arrays, functions, wrappers too)"""
    exprs = corpus.operator_exprs(ctx.rng, ctx.tier)
    got = eval_exprs(run_tsrun, exprs, size=200)
    refv = ref.exprs(exprs)
    miss = compare_ref(ctx, "operator", exprs, got, refv, approx=lambda e: "**" in e)
    ctx.cov["distinct_nontrivial"] += len(set(got))
    ctx.notes.append("operators: %d expressions (%d without reference)" % (len(exprs), miss))


def part_library(ctx, ref):
    """PROP: built-in library calls with boundary arguments"""
    exprs = corpus.library_exprs(ctx.rng, ctx.tier)
    got = eval_exprs(run_tsrun, exprs, size=100)
    refv = ref.exprs(exprs)
    miss = compare_ref(ctx, "library", exprs, got, refv, approx=corpus.is_approximated)
    ctx.cov["distinct_nontrivial"] += len(set(got))
    fams = {}
    for e in exprs:
        m = re.search(r"\.([A-Za-z0-9]+)\(", e)
        fams[m.group(1) if m else "?"] = fams.get(m.group(1) if m else "?", 0) + 1
    ctx.notes.append("library: %d calls over %d entry points (%d without reference)" % (len(exprs), len(fams), miss))


def part_forms(ctx, ref):
    """PROP without a reference: equivalent spellings give equal results on tsrun"""
    pairs = corpus.form_pairs(ctx.rng, ctx.tier)
    exprs = [x for p in pairs for x in (p[1], p[2])]
    got = eval_exprs(run_tsrun, exprs, size=100)
    for i, (name, a, b) in enumerate(pairs):
        ctx.cov["evaluations"] += 1
        ga, gb = got[2 * i], got[2 * i + 1]
        if ga != gb:
            ctx.prop_fail("forms: two spellings of the same thing differ (%s)" % name, {"expr": a + "   ~   " + b, "tsrun": ga[:600] + "   ~   " + gb[:600], "ref": "(equal)"})
    ctx.cov["distinct_nontrivial"] += len(set(got))
    ctx.notes.append("forms: %d pairs over %d families" % (len(pairs), len(set(p[0] for p in pairs))))


def part_programs(ctx, ref):
    """PROP: feature programs (closures, classes, destructuring, generators, exceptions, protocols)"""
    progs = [STRICT + p for p in corpus.feature_programs(ctx.rng, ctx.tier)]
    got = run_tsrun(progs)
    refv = ref.programs(progs)
    miss = 0
    for p, g, r in zip(progs, got, refv):
        ctx.cov["evaluations"] += 1
        if r is None:
            miss += 1
            continue
        if g == r:
            continue
        body = p[p.index("try { ") + 6:] if "try { " in p else p
        gl, rl = g.split("\n"), r.split("\n")
        # every out(...) call is one line: report each differing line (the first one when the line counts differ)
        diffs = [(x, y) for x, y in zip(gl, rl) if x != y]
        if len(gl) != len(rl):
            k = next((i for i, (x, y) in enumerate(zip(gl, rl)) if x != y), min(len(gl), len(rl)))
            diffs = [(gl[k] if k < len(gl) else "<no more output>", rl[k] if k < len(rl) else "<no more output>")]
        for x, y in diffs:
            ctx.prop_fail("program: tsrun differs from the reference engine", {"expr": body[:4000], "tsrun": x[:800], "ref": y[:800]})
    ctx.cov["distinct_nontrivial"] += len(set(got))
    ctx.notes.append("programs: %d feature programs (%d without reference)" % (len(progs), miss))


def run(ctx):
    ctx.cov["rule"] = ("CORR: M-Ops / M-Ctl (Lean) == tsrun on every generated case, and == the reference engine when one is present; "
                       "PROP: tsrun == reference engine (node, else golden outputs recorded from node) on operators x operand shapes, library calls and feature programs, "
                       "and equal results for equivalent spellings (no reference needed)")
    if not ctx.build_harness():
        return
    ref = Reference(ctx)
    part_ops(ctx, ref)
    part_ctl(ctx, ref)
    part_operators(ctx, ref)
    part_library(ctx, ref)
    part_forms(ctx, ref)
    part_programs(ctx, ref)
    ctx.notes.append("reference engine: %s; cases by source %s" % ("node " + subprocess.run([ref.node, "--version"], capture_output=True, text=True).stdout.strip() if ref.node else "golden file only", json.dumps(ref.stats)))
    if os.environ.get("C01_WRITE_GOLDEN") and ref.node:
        os.makedirs(os.path.dirname(GOLDEN), exist_ok=True)
        merged = dict(ref.golden) if os.environ.get("C01_WRITE_GOLDEN") == "merge" else {}
        merged.update(ref.new)
        with gzip.open(GOLDEN, "wt", encoding="utf-8") as f:
            json.dump(merged, f, ensure_ascii=True, sort_keys=True)
        ctx.notes.append("golden file rewritten: %d entries" % len(merged))
    for s in (corpus.operator_exprs(ctx.rng, "quick")[:3] + corpus.library_exprs(ctx.rng, "quick")[:3]):
        ctx.sample(s)
