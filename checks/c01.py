"""C01 — programs in the supported core evaluate as ECMAScript specifies (DESIGN.md §4 C01).

PROOF   Props/C01.lean: the operator/coercion algebra of M-Ops (symmetry of the equalities, NaN rules, string
        concatenation, the equivalent spellings of + - > >= != !==) and the completion-record semantics of M-Ctl
        (finally keeps / overrides the pending completion, catch binds the thrown value, break/continue find their
        own label, the temporal dead zone).
CORR    M-Ops == tsrun on the full cross product of primitive operands x modelled operators; M-Ctl == tsrun on
        generated control-flow programs (generator written in Lean, `tvdriver ctl <seed>`).
PROP    tsrun == reference engine on (a) operators over objects/arrays/functions as well, (b) the built-in library
        over numbers, strings, arrays, objects, Map/Set, JSON, RegExp, Date with boundary arguments, (c) feature
        programs (closures, classes, destructuring, generators, exceptions, iteration protocols);
        and, needing no reference at all, (d) equivalent spellings give equal results on tsrun.
The reference is node when a node binary is present; the committed golden file (data/c01_golden.json.gz, written
from node with bin/c01-golden) otherwise, and the two are compared when both exist.
"""
import gzip
import hashlib
import json
import os
import re
import shutil
import subprocess
from concurrent.futures import ThreadPoolExecutor
from . import common
from . import c01_corpus as corpus
from . import c01_lib
from . import c01_obj
from . import c01_coerce
from . import c01_literals
from . import c01_compile

LEAN_TARGETS = ["TsrunVerif.Props.C01", "TsrunVerif.Props.C01Parse", "TsrunVerif.Props.C01Lib", "TsrunVerif.Props.C01Obj", "TsrunVerif.Props.C01Coerce",
                "TsrunVerif.Props.C01Compile"]
THEOREMS = ["TsrunVerif.Ops." + t for t in [
    "numEq_symm", "strictEq_symm", "looseEq_symm", "looseEq_of_strictEq", "nan_never_equal", "null_looseEq_iff", "typeOf_closed",
    "plus_string_left", "plus_string_right", "add_comm", "neg_neg", "lt_irrefl", "nan_relational_false", "not_not",
    "unary_plus_forms", "neg_eq_mul_minus_one", "neg_ne_zero_minus", "swapped_relational", "negated_equality", "le_is_not_gt",
    "toInt32_range", "toUint32_toInt32", "bitor_zero", "double_not", "ushr_zero_idem", "bitwise_comm", "shift_count_mod32"]] + \
    ["TsrunVerif.Ctl." + t for t in [
        "finally_normal_keeps_pending", "finally_abrupt_overrides", "catch_binds_thrown", "loop_break_own_label",
        "loop_break_foreign_label", "tdz_shadows_outer"]] + \
    ["TsrunVerif.Pratt." + t for t in [
        "parse_wellformed", "parse_minimal_parens", "parse_order_iso", "table_is_spec", "gen_spec_order", "gen_spec_assoc", "gen_parses_as_spec"]] + \
    ["TsrunVerif.Lib." + t for t in [
        "relIndex_le", "relIndex_neg", "relIndex_nonneg", "slice_contiguous", "slice_length", "slice_all", "slice_last", "slice_empty_of_end_le_start", "slice_far",
        "at_nonneg", "at_neg", "splice_partition", "splice_lengths", "splice_start_only", "splice_insert", "fill_length", "fill_get", "copyWithin_length",
        "with_isSome_iff", "with_length", "findFrom_spec", "indexOf_first", "indexOf_from_beyond", "substring_swap", "substring_neg", "padStart_length", "repeat_spec"]] + \
    ["TsrunVerif.Obj." + t for t in [
        "lookup_append_miss", "lookup_nearest", "lookup_none_iff", "forIn_mem_iff", "forInKeys_mem_iff", "forInKeys_has", "forIn_nodup", "forInKeys_own_first",
        "resolveCall_spec", "resolveNew_spec", "new_call_agree", "bind_compose", "bound_this_fixed"]] + \
    ["TsrunVerif.Coerce." + t for t in [
        "toPrim_exclusive", "string_hint_toString_first", "number_hint_valueOf_first", "first_primitive_suffices", "calls_at_most_once", "no_primitive_typeError",
        "both_left_first", "strict_never_converts", "nullish_eq_no_convert", "prim_passthrough"]] + \
    ["TsrunVerif.Compile." + t for t in [
        "codeE_ok", "codeE_okH", "codeS_ok", "codeL_ok", "compileE_eq", "compileS_eq", "compileInner_eq", "compileL_eq", "compileProgram_eq", "compileE_correct", "compileE_restores",
        "program_completes", "program_throws", "empty_catch_total", "run_mono", "run_unique",
        "codeE_isSome_iff", "codeS_isSome_iff", "program_refused_iff", "rightNested_limit", "leftNested_limit",
        "program_registers_in_file", "program_no_fault"]]
ASSUMPTIONS = [
    "M-Compile mirrors compile_expression / compile_statement_impl / BytecodeBuilder (register allocator, jump placeholders, patch_jump) for literals, variables, unary and binary operators, && || ??, ?:, the comma operator, "
    "every form of assignment to a variable, ++/--, expression statements, if, while, do-while and blocks without declarations; its VM executes the 19 instructions these compile to, with PushScope/PopScope as no-ops (no declaration "
    "inside the modelled blocks). Values and operator meanings are parameters of the theorems (any value domain); the correspondence run instantiates them with M-Ops. The listing the model emits is compared instruction by instruction "
    "with Compiler::compile_statement's; member access, calls, declarations, break/continue, try, the constant pool limits and the loop-variable register redirect are outside the model",
    "M-Coerce abstracts an object operand to what its valueOf / toString / [Symbol.toPrimitive] do when called (return a primitive, return an object, throw, not callable); Date (hint string by default), "
    "wrapper objects, Symbol values and BigInt are outside it; on primitive operands it is M-Ops (prim_passthrough)",
    "M-Obj: an ordinary object is its list of own data properties (key, value, enumerable) in own-key order with distinct non-index string keys, a receiver is its prototype chain; accessors, index keys, symbols, "
    "proxies in the chain and exotic objects are outside it. Bound functions are bind layers over a target; the number of layers and of arguments is unbounded in the theorems",
    "M-Lib composes ToIntegerOrInfinity, the relative index and the clamp exactly as ECMA-262 does for slice, splice/toSpliced, at, with, fill, copyWithin, indexOf/includes, lastIndexOf, substring, substr, String slice, charAt, "
    "padStart/padEnd and repeat over lists of integers / ASCII texts; arguments are abstracted to absent, NaN, +-Infinity, integers and non-integral numbers (k + 0.5); it agrees with the reference engine on all 92740 enumerated calls; "
    "callbacks, holes, species, array-likes and non-ASCII strings are outside it (covered by the reference-engine differential)",
    "M-Pratt transcribes parse_binary_expression / parse_unary_expression (binary and logical operators, prefix operators, parentheses) over abstract tokens; the operator table, the loop's break test, the next_prec rule and the logical/unary "
    "mappings are re-extracted from src/parser.rs on every run (Gen/Precedence.lean). ECMA-262's early errors for `a ?? b || c` and `-a ** b` (tsrun accepts both: a superset, outside 'well-formed programs') are excluded from the specification comparison; "
    "`a < b > (c)` (TypeScript type arguments, C03) and call/regex/assertion positions are outside the fragment; conditional, assignment, comma, postfix and member/call levels are covered by the reference-engine differential only",
    "M-Ops is a transcription of ECMA-262 (ToBoolean, ToNumber, ToString, typeof, unary + - !, Number::add/subtract/multiply, IsLessThan, IsLooselyEqual, IsStrictlyEqual, "
    "ApplyStringOrNumericBinaryOperator for +, the short-circuit operators) over undefined, null, booleans, ASCII strings and the numbers NaN, +-Infinity, -0 and integers below 2^53 "
    "(arithmetic exact there); string-to-number covers decimal integers, 0x hex, Infinity and whitespace trimming. Objects, symbols, bigint, fractions and / % ** are not in the model "
    "(fractions: M-Num of C15); they are compared with the reference engine instead",
    "M-Ctl is a small-step-free (fuel-structural) definitional interpreter for blocks, let with temporal dead zone, assignment, if, labelled while with break/continue, labelled blocks, switch with fall-through and default, "
    "return, throw, try/catch/finally with ECMAScript completion records, over integer values; the program generator is written in Lean next to it and its programs are rendered to JavaScript text",
    "the reference engine is node (V8) when present, run in a fresh vm context per program; otherwise the golden outputs recorded from node. Where the specification leaves a result implementation-defined or "
    "implementation-approximated (localeCompare collation, Date.parse of non-ISO text, the last digits of Math.pow/exp/log/trig/hypot/cbrt and **, toString(radix) beyond 2^55) the comparison is relaxed or skipped, as listed in checks/c01_corpus.py",
    "results are compared through an in-program canonical printer (type-tagged, -0 distinguished, holes distinguished, object keys sorted, Map/Set/iterators expanded, depth 4); errors are compared by class name only",
    "the cross products are enumerated exhaustively over fixed operand lists; argument tuples of arity >= 2 and the feature programs' parameters are sampled (seeded)",
]

GOLDEN = os.path.join(common.ROOT, "data", "c01_golden.json.gz")

NODE_DRIVER = r"""
const vm = require('vm'); const rl = require('readline').createInterface({input: process.stdin});
rl.on('line', l => { let out; try { const src = JSON.parse(l); const v = vm.runInNewContext(src, {}, {timeout: 10000}); out = 'OK ' + String(v); } catch (e) { out = 'ERR ' + (e && e.name); } console.log(JSON.stringify(out)); });
"""

SEP = "\u0001"


def esc(src):
    return src.replace("\\", "\\\\").replace("\n", "\\n").replace("\t", "\\t").replace("\r", "\\r")


def unesc(t):
    out = []
    i = 0
    while i < len(t):
        c = t[i]
        if c == "\\" and i + 1 < len(t):
            n = t[i + 1]
            out.append({"n": "\n", "t": "\t", "r": "\r", "\\": "\\"}.get(n, "\\" + n))
            i += 2
        else:
            out.append(c)
            i += 1
    return "".join(out)


def run_tsrun(progs, timeout=600):
    """-> list of 'OK <string value>' / 'ERR <class>' / 'CRASH' ..."""
    outs = common.harness(["proge"], [esc(p) for p in progs], timeout=timeout)
    res = []
    for o in outs:
        o = o.split(" | ")[0] if " | " in o else o.rstrip(" |")
        if o.startswith("OK s:"):
            res.append("OK " + unesc(o[5:]))
        elif o.startswith("OK "):
            res.append("OK " + unesc(o[3:]))
        elif o.startswith("ERR "):
            res.append("ERR " + o.split(" ")[1])
        else:
            res.append(o)
    return res


def run_node(node, progs, timeout=900):
    def part(ps):
        try:
            pr = subprocess.run([node, "-e", NODE_DRIVER], input="\n".join(json.dumps(p) for p in ps) + "\n",
                                stdout=subprocess.PIPE, stderr=subprocess.PIPE, text=True, timeout=timeout)
        except subprocess.TimeoutExpired:
            return ["NODE-TIMEOUT"] * len(ps)
        o = [json.loads(x) for x in pr.stdout.split("\n") if x]
        return o + ["NODE-MISSING"] * (len(ps) - len(o))
    n = len(progs)
    if n == 0:
        return []
    chunk = max(1, (n + common.NCPU - 1) // common.NCPU)
    parts = [progs[i:i + chunk] for i in range(0, n, chunk)]
    with ThreadPoolExecutor(max_workers=common.NCPU) as ex:
        outs = list(ex.map(part, parts))
    return [x for o in outs for x in o]


STRICT = "'use strict';\n"


def batch_program(exprs):
    lines = ["'use strict';", corpus.SHOW, "const out=[];"]
    for e in exprs:
        lines.append("try{out.push(show(%s));}catch(e){out.push('E:'+(e&&e.name));}" % e)
    lines.append("out.join('\\u0001')")
    return "\n".join(lines)


def eval_exprs(runner, exprs, size=100):
    """evaluate each expression (batched, a failing batch is re-run expression by expression)"""
    chunks = [exprs[i:i + size] for i in range(0, len(exprs), size)]
    outs = runner([batch_program(c) for c in chunks])
    res = [None] * len(exprs)
    redo = []
    pos = 0
    for c, o in zip(chunks, outs):
        vals = o[3:].split(SEP) if o.startswith("OK ") else None
        if vals is not None and len(vals) == len(c):
            for k, v in enumerate(vals):
                res[pos + k] = v
        else:
            redo.extend(range(pos, pos + len(c)))
        pos += len(c)
    if redo:
        outs = runner([batch_program([exprs[i]]) for i in redo])
        for i, o in zip(redo, outs):
            res[i] = o[3:] if o.startswith("OK ") else "X:" + o
    return res


# ---------------------------------------------------------------- comparison with tolerance
NUM = re.compile(r"n:(-?[0-9][0-9.]*(?:e[+-]?[0-9]+)?)")


def close_enough(a, b):
    """equal up to the last digits of the numbers in it (for implementation-approximated functions)"""
    if a == b:
        return True
    xa, xb = NUM.split(a), NUM.split(b)
    if len(xa) != len(xb):
        return False
    for i, (p, q) in enumerate(zip(xa, xb)):
        if i % 2 == 0:
            if p != q:
                return False
        else:
            try:
                u, v = float(p), float(q)
            except ValueError:
                return False
            if u != v and abs(u - v) > 4e-15 * max(abs(u), abs(v)):
                return False
    return True


def matches_finding(f, case, what, extra):
    if f.get("kind") != "site" or not isinstance(case, dict):
        return False
    for fld, key in (("expr_re", "expr"), ("tsrun_re", "tsrun"), ("ref_re", "ref")):
        pat = f.get(fld)
        if pat and not re.search(pat, case.get(key, "") or "", re.S):
            return False
    return bool(f.get("expr_re") or f.get("tsrun_re") or f.get("ref_re"))


def load_golden():
    try:
        with gzip.open(GOLDEN, "rt", encoding="utf-8") as f:
            return json.load(f)
    except OSError:
        return {}


def key_of(src):
    return hashlib.blake2b(src.encode("utf-8", "surrogatepass"), digest_size=10).hexdigest()


class Reference:
    """node when present, the golden file otherwise; counts how often each was used."""

    def __init__(self, ctx):
        self.node = None if os.environ.get("C01_NO_NODE") else shutil.which("node")
        self.golden = load_golden()
        self.ctx = ctx
        self.stats = {"node": 0, "golden": 0, "none": 0, "golden_vs_node_differs": 0}
        self.new = {}

    def exprs(self, exprs):
        if self.node:
            got = eval_exprs(lambda ps: run_node(self.node, ps), exprs)
            for e, g in zip(exprs, got):
                k = key_of("E" + e)
                self.new[k] = g
                if k in self.golden and self.golden[k] != g:
                    self.stats["golden_vs_node_differs"] += 1
            self.stats["node"] += len(exprs)
            return got
        res = []
        for e in exprs:
            g = self.golden.get(key_of("E" + e))
            self.stats["golden" if g is not None else "none"] += 1
            res.append(g)
        return res

    def programs(self, progs):
        if self.node:
            got = run_node(self.node, progs)
            for p, g in zip(progs, got):
                k = key_of("P" + p)
                self.new[k] = g
                if k in self.golden and self.golden[k] != g:
                    self.stats["golden_vs_node_differs"] += 1
            self.stats["node"] += len(progs)
            return got
        res = []
        for p in progs:
            g = self.golden.get(key_of("P" + p))
            self.stats["golden" if g is not None else "none"] += 1
            res.append(g)
        return res


# ---------------------------------------------------------------- the parts
def part_ops(ctx, ref):
    """CORR: M-Ops == tsrun (== reference) on primitive operands x modelled operators"""
    operands = corpus.model_operands(ctx.rng, 24 if ctx.tier == "quick" else 90)
    lines, exprs = [], []
    def intval(t):
        try:
            return int(t[1:]) if t[0] == "n" else None
        except ValueError:
            return None
    for op in corpus.MODEL_BIN:
        for a in operands:
            for b in operands:
                if op == "*" and intval(a) is not None and intval(b) is not None and abs(intval(a) * intval(b)) >= 2 ** 53:
                    continue        # outside the model's exact range (doubles round there): M-Num / C15 territory
                lines.append("B\t%s\t%s\t%s" % (op, a, b))
                exprs.append("(%s) %s (%s)" % (corpus.token_js(a), op, corpus.token_js(b)))
    for op in corpus.MODEL_UN:
        for a in operands:
            lines.append("U\t%s\t%s" % (op, a))
            exprs.append("%s (%s)" % (op, corpus.token_js(a)))
    model = common.driver(["ops"], lines)
    got = eval_exprs(run_tsrun, exprs, size=200)
    refv = ref.exprs(exprs) if ref.node else [None] * len(exprs)
    seen = set()
    for l, e, m, g, r in zip(lines, exprs, model, got, refv):
        ctx.cov["evaluations"] += 1
        ctx.cov["traces_validated_against_impl"] += 1
        seen.add(m)
        mm = corpus.model_show_to_js(m)
        if m in ("unmodelled", "bad-case"):
            ctx.corr_fail("M-Ops driver rejected a generated case", l, m, g)
            continue
        if r is not None and mm != r:
            # the model disagrees with the reference engine: the model is wrong (or the reference is)
            ctx.corr_fail("M-Ops differs from the reference engine", e, mm, r)
            continue
        if mm != g:
            # model (= specification, = reference) says mm, tsrun says g: a property violation with its witness
            ctx.prop_fail("operator: tsrun differs from M-Ops (and the reference engine)", {"expr": e, "tsrun": g, "ref": mm, "model_case": l})
    ctx.cov["distinct_nontrivial"] += len(seen)
    ctx.notes.append("ops: %d operands x %d binary + %d unary operators = %d cases" % (len(operands), len(corpus.MODEL_BIN), len(corpus.MODEL_UN), len(lines)))


def part_ctl(ctx, ref):
    """CORR: M-Ctl == tsrun (== reference) on generated control-flow programs"""
    n = 400 if ctx.tier == "quick" else 6000
    base = ctx.seed * 100000
    seeds = [str(base + i) for i in range(1, n + 1)]
    out = common.driver(["ctl"], seeds)
    progs, expect = [], []
    for o in out:
        p = o.split("\t")
        if len(p) != 2:
            ctx.corr_fail("M-Ctl driver output malformed", o[:200], "", "")
            return
        progs.append(unesc(p[0]))
        expect.append("OK " + p[1])
    got = run_tsrun(progs)
    refv = ref.programs(progs) if ref.node else [None] * len(progs)
    feats = {}
    for sd, p, m, g, r in zip(seeds, progs, expect, got, refv):
        ctx.cov["evaluations"] += 1
        ctx.cov["traces_validated_against_impl"] += 1
        for kw in ("finally", "catch", "switch", "continue", "break", "return", "throw", "RefErr", "while"):
            if kw in p or kw in m:
                feats[kw] = feats.get(kw, 0) + 1
        if "FUEL" in m:
            continue
        if r is not None and r != m:
            ctx.corr_fail("M-Ctl differs from the reference engine", {"seed": sd, "program": p[:3000]}, m, r)
            continue
        if g != m:
            ctx.prop_fail("control flow: tsrun differs from M-Ctl (and the reference engine)", {"expr": p[:4000], "tsrun": g[:600], "ref": m[:600], "ctl_seed": sd})
    ctx.cov["distinct_nontrivial"] += len(set(expect))
    ctx.notes.append("ctl: %d programs; constructs seen: %s" % (n, json.dumps(feats, sort_keys=True)))


def compare_ref(ctx, kind, items, got, refv, approx=lambda e: False):
    miss = 0
    for e, g, r in zip(items, got, refv):
        ctx.cov["evaluations"] += 1
        if r is None:
            miss += 1
            continue
        if g == r or (approx(e) and close_enough(g, r)):
            continue
        ctx.prop_fail("%s: tsrun differs from the reference engine" % kind, {"expr": e[:4000], "tsrun": g[:800], "ref": r[:800]})
    return miss


def part_operators(ctx, ref):
    """PROP: every operator over every operand shape (objects, arrays, functions, wrappers too)"""
    exprs = corpus.operator_exprs(ctx.rng, ctx.tier)
    got = eval_exprs(run_tsrun, exprs, size=200)
    refv = ref.exprs(exprs)
    miss = compare_ref(ctx, "operator", exprs, got, refv, approx=lambda e: "**" in e)
    ctx.cov["distinct_nontrivial"] += len(set(got))
    ctx.notes.append("operators: %d expressions (%d without reference)" % (len(exprs), miss))


def part_library(ctx, ref):
    """PROP: built-in library calls with boundary arguments"""
    exprs = corpus.library_exprs(ctx.rng, ctx.tier)
    got = eval_exprs(run_tsrun, exprs, size=100)
    refv = ref.exprs(exprs)
    miss = compare_ref(ctx, "library", exprs, got, refv, approx=corpus.is_approximated)
    ctx.cov["distinct_nontrivial"] += len(set(got))
    fams = {}
    for e in exprs:
        m = re.search(r"\.([A-Za-z0-9]+)\(", e)
        fams[m.group(1) if m else "?"] = fams.get(m.group(1) if m else "?", 0) + 1
    ctx.notes.append("library: %d calls over %d entry points (%d without reference)" % (len(exprs), len(fams), miss))


def part_literals(ctx, ref):
    """PROP: every spelling of string / numeric / template literals (escapes, radix prefixes, separators, exponents, BigInt suffix,
    malformed forms) evaluates - or is rejected - as by the reference engine"""
    exprs = c01_literals.cases(ctx.rng, ctx.tier)
    got = eval_exprs(run_tsrun, exprs, size=25)
    refv = ref.exprs(exprs)
    # a literal the reference engine rejects is not a well-formed program (tsrun accepts some: `08`, `1__0`, `0x`): outside this property
    keep = [i for i, r in enumerate(refv) if r is None or "SyntaxError" not in r]
    ctx.notes.append("literals: %d of %d spellings are rejected by the reference engine and not compared" % (len(exprs) - len(keep), len(exprs)))
    exprs, got, refv = [exprs[i] for i in keep], [got[i] for i in keep], [refv[i] for i in keep]
    miss = compare_ref(ctx, "literal", exprs, got, refv)
    ctx.cov["distinct_nontrivial"] += len(set(got))
    ctx.notes.append("literals: %d literal expressions (%d without reference)" % (len(exprs), miss))


def part_forms(ctx, ref):
    """PROP without a reference: equivalent spellings give equal results on tsrun"""
    pairs = corpus.form_pairs(ctx.rng, ctx.tier)
    exprs = [x for p in pairs for x in (p[1], p[2])]
    got = eval_exprs(run_tsrun, exprs, size=100)
    for i, (name, a, b) in enumerate(pairs):
        ctx.cov["evaluations"] += 1
        ga, gb = got[2 * i], got[2 * i + 1]
        if ga != gb:
            ctx.prop_fail("forms: two spellings of the same thing differ (%s)" % name, {"expr": a + "   ~   " + b, "tsrun": ga[:600] + "   ~   " + gb[:600], "ref": "(equal)"})
    ctx.cov["distinct_nontrivial"] += len(set(got))
    ctx.notes.append("forms: %d pairs over %d families" % (len(pairs), len(set(p[0] for p in pairs))))


def part_programs(ctx, ref):
    """PROP: feature programs (closures, classes, destructuring, generators, exceptions, protocols)"""
    progs = [STRICT + p for p in corpus.feature_programs(ctx.rng, ctx.tier)]
    # random control flow: break / continue / labels / switch fall-through / return and throw through try-catch-finally
    ctl = c01_compile.control_programs(ctx.rng, ctx.tier)
    progs += [STRICT + corpus.PRELUDE + "try { " + b + " } catch (e) { out('uncaught', e && e.name, e) }" + corpus.EPILOGUE for b in ctl]
    got = run_tsrun(progs)
    refv = ref.programs(progs)
    miss = 0
    for p, g, r in zip(progs, got, refv):
        ctx.cov["evaluations"] += 1
        if r is None:
            miss += 1
            continue
        if g == r:
            continue
        body = p[p.index("try { ") + 6:] if "try { " in p else p
        gl, rl = g.split("\n"), r.split("\n")
        # every out(...) call is one line: report each differing line (the first one when the line counts differ)
        diffs = [(x, y) for x, y in zip(gl, rl) if x != y]
        if len(gl) != len(rl):
            k = next((i for i, (x, y) in enumerate(zip(gl, rl)) if x != y), min(len(gl), len(rl)))
            diffs = [(gl[k] if k < len(gl) else "<no more output>", rl[k] if k < len(rl) else "<no more output>")]
        for x, y in diffs:
            ctx.prop_fail("program: tsrun differs from the reference engine", {"expr": body[:4000], "tsrun": x[:800], "ref": y[:800]})
    ctx.cov["distinct_nontrivial"] += len(set(got))
    ctx.notes.append("programs: %d feature programs and %d generated control-flow programs (%d without reference)" % (len(progs) - len(ctl), len(ctl), miss))


# ---------------------------------------------------------------- operator grammar (M-Pratt)
BIN_TEXT = {"PipePipe": "||", "AmpAmp": "&&", "QuestionQuestion": "??", "Pipe": "|", "Caret": "^", "Amp": "&", "EqEq": "==", "BangEq": "!=",
            "EqEqEq": "===", "BangEqEq": "!==", "Lt": "<", "LtEq": "<=", "Gt": ">", "GtEq": ">=", "In": "in", "Instanceof": "instanceof",
            "LtLt": "<<", "GtGt": ">>", "GtGtGt": ">>>", "Plus": "+", "Minus": "-", "Star": "*", "Slash": "/", "Percent": "%", "StarStar": "**"}
UN_TEXT = {"Minus": "-", "Plus": "+", "Bang": "!", "Tilde": "~", "Typeof": "typeof", "Void": "void"}
NODE_TEXT = {"Or": "||", "And": "&&", "NullishCoalescing": "??", "BitOr": "|", "BitXor": "^", "BitAnd": "&", "Eq": "==", "NotEq": "!=", "StrictEq": "===",
             "StrictNotEq": "!==", "Lt": "<", "LtEq": "<=", "Gt": ">", "GtEq": ">=", "In": "in", "Instanceof": "instanceof", "LShift": "<<", "RShift": ">>",
             "URShift": ">>>", "Add": "+", "Sub": "-", "Mul": "*", "Div": "/", "Mod": "%", "Exp": "**",
             "Minus": "-", "Plus": "+", "Not": "!", "BitNot": "~", "Typeof": "typeof", "Void": "void"}
ATOM_VALUES = ["3", "-2", "0", "7", "1.5", "'4'", "null", "true"]


def gen_expr_tokens(rng, depth):
    """random expression as a list of token names (parentheses placed at random: the parser decides the tree)"""
    if depth <= 0 or rng.random() < 0.22:
        return ["a%d" % rng.randrange(8)]
    r = rng.random()
    if r < 0.14:
        return [rng.choice(list(UN_TEXT))] + gen_expr_tokens(rng, depth - 1)
    if r < 0.30:
        return ["LP"] + gen_expr_tokens(rng, depth - 1) + ["RP"]
    op = rng.choice(list(BIN_TEXT)) if rng.random() < 0.7 else rng.choice(["Plus", "Minus", "Star", "StarStar", "Lt", "AmpAmp", "PipePipe", "EqEqEq", "Pipe", "LtLt"])
    return gen_expr_tokens(rng, depth - 1) + [op] + gen_expr_tokens(rng, depth - 1)


def render_tokens(toks):
    return " ".join("(" if t == "LP" else ")" if t == "RP" else BIN_TEXT.get(t) or UN_TEXT.get(t) or t for t in toks)


def render_tokens_ctx(toks):
    """token names -> text; a name that is both prefix and binary (Plus/Minus) has one spelling anyway"""
    return render_tokens(toks)


def sexpr(text):
    """parse the S-expression printed by the model / the harness -> nested lists"""
    toks = text.replace("(", " ( ").replace(")", " ) ").split()
    def rd(i):
        if toks[i] == "(":
            out, i = [], i + 1
            while toks[i] != ")":
                x, i = rd(i)
                out.append(x)
            return out, i + 1
        return toks[i], i + 1
    try:
        t, i = rd(0)
        return t if i == len(toks) else None
    except IndexError:
        return None


def spec_early_error(t):
    """ECMA-262 rejects `a ?? b || c` / `a || b ?? c` without parentheses and a unary operand of `**`: outside 'well-formed programs'"""
    if not isinstance(t, list):
        return False
    if t[0] == "B":
        l, r = t[2], t[3]
        def top(x):
            return x[1] if isinstance(x, list) and x[0] == "B" else None
        if t[1] == "NullishCoalescing" and (top(l) in ("Or", "And") or top(r) in ("Or", "And")):
            return True
        if t[1] in ("Or", "And") and (top(l) == "NullishCoalescing" or top(r) == "NullishCoalescing"):
            return True
        if t[1] == "Exp" and isinstance(l, list) and l[0] == "U":
            return True
        return spec_early_error(l) or spec_early_error(r)
    return any(spec_early_error(x) for x in t[1:])


def full_parens(t):
    if not isinstance(t, list):
        return t
    if t[0] == "P":
        return full_parens(t[1])
    if t[0] == "U":
        return "(%s %s)" % (NODE_TEXT[t[1]], full_parens(t[2]))
    return "(%s %s %s)" % (full_parens(t[2]), NODE_TEXT[t[1]], full_parens(t[3]))


def ts_ambiguous(toks):
    """`a < b > ( c )` is a call with type arguments in TypeScript (C03's subject), not a comparison chain"""
    for i, t in enumerate(toks[:-1]):
        if t in ("Gt", "GtGt", "GtGtGt") and toks[i + 1] == "LP" and "Lt" in toks[:i]:
            return True
    return False


def part_grammar(ctx, ref):
    """CORR: the model with the table REGENERATED from parser.rs == the real parser; PROP: the real parser == the model with
    the SPECIFICATION's table, and the text evaluates like its fully parenthesised specification tree"""
    n = 3000 if ctx.tier == "quick" else 40000
    rng = ctx.rng
    cases = [["a0", "Minus", "a1", "Minus", "a2"], ["a0", "StarStar", "a1", "StarStar", "a2"], ["a0", "Plus", "a1", "Star", "a2"],
             ["a0", "PipePipe", "a1", "AmpAmp", "a2"], ["a0", "Pipe", "a1", "Caret", "a2", "Amp", "a3"], ["a0", "EqEqEq", "a1", "Lt", "a2", "LtLt", "a3", "Plus", "a4"],
             ["Minus", "a0", "StarStar", "a1"], ["a0", "QuestionQuestion", "a1", "PipePipe", "a2"], ["Typeof", "a0", "EqEqEq", "a1"],
             ["a0", "In", "a1", "Instanceof", "a2"], ["Bang", "a0", "In", "a1"], ["a0", "Star", "LP", "a1", "Plus", "a2", "RP"]]
    # every ordered pair of operators without parentheses: a op1 b op2 c (exhaustive over the 25 x 25 table)
    for o1 in BIN_TEXT:
        for o2 in BIN_TEXT:
            cases.append(["a0", o1, "a1", o2, "a2"])
    while len(cases) < n:
        t = gen_expr_tokens(rng, rng.randrange(1, 7))
        if len(t) <= 60:
            cases.append(t)
    # malformed stream: drop / duplicate / swap one token of a valid expression (no '<' or '/' in operand position: TS assertions, regex literals)
    bad = []
    while len(bad) < n // 6:
        t = list(gen_expr_tokens(rng, rng.randrange(1, 5)))
        i = rng.randrange(len(t))
        k = rng.randrange(3)
        if k == 0:
            del t[i]
        elif k == 1:
            t.insert(i, rng.choice(["RP", "Star", "Percent", "Caret", "RP", "EqEq"]))
        else:
            t.append(rng.choice(["Star", "Plus", "LP", "AmpAmp"]))
        if t:
            bad.append(t)
    def operand_position_hazard(t):
        prev = None
        for x in t:
            if x in ("Lt", "Slash") and (prev is None or prev == "LP" or prev in BIN_TEXT or prev in UN_TEXT):
                return True
            if x == "LP" and prev is not None and (prev == "RP" or prev.startswith("a")):
                return True         # `f ( x )` is a call: outside the operator fragment
            if x == "Bang" and prev is not None and (prev == "RP" or prev.startswith("a")):
                return True         # `x !` is TypeScript's non-null assertion (C03's subject)
            prev = x
        return False
    cases = [c for c in cases + bad if not ts_ambiguous(c) and not operand_position_hazard(c)]
    texts = [render_tokens(c) for c in cases]
    names = [" ".join(c) for c in cases]
    gen = common.driver(["pratt"], ["gen\t" + x for x in names])
    spec = common.driver(["pratt"], ["spec\t" + x for x in names])
    got = common.harness(["pratt"], texts)
    forms, hist = [], {"error": 0, "ok": 0, "spec_early_error": 0}
    for c, txt, g, sp, im in zip(cases, texts, gen, spec, got):
        ctx.cov["evaluations"] += 1
        ctx.cov["traces_validated_against_impl"] += 1
        if g in ("bad-token", "bad-case"):
            ctx.corr_fail("M-Pratt driver rejected a generated case", txt, g, im)
            continue
        if g != im:
            ctx.corr_fail("M-Pratt (table regenerated from parser.rs) differs from the real parser", txt, g, im)
        tree = sexpr(sp) if sp != "error" else None
        if sp != "error" and tree is None:
            ctx.corr_fail("M-Pratt spec output malformed", txt, sp, im)
            continue
        if tree is not None and spec_early_error(tree):
            hist["spec_early_error"] += 1
            continue
        hist["error" if sp == "error" else "ok"] += 1
        if sp != im:
            ctx.prop_fail("grammar: the parser groups operators differently from ECMA-262's operator table",
                          {"expr": txt, "tsrun": im[:600], "ref": sp[:600], "tokens": " ".join(c)})
        elif tree is not None and len(forms) < (600 if ctx.tier == "quick" else 6000) and any(x in BIN_TEXT for x in c):
            forms.append((txt, full_parens(tree)))
    # the text must evaluate like its fully parenthesised tree (compiler honours the tree the parser built)
    wrap = "((a0,a1,a2,a3,a4,a5,a6,a7)=>(%s))(" + ",".join(ATOM_VALUES) + ")"
    exprs = [wrap % x for f in forms for x in f]
    vals = eval_exprs(run_tsrun, exprs, size=100)
    for i, (a, b) in enumerate(forms):
        ctx.cov["evaluations"] += 1
        va, vb = vals[2 * i], vals[2 * i + 1]
        if va != vb:
            ctx.prop_fail("grammar: an expression and its fully parenthesised form evaluate differently",
                          {"expr": a + "   ~   " + b, "tsrun": va[:300] + "   ~   " + vb[:300], "ref": "(equal)"})
    ctx.cov["distinct_nontrivial"] += len(set(spec))
    ctx.notes.append("grammar: %d token lists (625 operator pairs exhaustively, %d malformed); spec verdicts %s; %d evaluated against their fully parenthesised form"
                     % (len(cases), len(bad), json.dumps(hist, sort_keys=True), len(forms)))


def part_coerce_model(ctx, ref):
    """CORR / PROP: M-Coerce (ToPrimitive and the operators over object operands) == tsrun == reference engine, results and call logs"""
    cs = c01_coerce.cases(ctx.rng, ctx.tier)
    model = common.driver(["coerce"], [m for m, _ in cs])
    exprs = [js for _, js in cs]
    got = eval_exprs(run_tsrun, exprs, size=100)
    refv = eval_exprs(lambda ps: run_node(ref.node, ps), exprs, size=100) if ref.node else [None] * len(exprs)

    def plain(v):
        if v is not None and v.startswith("s:"):
            try:
                return json.loads(v[2:])
            except ValueError:
                return v
        return v
    for (m, js), mo, g, r in zip(cs, model, got, refv):
        ctx.cov["evaluations"] += 1
        ctx.cov["traces_validated_against_impl"] += 1
        e = c01_coerce.expected(mo)
        if "bad-case" in mo or "unmodelled" in mo:
            ctx.corr_fail("M-Coerce driver rejected a generated case", m, mo, g)
        elif r is not None and plain(r) != e:
            ctx.corr_fail("M-Coerce differs from the reference engine (the model is wrong)", {"case": m, "expr": js[:600]}, e, plain(r))
        elif plain(g) != e:
            ctx.prop_fail("coercion: tsrun differs from M-Coerce (and the reference engine) on an operator over object operands (result | conversion calls)",
                          {"expr": js[:2000], "tsrun": plain(g), "ref": e, "model_case": m})
    ctx.cov["distinct_nontrivial"] += len(set(model))
    ctx.notes.append("coerce model: %d operator applications over primitives and objects with every valueOf / toString / Symbol.toPrimitive behaviour" % len(cs))


def part_compile_model(ctx, ref):
    """CORR: M-Compile emits the instruction listing tsrun's compiler emits; CORR / PROP: the model's semantics (reference == its VM on its code) ==
    the reference engine == tsrun on the variables a statement leaves behind"""
    ls = c01_compile.listing_cases(ctx.rng, ctx.tier)
    model = common.driver(["compile"], [m for m, _ in ls])
    real = common.harness(["compile"], [h for _, h in ls])
    deep = refused = 0
    for (m, h), mo, ro in zip(ls, model, real):
        ctx.cov["evaluations"] += 1
        ctx.cov["traces_validated_against_impl"] += 1
        if "nested too deeply" in ro:
            deep += 1                   # the parser's own nesting limit (C05) comes first
            continue
        if mo == "ERR":
            refused += 1
        if mo != ro:
            ctx.corr_fail("M-Compile and Compiler::compile_statement emit different code for the same statement", {"model_case": m, "source": h[2:][:3000]}, mo[:4000], ro[:4000])
    ctx.cov["distinct_nontrivial"] += len(set(model))
    ms = c01_compile.meaning_cases(ctx.rng, ctx.tier)
    model = common.driver(["compile"], [m for m, _ in ms])
    exprs = [js for _, js in ms]
    got = eval_exprs(run_tsrun, exprs, size=40)
    refv = eval_exprs(lambda ps: run_node(ref.node, ps), exprs, size=40) if ref.node else [None] * len(exprs)
    kinds = {}

    def plain(v):
        if v is not None and v.startswith("s:"):
            try:
                return "s:" + json.loads(v[2:])
            except ValueError:
                return v
        return v
    for (m, js), mo, g, r in zip(ms, model, got, refv):
        g, r = plain(g), plain(r)
        ctx.cov["evaluations"] += 1
        ctx.cov["traces_validated_against_impl"] += 1
        if mo.startswith("MISMATCH") or "bad-case" in mo or mo in ("ERR", "fault", "timeout"):
            ctx.corr_fail("M-Compile: the model's VM and its reference semantics disagree, or the driver rejected a generated case", m, mo, g)
            continue
        e = "s:" + c01_compile.normal(mo)
        if c01_compile.too_big(e) or (g and c01_compile.too_big(g)):
            continue
        kinds[e.split(" ")[0] + (" " + e.split(" ")[1] if e.startswith("s:throw") else "")] = kinds.get(e.split(" ")[0] + (" " + e.split(" ")[1] if e.startswith("s:throw") else ""), 0) + 1
        if r is not None and r != e:
            ctx.corr_fail("M-Compile's reference semantics differs from the reference engine (the model is wrong)", {"case": m, "expr": js[:1500]}, e, r)
        elif g != e:
            ctx.prop_fail("statements: tsrun leaves different variables behind (or throws differently) than M-Compile and the reference engine",
                          {"expr": js[:3000], "tsrun": g, "ref": e, "model_case": m})
    # the register discipline of the real compiler on whole programs (feature programs and batches of the operator / library corpus)
    progs = [q if isinstance(q, str) else q[0] for q in corpus.feature_programs(ctx.rng, ctx.tier)]
    ex = corpus.operator_exprs(ctx.rng, "quick")[:2000] + corpus.library_exprs(ctx.rng, "quick")[:4000]
    progs += [batch_program(ex[i:i + 50]) for i in range(0, len(ex), 50)]
    nprog, nbad = c01_compile.discipline(ctx, common, progs, "C01 corpus")
    ctx.notes.append("register discipline: %d whole programs compiled by the real compiler with the allocator's hook, %d with a register freed twice / handed out while held" % (nprog, nbad))
    ctx.notes.append("compile model: %d statements with identical listings (%d refused by both for want of registers, %d beyond the parser's nesting limit), %d statements run: %s"
                     % (len(ls) - deep, refused, deep, len(ms), json.dumps(kinds, sort_keys=True)))


def part_obj_model(ctx, ref):
    """CORR / PROP: M-Obj (prototype-chain lookup, for-in, bound functions) == tsrun == reference engine"""
    cs = c01_obj.cases(ctx.rng, ctx.tier)
    model = common.driver(["obj"], [m for m, _ in cs])
    exprs = [js for _, js in cs]
    got = eval_exprs(run_tsrun, exprs, size=50)
    refv = eval_exprs(lambda ps: run_node(ref.node, ps), exprs, size=50) if ref.node else [None] * len(exprs)

    def plain(v):
        if v is not None and v.startswith("s:"):
            try:
                return json.loads(v[2:])
            except ValueError:
                return v
        return v
    for (m, js), mo, g, r in zip(cs, model, got, refv):
        ctx.cov["evaluations"] += 1
        ctx.cov["traces_validated_against_impl"] += 1
        if mo == "bad-case":
            ctx.corr_fail("M-Obj driver rejected a generated case", m, mo, g)
        elif r is not None and plain(r) != mo:
            ctx.corr_fail("M-Obj differs from the reference engine (the model is wrong)", {"case": m, "expr": js[:600]}, mo, plain(r))
        elif plain(g) != mo:
            ctx.prop_fail("objects: tsrun differs from M-Obj (and the reference engine) on %s" % ("prototype-chain lookup / for-in" if m.startswith("chain") else "bound functions"),
                          {"expr": js[:3000], "tsrun": plain(g), "ref": mo, "model_case": m})
    ctx.cov["distinct_nontrivial"] += len(set(model))
    ctx.notes.append("obj model: %d cases (prototype chains up to 9 objects with enumerable / non-enumerable shadowing, bind chains up to 5 layers)" % len(cs))


def part_lib_model(ctx, ref):
    """CORR / PROP: M-Lib (index arithmetic of the array and string built-ins) == tsrun == reference engine,
    enumerated over every list up to length 4-5 and the boundary argument set"""
    cs = c01_lib.cases(ctx.rng, ctx.tier)
    model = common.driver(["lib"], [m for m, _ in cs])
    exprs = [js for _, js in cs]
    got = eval_exprs(run_tsrun, exprs, size=200)
    refv = eval_exprs(lambda ps: run_node(ref.node, ps), exprs, size=200) if ref.node else [None] * len(exprs)
    fams = {}

    def plain(v):
        # the in-program printer shows a string as s:<JSON text>
        if v is not None and v.startswith("s:"):
            try:
                return json.loads(v[2:])
            except ValueError:
                return v
        return v
    for (m, js), mo, g, r in zip(cs, model, got, refv):
        ctx.cov["evaluations"] += 1
        ctx.cov["traces_validated_against_impl"] += 1
        fams[m.split("\t")[0]] = fams.get(m.split("\t")[0], 0) + 1
        if mo == "bad-case":
            ctx.corr_fail("M-Lib driver rejected a generated case", m, mo, g)
            continue
        if r is not None and plain(r) != mo:
            ctx.corr_fail("M-Lib differs from the reference engine (the model is wrong)", {"case": m, "expr": js}, mo, plain(r))
            continue
        if plain(g) != mo:
            ctx.prop_fail("library: tsrun differs from M-Lib (and the reference engine) on index arithmetic", {"expr": js, "tsrun": plain(g), "ref": mo, "model_case": m})
    ctx.cov["distinct_nontrivial"] += len(set(model))
    ctx.notes.append("lib model: %d calls (%s)" % (len(cs), json.dumps(fams, sort_keys=True)))


def pre_proof(ctx):
    rc, out = common.sh([os.path.join(common.ROOT, "bin", "extract")])
    ctx.notes.append("bin/extract: " + out.strip())


def run(ctx):
    ctx.cov["rule"] = ("CORR: M-Ops / M-Ctl (Lean) == tsrun on every generated case, and == the reference engine when one is present; "
                       "PROP: tsrun == reference engine (node, else golden outputs recorded from node) on operators x operand shapes, library calls and feature programs, "
                       "and equal results for equivalent spellings (no reference needed)")
    if not ctx.build_harness():
        return
    ref = Reference(ctx)
    part_ops(ctx, ref)
    part_ctl(ctx, ref)
    part_grammar(ctx, ref)
    part_lib_model(ctx, ref)
    part_obj_model(ctx, ref)
    part_coerce_model(ctx, ref)
    part_compile_model(ctx, ref)
    part_operators(ctx, ref)
    part_library(ctx, ref)
    part_literals(ctx, ref)
    part_forms(ctx, ref)
    part_programs(ctx, ref)
    ctx.notes.append("reference engine: %s; cases by source %s" % ("node " + subprocess.run([ref.node, "--version"], capture_output=True, text=True).stdout.strip() if ref.node else "golden file only", json.dumps(ref.stats)))
    if os.environ.get("C01_WRITE_GOLDEN") and ref.node:
        os.makedirs(os.path.dirname(GOLDEN), exist_ok=True)
        merged = dict(ref.golden) if os.environ.get("C01_WRITE_GOLDEN") == "merge" else {}
        merged.update(ref.new)
        with gzip.open(GOLDEN, "wt", encoding="utf-8") as f:
            json.dump(merged, f, ensure_ascii=True, sort_keys=True)
        ctx.notes.append("golden file rewritten: %d entries" % len(merged))
    for s in (corpus.operator_exprs(ctx.rng, "quick")[:3] + corpus.library_exprs(ctx.rng, "quick")[:3]):
        ctx.sample(s)
