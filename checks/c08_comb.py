"""C08 / C07, promise combinators: M-Comb (Lean) == tsrun (== reference engine): n promises settled by hand in a generated
order (fulfilments and rejections, complete or not), the combinator's result observed after every settlement."""


def gen_case(rng):
    kind = rng.choice(["all", "allSettled", "any", "race"])
    n = rng.choice([0, 1, 2, 3, 3, 4, 5])
    idx = list(range(n))
    rng.shuffle(idx)
    upto = rng.choice([n, n, n, rng.randint(0, n)])
    bias = rng.choice([0.0, 0.2, 0.5, 1.0])
    evs = [("r" if rng.random() < bias else "f", i, rng.randint(1, 99)) for i in idx[:upto]]
    return kind, n, evs


def render(kind, n, evs):
    """the JavaScript program: returns the observations after 0, 1, …, len(evs) settlements joined by '|'"""
    show = {"all": "v => 'ful:' + v.join(',')", "allSettled": "v => 'ful:' + v.map(x => x.status === 'fulfilled' ? 'f' + x.value : 'r' + x.reason).join(',')",
            "any": "v => 'ful:' + v", "race": "v => 'ful:' + v"}[kind]
    # the SHAPE of Promise.any's rejection value (AggregateError with .errors; tsrun: the plain list of reasons, a message for no inputs)
    # is C01's matter (known finding C01-aggregate-error): only the reasons are compared here
    rej = "e => 'rej:' + (Array.isArray(e) ? e.join(',') : (e && e.errors ? e.errors.join(',') : (e === 'All promises were rejected' ? '' : e)))"
    lines = ["const rs = [], js = [], ps = [];",
             "for (let i = 0; i < %d; i++) ps.push(new Promise((r, j) => { rs.push(r); js.push(j); }));" % n,
             "let out = 'pending'; Promise.%s(ps).then(%s, %s).then(t => { out = t; });" % (kind, show, rej),
             "const seen = []; for (let k = 0; k < 6; k++) await null; seen.push(out);"]
    for t, i, v in evs:
        lines.append("%s[%d](%d); for (let k = 0; k < 8; k++) await null; seen.push(out);" % ("rs" if t == "f" else "js", i, v))
    lines.append("seen.join('|')")
    return "\n".join(lines)


def model_lines(kind, n, evs):
    """one model line per prefix of the settlement order"""
    return ["%s\t%d\t%s" % (kind, n, ",".join("%s%d:%d" % e for e in evs[:k])) for k in range(len(evs) + 1)]
