"""C13 — the collector implements guard reachability exactly (DESIGN.md §4 C13)."""
import itertools
import shutil
import subprocess
from concurrent.futures import ThreadPoolExecutor
from . import common

LEAN_TARGETS = ["TsrunVerif.Props.C13"]
P = "TsrunVerif.Heap."
THEOREMS = [P + t for t in [
    "mark_sound", "mark_complete", "mark_terminates", "collect_exact", "collect_keeps_reachable",
    "collect_resets_unreachable", "stats_exact", "inv_init", "inv_step", "inv_run",
    "step_keeps_reachable", "reachable_keeps_contents", "bitmap_index_in_bounds"]]
ASSUMPTIONS = [
    "M-Heap (Model/Heap.lean) transcribes Space/Guard/Gc of src/gc.rs including free-list order, collect-before-allocate and swap_remove; "
    "agreement with the Rust code is checked after every operation of every generated history (stats, guard sizes, contents and link targets seen through every live handle)",
    "GcBox.ref_count is not modelled: after the fix commit it has no observable effect (asserted by the correspondence: clone/drop of handles never change an observation)",
    "memory safety proper (no read of freed memory by the unsafe blocks) is outside the model: the model carries the logic that justifies the unchecked accesses "
    "(index arithmetic lemma, pooled-before-free on heap drop); the histories are additionally run in-process so a crash/abort shows up as a CRASH observation",
]


class Ref:
    """spec-level reference (python): what the property prescribes, independent of slot choice/free-list order."""

    def __init__(self):
        self.alive = True
        self.guards = []        # list of (alive, [slot,...])
        self.handles = []       # slot or None
        self.content = {}       # slot -> (payload, [slots]) last written
        self.pooled = set()
        self.net = 0
        self.threshold = 100
        self.nslots = 0

    def reach(self):
        seen, todo = set(), []
        for alive, roots in self.guards:
            if alive:
                todo.extend(r for r in roots if r not in self.pooled)
        while todo:
            s = todo.pop()
            if s in seen:
                continue
            seen.add(s)
            for c in self.content.get(s, (0, []))[1]:
                if c not in self.pooled and c not in seen:
                    todo.append(c)
        return seen

    def collect(self):
        r = self.reach()
        for s in range(self.nslots):
            if s not in r and s not in self.pooled:
                self.pooled.add(s)
                self.content[s] = (0, [])
        self.net = 0
        return r


def check_history(ctx, line, got):
    """PROP: replay the history against the spec-level reference using only the implementation's observations."""
    ops = [o for o in line.split(";") if o]
    obs = got.split("|")
    if len(obs) != len(ops):
        ctx.prop_fail("crash: implementation did not answer every operation (%s)" % got[-60:], {"history": line, "impl": got})
        return
    R = Ref()

    def parse_view(v):
        slot, val, links = v.split(":")
        links = links[1:-1]
        return int(slot), int(val), [int(x) for x in links.split(",") if x]

    for k, (op, o) in enumerate(zip(ops, obs)):
        where = {"history": line, "op_index": k, "op": op, "impl_obs": o}
        if "PANIC" in o or "CRASH" in o or "TIMEOUT" in o:
            ctx.prop_fail("crash: implementation panicked/aborted", where)
            return
        c, a = op[0], [int(x) for x in op[1:].split(",") if x]
        if o == "bad-op":
            continue
        if c == "G":
            R.guards.append([True, []])
        elif c == "D":
            R.guards[a[0]][0] = False
        elif c == "A":
            R.net += 1
            if R.threshold > 0 and R.net >= R.threshold:
                R.collect()
            st, v = o.split(" ")
            slot, val, links = parse_view(v)
            if slot < R.nslots and slot not in R.pooled:
                ctx.prop_fail("reuse: allocation handed out a slot that is not free", where)
                return
            if (val, links) != (0, []):
                ctx.prop_fail("reuse: freshly allocated object is not in its default state", where)
                return
            R.nslots = max(R.nslots, slot + 1)
            R.pooled.discard(slot)
            R.content[slot] = (0, [])
            R.handles.append(slot)
            R.guards[a[0]][1].append(slot)
        elif c == "g":
            s = R.handles[a[1]]
            if R.alive and s not in R.pooled:
                R.guards[a[0]][1].append(s)
        elif c == "u":
            s = R.handles[a[1]]
            roots = R.guards[a[0]][1]
            if s in roots:
                roots.remove(s)
        elif c == "c":
            R.guards[a[0]][1] = []
        elif c == "L" and R.alive:
            s, d = R.handles[a[0]], R.handles[a[1]]
            p, l = R.content.get(s, (0, []))
            R.content[s] = (p, l + [d])
        elif c == "U" and R.alive:
            s = R.handles[a[0]]
            p, l = R.content.get(s, (0, []))
            if a[1] < len(l):
                l = l[:a[1]] + l[a[1] + 1:]
            R.content[s] = (p, l)
        elif c == "W" and R.alive:
            s = R.handles[a[0]]
            p, l = R.content.get(s, (0, []))
            R.content[s] = (a[1], l)
        elif c == "K":
            R.handles.append(R.handles[a[0]])
        elif c == "X":
            R.handles[a[0]] = None
        elif c == "T" and R.alive:
            R.threshold = a[0]
        elif c == "H":
            R.alive = False
        elif c == "C" and R.alive:
            reach = R.collect()
            parts = o.split(" ")
            tot, pooled, live = [int(x) for x in parts[0].split(",")]
            if live != len(reach):
                ctx.prop_fail("exact: after collect live_objects=%d but %d objects are reachable from live guards" % (live, len(reach)), where)
                return
        if c in "CS" and R.alive:
            for part in o.split(" ")[2:]:
                hname, v = part.split("=")
                slot, val, links = parse_view(v)
                if slot in R.reach() and (val, links) != (R.content[slot][0], R.content[slot][1]):
                    ctx.prop_fail("contents: object reachable from a live guard lost its contents (slot %d shows %s, last written %s)"
                                  % (slot, (val, links), R.content[slot]), where)
                    return
        if c in "LUWK" and R.alive and o not in ("dead", "-"):
            slot, val, links = parse_view(o.split(" ")[-1])
            if slot in R.reach() and (val, links) != (R.content[slot][0], R.content[slot][1]):
                ctx.prop_fail("contents: object reachable from a live guard lost its contents (slot %d shows %s, last written %s)"
                              % (slot, (val, links), R.content[slot]), where)
                return


def small_alphabet(ng, nh):
    ops = ["G", "C", "S"]
    for g in range(ng):
        ops += ["A%d" % g, "D%d" % g, "c%d" % g]
        for h in range(nh):
            ops += ["g%d,%d" % (g, h), "u%d,%d" % (g, h)]
    for h in range(nh):
        ops += ["K%d" % h, "X%d" % h, "W%d,%d" % (h, 5 + h)]
        for h2 in range(nh):
            ops.append("L%d,%d" % (h, h2))
    return ops


PREFIXES = [
    "T1;G;A0", "T0;G;G;A0;A1;L0,1", "T2;G;A0;K0;D0;C;G;A1", "T1;G;G;A0;A1;L0,1;L1,0;W0,3;W1,4",
    "T100;G;A0;A0;L0,1;u0,1", "T3;G;A0;G;g1,0;D0",
]


def random_history(rng, n, ng_max, nh_max, allow_dropheap):
    ops = ["T%d" % rng.choice([0, 1, 2, 3, 5, 7, 100])]
    ng = nh = 0
    galive, halive = [], []
    dead = False
    for _ in range(n):
        r = rng.random()
        if ng == 0 or (r < 0.05 and ng < ng_max and not dead):
            if dead:
                break
            ops.append("G"); galive.append(True); ng += 1
            continue
        lg = [g for g in range(ng) if galive[g]]
        lh = [h for h in range(nh) if halive[h]]
        if not lg:
            if dead:
                break
            ops.append("G"); galive.append(True); ng += 1
            continue
        g = rng.choice(lg)
        if not lh or (r < 0.30 and nh < nh_max and not dead):
            if dead:
                continue
            ops.append("A%d" % g); halive.append(True); nh += 1
            continue
        h = rng.choice(lh)
        h2 = rng.choice(lh)
        k = rng.random()
        if k < 0.16:
            ops.append("L%d,%d" % (h, h2))
        elif k < 0.22:
            ops.append("U%d,%d" % (h, rng.randint(0, 2)))
        elif k < 0.32:
            ops.append("W%d,%d" % (h, rng.randint(1, 99)))
        elif k < 0.42:
            ops.append("g%d,%d" % (g, h))
        elif k < 0.52:
            ops.append("u%d,%d" % (g, h))
        elif k < 0.56:
            ops.append("c%d" % g)
        elif k < 0.66 and nh < nh_max:
            ops.append("K%d" % h); halive.append(True); nh += 1
        elif k < 0.80:
            ops.append("X%d" % h); halive[h] = False
        elif k < 0.86 and sum(galive) > 1:
            ops.append("D%d" % g); galive[g] = False
        elif k < 0.95:
            ops.append("C")
        elif k < 0.97:
            ops.append("T%d" % rng.choice([0, 1, 2, 3, 5, 7, 100]))
        elif k < 0.975 and allow_dropheap and not dead:
            ops.append("H"); dead = True
        else:
            ops.append("S")
    if not dead:
        ops += ["C", "S"]
    return ";".join(ops)


def big_history(rng, nobj, nguards):
    """crosses the 256-slot chunk and the 16-entry guard pool boundaries with thousands of objects."""
    ops = ["T%d" % rng.choice([0, 100, 37])]
    ng = 0
    for _ in range(nguards):
        ops.append("G"); ng += 1
    nh = 0
    for i in range(nobj):
        ops.append("A%d" % rng.randrange(ng)); nh += 1
        if nh > 1 and rng.random() < 0.6:
            ops.append("L%d,%d" % (rng.randrange(nh), rng.randrange(nh)))
        if rng.random() < 0.3:
            ops.append("W%d,%d" % (rng.randrange(nh), rng.randint(1, 999)))
        if rng.random() < 0.02:
            g = rng.randrange(ng)
            ops.append(rng.choice(["c%d" % g, "C", "u%d,%d" % (g, rng.randrange(nh))]))
    for g in range(0, ng, 2):
        ops.append("D%d" % g)
    # guards created after many were dropped reuse pooled root storage: they must start empty
    for _ in range(rng.randint(1, 6)):
        ops.append("G"); ng += 1
    ops += ["S", "C"]
    for i in range(nobj // 3):
        ops.append("A%d" % (1 + 2 * rng.randrange(ng // 2)))
    ops += ["C", "S"]
    return ";".join(ops)


def guard_churn(rng):
    """many guards alive at once (beyond the 16-entry storage pool), dropped and re-created in random order."""
    ops = ["T%d" % rng.choice([0, 1, 3, 100])]
    ng = nh = 0
    alive = []
    for _ in range(rng.randint(18, 45)):
        ops.append("G"); alive.append(ng); ng += 1
    for rnd in range(rng.randint(2, 5)):
        for g in list(alive):
            for _ in range(rng.choice([0, 1, 1, 2, 5, 9])):
                ops.append("A%d" % g); nh += 1
                if nh > 1 and rng.random() < 0.3:
                    ops.append("L%d,%d" % (rng.randrange(nh), rng.randrange(nh)))
        rng.shuffle(alive)
        k = rng.randint(1, len(alive) - 1)
        for g in alive[:k]:
            ops.append("D%d" % g)
        alive = alive[k:]
        ops.append(rng.choice(["S", "C", "S;C"]))
        for _ in range(rng.randint(1, k + 2)):
            ops.append("G"); alive.append(ng); ng += 1
            if rng.random() < 0.5:
                ops.append("S")
        ops += ["S", "C"]
    ops += ["C", "S"]
    return ";".join(ops)


def gen(ctx):
    rng = ctx.rng
    lines = []
    # corpus: the stale-handle witness of the fixed defect and friends
    lines += [
        "T0;G;A0;K0;W0,9;D0;C;G;A1;W2,7;X0;X1;S;A1;S;C;S",
        "T1;G;A0;K0;K0;D0;G;A1;W3,7;X0;X1;X2;S;A1;S",
        "T0;G;A0;A0;L0,1;L1,0;c0;C;S;A0;A0;S",
    ]
    alpha = small_alphabet(2, 3)
    n_ex = 0
    for pi, pre in enumerate(PREFIXES):
        depth = (3 if pi < 2 else 2) if ctx.tier == "quick" else (4 if pi < 1 else 3)
        for d in range(1, depth + 1):
            for t in itertools.product(alpha, repeat=d):
                lines.append(pre + ";" + ";".join(t) + ";C;S")
                n_ex += 1
    nrand = 4000 if ctx.tier == "quick" else 60000
    for i in range(nrand):
        lines.append(random_history(rng, rng.randint(8, 70), 4, 7, i % 10 == 0))
    for i in range(150 if ctx.tier == "quick" else 3000):
        lines.append(guard_churn(rng))
    nbig = 12 if ctx.tier == "quick" else 120
    for i in range(nbig):
        lines.append(big_history(rng, rng.choice([300, 520, 800, 1500 if ctx.tier != "quick" else 600]), rng.choice([4, 18, 40])))
    return lines, n_ex


def run(ctx):
    lines, n_ex = gen(ctx)
    exp = common.driver(["heap"], lines)
    got = common.harness(["heap"], lines)
    opcount = {}
    distinct = set()
    for line, e, g in zip(lines, exp, got):
        ctx.cov["evaluations"] += 1
        ctx.cov["traces_validated_against_impl"] += 1
        for o in line.split(";"):
            opcount[o[:1]] = opcount.get(o[:1], 0) + 1
        if e != g:
            # first differing op
            eo, go = e.split("|"), g.split("|")
            k = next((i for i, (x, y) in enumerate(zip(eo, go)) if x != y), min(len(eo), len(go)))
            ctx.corr_fail("M-Heap != Heap/Guard/Gc at op %d" % k, {"history": line, "op_index": k},
                          eo[k] if k < len(eo) else None, go[k] if k < len(go) else None)
        if "model-out-of-fuel" in e:
            ctx.corr_fail("model marker ran out of fuel", {"history": line}, e[-80:], g[-80:])
        check_history(ctx, line, g)
        if "|" in g:
            distinct.add(g)
    ctx.cov["distinct_nontrivial"] = len(distinct)
    # ---- handles that outlive their heap, under valgrind memcheck: a read or write through a freed chunk is invisible in-process
    vg = shutil.which("valgrind")
    rng = ctx.rng
    after = []
    for i in range(40 if ctx.tier == "quick" else 600):
        nobj = rng.choice([1, 2, 5, 40, 256, 257, 300])
        ops = ["T%d" % rng.choice([0, 1, 100]), "G"] + ["A0"] * nobj
        for _ in range(rng.randint(0, 4)):
            ops.append("L%d,%d" % (rng.randrange(nobj), rng.randrange(nobj)))
        if rng.random() < 0.5:
            ops.append("C")
        ops.append("H")
        nh = nobj
        for _ in range(rng.randint(3, 14)):
            h = rng.randrange(nh)
            k = rng.random()
            if k < 0.45:
                ops.append("K%d" % h); nh += 1
            elif k < 0.6:
                ops.append("W%d,%d" % (h, rng.randint(1, 9)))
            elif k < 0.7:
                ops.append("L%d,%d" % (h, rng.randrange(nh)))
            elif k < 0.8:
                ops.append("g0,%d" % h)
            elif k < 0.9:
                ops.append("S")
            else:
                ops.append("D0")
        after.append(";".join(ops))
    after += [l for l in lines if ";H" in l][: (30 if ctx.tier == "quick" else 400)]
    if vg:
        chunks = [after[i::common.NCPU] for i in range(common.NCPU)]

        def run_chunk(ch):
            if not ch:
                return ch, 0, ""
            try:
                pr = subprocess.run([vg, "-q", "--error-exitcode=9", "--leak-check=no", "--num-callers=12", common.HARNESS_BIN, "heap"], input="\n".join(ch) + "\n",
                                    stdout=subprocess.PIPE, stderr=subprocess.PIPE, text=True, env=common.env_offline(), timeout=3000)
                return ch, pr.returncode, pr.stderr
            except subprocess.TimeoutExpired:
                return ch, -99, "TIMEOUT"
        with ThreadPoolExecutor(max_workers=common.NCPU) as ex:
            for ch, rc, err in ex.map(run_chunk, chunks):
                ctx.cov["evaluations"] += len(ch)
                if ch and (rc != 0 or err.strip()):
                    ctx.prop_fail("memcheck: valgrind reports an invalid memory access in a history with handles that outlive their heap (rc=%s)" % rc,
                                  {"valgrind": err[:3000], "histories_in_chunk": ch[:6]})
        ctx.notes.append("memcheck: valgrind present, %d histories with operations after the heap was dropped" % len(after))
    else:
        ctx.notes.append("memcheck: valgrind NOT available - use-after-free behind a dropped heap is not observable")
    ctx.cov["rule"] = ("histories over the public Heap/Guard/Gc API: 3 corpus witnesses; every sequence of <=%d ops over a %d-op alphabet "
                       "(2 guards, 3 handles) after each of %d prefixes (%d histories, exhaustive); random histories of 8..70 ops over <=4 guards/<=7 handles "
                       "with thresholds {0,1,2,3,5,7,100}, stale handles and heap drop; long histories with 300..1500 objects and up to 40 guards "
                       "(crossing the 256-slot chunk and 16-guard pool boundaries). distinct_nontrivial = distinct observation traces" % (
                           3 if ctx.tier == "quick" else 4, len(small_alphabet(2, 3)), len(PREFIXES), n_ex))
    ctx.cov["op_histogram"] = opcount
    ctx.cov["exhaustive"] = True
    for i in (0, 3 + n_ex // 2, len(lines) - 20):
        ctx.sample({"history": lines[i][:300], "impl": got[i][:300]})
