"""C01, literal forms: every spelling of string / numeric / template literals evaluates as the reference engine evaluates it
(the lexer's escape and number syntax)."""

ESC = ["\\n", "\\t", "\\r", "\\b", "\\f", "\\v", "\\0", "\\'", '\\"', "\\\\", "\\x41", "\\x7f", "\\xe9", "\\u0041", "\\u00e9", "\\u2028", "\\u{41}", "\\u{0}", "\\u{ffff}",
       "\\a", "\\q", "\\/", "\\`", "\\$", "\\\n", "\\\r\n", "é", "a", " ", "$", "{", "}", "${", "`"]
NUMS = ["0", "7", "42", "1.5", ".5", "5.", "1e3", "1E3", "1e+3", "1e-3", "1.5e2", ".5e1", "5.e1", "0x1f", "0X1F", "0xff_ff", "0o17", "0O17", "0b101", "0B1_01", "1_000", "1_0.5_0", "1e1_0",
        "9007199254740993", "0.1", "123456789012345678901234567890", "1e400", "5e-324", "2e-324", "0.0000001", "1e21", "0x10000000000000000", "0b" + "1" * 60, "00", "07", "08", "09.5", "0.", "1__0", "1_", "0x", "0b2", "0o8", "1e", "1.e", ".e1"]


def cases(rng, tier):
    out = []
    n = 300 if tier == "quick" else 5000
    for _ in range(n):
        parts = [rng.choice(ESC) for _ in range(rng.randint(0, 5))]
        body = "".join(parts)
        q = rng.choice(["'", '"'])
        if q in body.replace("\\" + q, ""):
            body = body.replace(q, "")
        if "\n" in body.replace("\\\n", "").replace("\\\r\n", ""):
            continue
        lit = q + body + q
        out.append("(() => { const s = %s; return [s.length, [...s].map(c => c.codePointAt(0).toString(16)).join(' ')]; })()" % lit)
        t = body.replace("`", "\\`")
        out.append("(() => { const s = `%s`; return [s.length, [...s].map(c => c.codePointAt(0).toString(16)).join(' ')]; })()" % t.replace("${", "$\\{"))
        out.append("((x, ...v) => [x.length, x.raw.length, x[0] === undefined ? 'u' : [...x[0]].map(c => c.codePointAt(0).toString(16)).join(' ')])`%s`" % t.replace("${", "$\\{"))
    for lit in NUMS:
        out.append("[typeof %s, String(%s)]" % (lit, lit))
        out.append("[-%s, %s .toString(16)]" % (lit, lit))
        out.append("(%s).toFixed === undefined ? 'nomethod' : 1" % lit)
    return out
