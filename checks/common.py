"""Shared machinery of /verif/bin/check (python3 stdlib only).

A check is a python module `checks/cXX.py` exposing

    THEOREMS : list[str]      fully qualified Lean names of the property theorems
    LEAN_TARGETS : list[str]  lake modules that contain them (Props.*, Gen.* ...)
    run(ctx)                  correspondence + property evaluation; uses ctx.* helpers

`Ctx.finish()` decides the exit status by the rules of DESIGN.md §1:
  PROOF  lake build of the theorem modules + axiom audit + source grep
  CORR   model (Lean driver) == implementation (Rust harness) on every generated case
  PROP   the property predicate evaluated on the implementation's observations
"""
import fcntl
import hashlib
import json
import os
import random
import re
import subprocess
import sys
import time
from concurrent.futures import ThreadPoolExecutor

ROOT = os.path.dirname(os.path.dirname(os.path.abspath(__file__)))
LEAN = os.path.join(ROOT, "lean")
HARNESS = os.path.join(ROOT, "harness")
BUILD = os.path.join(ROOT, ".build")
DRIVER_BIN = os.path.join(LEAN, ".lake", "build", "bin", "tvdriver")
HARNESS_BIN = os.path.join(BUILD, "cargo", "debug", "tvharness")
HARNESS_DBG_BIN = os.path.join(BUILD, "cargo", "dbg", "tvharness")     # tsrun unoptimised (profile dbg)
EVIDENCE = os.path.join(ROOT, "evidence")
REPLAYS = os.path.join(EVIDENCE, "replays")
REPO = "/repo"
ALLOWED_AXIOMS = {"propext", "Classical.choice", "Quot.sound"}
NCPU = min(16, os.cpu_count() or 4)

BANNED = re.compile(r"\b(sorry|admit|native_decide|bv_decide|implemented_by)\b|^\s*axiom\s|\bunsafe\s|maxHeartbeats\s+0")

TRUSTED_BASE = [
    "Lean 4.33.0 kernel (lake build re-elaborates and kernel-checks every theorem on each run)",
    "axioms allowed: propext, Classical.choice, Quot.sound (audited with #print axioms; no native_decide / bv_decide / own axioms / sorry)",
    "the hand-written Lean model definitions and theorem statements (Model/*.lean, Props/*.lean)",
    "the correspondence harness (harness/src/*.rs), bin/check and its generators/canonicalisers",
]


def env_offline():
    e = dict(os.environ)
    e["CARGO_NET_OFFLINE"] = "true"
    e.setdefault("CARGO_TARGET_DIR", os.path.join(BUILD, "cargo"))
    return e


class Lock:
    def __init__(self, name):
        os.makedirs(BUILD, exist_ok=True)
        self.path = os.path.join(BUILD, name + ".lock")

    def __enter__(self):
        self.f = open(self.path, "w")
        fcntl.flock(self.f, fcntl.LOCK_EX)
        return self

    def __exit__(self, *a):
        fcntl.flock(self.f, fcntl.LOCK_UN)
        self.f.close()


def sh(cmd, cwd=None, timeout=None, env=None, input=None):
    p = subprocess.run(cmd, cwd=cwd, env=env, input=input, stdout=subprocess.PIPE,
                       stderr=subprocess.STDOUT, text=True, timeout=timeout)
    return p.returncode, p.stdout


def strip_lean_comments(src):
    out = []
    i, depth, n = 0, 0, len(src)
    while i < n:
        if src.startswith("/-", i):
            depth += 1
            i += 2
        elif depth and src.startswith("-/", i):
            depth -= 1
            i += 2
        elif depth:
            if src[i] == "\n":
                out.append("\n")
            i += 1
        elif src.startswith("--", i):
            while i < n and src[i] != "\n":
                i += 1
        else:
            out.append(src[i])
            i += 1
    return "".join(out)


def lean_build(targets):
    """lake build; returns (ok, log)."""
    with Lock("lake"):
        rc, out = sh(["lake", "build"] + targets, cwd=LEAN, timeout=3600)
    return rc == 0, out


def lean_audit(pid, theorems):
    """#print axioms for every theorem; returns dict name -> list of axioms | None (missing)."""
    os.makedirs(os.path.join(BUILD, "audit"), exist_ok=True)
    path = os.path.join(BUILD, "audit", pid + ".lean")
    mods = sorted(set(CHECK_IMPORTS.get(pid, [])))
    with open(path, "w") as f:
        for m in mods:
            f.write("import %s\n" % m)
        for t in theorems:
            f.write("#print axioms %s\n" % t)
    rc, out = sh(["lake", "env", "lean", path], cwd=LEAN, timeout=1800)
    res = {t: None for t in theorems}
    # messages may wrap over several lines: join, then regex
    flat = out.replace("\n", " ")
    for t in theorems:
        m = re.search(r"'%s' depends on axioms: \[([^\]]*)\]" % re.escape(t), flat)
        if m:
            res[t] = [a.strip() for a in m.group(1).split(",") if a.strip()]
        elif re.search(r"'%s' does not depend on any axioms" % re.escape(t), flat):
            res[t] = []
    return res, out


CHECK_IMPORTS = {}


def lean_source_grep(files):
    hits = []
    for fp in files:
        try:
            src = strip_lean_comments(open(fp).read())
        except OSError:
            continue
        for ln, line in enumerate(src.split("\n"), 1):
            if BANNED.search(line):
                hits.append("%s:%d:%s" % (os.path.relpath(fp, ROOT), ln, line.strip()))
    return hits


def lean_module_files(mods):
    """transitive closure of TsrunVerif.* imports of the given modules → file paths."""
    seen, todo = set(), list(mods)
    while todo:
        m = todo.pop()
        if m in seen or not m.startswith("TsrunVerif"):
            continue
        seen.add(m)
        fp = os.path.join(LEAN, *m.split(".")) + ".lean"
        try:
            for line in open(fp):
                mm = re.match(r"\s*import\s+(\S+)", line)
                if mm:
                    todo.append(mm.group(1))
        except OSError:
            pass
    return [os.path.join(LEAN, *m.split(".")) + ".lean" for m in sorted(seen)]


def harness_build():
    with Lock("cargo"):
        lock = os.path.join(HARNESS, "Cargo.lock")
        if not os.path.exists(lock):
            import shutil
            shutil.copy(os.path.join(REPO, "Cargo.lock"), lock)
        rc, out = sh(["cargo", "build", "--offline"], cwd=HARNESS, env=env_offline(), timeout=3600)
    return rc == 0, out


def harness_dbg_build():
    """the harness with tsrun compiled without optimisation, as a host's debug build has it"""
    with Lock("cargo"):
        rc, out = sh(["cargo", "build", "--offline", "--profile", "dbg"], cwd=HARNESS, env=env_offline(), timeout=3600)
    return rc == 0, out


def _run_lines_once(binary, args, lines, timeout):
    data = "\n".join(lines) + "\n"
    try:
        p = subprocess.run([binary] + args, input=data, stdout=subprocess.PIPE, stderr=subprocess.PIPE,
                           text=True, timeout=timeout, env=env_offline())
    except subprocess.TimeoutExpired as ex:
        out = (ex.stdout or b"")
        out = out.decode("utf-8", "replace") if isinstance(out, bytes) else out
        out = out.split("\n")
        if out and out[-1] == "":
            out.pop()
        return out[:len(lines)], "TIMEOUT"
    out = p.stdout.split("\n")
    if out and out[-1] == "":
        out.pop()
    return out[:len(lines)], ("CRASH(rc=%s)" % p.returncode if len(out) < len(lines) else None)


def _run_lines(binary, args, lines, timeout):
    """one output line per input line; a case that kills the process is reported as CRASH/TIMEOUT
    and the cases after it are re-run in a fresh process."""
    res = []
    rest = list(lines)
    hangs = 0
    while rest:
        out, died = _run_lines_once(binary, args, rest, timeout)
        res.extend(out)
        if died is None or len(out) >= len(rest):
            break
        res.append(died)
        rest = rest[len(out) + 1:]
        if died == "TIMEOUT":
            # a hang is already a reportable outcome: the cases after it get a tenth of the time, and after three
            # hangs in one chunk the remaining cases are not run (a check must end; NOT-RUN is never compared as equal)
            hangs += 1
            if hangs == 1:
                timeout = max(30, timeout // 10)
            if hangs >= 3:
                break
    return res[:len(lines)] + ["NOT-RUN"] * max(0, len(lines) - len(res))


def run_parallel(binary, args, lines, timeout=3600, workers=NCPU, chunk=None):
    """feed `lines` to `binary args...` (one output line per input line), in parallel chunks."""
    n = len(lines)
    if n == 0:
        return []
    if chunk is None:
        chunk = max(1, (n + workers - 1) // workers)
    parts = [lines[i:i + chunk] for i in range(0, n, chunk)]
    with ThreadPoolExecutor(max_workers=workers) as ex:
        outs = list(ex.map(lambda p: _run_lines(binary, args, p, timeout), parts))
    res = []
    for o in outs:
        res.extend(o)
    return res


def driver(model_args, lines, **kw):
    return run_parallel(DRIVER_BIN, model_args, lines, **kw)


AUDIT = {"outputs": 0, "syntax": 0, "samples": []}


def harness(model_args, lines, **kw):
    res = run_parallel(HARNESS_BIN, model_args, lines, **kw)
    if os.environ.get("TV_AUDIT"):
        # how many implementation outputs are SyntaxErrors: a generator whose programs tsrun cannot parse compares nothing
        AUDIT["outputs"] += len(res)
        for l, o in zip(lines, res):
            if "SyntaxError" in o:
                AUDIT["syntax"] += 1
                if len(AUDIT["samples"]) < 3:
                    AUDIT["samples"].append((model_args, l[:400], o[:200]))
    return res


def harness_dbg(model_args, lines, **kw):
    return run_parallel(HARNESS_DBG_BIN, model_args, lines, **kw)


def known_findings():
    try:
        return json.load(open(os.path.join(ROOT, "known_findings.json")))
    except OSError:
        return {"findings": [], "fixed": []}


class Ctx:
    def __init__(self, pid, tier, seed, module):
        self.pid, self.tier, self.seed, self.mod = pid, tier, seed, module
        self.t0 = time.time()
        self.rng = random.Random(seed)
        self.violations = []          # (kind, summary, replay-dict)
        self.known_hits = {}          # finding id -> what
        self.proof_ok = True
        self.corr_ok = True
        self.notes = []
        self.cov = {"evaluations": 0, "distinct_nontrivial": 0, "rule": "", "samples": [],
                    "traces_validated_against_impl": 0}
        self.assumptions = []
        self.obligations = 0
        self.discharged = 0
        self.axioms = {}
        self.findings = [f for f in known_findings().get("findings", []) if f.get("property") == pid]
        # replay files of earlier runs of this property are stale
        try:
            for fn in os.listdir(REPLAYS):
                if fn.startswith(pid + "-"):
                    os.remove(os.path.join(REPLAYS, fn))
        except OSError:
            pass

    # ---------------- PROOF ----------------
    def proof(self):
        mod = self.mod
        theorems = list(getattr(mod, "THEOREMS", []))
        targets = list(getattr(mod, "LEAN_TARGETS", []))
        self.obligations = len(theorems)
        CHECK_IMPORTS[self.pid] = targets
        ok, log = lean_build(targets + ["tvdriver"])
        if not ok:
            self.proof_ok = False
            self.proof_log = log[-4000:]
            self.broken = "lake build " + " ".join(targets)
            return False
        res, out = lean_audit(self.pid, theorems)
        bad = []
        for t in theorems:
            ax = res.get(t)
            if ax is None:
                bad.append("%s: theorem missing" % t)
            elif not set(ax) <= ALLOWED_AXIOMS:
                bad.append("%s: axioms %s" % (t, ax))
            else:
                self.discharged += 1
        self.axioms = res
        hits = lean_source_grep(lean_module_files(targets))
        if hits:
            bad.append("banned constructs: " + "; ".join(hits[:5]))
        if self.tier == "thorough":
            for m in targets:
                rc, o = sh(["lake", "env", "leanchecker", m], cwd=LEAN, timeout=3600)
                if rc != 0:
                    bad.append("leanchecker %s failed: %s" % (m, o[-300:]))
        if bad:
            self.proof_ok = False
            self.proof_log = "\n".join(bad) + "\n" + out[-2000:]
            self.broken = "; ".join(bad)[:500]
        return self.proof_ok

    def build_harness(self):
        ok, log = harness_build()
        if not ok:
            self.corr_ok = False
            self.broken_corr = "cargo build of the correspondence harness against /repo failed"
            self.harness_log = log[-4000:]
        return ok

    # ---------------- results ----------------
    def count(self, n=1, nontrivial=0):
        self.cov["evaluations"] += n
        self.cov["distinct_nontrivial"] += nontrivial

    def sample(self, s, limit=8):
        if len(self.cov["samples"]) < limit:
            self.cov["samples"].append(s)

    def prop_fail(self, what, case, extra=None):
        """property predicate failed on the implementation for `case`."""
        for f in self.findings:
            if self.mod.matches_finding(f, case, what, extra) if hasattr(self.mod, "matches_finding") else False:
                self.known_hits[f["id"]] = f.get("what", "")
                return
        self.violations.append(("prop", what, {"case": case, "what": what, "extra": extra}))

    def corr_fail(self, what, case, expect, got):
        """model and implementation disagree on `case` (not by itself a violation)."""
        self.corr_ok = False
        if not hasattr(self, "corr_fails"):
            self.corr_fails = []
        if len(self.corr_fails) < 50:
            self.corr_fails.append({"case": case, "model": expect, "impl": got, "what": what})

    def known(self, fid, what):
        self.known_hits[fid] = what

    # ---------------- finish ----------------
    def write_replay(self, name, obj):
        os.makedirs(REPLAYS, exist_ok=True)
        path = os.path.join(REPLAYS, "%s-%s.json" % (self.pid, name))
        obj = dict(obj)
        obj.update({"property": self.pid, "seed": self.seed, "tier": self.tier})
        with open(path, "w") as f:
            json.dump(obj, f, indent=1, ensure_ascii=False)
        return path

    def finish(self):
        rc = 0
        lines = []
        if os.environ.get("TV_AUDIT"):
            print("AUDIT %s harness outputs=%d with SyntaxError=%d %s" % (self.pid, AUDIT["outputs"], AUDIT["syntax"], json.dumps(AUDIT["samples"])[:1500]))
        for fid, what in sorted(self.known_hits.items()):
            lines.append("KNOWN-FINDING: property=%s %s (%s)" % (self.pid, what, fid))
        nviol = 0
        if self.violations:
            # one VIOLATION line per distinct kind of failure, at most 5
            seen = set()
            for kind, what, rep in self.violations:
                key = what.split(":")[0]
                if key in seen or len(seen) >= 5:
                    continue
                seen.add(key)
                path = self.write_replay("prop-%d" % len(seen), rep)
                lines.append("VIOLATION property=%s replay=%s" % (self.pid, path))
            nviol = len(self.violations)
            rc = 1
            if os.environ.get("TV_DEBUG"):
                for kind, what, rep in self.violations:
                    print("DEBUG", what[:160], "|", json.dumps(rep.get("case"))[:300])
        elif not self.proof_ok or not self.corr_ok:
            rep = {}
            if not self.proof_ok:
                rep["theorem_or_build_that_no_longer_checks"] = getattr(self, "broken", "?")
                rep["log"] = getattr(self, "proof_log", "")
            if not self.corr_ok:
                rep["correspondence_that_no_longer_checks"] = getattr(self, "broken_corr", "model != implementation")
                rep["disagreements"] = getattr(self, "corr_fails", [])
                rep["log_harness"] = getattr(self, "harness_log", "")
            path = self.write_replay("broken", rep)
            lines.append("VIOLATION property=%s replay=%s no-failing-input-found" % (self.pid, path))
            nviol = 1
            rc = 1
        cov = dict(self.cov)
        cov.update({
            "obligations": self.obligations,
            "discharged": self.discharged,
            "checker_cmd": "cd /verif/lean && lake build %s && lake env lean <audit file with #print axioms>" % " ".join(getattr(self.mod, "LEAN_TARGETS", [])),
            "trusted_base": TRUSTED_BASE + list(getattr(self.mod, "TRUSTED_EXTRA", [])),
            "theorems": {t: self.axioms.get(t) for t in getattr(self.mod, "THEOREMS", [])},
            "proof_ok": self.proof_ok, "correspondence_ok": self.corr_ok,
            "known_findings_reported": sorted(self.known_hits),
            "notes": self.notes,
        })
        ev = {"property_id": self.pid, "tier": self.tier, "seed": self.seed, "level": "proof",
              "coverage": cov, "assumptions": self.assumptions + list(getattr(self.mod, "ASSUMPTIONS", [])),
              "wall_s": round(time.time() - self.t0, 2), "violations": nviol}
        os.makedirs(EVIDENCE, exist_ok=True)
        with open(os.path.join(EVIDENCE, self.pid + ".json"), "w") as f:
            json.dump(ev, f, indent=1, ensure_ascii=False)
        for l in lines:
            print(l)
        print("%s tier=%s seed=%d proof=%s corr=%s evaluations=%d violations=%d wall=%.1fs" % (
            self.pid, self.tier, self.seed, self.proof_ok, self.corr_ok, cov["evaluations"], nviol,
            time.time() - self.t0))
        return rc


def compare(ctx, cases, expect, got, describe=lambda c: c, nontrivial=lambda c, g: True):
    """generic CORR comparison of two observation lists."""
    seen = set()
    for c, e, g in zip(cases, expect, got):
        ctx.cov["evaluations"] += 1
        ctx.cov["traces_validated_against_impl"] += 1
        if nontrivial(c, g):
            h = hashlib.blake2b((c + "\0" + g).encode(), digest_size=8).digest()
            if h not in seen:
                seen.add(h)
        if e != g:
            ctx.corr_fail("model/implementation output differs", describe(c), e, g)
    ctx.cov["distinct_nontrivial"] += len(seen)
