"""C14 — garbage is reclaimed: repeated work does not grow the heap (DESIGN.md §4 C14)."""
import json
from . import common, gen

LEAN_TARGETS = ["TsrunVerif.Props.C14"]
THEOREMS = ["TsrunVerif.Roots." + t for t in ["inv_init", "inv_step", "inv_run", "roots_balanced", "uncaught_balanced", "inv_repeat", "repeat_constant"]] + \
           ["TsrunVerif.Heap.collect_frees_unreachable", "TsrunVerif.Heap.collect_exact", "TsrunVerif.Heap.mark_complete"]
ASSUMPTIONS = [
    "M-Roots abstracts the VM to the events that move the scope-guard stack; its invariant (guards = open scopes + call frames) is evaluated, through the Lean definition, on the "
    "real interpreter's state after every step of every generated program (hook verif_state: env_guards, call_stack, per-frame open scopes)",
    "that a collection reclaims exactly the unreachable objects is C13's theorem over M-Heap; which objects the interpreter keeps reachable through root_guard/register guards is observed "
    "(live_objects after collect over 8 repetitions), not modelled",
]
CORPUS = [
    "function* g() { yield 1; yield 2; } const it = g(); it.next().value",
    "function* g() { yield 1; yield 2; } let t = 0; for (const x of g()) t += x; t",
    "function* g() { for (let i = 0; i < 3; i++) { { let q = i; yield q; } } } const it = g(); it.next(); it.next().value",
    "let t = 0; for (let i = 0; i < 4; i++) { { let y = i; if (y === 2) break; t += y; } } t",
    "function f() { { let q = 1; { let r = 2; return q + r; } } } f()",
    "function f() { throw new TypeError('x'); } { let z = 1; f(); }",
    "{ let z = 1; { let w = 2; throw new RangeError('y'); } }",
    "const a: any = {}; const b: any = {a}; a.b = b; const m = new Map(); m.set(a, b); 1",
    "async function a() { { let u = 1; return u + 1; } } let r = 0; a().then(v => { r = v; }); r",
    "function f() { try { throw 1; } catch (e) { throw e; } finally { } } f();",
    "try { throw 1; } catch (e) { throw e; } finally { let k = 1; }",
    "function f() { try { throw 1; } catch (e) { throw e; } finally { return 7; } } f()",
    "const p = new Promise((res, rej) => { rej(new Error('late')); }); p.catch(() => 1); 2",
    "function* g() { try { yield 1; yield 2; } finally { } } const it = g(); it.next(); it.return(9).value",
    "class A { static make() { return new A(); } f = () => this; } A.make().f() instanceof A",
    "[1, 2, 3].map(function (x) { { let y = {v: x}; if (y.v > 0) { return y.v; } } return 0; }).join(',')",
    "function* g() { throw new Error('early'); yield 1; } let r = ''; try { g().next(); } catch (e) { r = 'caught'; } r",
    "function* g() { throw new Error('early'); yield 1; } let r = ''; try { for (const x of g()) { r += x; } } catch (e) { r = 'c2'; } r",
    "function* g(a: number) { let held = {a}; if (a > 0) throw new RangeError('pre'); yield held; } let r = 0; try { [...g(1)]; } catch (e) { r = 1; } r",
    # library objects created while a script runs must be collectable: iterators, bound functions, proxies, regexps, promises
    "const a = [1, 2, 3].values(); let s = 0; for (const v of a) s += v; s",
    "const m = new Map([[1, {a: 1}], [2, {a: 2}]]); let s = 0; for (const [k, v] of m) s += k; for (const k of m.keys()) s += k; [...m.values()].length + s",
    "const st = new Set([1, 2]); let s = 0; for (const v of st) s += v; [...st.values()].length + [...st.entries()].length + s",
    "const [a, ...b] = new Set([1, 2, 3]); const [c] = new Map([[1, 2]]); const [d, ...e] = 'xyz'; a + b.length + e.length",
    "[...'a1b2'.matchAll(/\\d/g)].length + 'x'.replace(/x/, (m) => m + m).length + 'a-b'.split(/-/).length",
    "function* g() { try { yield 1; yield 2; } finally { } } let s = 0; for (const v of g()) { s += v; if (v === 1) break; } const it = g(); it.next(); it.return(1); s",
    "const p = new Proxy({}, {get() { return 1; }, ownKeys() { return ['a']; }, getOwnPropertyDescriptor() { return {value: 1, enumerable: true, configurable: true}; }}); (p as any).a + Object.keys(p).length + Reflect.ownKeys({a: 1}).length",
    "function f(this: any, a: any, b: any) { return a + b; } const bf = f.bind({}, 1); bf(2) + [1, 2].map(f.bind(null, 1)).length",
    "let r: any; const p = new Promise(res => { r = res; }); p.then(v => v); r(1); Promise.all([p, 2]).then(() => 0); Promise.race([p]).finally(() => 0); 1",
    "JSON.stringify(JSON.parse('{\"a\":[1,{\"b\":2}]}', (k, v) => v), (k, v) => v).length + JSON.stringify({d: new Date(0), toJSON() { return {x: 1}; }}).length",
    "const sy = Symbol('x'); const o: any = {[sy]: 1, [Symbol.iterator]: function* () { yield 1; }, [Symbol.toPrimitive]() { return 2; }}; [...o].length + (+o) + Object.getOwnPropertySymbols(o).length",
    "const xs = Array.from({length: 4}, (_, i) => ({i})); const ys = Array.from(new Set(xs), o => o.i); const zs = xs.toSorted((a, b) => b.i - a.i); Object.assign({}, ...xs, 'ab').i + Object.entries({...zs[0]}).length + ys.length",
    "class A { static s = 1; #p = 2; get x() { return this.#p; } static make() { return new this(); } } class B extends A { get x() { return super.x + 1; } } B.make().x + B.s + String(new Error('e', {cause: 1})).length",
    # a large peak: tens of thousands of objects reachable at once, then all dropped (the pools and free lists of the collector see a burst)
    "const big: any[] = []; for (let i = 0; i < 6000; i++) { big.push({i}); } big.length",
    "const big: any[] = []; for (let i = 0; i < 24000; i++) { big.push({i}); } big.length",
    "const big: any[] = []; for (let i = 0; i < 24000; i++) { const o: any = {i}; o.self = o; big.push(o); } throw new Error('after ' + big.length);",
    "let head: any = null; for (let i = 0; i < 30000; i++) { head = {next: head}; } let n = 0; for (let c = head; c; c = c.next) { n++; } n",
    "const m = new Map(); for (let i = 0; i < 9000; i++) { m.set({k: i}, [i]); } const s = new Set([...m.keys()]); s.size + m.size",
]


def run(ctx):
    rng = ctx.rng
    progs = [(s, ["corpus"]) for s in CORPUS]
    n = 220 if ctx.tier == "quick" else 4000
    for i in range(n):
        progs.append(gen.program(rng, depth=rng.randint(1, 3), fail=(i % 4 == 0)))
    lines = []
    for i, (src, _) in enumerate(progs):
        gc = rng.choice([None, 1, 3, 100])
        if "big" in src[:12] or "30000" in src or "9000" in src:
            # large peaks run at the default threshold only (a collection per allocation over tens of thousands of live objects is quadratic)
            runs = [{"src": src, "mode": "eval", "trace": False, "collect_every": None} for k in range(8)]
            lines.append(json.dumps({"gc": None, "runs": runs}))
            continue
        runs = [{"src": src, "mode": "steps" if (i % 3) else "eval", "trace": (k == 1 and i % 3 != 0), "collect_every": (7 if i % 5 == 0 else None)} for k in range(8)]
        lines.append(json.dumps({"gc": gc, "runs": runs}))
    got = common.harness(["life"], lines, timeout=900)
    feat = {}
    distinct = set()
    traces, tback = [], []
    for (src, fs), line, g in zip(progs, lines, got):
        ctx.cov["evaluations"] += 1
        for f in fs:
            feat[f] = feat.get(f, 0) + 1
        case = {"program": src[:1500], "impl": g[:600]}
        runs = g.split("|")
        if len(runs) != 8 or "CRASH" in g or "TIMEOUT" in g:
            ctx.prop_fail("crash: the 8 repetitions did not all run (%s)" % g[-80:], case); continue
        outs = [r.split(" ~")[0] for r in runs]
        lives = []
        sts = []
        for r in runs:
            parts = r.split(";")
            lives.append(int([p for p in parts if p.startswith("live=")][0][5:]))
            sts.append([p for p in parts if p.startswith("st=")][0][3:])
        if len(set(outs)) != 1:
            ctx.prop_fail("repeat: the same self-contained program gave different outcomes across repetitions: %s" % sorted(set(outs))[:3], case); continue
        if outs[0] in ("SUSPENDED", "NEED"):
            continue
        if len(set(lives[1:])) != 1:
            ctx.prop_fail("grows: live objects after collection are not constant over repetitions: %s" % lives, case); continue
        quiet = [s for s in sts if not (s.startswith("g1e0c0v0s0m0x0") and s.endswith("d0"))]
        if quiet:
            ctx.prop_fail("balanced: run bookkeeping not back to rest after a run (%s)" % quiet[0], case); continue
        distinct.add(outs[0] + str(lives[1]))
        tr = [p for p in runs[1].split(";") if p.startswith("tr=")]
        if tr and tr[0][3:]:
            traces.append(tr[0][3:]); tback.append((src, tr[0][3:]))
    # invariant of M-Roots on every observed state (Lean computes the prescribed guard count)
    exp = common.driver(["roots"], traces)
    nstates = 0
    for (src, tr), e in zip(tback, exp):
        ctx.cov["traces_validated_against_impl"] += 1
        states = tr.split(",")
        want = e.split(",")
        for st, w in zip(states, want):
            nstates += 1
            g_, c_, prof = st.split(":")
            if w != g_:
                ctx.corr_fail("M-Roots invariant violated on a real state: env_guards=%s, prescribed %s for frame profile %s" % (g_, w, prof),
                              {"program": src[:800], "state": st}, w, g_)
                ctx.prop_fail("guards: env_guards=%s but %s scopes/frames are open (profile %s)" % (g_, w, prof), {"program": src[:1200], "state": st})
                break
            if int(c_) != len(prof.split(".")) - 1:
                ctx.prop_fail("callstack: call_stack has %s entries for %d frames" % (c_, len(prof.split(".")) - 1), {"program": src[:1200], "state": st})
                break
    ctx.cov["distinct_nontrivial"] = len(distinct)
    ctx.cov["states"] = nstates
    ctx.cov["rule"] = ("%d corpus programs (generators resumed/abandoned/returned, break/return/throw out of nested blocks, cycles, promises, catch-rethrow-finally) and %d generated "
                       "self-contained programs (1/4 ending in an uncaught error planted at a random depth), each run 8 times on one interpreter (eval or step mode, GC threshold in "
                       "{default,1,3,100}, optional host collect every 7 steps), collect() after each run; distinct_nontrivial = distinct (outcome, live count) pairs" % (len(CORPUS), n))
    ctx.cov["input_distribution"] = feat
    ctx.sample({"program": progs[3][0], "impl": got[3][:300]})
    ctx.sample({"program": progs[len(CORPUS) + 1][0][:600], "impl": got[len(CORPUS) + 1][:300]})
