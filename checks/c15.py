"""C15 — numbers convert to and from text and integers exactly (DESIGN.md §4 C15)."""
import struct
from fractions import Fraction
from . import common

LEAN_TARGETS = ["TsrunVerif.Props.C15", "TsrunVerif.Props.C15Radix"]
P = "TsrunVerif.Num."
THEOREMS = [P + t for t in [
    "toInt32Int_range", "toInt32Int_congr", "toUint32Int_range", "toUint32Int_congr", "toInt32_toUint32", "shift_count_mod32",
    "toInt32Int_id", "roundHalfUp_nearest", "roundHalfUp_tie_up", "roundFixed_nearest", "roundFixed_exact_when_enough_digits",
    "exactScaled_value", "layout_plain_iff"]] + \
    ["TsrunVerif.RadixLit." + t for t in ["or_one", "rneAt_split", "rneAt_sticky", "rneAt_scale", "scan_inv", "literal_correct", "value_bracket"]]
ASSUMPTIONS = [
    "M-RadixLit transcribes radix_literal_value (0x / 0o / 0b literals of any length: 120 leading bits, dropped-bit count, sticky flag); `u128 as f64` (round to nearest, ties to even) and the exact scaling of a double by a power of two "
    "are modelled by rneAt (rounding a natural number at a bit position); overflow to Infinity (values of 2^1024 and above) is outside the theorem and covered by the exact comparison with Python's int -> float",
    "M-Num computes with exact Nat/Int arithmetic on the decoded (sign, mantissa, exponent); the Rust code takes its digits from core::fmt "
    "({:e} shortest digits, {:.N} exact expansion) and str::parse::<f64> — trusted parameters of the implementation, compared bit-exactly on every generated double",
    "the python PROP oracle uses python's own float repr / Fraction arithmetic (independent third implementation) for round-trip, shortest-ness, notation and exact rounding",
]


def bits(x):
    return struct.unpack("<Q", struct.pack("<d", x))[0]


def fl(b):
    return struct.unpack("<d", struct.pack("<Q", b & (2 ** 64 - 1)))[0]


def families(rng, tier):
    bs = set()
    for e in range(-1074, 1024):
        x = 2.0 ** e
        b = bits(x)
        bs.update([b, b + 1, b - 1 if b else b])
    for e in range(-323, 309):
        try:
            x = float("1e%d" % e)
        except OverflowError:
            continue
        b = bits(x)
        bs.update([b, b + 1, b - 1, b + 2, b - 2])
    for ex in range(0, 2047):
        for m in (0, 1, 2 ** 52 - 1, 2 ** 51, 0x5555555555555 & (2 ** 52 - 1), 0xAAAAAAAAAAAAA & (2 ** 52 - 1)):
            bs.add((ex << 52) | m)
    for k in (31, 32, 53, 63, 64):
        for d in range(-3, 4):
            for h in (0.0, 0.5):
                bs.add(bits(float(2 ** k + d) + h))
    for s in ["1e21", "1e-6", "1e-7", "999999999999999900000", "123456789012345680000", "0.000001", "0.0000009999999999999999",
              "4.35", "0.1", "0.2", "0.3", "2.5", "0.125", "1.005", "8.345", "1.45", "5e-324", "1.7976931348623157e308", "2.2250738585072014e-308",
              "9007199254740993", "0.5", "1.5", "25", "1e23", "8.41e21", "2e-7", "123456.789", "0.000123", "100", "1000000", "1e20"]:
        bs.add(bits(float(s)))
    n = 6000 if tier == "quick" else 150000
    for _ in range(n):
        bs.add(rng.getrandbits(63))
    for _ in range(n // 3):
        # "human" numbers: few digits, moderate exponents
        d = rng.randint(1, 10 ** rng.randint(1, 17))
        e = rng.randint(-30, 30)
        try:
            bs.add(bits(float("%de%d" % (d, e))))
        except OverflowError:
            pass
    out = []
    for b in sorted(bs):
        out.append(b)
        if rng.random() < 0.3:
            out.append(b | (1 << 63))
    return out


def js_layout_ok(s, x):
    """notation rule: exponent form iff |x| < 1e-6 or |x| >= 1e21."""
    # the rule is on the decimal exponent of the shortest digits, i.e. on the value the text denotes
    a = Fraction(repr(abs(x)))
    plain = a >= Fraction(1, 10 ** 6) and a < 10 ** 21
    return ("e" not in s) == plain


def parse_js_number(s):
    return float(s)


def exact_round_half_up(x, scale_digits):
    """round |x| to scale_digits fraction digits, ties up, exact; returns integer."""
    q = Fraction(abs(x)) * 10 ** scale_digits
    n = q.numerator // q.denominator
    if (q - n) * 2 >= 1:
        n += 1
    return n


def check_fixed(ctx, x, f, s, line):
    if abs(x) >= 1e21:
        return
    n = exact_round_half_up(x, f)
    digits = str(n).rjust(f + 1, "0")
    exp = (digits[:-f] + "." + digits[-f:]) if f else digits
    if x < 0:
        exp = "-" + exp
    if s != exp:
        ctx.prop_fail("toFixed: not the exact decimal expansion rounded half up (expected %s)" % exp, {"line": line, "x": repr(x), "impl": s})


def sig_round(x, p):
    q = Fraction(abs(x))
    e = 0
    while q >= 10 ** (e + 1):
        e += 1
    while q < Fraction(10) ** e:
        e -= 1
    scaled = q / Fraction(10) ** (e - p + 1)
    n = scaled.numerator // scaled.denominator
    if (scaled - n) * 2 >= 1:
        n += 1
    if n >= 10 ** p:
        n //= 10
        e += 1
    return n, e


def fmt_exp(n, p, e, neg):
    ds = str(n).rjust(p, "0")
    m = ds[0] + ("." + ds[1:] if p > 1 else "")
    return ("-" if neg else "") + "%se%s%d" % (m, "+" if e >= 0 else "-", abs(e))


def check_precision(ctx, x, p, s, line):
    n, e = sig_round(x, p)
    if e < -6 or e >= p:
        exp = fmt_exp(n, p, e, x < 0)
    else:
        ds = str(n).rjust(p, "0")
        if e >= 0:
            exp = ds[:e + 1] + ("." + ds[e + 1:] if p > e + 1 else "")
        else:
            exp = "0." + "0" * (-e - 1) + ds
        if x < 0:
            exp = "-" + exp
    if s != exp:
        ctx.prop_fail("toPrecision: not the exact expansion rounded half up to p digits (expected %s)" % exp, {"line": line, "x": repr(x), "impl": s})


def check_exponential(ctx, x, f, s, line):
    n, e = sig_round(x, f + 1)
    exp = fmt_exp(n, f + 1, e, x < 0)
    if s != exp:
        ctx.prop_fail("toExponential: not the exact expansion rounded half up (expected %s)" % exp, {"line": line, "x": repr(x), "impl": s})


def run(ctx):
    rng = ctx.rng
    bl = families(rng, ctx.tier)
    lines = []
    for b in bl:
        lines.append("S %d" % b)
    for b in bl:
        lines.append("I %d" % b)
    for b in bl[:: 7]:
        lines.append("T %d" % (b & (2 ** 63 - 1)))
    fin = [b for b in bl if ((b >> 52) & 2047) != 2047]
    nf = 2500 if ctx.tier == "quick" else 40000
    small = [b for b in fin if 1e-30 < abs(fl(b)) < 1e25 or fl(b) == 0]
    ties = [bits(v) for v in (2.5, 0.5, 1.5, 0.125, 0.375, 2 ** 50 + 0.25, 1.0000000000000002, 1e21, 999.5, 0.05, 0.45, 1.45, -2.5, -0.0, 0.0, 1e-7, -1e-7, 5e-324, 99.99, 9.995)]
    for i in range(nf):
        b = rng.choice(ties) if i % 5 == 0 else rng.choice(small if i % 3 else fin)
        k = rng.random()
        if k < 0.4:
            lines.append("F %d %d" % (b, rng.choice([0, 1, 2, 3, 5, 10, 20, 21, 50, 100])))
        elif k < 0.7:
            lines.append("R %d %d" % (b, rng.choice([1, 2, 3, 5, 10, 15, 17, 21, 22, 50, 100])))
        else:
            lines.append("E %d %s" % (b, rng.choice(["-", "0", "1", "2", "3", "6", "16", "20", "50", "100"])))
    # decimal text -> double (Number("...") and literals through the lexer)
    texts = []
    for b in fin[:: 3]:
        x = abs(fl(b))
        texts.append(repr(x))
        if rng.random() < 0.3:
            texts.append("%.25e" % x)
        if rng.random() < 0.2 and x != 0:
            # halfway cases: exact midpoint between x and its successor, printed exactly
            y = fl((b & (2 ** 63 - 1)) + 1)
            if y != float("inf"):
                mid = (Fraction(x) + Fraction(y)) / 2
                d = mid.denominator.bit_length() - 1
                if d < 400:
                    num = mid.numerator * 5 ** d
                    sn = str(num)
                    texts.append((sn[:-d] or "0") + "." + sn[-d:].rjust(d, "0") if d else sn)
    texts += ["0.1", "1e400", "1e-400", ".5", "5.", "1.e3", "00012.50", "123456789012345678901234567890", "2.4703282292062327e-324",
              "2.4703282292062328e-324", "1.7976931348623158e308", "1.7976931348623159e308", "9007199254740993", "0.30000000000000004", "1E5", "1e+5"]
    for t in texts:
        if " " in t or "inf" in t or "nan" in t:
            continue
        lines.append("D %s" % t)
    for t in texts[:: 5]:
        if t[0].isdigit() and not (len(t) > 1 and t[0] == "0" and t[1].isdigit()):
            lines.append("X %s" % t)
    # radix literals of any length: beyond 64 and beyond 128 bits, exact ties, ties broken by a digit far to the right, overflow
    for _ in range(150 if ctx.tier == "quick" else 3000):
        radix, pre, dig = rng.choice([(16, "0x", "0123456789abcdefABCDEF"), (8, "0o", "01234567"), (2, "0b", "01")])
        bits_wanted = rng.choice([8, 40, 53, 54, 60, 64, 65, 100, 127, 128, 129, 140, 200, 400, 1023, 1024, 1025, 1100])
        per = {16: 4, 8: 3, 2: 1}[radix]
        k = rng.randrange(6)
        if k < 2:
            digs = "".join(rng.choice(dig) for _ in range(max(1, bits_wanted // per)))
        else:
            # 2^53 + 1 (a tie between two doubles), then zeros, then possibly one low digit that breaks the tie
            lead = {16: "20000000000001", 8: "400000000000000001", 2: "1" + "0" * 52 + "1"}[radix]
            if k == 3:
                lead = {16: "20000000000003", 8: "400000000000000003", 2: "1" + "0" * 51 + "11"}[radix]
            tail = "0" * max(0, bits_wanted // per - len(lead))
            if k >= 4 and tail:
                j = rng.randrange(len(tail))
                tail = tail[:j] + rng.choice(dig[1:]) + tail[j + 1:]
            digs = lead + tail
        if rng.randrange(4) == 0 and len(digs) > 3:
            j = rng.randrange(1, len(digs) - 1)
            digs = digs[:j] + "_" + digs[j:]
        lines.append("X %s%s" % (pre, digs))
    ops = ["&", "|", "^", "<<", ">>", ">>>"]
    ints = [b for b in fin if abs(fl(b)) < 2 ** 70] + [bits(float(v)) for v in (2 ** 32, 2 ** 31, -2 ** 31, 2 ** 32 + 5, 1e10, -1e10, 33, 32, 31, -1, 0, 1, 2 ** 53, 1e21)]
    for _ in range(400 if ctx.tier == "quick" else 6000):
        lines.append("B %s %d %d" % (rng.choice(ops), rng.choice(ints), rng.choice(ints)))
    exp = common.driver(["num"], lines)
    got = common.harness(["num"], lines)
    # CORR: M-RadixLit == the lexer on every radix literal of the run (the model yields an exact integer below 2^1024)
    rad = [l for l in lines if l.startswith("X 0") and l[3:4] in ("x", "o", "b")]
    per = {"x": 4, "o": 3, "b": 1}
    mlines = ["%d\t%s" % (per[l[3]], ",".join(str(int(c, 16)) for c in l[4:].replace("_", ""))) for l in rad]
    mout = common.driver(["radix"], mlines)
    gmap = dict(zip(lines, got))
    nrad = 0
    for l, mo in zip(rad, mout):
        ctx.cov["evaluations"] += 1
        g = gmap.get(l, "")
        if not mo.isdigit():
            ctx.corr_fail("M-RadixLit driver rejected a literal", l, mo, g)
            continue
        v = int(mo)
        if v >= 2 ** 1024:
            continue
        ctx.cov["traces_validated_against_impl"] += 1
        nrad += 1
        if not g.isdigit() or Fraction(fl(int(g))) != v:
            ctx.corr_fail("M-RadixLit and the lexer read a radix literal differently", l, mo, g)
    ctx.notes.append("radix literals: %d compared with M-RadixLit (lengths up to 1100 bits, exact ties and ties broken by a far digit)" % nrad)
    kinds = {}
    distinct = set()
    for line, e, g in zip(lines, exp, got):
        ctx.cov["evaluations"] += 1
        ctx.cov["traces_validated_against_impl"] += 1
        k = line[0]
        kinds[k] = kinds.get(k, 0) + 1
        if k == "T":
            if e != "ok":
                ctx.corr_fail("model self-check: shortest digits do not read back", {"line": line}, e, "")
            continue
        if e != g:
            ctx.corr_fail("M-Num != implementation", {"line": line}, e, g)
        distinct.add(g)
        # PROP, independent of the Lean model
        parts = line.split(" ")
        if k == "S":
            b = int(parts[1]); x = fl(b)
            if x != x or x in (float("inf"), float("-inf")) or x == 0:
                continue
            try:
                back = float(g)
            except ValueError:
                ctx.prop_fail("tostring: output is not a number text", {"line": line, "x": repr(x), "impl": g}); continue
            if back != x:
                ctx.prop_fail("roundtrip: printed text does not read back to the same double", {"line": line, "x": repr(x), "impl": g}); continue
            nd = len(g.replace("-", "").split("e")[0].replace(".", "").strip("0") or "0")
            pd = len(repr(x).replace("-", "").split("e")[0].replace(".", "").strip("0") or "0")
            if nd > pd:
                ctx.prop_fail("shortest: more digits than the shortest round-trip representation (%s)" % repr(x), {"line": line, "x": repr(x), "impl": g}); continue
            if not js_layout_ok(g, x):
                ctx.prop_fail("notation: plain vs exponent notation differs from Number::toString", {"line": line, "x": repr(x), "impl": g})
        elif k == "I":
            x = fl(int(parts[1]))
            t = 0 if (x != x or x in (float("inf"), float("-inf"))) else int(x)
            u = t % 2 ** 32
            i = u - 2 ** 32 if u >= 2 ** 31 else u
            if g != "%d,%d" % (i, u):
                ctx.prop_fail("toint32: conversion does not wrap modulo 2^32 (expected %d,%d)" % (i, u), {"line": line, "x": repr(x), "impl": g})
        elif k in "FRE" and not g.startswith("ERR"):
            x = fl(int(parts[1]))
            if x != x or x in (float("inf"), float("-inf")):
                continue
            if k == "F":
                check_fixed(ctx, x, int(parts[2]), g, line)
            elif x != 0 and k == "R":
                check_precision(ctx, x, int(parts[2]), g, line)
            elif x != 0 and k == "E" and parts[2] != "-":
                check_exponential(ctx, x, int(parts[2]), g, line)
        elif k in "DX":
            t = parts[1]
            try:
                if t[:2] in ("0x", "0o", "0b"):
                    try:
                        want = float(int(t.replace("_", ""), 0))      # int -> float rounds to nearest, ties to even
                    except OverflowError:
                        want = float("inf")
                else:
                    want = float(t)
            except ValueError:
                continue
            if g.startswith("ERR") or g == "nan" or fl(int(g)) != want:
                ctx.prop_fail("parse: text is not read as the correctly rounded double (%r)" % want, {"line": line, "impl": g})
        elif k == "B":
            a, b2 = fl(int(parts[2])), fl(int(parts[3]))
            def i32(v):
                t = 0 if (v != v or abs(v) == float("inf")) else int(v)
                u = t % 2 ** 32
                return u - 2 ** 32 if u >= 2 ** 31 else u
            x, y = i32(a), i32(b2)
            c = (y % 2 ** 32) % 32
            op = parts[1]
            w = {"&": x & y, "|": x | y, "^": x ^ y, "<<": i32(float(x << c)) if True else 0, ">>": x >> c, ">>>": (x % 2 ** 32) >> c}[op]
            if op == "<<":
                u = (x << c) % 2 ** 32
                w = u - 2 ** 32 if u >= 2 ** 31 else u
            if g != str(w):
                ctx.prop_fail("bitop: %s on (%r, %r) expected %d" % (op, a, b2, w), {"line": line, "impl": g})
    ctx.cov["distinct_nontrivial"] = len(distinct)
    ctx.cov["rule"] = ("double bit patterns: every power of two and of ten with neighbours, every exponent x 6 boundary mantissas, integers around 2^31/2^32/2^53/2^63/2^64, "
                       "corpus values, random 63-bit patterns and short human decimals, each also negated at random; for each: Number::toString (S), ToInt32/ToUint32 (I); "
                       "samples through toFixed/toPrecision/toExponential (F/R/E, incl. exact ties), decimal text incl. exact halfway cases through Number() (D) and through literals (X), "
                       "bitwise operators in-program (B). distinct_nontrivial = distinct implementation outputs")
    ctx.cov["input_distribution"] = kinds
    for i in (5, len(bl) + 7, len(lines) - 450, len(lines) - 3):
        ctx.sample({"case": lines[i], "model": exp[i], "impl": got[i]})
