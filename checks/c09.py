"""C09 — module graphs load once, dependencies first, whatever the host's order (DESIGN.md §4 C09)."""
import itertools
import json
from . import common

LEAN_TARGETS = ["TsrunVerif.Props.C09"]
P = "TsrunVerif.Mod."
THEOREMS = [P + t for t in [
    "round_loaded_nodup", "process_loaded_nodup", "round_depsFirst", "process_depsFirst", "process_terminates",
    "round_equiv", "process_order_independent", "unprovided_nodup", "unprovided_spec", "executed_were_supplied"]]
ASSUMPTIONS = [
    "M-Mod models prepare/setup_vm_from_program/process_pending_modules/provide_module as a machine over module numbers with the FxHashMap visiting order as a parameter; "
    "import specifiers are resolved with M-Path (C18). It is compared with the real loader on the sequence of NeedImports lists and execution rounds for every generated (graph, supply policy)",
    "module bodies are not modelled (their values are checked against closed forms computed by the generator); live bindings are checked on the implementation only (PROP)",
]


def spell(rng, frm_dir, to_path):
    """a relative spelling of `to_path` from a module in directory `frm_dir` (both under /m)."""
    # relative path
    fparts = [p for p in frm_dir.split("/") if p]
    tparts = [p for p in to_path.split("/") if p]
    i = 0
    while i < len(fparts) and i < len(tparts) - 1 and fparts[i] == tparts[i]:
        i += 1
    rel = "../" * (len(fparts) - i) + "/".join(tparts[i:])
    if not rel.startswith("../"):
        rel = "./" + rel
    k = rng.random()
    if k < 0.5:
        return rel
    # respell: insert ./, x/../ or // after some slash
    idx = [j for j, c in enumerate(rel) if c == "/"]
    j = rng.choice(idx)
    ins = rng.choice(["./", "zz/../", "/", "././"])
    return rel[:j + 1] + ins + rel[j + 1:]


def gen_graph(rng, n):
    paths = []
    for i in range(n):
        paths.append(rng.choice(["/m/", "/m/", "/m/sub/", "/m/sub/deep/", "/lib/"]) + "mod%d" % i)
    deps = {i: sorted(rng.sample(range(i + 1, n), rng.randint(0, min(3, n - i - 1)))) if i + 1 < n else [] for i in range(n)}
    main_deps = sorted(rng.sample(range(n), rng.randint(1, min(4, n))))
    # force a diamond now and then
    if n >= 4 and rng.random() < 0.5:
        deps[0] = sorted(set(deps[0]) | {n - 1})
        deps[1] = sorted(set(deps[1]) | {n - 1})
        main_deps = sorted(set(main_deps) | {0, 1})
    return paths, deps, main_deps


def build_sources(rng, paths, deps, main_deps):
    """returns main source, module sources, expected main value, import specs per module (for the model)."""
    n = len(paths)
    vals = {}
    srcs = {}
    specs = {}
    rex = {i: {} for i in range(n)}       # names module i re-exports: name -> value of the constant behind it
    live = {i: {} for i in range(n)}      # live-binding re-exports: name of n -> (name of bump, root module)
    for i in reversed(range(n)):
        d = paths[i].rsplit("/", 1)[0]
        lines, terms, sp = [], [], []
        for j in deps[i]:
            s = spell(rng, d, paths[j])
            sp.append(s)
            kind = rng.choice(["named", "ns", "default", "reexport", "reexport"])
            if kind == "named":
                lines.append("import { v as v%d } from '%s';" % (j, s)); terms.append(("v%d" % j, vals[j]))
                if rex[j] and rng.random() < 0.7:
                    # consume a name that j only passes on (possibly renamed on the way)
                    nm = rng.choice(sorted(rex[j]))
                    lines.append("import { %s as c%d_%s } from '%s';" % (nm, j, nm, s)); sp.append(s); terms.append(("c%d_%s" % (j, nm), rex[j][nm]))
            elif kind == "ns":
                lines.append("import * as N%d from '%s';" % (j, s)); terms.append(("N%d.v" % j, vals[j]))
                if rex[j] and rng.random() < 0.7:
                    nm = rng.choice(sorted(rex[j]))
                    terms.append(("N%d.%s" % (j, nm), rex[j][nm]))
            elif kind == "default":
                lines.append("import D%d from '%s';" % (j, s)); terms.append(("D%d" % j, vals[j] * 2))
            else:
                lines.append("export { v as r%d } from '%s';" % (j, s))
                rex[i]["r%d" % j] = vals[j]
                lines.append("export { n as rn%d, bump as rb%d } from '%s';" % (j, j, s)); sp.append(s)
                live[i]["rn%d" % j] = ("rb%d" % j, j)
                # pass on what j itself only passes on: unrenamed, or renamed again (a rename on a NON-final hop of the chain)
                for nm in sorted(rex[j]):
                    if rng.random() < 0.6:
                        out = nm if rng.random() < 0.4 else "q%d_%s" % (j, nm)
                        lines.append("export { %s } from '%s';" % (nm if out == nm else "%s as %s" % (nm, out), s)); sp.append(s)
                        rex[i][out] = rex[j][nm]
                for nm in sorted(live[j]):
                    if rng.random() < 0.6:
                        bn, root = live[j][nm]
                        out, outb = ("l%d_%s" % (j, nm), "l%d_%s" % (j, bn)) if rng.random() < 0.6 else (nm, bn)
                        if out in live[i]:
                            continue
                        lines.append("export { %s, %s } from '%s';" % (nm if out == nm else "%s as %s" % (nm, out), bn if outb == bn else "%s as %s" % (bn, outb), s)); sp.append(s)
                        live[i][out] = (outb, root)
                lines.append("import { v as v%d } from '%s';" % (j, s)); sp.append(s); terms.append(("v%d" % j, vals[j]))
        vals[i] = (i + 1) + 3 * sum(t[1] for t in terms)
        body = " + ".join(["%d" % (i + 1)] + ["3 * " + t[0] for t in terms])
        lines.append("console.log('exec:%s');" % paths[i])
        lines.append("export const v = %s;" % body)
        lines.append("export default v * 2;")
        lines.append("export let n = 0; export function bump() { n = n + 1; return n; }")
        srcs[paths[i]] = "\n".join(lines)
        specs[paths[i]] = sp
    mlines, mterms, msp, mexp = [], [], [], []
    for j in main_deps:
        s = spell(rng, "/m", paths[j]); msp.append(s)
        mlines.append("import { v as v%d } from '%s';" % (j, s)); mterms.append("v%d" % j); mexp.append(vals[j])
        for nm in sorted(rex[j]):
            if rng.random() < 0.5:
                mlines.append("import { %s as m%d_%s } from '%s';" % (nm, j, nm, s)); msp.append(s); mterms.append("m%d_%s" % (j, nm)); mexp.append(rex[j][nm])
    # live binding through the exporter and, when possible, through a re-export chain
    j = main_deps[0]
    s = spell(rng, "/m", paths[j]); msp.append(s)
    mlines.append("import { n as liveN, bump } from '%s';" % s)
    bumps = {j: 2}
    calls = ["bump()", "bump()"]
    chain_terms = []
    for k in main_deps:
        for nm in sorted(live[k]):
            if rng.random() < 0.5 and len(chain_terms) < 3:
                bn, root = live[k][nm]
                s2 = spell(rng, "/m", paths[k]); msp.append(s2)
                mlines.append("import { %s as L%d_%s, %s as B%d_%s } from '%s';" % (nm, k, nm, bn, k, nm, s2))
                calls.append("B%d_%s()" % (k, nm))
                bumps[root] = bumps.get(root, 0) + 1
                chain_terms.append(("L%d_%s" % (k, nm), root))
    mlines.append("console.log('exec:main');")
    mlines.append("%s; [%s].join(',')" % ("; ".join(calls), ", ".join(mterms + ["liveN"] + [t for t, _ in chain_terms])))
    expected = ",".join([str(x) for x in mexp] + [str(bumps[j])] + [str(bumps[r]) for _, r in chain_terms])
    return "\n".join(mlines), srcs, expected, specs, msp


def policies(rng, paths, k):
    out = [["all"] * 12]
    out.append([str(i % 3) for i in range(40)])          # one at a time
    for _ in range(k):
        pol = []
        for _ in range(20):
            item = rng.choice(["all", "all", "0", "1", "2", "5"])
            r = rng.random()
            if r < 0.35:
                item += "+" + "+".join(rng.sample(paths, rng.randint(1, min(3, len(paths)))))   # early / duplicate supplies
            pol.append(item)
        out.append(pol)
    return out


def model_line(main_path, msp, paths, specs, pol):
    mods = ";".join("%s=%s" % (p, ",".join(specs[p])) for p in paths)
    return "%s\t%s\t%s\t%s" % (main_path, ",".join(msp), mods, ";".join(pol))


def canon_impl(ev):
    return [e.split("#")[0] if e.startswith("N:") else e for e in ev]


def run(ctx):
    rng = ctx.rng
    hl, ml, meta = [], [], []
    ngraphs = 150 if ctx.tier == "quick" else 2500
    for g in range(ngraphs):
        n = rng.randint(1, 8)
        paths, deps, main_deps = gen_graph(rng, n)
        main, srcs, expected, specs, msp = build_sources(rng, paths, deps, main_deps)
        pols = policies(rng, paths, 4 if ctx.tier == "quick" else 6)
        if n <= 4 and g % 5 == 0:
            # every order of one-at-a-time supply for small graphs
            for perm in itertools.islice(itertools.permutations(range(4)), 24):
                pols.append([str(x) for x in perm] * 6)
        for pol in pols:
            hl.append(json.dumps({"main_path": "/m/main", "main": main, "mods": srcs, "policy": pol}))
            ml.append(model_line("/m/main", msp, paths, specs, pol))
            meta.append((g, paths, deps, main_deps, expected, specs, pol))
    exp = common.driver(["mod"], ml)
    got = common.harness(["mod"], hl)
    distinct = set()
    results_by_graph = {}
    stats = {"graphs": ngraphs, "runs": len(hl), "need_events": 0, "max_rounds": 0}
    for (g, paths, deps, main_deps, expected, specs, pol), e, o in zip(meta, exp, got):
        ctx.cov["evaluations"] += 1
        ctx.cov["traces_validated_against_impl"] += 1
        case = {"modules": paths, "deps": {paths[i]: [paths[j] for j in deps[i]] for i in deps}, "main_imports": [paths[j] for j in main_deps],
                "policy": pol[:12], "impl": o[:500]}
        ev = o.split("|")
        mev = e.split("|")
        # ---- CORR: same NeedImports sequence, same execution rounds (as sets), entry started
        iev = canon_impl(ev)
        k = 0
        ok = True
        for m in mev:
            if m.startswith("X:"):
                want = set(m[2:].split(","))
                have = set()
                while len(have) < len(want) and k < len(iev) and iev[k].startswith("X:"):
                    have.add(iev[k][2:]); k += 1
                if have != want:
                    ok = False; break
            else:
                if k >= len(iev) or iev[k] != m:
                    ok = False; break
                k += 1
        if ok and not (k < len(iev) and iev[k].startswith("C:")):
            ok = False
        if not ok:
            ctx.corr_fail("M-Mod event sequence != loader", case, e[:400], "|".join(iev)[:400])
        # ---- PROP on the implementation alone
        final = ev[-1]
        if not final.startswith("C:"):
            ctx.prop_fail("terminates: loading an acyclic, fully available graph did not complete (%s)" % final[:80], case); continue
        execs = [x[2:] for x in ev if x.startswith("X:")]
        stats["need_events"] += sum(1 for x in ev if x.startswith("N:"))
        needed = set()
        todo = list(main_deps)
        while todo:
            i = todo.pop()
            if i not in needed:
                needed.add(i); todo.extend(deps[i])
        if sorted(execs) != sorted(set(execs)):
            ctx.prop_fail("once: a module body ran more than once (%s)" % [x for x in execs if execs.count(x) > 1][:3], case); continue
        if not {paths[i] for i in needed} <= set(execs):
            ctx.prop_fail("once: a needed module never ran", case); continue
        pos = {p: i for i, p in enumerate(execs)}
        bad = [(paths[i], paths[j]) for i in deps for j in deps[i] if paths[i] in pos and (paths[j] not in pos or pos[paths[j]] > pos[paths[i]])]
        if bad:
            ctx.prop_fail("depsfirst: module %s ran before its import %s" % bad[0], case); continue
        if "R" not in ev or ev.index("R") < max([ev.index("X:" + p) for p in execs] + [0]):
            ctx.prop_fail("depsfirst: the entry program started before all modules it needs had run", case); continue
        if final != "C:s:" + expected:
            ctx.prop_fail("result: program result %s differs from the expected %s (exports / live bindings)" % (final, expected), case); continue
        results_by_graph.setdefault(g, set()).add(final)
        for x in ev:
            if x.startswith("N:"):
                ps, imps = x[2:].split("#")
                pl, il = ps.split(","), imps.split(",")
                if len(set(pl)) != len(pl):
                    ctx.prop_fail("requests: a NeedImports list names a module twice", case); break
                for p, im in zip(pl, il):
                    if p not in paths:
                        ctx.prop_fail("requests: requested path %r is not the canonical path of any module" % p, case); break
                    if p in execs and ev.index("X:" + p) < ev.index(x):
                        ctx.prop_fail("requests: module %s requested after it had been loaded" % p, case); break
                    importers = {"none"} if paths.index(p) in main_deps else set()
                    importers |= {paths[i] for i in deps if paths.index(p) in deps[i]}
                    if im not in importers:
                        ctx.prop_fail("requests: importer %s of request %s does not import it" % (im, p), case); break
        distinct.add(o)
    for g, rs in results_by_graph.items():
        if len(rs) > 1:
            ctx.prop_fail("orderindep: the same graph gave different results under different supply schedules: %s" % sorted(rs), {"graph": g})
    ctx.cov["distinct_nontrivial"] = len(distinct)
    ctx.cov["rule"] = ("random DAGs of 1..8 modules over 5 directories with named/default/namespace imports, re-exports, diamonds and respelled specifiers ('./', 'zz/../', '//'), "
                       "each under the 'all at once', the one-at-a-time, 4-6 random supply policies (subsets, early unrequested and duplicate supplies) and, for small graphs, all 24 orders of one-at-a-time supply; "
                       "every module logs its evaluation; compared: NeedImports lists, execution rounds, result; distinct_nontrivial = distinct event traces")
    ctx.cov["input_distribution"] = stats
    ctx.sample({"model_line": ml[3][:300], "model": exp[3][:300], "impl": got[3][:300]})
    ctx.sample({"model_line": ml[-1][:300], "model": exp[-1][:300], "impl": got[-1][:300]})
