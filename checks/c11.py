"""C11 — an interpreter stays usable and clean after failed or abandoned runs (DESIGN.md §4 C11)."""
import json
import re
from . import common, gen

LEAN_TARGETS = ["TsrunVerif.Props.C11"]
THEOREMS = ["TsrunVerif.Life." + t for t in [
    "rest_init", "quiescent_after_error", "wf_init", "wf_step", "wf_run", "quiescent_after_complete",
    "abandon_then_prepare_clean", "prepare_from_rest", "observer_equiv", "history_rest_or_active"]]
ASSUMPTIONS = [
    "M-Life models prepare/step-terminal/finalize/abandon over the run bookkeeping (scopes, frames and guards through M-Roots, call stack, active VM, saved/module environment, export scratch map); "
    "its predictions are compared with the real interpreter's verif_state after every run of every generated history (failed, abandoned at an arbitrary step, completed)",
    "observer equivalence on values (typeof of every local of the dead run, a fresh computation, call depth) is evaluated on the implementation against a fresh interpreter (PROP)",
]


def locals_of(src):
    return sorted(set(re.findall(r"\b(?:let|const)\s+([a-z]\w*)", src)) - {"acc", "ar"})[:25]


def events_from_profile(prof):
    """M-Life VM events that build the observed frame profile (current frame first)."""
    ps = [int(x) for x in prof.split(".") if x != ""]
    ev = []
    for i, p in enumerate(reversed(ps)):
        if i > 0:
            ev.append("c")
        ev += ["+"] * p
    return ev


def run(ctx):
    rng = ctx.rng
    cases = []
    n = 260 if ctx.tier == "quick" else 5000
    for i in range(n):
        vsrc, vf = gen.program(rng, depth=rng.randint(1, 3), fail=(i % 3 == 0))
        osrc, _ = gen.program(rng, depth=rng.randint(1, 2), fail=False)
        names = locals_of(vsrc)
        probe = "[" + ", ".join("typeof %s" % x for x in names) + "].join(',')" if names else "''"
        kind = i % 3          # 0: victim fails (planted), 1: abandoned at a step, 2: module body that throws / abandoned module
        is_mod = (i % 5 == 1) or kind == 2
        victim = {"src": ("export const early = 1;\n" if is_mod else "") + vsrc, "mode": ("eval" if (kind != 1 and i % 4 == 0) else "steps"), "trace": True,
                  "path": ("/m/victim%d" % i if is_mod else None)}
        if kind == 1:
            victim["abandon"] = rng.choice([0, 1, 3, 7, 20, 50, 111, 400, 1500])
        elif kind == 2 and not victim["src"].count("planted"):
            victim["src"] += "\nthrow new Error('module body failed');"
        observer = {"src": "const __p = %s;\n%s" % (probe, osrc.replace("main()", "__p + '#' + main()", 1) if False else osrc), "mode": "steps"}
        # observer: first the probe of the dead run's locals, then a fresh computation
        obs_src = "const probe_%d = %s;\n%s" % (i, probe, osrc)
        obs_src = obs_src[: obs_src.rindex("main()")] + "probe_%d + '#' + main()" % i
        observer = {"src": obs_src, "mode": "steps" if i % 2 else "eval"}
        cases.append((victim, observer, names, is_mod))
    # a DEPENDENCY whose body throws after declaring bindings (directly imported, or imported by a dependency); the observer is a
    # script, or a script after one more successful module run
    for i in range(12 if ctx.tier == "quick" else 120):
        names = ["depSecret%d" % i, "depHelper%d" % i, "depLate%d" % i]
        failing = ("const %s = %d; function %s() { return 1; }\nexport const shown = %s;\n%s\nconst %s = 2;"
                   % (names[0], i, names[1], names[0], rng.choice(["throw new RangeError('dep body failed');", "undefinedInDep%d();" % i, "null.x;"]), names[2]))
        if i % 2:
            mods = {"/m/dep": "import { shown } from './inner/bad'; export const viaMid = shown;", "/m/inner/bad": failing}
        else:
            mods = {"/m/dep": failing}
        v = {"src": "import * as d from './dep'; export const got = Object.keys(d).length;\ngot", "mode": "steps", "trace": True, "path": "/m/main%d" % i, "mods": mods}
        probe = "[" + ", ".join("typeof %s" % x for x in names + ["shown", "got", "d"]) + "].join(',')"
        o = {"src": "const probe_d%d = %s;\nfunction main() { return 'acc=1'; }\nprobe_d%d + '#' + main()" % (i, probe, i), "mode": "steps" if i % 4 < 2 else "eval"}
        cases.append((v, o, names + ["shown", "got", "d"], True))
    # an INTERNAL source module (registered by the host) whose body fails while it is instantiated by the first import: the importer is a plain
    # script (no module path), run through both entry points; the dead module's private bindings must not be the scope of later runs
    internal_cases = {}
    for i in range(6 if ctx.tier == "quick" else 60):
        names = ["cfgKey%d" % i, "cfgLoads%d" % i, "cfgLen%d" % i]
        body = ("const %s = 'k%d'; let %s = %d; function %s() { return %s.length; }\nexport const shown = %s();\n%s\nexport const late = 1;"
                % (names[0], i, names[1], i, names[2], names[0], names[2], rng.choice(["throw new RangeError('config failed');", "undefinedInConfig%d();" % i, "null.x;"])))
        if i % 3 == 2:
            # the internal module's OWN import cannot be bound (the name is not exported by the other internal module)
            body = "import { nope%d } from 'app:other%d';\n" % (i, i) + body
        spec = "app:config%d" % i
        importer = rng.choice(["import { shown } from '%s';\nshown", "import * as cfg from '%s';\nObject.keys(cfg).length", "export { shown } from '%s';\n1"]) % spec
        v = {"src": importer, "mode": "eval" if i % 2 else "steps", "trace": True, "path": None}
        probe = "[" + ", ".join("typeof %s" % x for x in names + ["shown", "cfg"]) + "].join(',')"
        o = {"src": "const probe_i%d = %s;\nfunction main() { return 'acc=1'; }\nprobe_i%d + '#' + main()" % (i, probe, i), "mode": "steps" if i % 4 < 2 else "eval"}
        internal_cases[len(cases)] = {spec: body, "app:other%d" % i: "export const there = 1;"}
        cases.append((v, o, names + ["shown", "cfg"], True))
    # corpus: top-level generator.throw from program code, in both entry points
    for mode in ("eval", "steps"):
        v = {"src": "function* g(secret: number) { let local = 1; yield local + secret; yield 2; }\nconst it = g(5); it.next();\nit.throw(new Error('boom'));", "mode": mode, "trace": True, "path": None}
        o = {"src": "const probe_c = [typeof secret, typeof local].join(',');\nfunction main() { return 'acc=1'; }\nprobe_c + '#' + main()", "mode": "steps"}
        cases.append((v, o, ["secret", "local"], False))
    lines = [json.dumps({"gc": rng.choice([None, 1, 100]), "runs": [v, o], "internal": internal_cases.get(ci, {})}) for ci, (v, o, _, _) in enumerate(cases)]
    fresh = [json.dumps({"gc": None, "runs": [o], "internal": internal_cases.get(ci, {})}) for ci, (_, o, _, _) in enumerate(cases)]
    got = common.harness(["life"], lines, timeout=900)
    ref = common.harness(["life"], fresh, timeout=900)
    mlines, mback = [], []
    hist = {"victim_error": 0, "victim_abandoned": 0, "victim_completed": 0, "module_victims": 0}
    distinct = set()
    for (v, o, names, is_mod), g, r in zip(cases, got, ref):
        ctx.cov["evaluations"] += 1
        case = {"victim": v["src"][:900], "abandon": v.get("abandon"), "module": is_mod, "observer": o["src"][:300], "impl": g[:500], "fresh": r[:200]}
        runs = g.split("|")
        if len(runs) != 2 or "CRASH" in g or "TIMEOUT" in g:
            ctx.prop_fail("crash: victim/observer pair did not run (%s)" % g[-80:], case); continue
        vout = runs[0].split(" ~")[0]
        oout = runs[1].split(" ~")[0]
        rout = r.split(" ~")[0]
        st_v = [p for p in runs[0].split(";") if p.startswith("st=")][0][3:]
        st_o = [p for p in runs[1].split(";") if p.startswith("st=")][0][3:]
        hist["module_victims"] += is_mod
        if vout.startswith("ERR"):
            hist["victim_error"] += 1
        elif vout.startswith("ABANDONED"):
            hist["victim_abandoned"] += 1
        else:
            hist["victim_completed"] += 1
        # ---- PROP: the observer behaves as on a fresh interpreter; no local of the dead run is visible
        if rout.startswith("OK s:") and "#" in rout:
            fresh_probe, fresh_val = rout[5:].split("#", 1)
            if not oout.startswith("OK s:") or "#" not in oout:
                ctx.prop_fail("usable: the observer program failed after the victim run (%s), fresh interpreter gives %s" % (oout[:60], rout[:60]), case); continue
            probe, val = oout[5:].split("#", 1)
            leaked = [nm for nm, t in zip(names, probe.split(",")) if t != "undefined"] if names else []
            if leaked:
                ctx.prop_fail("leak: locals of the dead run are visible to the next program: %s" % leaked[:5], case); continue
            if val != fresh_val:
                ctx.prop_fail("differs: a fresh computation gives %s after the victim run but %s on a fresh interpreter" % (val[:40], fresh_val[:40]), case); continue
        if vout.startswith("ERR") or vout.startswith("OK"):
            if not (st_v.startswith("g1e0c0v0s0m0x0") and st_v.endswith("d0")):
                ctx.prop_fail("rest: bookkeeping not at rest after the victim ended with %s: %s" % (vout[:30], st_v), case); continue
        if not (st_o.startswith("g1e0c0v0s0m0x0") and st_o.endswith("d0")):
            ctx.prop_fail("rest: bookkeeping not at rest after the observer completed: %s" % st_o, case); continue
        distinct.add(vout[:20] + "/" + oout[:30])
        # ---- CORR: M-Life prediction of the flags after both runs
        p = "P1" if is_mod else "P0"
        evs = [p]
        if is_mod:
            evs.append("X")
        if vout.startswith("ABANDONED"):
            tr = [x for x in runs[0].split(";") if x.startswith("tr=")]
            last = tr[0][3:].split(",")[-1] if tr and tr[0][3:] else "0:0:0"
            evs += events_from_profile(last.split(":")[2])
        elif vout.startswith("ERR"):
            evs.append("E")
        else:
            evs.append("C")
        mlines.append(",".join(evs) + ";P0,C")
        mback.append((case, vout, st_v, st_o))
    exp = common.driver(["life"], mlines)
    for (case, vout, st_v, st_o), e in zip(mback, exp):
        ctx.cov["traces_validated_against_impl"] += 1
        m1, m2 = e.split("|")
        def core(st):
            # g..e..c..v..s..m..x..  (drop root_guard length and call_depth)
            return re.match(r"(g\d+e\d+c\d+v\d+s\d+m\d+x\d+)", st).group(1)
        i1, i2 = core(st_v), core(st_o)
        if vout.startswith("ABANDONED"):
            # exports registered so far and the exact scope (global or not) depend on the abandon point: compare guards, call stack and the active flags
            def key(s):
                mm = re.match(r"g\d+e(\d+)c(\d+)v(\d+)s(\d+)m(\d+)", s)
                return mm.groups()
            if key(i1) != key(m1):
                ctx.corr_fail("M-Life != interpreter after an abandoned run", case, m1, i1)
        elif i1 != m1:
            ctx.corr_fail("M-Life != interpreter after the victim run", case, m1, i1)
        if i2 != m2:
            ctx.corr_fail("M-Life != interpreter after the observer run", case, m2, i2)
    ctx.cov["distinct_nontrivial"] = len(distinct)
    ctx.cov["rule"] = ("histories of two runs on one interpreter: a victim (generated program; 1/3 with an uncaught error planted at a random depth, 1/3 abandoned by the host at step "
                       "{0,1,3,7,20,50,111,400,1500}, 1/3 a module body that throws after registering an export; scripts and modules) followed by an observer that reports typeof of every "
                       "local the victim declared and a fresh computation; the observer is also run on a fresh interpreter; verif_state after each run is compared with M-Life. "
                       "distinct_nontrivial = distinct (victim outcome, observer outcome) pairs")
    ctx.cov["input_distribution"] = hist
    ctx.sample({"victim_head": cases[1][0]["src"][:300], "abandon": cases[1][0].get("abandon"), "impl": got[1][:300], "model": exp[1] if len(exp) > 1 else None})
