"""C04 — TypeScript's run-time constructs behave as their standard JavaScript emit (DESIGN.md §4 C04)."""
import json
import os
import shutil
import subprocess
from . import common

LEAN_TARGETS = ["TsrunVerif.Props.C04"]
THEOREMS = ["TsrunVerif.Emit." + t for t in ["lower_eq_emit", "forward_lookup", "reverse_last_writer", "auto_increment",
                                              "ns_block_alias_eq_emit", "ns_merged_alias_eq_emit", "ns_export_is_property", "ctor_param_properties"]]
ASSUMPTIONS = [
    "M-Emit states the TypeScript emit for enums (E[E[name] = value] = name per numeric member, constants folded by tsc, merged declarations continue on the same object), for namespaces "
    "(exported variables are properties of the namespace object, every block sees all earlier exports) and for parameter properties (this.x = x in parameter order); the lowering side is a "
    "hand transcription of compile_enum_declaration / compile_namespace_declaration / compile_constructor_body and is compared with the real compiler on every generated declaration",
    "enum values are integers or strings in the model (fractional, NaN and infinite values are exercised on the implementation only); member names are not numeric (TypeScript rejects those)",
    "the JavaScript text of the emit is produced by the generator of this check (python) from the same declaration description the model receives; it is run on tsrun itself and, when a "
    "node binary is present, on node as the reference engine (secondary oracle, not required)",
    "key order of objects is not compared (only key sets and values)",
]

NODE_DRIVER = r"""
const vm = require('vm'); const rl = require('readline').createInterface({input: process.stdin});
rl.on('line', l => { let out; try { const src = JSON.parse(l); const v = vm.runInNewContext(src, {}, {timeout: 5000}); out = 'OK s:' + String(v); } catch (e) { out = 'ERR ' + (e && e.name); } console.log(out.replace(/\n/g, '\\n')); });
"""


# ---------------------------------------------------------------- enums
def const_expr(rng, prior, depth=0):
    """returns (ts text, js text, value) of a constant enum expression over ints and prior numeric members."""
    k = rng.random()
    if depth > 2 or k < 0.35:
        if prior and rng.random() < 0.5:
            nm, v, qual = rng.choice(prior)
            if rng.random() < 0.5:
                return nm, "E." + nm, v
            return "E." + nm, "E." + nm, v
        v = rng.randint(0, 12)
        return str(v), str(v), v
    if k < 0.5:
        t, j, v = const_expr(rng, prior, depth + 1)
        op = rng.choice(["-", "~", "+"])
        val = {"-": -v, "~": -v - 1, "+": v}[op]
        return "%s(%s)" % (op, t), "%s(%s)" % (op, j), val
    a = const_expr(rng, prior, depth + 1)
    b = const_expr(rng, prior, depth + 1)
    op = rng.choice(["+", "-", "*", "|", "&", "^", "<<"])
    if op == "<<":
        b = (str(rng.randint(0, 4)),) * 2 + (None,)
        b = (b[0], b[1], int(b[0]))
    av, bv = a[2], b[2]
    if abs(av) > 2 ** 20 or abs(bv) > 2 ** 20:
        return a
    val = {"+": av + bv, "-": av - bv, "*": av * bv, "|": av | bv, "&": av & bv, "^": av ^ bv, "<<": av << bv if 0 <= bv <= 4 else av}[op]
    return "(%s %s %s)" % (a[0], op, b[0]), "(%s %s %s)" % (a[1], op, b[1]), val


COMPUTED = [("'abc'.length", 3), ("Math.max(2, 5)", 5), ("[1, 2].length", 2), ("k4()", 4), ("Math.floor(7.5)", 7), ("Number('12')", 12), ("'x'.charCodeAt(0)", 120)]
NAMES = ["A", "B", "C", "D", "Up", "Down", "Left", "none", "toString", "length", "name", "constructor", "a-b", "with space", "$x", "_y"]


def gen_enum(rng):
    """returns (ts_decl, js_decl, model_line_or_None, member names)"""
    nblocks = rng.choice([1, 1, 1, 2, 3])
    ts_blocks, js_blocks, model_blocks = [], [], []
    all_prior = []      # numeric members (name, value) visible by bare name only inside the same block
    model_ok = True
    used = []
    const = False
    for b in range(nblocks):
        prior = []
        sprior = []         # string members of this block: (name, value, is identifier)
        members_ts, members_js, members_model = [], [], []
        prev = None         # previous value: int / 'str' / 'computed-int'
        first = True
        for i in range(rng.randint(1, 6)):
            nm = rng.choice(NAMES) if rng.random() < 0.3 else "M%d" % rng.randint(0, 9)
            if nm in used:
                continue                    # TypeScript rejects duplicate member names
            ident = nm.replace("$", "").replace("_", "").isalnum() and not nm[0].isdigit()
            ts_name = nm if ident else json.dumps(nm)
            kinds = ["auto", "lit", "neg", "str", "const", "computed", "dup", "strcat"]
            if not (first or isinstance(prev, int)):
                kinds.remove("auto")
            kind = rng.choice(kinds)
            first = False
            if kind == "auto":
                v = 0 if prev is None else prev + 1
                members_ts.append(ts_name)
                members_model.append("%s=auto" % nm)
                members_js.append('E[E[%s] = %d] = %s;' % (json.dumps(nm), v, json.dumps(nm)))
            elif kind in ("lit", "neg", "dup"):
                v = rng.randint(0, 9) if kind == "lit" else -rng.randint(1, 9) if kind == "neg" else (rng.choice(all_prior + prior)[1] if (all_prior + prior) else 3)
                members_ts.append("%s = %d" % (ts_name, v))
                members_model.append("%s=n:%d" % (nm, v))
                members_js.append('E[E[%s] = %d] = %s;' % (json.dumps(nm), v, json.dumps(nm)))
            elif kind == "str":
                sv = rng.choice(["s", "up", "x1", "A", "0"])
                tsv = rng.choice(["'%s'", '"%s"', "`%s`"]) % sv
                members_ts.append("%s = %s" % (ts_name, tsv))
                members_model.append("%s=s:%s" % (nm, sv))
                members_js.append('E[%s] = %s;' % (json.dumps(nm), json.dumps(sv)))
                sprior = [p for p in sprior if p[0] != nm] + [(nm, sv, ident)]
                v = "str"
            elif kind == "strcat":
                # a constant string concatenation (folded by tsc: a plain string member, NO reverse mapping): literals,
                # a number literal, an earlier string member of this block
                sp = [p for p in sprior if p[2]]
                left = rng.choice(sp) if sp and rng.random() < 0.5 else None
                lit1, lit2 = rng.choice(["a", "v", "/api", "M1", "B"]), rng.choice(["b", "", "/users", "x"])
                if left:
                    tsv, sv = "%s + %s" % (left[0], json.dumps(lit2)), left[1] + lit2
                elif rng.random() < 0.3:
                    num = rng.randint(0, 9)
                    tsv, sv = "%s + %d" % (json.dumps(lit1), num), lit1 + str(num)
                else:
                    tsv, sv = "%s + %s" % (json.dumps(lit1), json.dumps(lit2)), lit1 + lit2
                members_ts.append("%s = %s" % (ts_name, tsv))
                members_model.append("%s=s:%s" % (nm, sv))
                members_js.append('E[%s] = %s;' % (json.dumps(nm), json.dumps(sv)))
                sprior = [p for p in sprior if p[0] != nm] + [(nm, sv, ident)]
                v = "str"
            elif kind == "const":
                t, j, v = const_expr(rng, [p for p in prior if p[2]])
                members_ts.append("%s = %s" % (ts_name, t))
                members_model.append("%s=n:%d" % (nm, v))
                members_js.append('E[E[%s] = %s] = %s;' % (json.dumps(nm), j, json.dumps(nm)))
            else:
                t, v = rng.choice(COMPUTED)
                members_ts.append("%s = %s" % (ts_name, t))
                members_model.append("%s=n:%d" % (nm, v))
                members_js.append('E[E[%s] = %s] = %s;' % (json.dumps(nm), t, json.dumps(nm)))
                prev = "computed"
                prior.append((nm, v, False))
                used.append(nm)
                continue
            prev = v if isinstance(v, int) else "str"
            if isinstance(v, int):
                prior = [p for p in prior if p[0] != nm] + [(nm, v, ident)]
            else:
                prior = [p for p in prior if p[0] != nm]
            used.append(nm)
        if not members_ts:
            nm = "Z%d" % b
            members_ts.append("%s = %d" % (nm, b))
            members_model.append("%s=n:%d" % (nm, b))
            members_js.append('E[E["%s"] = %d] = "%s";' % (nm, b, nm))
            used.append(nm)
        all_prior += [(p[0], p[1]) for p in prior]
        ts_blocks.append("enum E { %s%s }" % (", ".join(members_ts), rng.choice(["", ","])))
        js_blocks.append("var E; (function (E) { %s })(E || (E = {}));" % " ".join(members_js))
        model_blocks.append(";".join(members_model))
    return ts_blocks, js_blocks, "E " + "|".join(model_blocks), used


ENUM_OBS = ("JSON.stringify([Object.keys(E).sort().map(k => k + '=' + JSON.stringify((E as any)[k])), typeof E, %s])")


# ---------------------------------------------------------------- namespaces
class NsGen:
    """statements of merged namespace blocks with resolved references: prints TS (bare names) and the emit (N.x)."""
    def __init__(self, rng, name="N"):
        self.rng, self.name = rng, name
        self.exported = []          # exported variable names so far (all blocks): (name, mutable)
        self.funcs = []             # exported function names

    def expr(self, scope, depth=0):
        rng = self.rng
        names = [n for n in scope]
        if depth > 1 or rng.random() < 0.4 or not names:
            if names and rng.random() < 0.6:
                n = rng.choice(names)
                return n, scope[n] % n if "%s" in scope[n] else scope[n], n
            v = rng.randint(0, 9)
            return str(v), str(v), str(v)
        a = self.expr(scope, depth + 1)
        b = self.expr(scope, depth + 1)
        return "(%s + %s)" % (a[0], b[0]), "(%s + %s)" % (a[1], b[1]), "%s %s +" % (a[2], b[2])

    def block(self, pure):
        rng, N = self.rng, self.name
        scope = {n: N + "." + n for n, _ in self.exported}          # name -> js spelling
        mutable = {n: m for n, m in self.exported}
        ts, js, model = [], [], []
        for i in range(rng.randint(1, 6)):
            k = rng.random()
            if k < 0.35:
                x = "v%d" % rng.randint(0, 5)
                kw = rng.choice(["let", "const", "var"])
                if x in scope:
                    continue                        # would redeclare a local or an exported name
                t, j, m = self.expr(scope)
                ts.append("export %s %s = %s;" % (kw, x, t))
                js.append("%s.%s = %s;" % (N, x, j))
                model.append("ex %s %s" % (x, m))
                scope[x] = N + "." + x
                mutable[x] = kw != "const"
                self.exported = [e for e in self.exported if e[0] != x] + [(x, kw != "const")]
            elif k < 0.55:
                x = "h%d" % rng.randint(0, 3)
                if x in scope:
                    continue
                t, j, m = self.expr(scope)
                ts.append("let %s = %s;" % (x, t))
                js.append("let %s = %s;" % (x, j))
                model.append("lo %s %s" % (x, m))
                scope[x] = x
                mutable[x] = True
            elif k < 0.75:
                cands = [n for n in scope if mutable.get(n)]
                if not cands:
                    continue
                x = rng.choice(cands)
                t, j, m = self.expr(scope)
                ts.append("%s = %s;" % (x, t))
                js.append("%s = %s;" % (scope[x], j))
                model.append("as %s %s" % (x, m))
            elif not pure:
                cands = [n for n in scope if mutable.get(n)]
                f = "f%d" % len(self.funcs)
                if cands and rng.random() < 0.7:
                    x = rng.choice(cands)
                    t, j, _ = self.expr(scope)
                    ts.append("export function %s() { %s = %s + %s; return %s; }" % (f, x, x, t, x))
                    js.append("function %s() { %s = %s + %s; return %s; } %s.%s = %s;" % (f, scope[x], scope[x], j, scope[x], N, f, f))
                else:
                    t, j, _ = self.expr(scope)
                    ts.append("export const %s = () => %s;" % (f, t))
                    js.append("%s.%s = () => %s;" % (N, f, j))
                self.funcs.append(f)
        return ts, js, ";".join(model)


def gen_namespace(rng):
    pure = rng.random() < 0.5
    g = NsGen(rng)
    ts, js, model = [], [], []
    for b in range(rng.choice([1, 2, 2, 3])):
        t, j, m = g.block(pure)
        if not t:
            t, j, m = ["export const z%d = %d;" % (b, b)], ["N.z%d = %d;" % (b, b)], "ex z%d %d" % (b, b)
            g.exported.append(("z%d" % b, False))
        ts.append("namespace N { %s }" % " ".join(t))
        js.append("var N; (function (N) { %s })(N || (N = {}));" % " ".join(j))
        model.append(m)
        if not pure and rng.random() < 0.4 and g.exported:
            x, mut = rng.choice(g.exported)
            st = "(N as any).%s = %d;" % (x, rng.randint(20, 30))
            ts.append(st)
            js.append(st.replace("(N as any)", "N"))
    calls = ", ".join("(N as any).%s()" % f for f in g.funcs for _ in range(2))
    obs = "JSON.stringify([[%s], Object.keys(N).sort().map(k => typeof (N as any)[k] === 'function' ? k + '=fn' : k + '=' + (N as any)[k])])" % calls
    return ts, js, ("N " + "|".join(model)) if pure else None, obs


# ---------------------------------------------------------------- nested / merged namespaces with scope resolution
class NsSym:
    def __init__(self, name):
        self.name = name
        self.exports = {}            # exported variable name -> seq of its initialisation (all merged blocks)
        self.exported_children = {}  # name -> (NsSym, seq of first declaration) merged across all blocks of this symbol
        self.local_kid_names = set()


class NsBlock:
    def __init__(self, sym, parent):
        self.sym, self.parent = sym, parent
        self.locals = {}             # local variable name -> seq
        self.local_children = {}     # non-exported nested namespaces of THIS block: name -> (NsSym, first seq)
        self.declared_here = {}      # nested namespace names declared in this block -> first seq
        self.items = []              # ('ex'|'lo', name, seq) | ('ns', name, exported, NsBlock, seq)


NS_VARS = ["x", "y", "z", "w"]
NS_KIDS = ["B", "C", "D"]
NS_SHOW = "const show = o => typeof o === 'object' && o ? '{' + Object.keys(o).sort().map(k => k + ':' + show(o[k])).join(',') + '}' : String(o);\n"


def gen_nested_namespace(rng):
    """merged blocks of `namespace A` with exported and local variables and nested (exported or block-local) namespaces.
    Pass 1 fixes the declarations; pass 2 writes the initialisers: every bare or qualified reference is bound the way the
    TypeScript checker binds it (block locals, then the exports of the merged symbol, then outwards) and spelled accordingly
    in the emit; only bindings already initialised at that point are referenced."""
    seq = [0]
    root = NsSym("A")

    def path_names(block):
        out = []
        while block is not None:
            out.append(block.sym.name)
            block = block.parent
        return out

    def build(block, depth):
        for _ in range(rng.randint(1, 5)):
            k = rng.random()
            if k < 0.42:
                n = rng.choice(NS_VARS)
                if n in block.sym.exports or n in block.locals:
                    continue
                seq[0] += 1
                block.sym.exports[n] = seq[0]
                block.items.append(("ex", n, seq[0]))
            elif k < 0.62:
                n = rng.choice(NS_VARS)
                if n in block.locals or n in block.sym.exports:
                    continue
                seq[0] += 1
                block.locals[n] = seq[0]
                block.items.append(("lo", n, seq[0]))
            elif depth < 2:
                free = [x for x in NS_KIDS if x not in path_names(block)]
                again = [x for x in free if x in block.sym.local_kid_names or x in block.sym.exported_children]
                kid = rng.choice(again) if again and rng.random() < 0.6 else rng.choice(free)
                if kid in block.sym.exported_children:
                    exported = True
                elif kid in block.sym.local_kid_names:
                    exported = False                 # never mix exported and local declarations of one name in a namespace
                else:
                    exported = rng.random() < 0.5
                seq[0] += 1
                if exported:
                    ksym = block.sym.exported_children.setdefault(kid, (NsSym(kid), seq[0]))[0]
                else:
                    ksym = block.local_children.setdefault(kid, (NsSym(kid), seq[0]))[0]
                    block.sym.local_kid_names.add(kid)
                block.declared_here.setdefault(kid, seq[0])
                inner = NsBlock(ksym, block)
                block.items.append(("ns", kid, exported, inner, seq[0]))
                build(inner, depth + 1)
        if not block.items:
            seq[0] += 1
            n = "v%d" % seq[0]
            block.sym.exports[n] = seq[0]
            block.items.append(("ex", n, seq[0]))

    def resolve_var(name, block):
        b = block
        while b is not None:
            if name in b.locals:
                return name, b.locals[name]
            if name in b.sym.exports:
                return b.sym.name + "." + name, b.sym.exports[name]
            b = b.parent
        return name, 0                       # module-level const

    def resolve_ns(kid, block, now):
        """-> (js spelling of the namespace object, symbol) or None when unbound / not yet created at `now`"""
        b = block
        while b is not None:
            if kid in b.local_children:
                ksym, first = b.local_children[kid]
                return (kid, ksym) if first < now else None
            if kid in b.sym.exported_children:
                ksym, first = b.sym.exported_children[kid]
                if kid in b.declared_here:                      # this block has its own `let K`
                    return (kid, ksym) if b.declared_here[kid] < now else None
                return (b.sym.name + "." + kid, ksym) if first < now else None
            b = b.parent
        return None

    def expr(block, now, own):
        cands = []
        for n in NS_VARS:
            js, at = resolve_var(n, block)
            if at < now:
                cands.append((n, js))
        for kid in NS_KIDS:
            r = resolve_ns(kid, block, now)
            if r:
                for v, at in r[1].exports.items():
                    if at < now:
                        cands.append((kid + "." + v, r[0] + "." + v))
        k = rng.random()
        if not cands or k < 0.25:
            lit = "'%s%d'" % (block.sym.name.lower(), now)
            return lit, lit
        # names that ANOTHER namespace object of the same name exports, but this one does not: they must bind outwards
        foreign = [c for c in cands if c[0] in by_name.get(block.sym.name, ()) and c[0] not in block.sym.exports and c[0] not in block.locals]
        if foreign and rng.random() < 0.5:
            return rng.choice(foreign)
        if k < 0.75:
            return rng.choice(cands)
        a, b2 = rng.choice(cands), rng.choice(cands)
        return "(%s + '+' + %s)" % (a[0], b2[0]), "(%s + '+' + %s)" % (a[1], b2[1])

    def text(block):
        ts, js, seen = [], [], set()
        for it in block.items:
            if it[0] == "ex":
                t, j = expr(block, it[2], it[1])
                ts.append("export const %s = %s;" % (it[1], t))
                js.append("%s.%s = %s;" % (block.sym.name, it[1], j))
            elif it[0] == "lo":
                t, j = expr(block, it[2], it[1])
                ts.append("const %s = %s;" % (it[1], t))
                js.append("const %s = %s;" % (it[1], j))
            else:
                _, kid, exported, inner, _ = it
                t, j = text(inner)
                ts.append("%snamespace %s { %s }" % ("export " if exported else "", kid, " ".join(t)))
                arg = "%s = %s.%s || (%s.%s = {})" % (kid, block.sym.name, kid, block.sym.name, kid) if exported else "%s || (%s = {})" % (kid, kid)
                js.append("%s(function (%s) { %s })(%s);" % ("let %s; " % kid if kid not in seen else "", kid, " ".join(j), arg))
                seen.add(kid)
        return ts, js

    blocks = []
    for _ in range(rng.choice([1, 2, 2, 3, 3])):
        blk = NsBlock(root, None)
        build(blk, 0)
        blocks.append(blk)
    by_name = {}

    def collect(block):
        by_name.setdefault(block.sym.name, set()).update(block.sym.exports)
        for it in block.items:
            if it[0] == "ns":
                collect(it[3])
    for blk in blocks:
        collect(blk)
    ts_all = ["const %s = 'g.%s';" % (n, n) for n in NS_VARS]
    js_all = list(ts_all)
    for i, blk in enumerate(blocks):
        t, j = text(blk)
        ts_all.append("namespace A { %s }" % " ".join(t))
        js_all.append("%s(function (A) { %s })(A || (A = {}));" % ("var A; " if i == 0 else "", " ".join(j)))
    return ts_all, js_all, None, "show(A)"


# ---------------------------------------------------------------- classes
def gen_class(rng):
    derived = rng.random() < 0.5
    mods = ["public", "private", "protected", "readonly", "public readonly", "private readonly", "protected readonly", ""]
    params_ts, params_js, props, names = [], [], [], []
    for i in range(rng.randint(1, 5)):
        nm = "p%d" % i
        mod = rng.choice(mods)
        default = None
        if rng.random() < 0.35:
            default = rng.choice(["%d" % rng.randint(1, 9)] + (["%s + 1" % rng.choice(names)] if names else []))
        opt = "?" if (default is None and rng.random() < 0.15) else ""
        params_ts.append("%s %s%s: number%s" % (mod, nm, opt, " = " + default if default else ""))
        params_js.append("%s%s" % (nm, " = " + default if default else ""))
        if mod:
            props.append(nm)
        names.append(nm)
    body = []
    if rng.random() < 0.5:
        body.append("%s = 100;" % rng.choice(names))           # assigning the parameter does not change the property
    if props and rng.random() < 0.5:
        body.append("this.%s = (this.%s as any) + 1000;" % (props[0], props[0]))
    body.append("(this as any).tail = %s;" % " + ".join(names[:2]))
    fields = ["f%d = %d;" % (i, rng.randint(1, 9)) for i in range(rng.randint(0, 2))]
    sup = ""
    base_ts = base_js = ""
    if derived:
        base_ts = "class Base { b0 = 7; constructor(public q: number, public p0: number = -1) { (this as any).made = 'base'; } } "
        base_js = "class Base { b0 = 7; constructor(q, p0 = -1) { this.q = q; this.p0 = p0; this.made = 'base'; } } "
        sup = "super(%s, %s);" % (names[0], rng.choice(["undefined", "50"]))
    ts = "%sclass K %s{ %s constructor(%s) { %s %s } }" % (base_ts, "extends Base " if derived else "", " ".join(fields), ", ".join(p.strip() for p in params_ts), sup, " ".join(body))
    js = "%sclass K %s{ %s constructor(%s) { %s %s %s } }" % (base_js, "extends Base " if derived else "", " ".join(fields), ", ".join(params_js), sup,
                                                         " ".join("this.%s = %s;" % (p, p) for p in props), " ".join(body).replace(" as any", ""))
    args = [str(rng.randint(1, 9)) for _ in range(rng.randint(0, len(names)))]
    obs = "JSON.stringify((o => Object.keys(o).sort().map(k => k + '=' + (o as any)[k]))(new K(%s)))" % ", ".join(args)
    return ts, js, obs


def gen_abstract(rng):
    members_ts, members_js = [], []
    sub = []
    for i in range(rng.randint(1, 4)):
        k = rng.random()
        acc = rng.choice(["", "public ", "protected "])
        if k < 0.35:
            members_ts.append("%sabstract m%d(a: number): number;" % (acc, i))
            sub.append("m%d(a: number): number { return a + %d; }" % (i, i))
        elif k < 0.55:
            members_ts.append("%sabstract x%d: number;" % (acc, i))
            sub.append("x%d = %d;" % (i, i + 10))
        elif k < 0.7:
            members_ts.append("abstract get g%d(): number;" % i)
            sub.append("get g%d() { return %d; }" % (i, i + 20))
        else:
            m = "c%d() { return %d; }" % (i, i + 30)
            members_ts.append(acc + m)
            members_js.append(m)
        # other members that emit nothing (a declared field, an overload signature, an index signature) ...
        if rng.random() < 0.35:
            members_ts.append(rng.choice(["declare d%d: number;" % i, "o%d(a: number): number; o%d(a: any) { return a; }" % (i, i)] + ([] if "[k: string]: any;" in members_ts else ["[k: string]: any;"])))
            if members_ts[-1].startswith("o%d" % i):
                members_js.append("o%d(a) { return a; }" % i)
                members_ts[-1], extra = members_ts[-1].split("; ", 1)
                members_ts[-1] += ";"
            else:
                extra = None
            if extra is None and rng.random() < 0.6:        # (an overload signature must be followed by its implementation)
                sb = "static { sbLog.push('t%d'); }" % i
                members_ts.append(sb); members_js.append(sb)
            if extra:
                members_ts.append(extra)
        # ... and static blocks, which run at class definition wherever they stand (also right after an abstract member)
        if rng.random() < 0.45:
            for r in range(rng.randint(1, 2)):
                sb = "static { sbLog.push('s%d%d'); }" % (i, r)
                members_ts.append(sb); members_js.append(sb)
    ts = "abstract class A { %s } class C extends A { %s }" % (" ".join(members_ts), " ".join(sub))
    js = "class A { %s } class C extends A { %s }" % (" ".join(members_js), " ".join(sub).replace(": number", ""))
    ts, js = "const sbLog: string[] = []; " + ts, "const sbLog = []; " + js
    obs = ("JSON.stringify([sbLog, Object.getOwnPropertyNames(A.prototype).sort(), Object.getOwnPropertyNames(C.prototype).sort(), Object.keys(new C()).sort().map(k => k + '=' + (new C() as any)[k]), "
           "Object.getOwnPropertyNames(C.prototype).filter(k => k !== 'constructor').sort().map(k => typeof (C.prototype as any)[k] === 'function' ? (new C() as any)[k](1) : (new C() as any)[k])])")
    return ts, js, obs


PRELUDE = "function k4() { return 4; }\n"


def embed(rng, decls, obs, js):
    """place the declarations at top level, inside a function body or inside a block after other statements."""
    strip = (lambda s: s.replace("(E as any)", "E").replace("(N as any)", "N").replace(" as any", "").replace("(o => ", "(o => ")) if js else (lambda s: s)
    body = "\n".join(decls)
    o = strip(obs)
    style = rng.choice(["top", "func", "top"])
    if style == "func":
        return PRELUDE + "function main() {\nlet pad = 1;\n%s\nreturn %s;\n}\nmain()" % (body, o)
    return PRELUDE + "let pad = [1, 2].map(x => x * 2);\n%s\n%s" % (body, o)


def matches_finding(f, case, what, extra):
    m = f.get("marker")
    return bool(m) and isinstance(case, dict) and ("/*KF:%s*/" % m) in case.get("typescript", "")


def run(ctx):
    rng = ctx.rng
    cases = []
    n = 300 if ctx.tier == "quick" else 4200
    for i in range(n):
        kind = ["enum", "ns", "class", "abstract", "nsnest", "nsnest"][i % 6]
        style_seed = rng.randint(0, 10 ** 9)
        if kind == "enum":
            ts, js, model, used = gen_enum(rng)
            look = ", ".join(["(E as any)[%s]" % json.dumps(u) for u in used[:3]] + ["(E as any)[(E as any)[%s]]" % json.dumps(u) for u in used[:3]] + ["(E as any)[6]", "(E as any)[-1]"])
            obs = ENUM_OBS % look
        elif kind == "ns":
            ts, js, model, obs = gen_namespace(rng)
        elif kind == "nsnest":
            ts, js, model, obs = gen_nested_namespace(rng)
            ts, js = [NS_SHOW] + ts, [NS_SHOW] + js
        elif kind == "class":
            t, j, obs = gen_class(rng)
            ts, js, model = [t], [j], None
        else:
            t, j, obs = gen_abstract(rng)
            ts, js, model = [t], [j], None
        import random as _r
        cases.append({"kind": kind, "ts": embed(_r.Random(style_seed), ts, obs, False), "js": embed(_r.Random(style_seed), js, obs, True), "model": model})
    # corpus from the property text and from past failures
    corpus = [
        ("enum E { A = 6, B = 6 }", "var E; (function (E) { E[E[\"A\"] = 6] = \"A\"; E[E[\"B\"] = 6] = \"B\"; })(E || (E = {}));", "E A=n:6;B=n:6", ENUM_OBS % "(E as any)[6]"),
        ("enum E { A = 'abc'.length, B = 7 }", "var E; (function (E) { E[E[\"A\"] = 'abc'.length] = \"A\"; E[E[\"B\"] = 7] = \"B\"; })(E || (E = {}));", "E A=n:3;B=n:7", ENUM_OBS % "(E as any)[3]"),
        ("enum E { A }\nenum E { B = 1 }", "var E; (function (E) { E[E[\"A\"] = 0] = \"A\"; })(E || (E = {}));\n(function (E) { E[E[\"B\"] = 1] = \"B\"; })(E || (E = {}));", "E A=auto|B=n:1", ENUM_OBS % "(E as any)[0]"),
        ("enum E { A = 1 << 1, B, C = -5, D }", "var E; (function (E) { E[E[\"A\"] = 2] = \"A\"; E[E[\"B\"] = 3] = \"B\"; E[E[\"C\"] = -5] = \"C\"; E[E[\"D\"] = -4] = \"D\"; })(E || (E = {}));", "E A=n:2;B=auto;C=n:-5;D=auto", ENUM_OBS % "(E as any)[-4]"),
        ("enum E { A = 1.5, B }", "var E; (function (E) { E[E[\"A\"] = 1.5] = \"A\"; E[E[\"B\"] = 2.5] = \"B\"; })(E || (E = {}));", None, ENUM_OBS % "(E as any)[2.5]"),
        ("namespace N { export let c = 0; export function bump() { c += 1; } }\n(N as any).bump(); (N as any).bump();", "var N; (function (N) { N.c = 0; function bump() { N.c += 1; } N.bump = bump; })(N || (N = {}));\nN.bump(); N.bump();", None, "JSON.stringify([(N as any).c])"),
        ("namespace N { export namespace M { export const a = 1; } }\nnamespace N { export namespace M { export const b = a + 1; } }",
         "var N; (function (N) { let M; (function (M) { M.a = 1; })(M = N.M || (N.M = {})); })(N || (N = {}));\n(function (N) { let M; (function (M) { M.b = M.a + 1; })(M = N.M || (N.M = {})); })(N || (N = {}));", None, "JSON.stringify((N as any).M)"),
        ("namespace A.B.C { export const v = 1; }", "var A; (function (A) { let B; (function (B) { let C; (function (C) { C.v = 1; })(C = B.C || (B.C = {})); })(B = A.B || (A.B = {})); })(A || (A = {}));", None, "JSON.stringify(A)"),
        ("namespace N { export interface I { a: number } export type T = number; }", "", None, "JSON.stringify([typeof N])"),
        ("namespace N { export const [p, q] = [1, 2]; export const {r, s: t} = {r: 3, s: 4}; }", "var N; (function (N) { var _a; _a = [1, 2], N.p = _a[0], N.q = _a[1]; var _b = {r: 3, s: 4}; N.r = _b.r; N.t = _b.s; })(N || (N = {}));", None, "JSON.stringify(N)"),
        ("class B { x = 0; log: string[] = ['B']; } class D extends B { f = this.log.push('f'); constructor(public x: number) { super(); this.log.push('body'); } }",
         "class B { x = 0; log = ['B']; } class D extends B { f = this.log.push('f'); constructor(x) { super(); this.x = x; this.log.push('body'); } }", None, "JSON.stringify([new D(4).x, new D(4).log])"),
        ("class P { n: any; constructor(public x: number, ...rest: number[]) { this.n = rest; } }", "class P { n; constructor(x, ...rest) { this.x = x; this.n = rest; } }", None, "JSON.stringify(new P(1, 2, 3))"),
        ("class P { public static s = 1; protected static t() { return 2; } static readonly u = 4; }", "class P { static s = 1; static t() { return 2; } static u = 4; }", None, "JSON.stringify([(P as any).s, (P as any).t(), (P as any).u])"),
    ]
    # witnesses of recorded findings (known_findings.json, matched by the /*KF:…*/ marker)
    corpus += [
        ("/*KF:merged-enum-reference*/ enum E { A = 1 }\nenum E { B = A + 1 }", "var E; (function (E) { E[E[\"A\"] = 1] = \"A\"; })(E || (E = {}));\n(function (E) { E[E[\"B\"] = 2] = \"B\"; })(E || (E = {}));", None, ENUM_OBS % "(E as any)[2]"),
        ("/*KF:namespace-enum-merge*/ namespace N { export enum E { A } }\nnamespace N { export enum E { B = 5 } }",
         "var N; (function (N) { let E; (function (E) { E[E[\"A\"] = 0] = \"A\"; })(E = N.E || (N.E = {})); })(N || (N = {}));\n(function (N) { let E; (function (E) { E[E[\"B\"] = 5] = \"B\"; })(E = N.E || (N.E = {})); })(N || (N = {}));", None, "JSON.stringify((N as any).E)"),
        ("/*KF:namespace-function-hoisting*/ namespace N { export const v = h(); function h() { return 4; } }", "var N; (function (N) { N.v = h(); function h() { return 4; } })(N || (N = {}));", None, "JSON.stringify(N)"),
        ("/*KF:import-alias*/ namespace N { export namespace M { export const k = 1; } }\nimport X = N.M;", "var N; (function (N) { let M; (function (M) { M.k = 1; })(M = N.M || (N.M = {})); })(N || (N = {}));\nvar X = N.M;", None, "JSON.stringify([X.k, (N as any).M.k])"),
    ]
    for ts, js, model, obs in corpus:
        cases.append({"kind": "corpus", "ts": PRELUDE + ts + "\n" + obs, "js": PRELUDE + js + "\n" + obs.replace("(E as any)", "E").replace("(N as any)", "N").replace("(P as any)", "P"), "model": model})
    esc = lambda s: s.replace("\\", "\\\\").replace("\n", "\\n") if False else s.replace("\n", "\\n")
    got_ts = common.harness(["prog"], [esc(c["ts"]) for c in cases], timeout=600)
    got_js = common.harness(["prog"], [esc(c["js"]) for c in cases], timeout=600)
    node = shutil.which("node")
    got_node = None
    if node:
        try:
            p = subprocess.run([node, "-e", NODE_DRIVER], input="\n".join(json.dumps(c["js"]) for c in cases) + "\n", stdout=subprocess.PIPE, stderr=subprocess.PIPE, text=True, timeout=600)
            out = p.stdout.split("\n")
            if len(out) >= len(cases):
                got_node = out[:len(cases)]
        except (OSError, subprocess.TimeoutExpired):
            got_node = None
    ctx.notes.append("reference engine: %s" % ("node present, used as secondary oracle" if got_node else "node not available; emit run on tsrun only"))
    mlines = [c["model"] for c in cases if c["model"]]
    mout = iter(common.driver(["emit"], mlines))
    hist = {}
    distinct = set()

    def unesc(t):
        return t.replace("\\\\", "\x00").replace("\\n", "\n").replace("\\t", "\t").replace("\x00", "\\")

    def norm(o, harness=True):
        if harness:
            o = unesc(o)
        o = o.split(" | ")[0] if o.startswith("OK ") else " ".join(o.split(" ")[:2])
        if o.startswith("OK s:"):
            # key order of objects is not compared (a declared-only field 'n: T;' is emitted as 'n;' or not at all
            # depending on useDefineForClassFields, which only moves the key)
            try:
                o = "OK s:" + json.dumps(json.loads(o[5:]), sort_keys=True, ensure_ascii=False)
            except ValueError:
                pass
        return o
    for idx, (c, a, b) in enumerate(zip(cases, got_ts, got_js)):
        ctx.cov["evaluations"] += 1
        hist[c["kind"]] = hist.get(c["kind"], 0) + 1
        case = {"kind": c["kind"], "typescript": c["ts"][:1500], "javascript_emit": c["js"][:1500], "tsrun_on_typescript": a[:400], "tsrun_on_emit": b[:400]}
        na, nb = norm(a), norm(b)
        nn = norm(got_node[idx], False) if got_node else None
        if nn is not None:
            case["node_on_emit"] = got_node[idx][:400]
        if c["model"]:
            m = next(mout)
            ctx.cov["traces_validated_against_impl"] += 1
            if c["model"].startswith("E "):
                parts = dict(p.split("=", 1) for p in m.split("\t")) if m.startswith("wf=") else {}
                want = sorted(parts.get("lower", "").split(",")) if parts.get("lower") else []
                try:
                    have = sorted(json.loads(na[len("OK s:"):])[0]) if na.startswith("OK s:") else None
                except ValueError:
                    have = None
                if parts.get("lower") != parts.get("emit"):
                    ctx.corr_fail("M-Emit: lower and emit differ on a generated declaration (theorem lower_eq_emit would be false)", case, parts.get("emit"), parts.get("lower"))
                elif have != want:
                    ctx.corr_fail("M-Emit.lower: the enum object built by tsrun differs from the model's", case, ",".join(want), str(have))
            else:
                al = m.split("\t")[0][len("alias="):] if m.startswith("alias=") else None
                try:
                    have = sorted(json.loads(na[len("OK s:"):])[1]) if na.startswith("OK s:") else None
                except ValueError:
                    have = None
                want = sorted(al.split(",")) if al else []
                if have != want:
                    ctx.corr_fail("M-Emit.Ns.runAlias: the namespace object built by tsrun differs from the model's", case, ",".join(want), str(have))
        if na != nb:
            ctx.prop_fail("emit: the TypeScript program and its JavaScript emit behave differently on tsrun (%s)" % c["kind"], case)
        elif nn is not None and nn != na and not nb.startswith("ERR"):
            ctx.prop_fail("reference: tsrun and the reference engine disagree on the %s program" % c["kind"], case)
        elif na.startswith("ERR"):
            ctx.prop_fail("rejected: a generated %s program is not accepted (%s)" % (c["kind"], na[:60]), case)
        else:
            distinct.add(na)
    ctx.cov["distinct_nontrivial"] = len(distinct)
    ctx.cov["rule"] = ("generated enum declarations (auto / literal / negative / string / constant-expression / computed members, duplicate values and names, quoted names, 1-3 merged declarations), namespaces "
                       "(1-3 merged blocks of exported let/const/var, locals, assignments, exported functions mutating exported variables, outside writes between blocks), classes with parameter "
                       "properties (all modifier combinations, defaults referring to earlier parameters, derived classes calling super, parameter reassignment) and abstract classes, placed at top "
                       "level or inside a function; each as TypeScript and as its JavaScript emit; plus a corpus of the declaration shapes named in the property. distinct_nontrivial = distinct results")
    ctx.cov["input_distribution"] = hist
    ctx.sample({"typescript": cases[0]["ts"][:400], "emit": cases[0]["js"][:400], "result": got_ts[0][:200]})
    ctx.sample({"typescript": cases[1]["ts"][:400], "emit": cases[1]["js"][:400], "result": got_ts[1][:200]})
