"""C16 — data crosses the JSON boundary without loss (DESIGN.md §4 C16)."""
import json
import math
from . import common

LEAN_TARGETS = ["TsrunVerif.Props.C16"]
P = "TsrunVerif.Json."
THEOREMS = [P + t for t in [
    "key_canon", "propertyKey_injective", "host_roundtrip", "host_roundtrip_list", "host_roundtrip_kvs",
    "script_read_back", "stringify_wellformed", "omitted_members"]]
ASSUMPTIONS = [
    "M-Json models json_to_js_value / js_value_to_json / property_key on trees; the text layer (serde_json printer and parser) is a trusted parameter of the "
    "implementation, mirrored by the model's parseJson/printJson/escape/unescape and compared on every generated document",
    "objects are compared as key->value maps (serde_json's map is sorted; ECMAScript member order is not part of C16)",
    "python's json module is the independent 'conforming parser' of the property statement",
]

KEYS = ["0", "1", "7", "10", "01", "00", "-1", "1.5", "1e3", "4294967294", "4294967295", "4294967296", "", " ", "a", "b", "key", "length", "__proto__x",
        "constructor_", "é", "日本語", "😀", "a\"b", "a\\b", "a\nb", "\u0001", " ", "x y", "toString_", "0x10", "+1", "٣"]


def rand_string(rng):
    k = rng.random()
    if k < 0.3:
        return rng.choice(KEYS)
    n = rng.randint(0, 12)
    out = []
    for _ in range(n):
        r = rng.random()
        if r < 0.5:
            out.append(chr(rng.randint(32, 126)))
        elif r < 0.6:
            out.append(chr(rng.randint(0, 31)))
        elif r < 0.75:
            out.append(chr(rng.randint(0xA0, 0x7FF)))
        elif r < 0.9:
            c = rng.randint(0x800, 0xFFFF)
            if 0xD800 <= c <= 0xDFFF:
                c = 0x4E00
            out.append(chr(c))
        else:
            out.append(chr(rng.randint(0x10000, 0x10FFFF)))
    return "".join(out)


def rand_number(rng):
    k = rng.random()
    if k < 0.3:
        return rng.randint(-1000, 1000)
    if k < 0.45:
        return rng.choice([2 ** 53, 2 ** 53 - 1, -2 ** 53, 2 ** 31, 2 ** 32, 2 ** 63, 2 ** 64, 10 ** 15, 10 ** 21, -10 ** 21 + 12345])
    if k < 0.6:
        return rng.randint(-2 ** 53, 2 ** 53)
    if k < 0.9:
        import struct
        while True:
            x = struct.unpack("<d", struct.pack("<Q", rng.getrandbits(64)))[0]
            if math.isfinite(x) and x != 0:
                return x
    return rng.choice([0.1, 1e21, 1e-7, 5e-324, 1.7976931348623157e308, 123.456, 1e300, -1e-300, 0.5, 1e22, 999999999999999900000.0, -999999999999999900000.0])


def rand_doc(rng, depth):
    k = rng.random()
    if depth <= 0 or k < 0.35:
        r = rng.random()
        if r < 0.15:
            return None
        if r < 0.3:
            return rng.random() < 0.5
        if r < 0.65:
            return rand_number(rng)
        return rand_string(rng)
    if k < 0.65:
        return [rand_doc(rng, depth - 1) for _ in range(rng.randint(0, 5))]
    return {rand_string(rng): rand_doc(rng, depth - 1) for _ in range(rng.randint(0, 5))}


def dump(rng, d):
    """JSON text with varied escape forms."""
    if isinstance(d, str):
        out = ['"']
        for ch in d:
            c = ord(ch)
            r = rng.random()
            if ch in '"\\':
                out.append("\\" + ch)
            elif c < 32:
                out.append({8: "\\b", 9: "\\t", 10: "\\n", 12: "\\f", 13: "\\r"}.get(c, "\\u%04x" % c) if r < 0.7 else "\\u%04X" % c)
            elif ch == "/" and r < 0.3:
                out.append("\\/")
            elif r < 0.15:
                if c >= 0x10000:
                    v = c - 0x10000
                    out.append("\\u%04x\\u%04x" % (0xD800 + (v >> 10), 0xDC00 + (v & 0x3FF)))
                else:
                    out.append("\\u%04x" % c)
            else:
                out.append(ch)
        out.append('"')
        return "".join(out)
    if d is None:
        return "null"
    if d is True:
        return "true"
    if d is False:
        return "false"
    if isinstance(d, int):
        return str(d)
    if isinstance(d, float):
        r = repr(d)
        return r if rng.random() < 0.7 else ("%.20e" % d)
    if isinstance(d, list):
        sep = rng.choice([",", ", ", " ,\t"])
        return "[" + sep.join(dump(rng, x) for x in d) + "]"
    sep = rng.choice([",", ", "])
    return "{" + sep.join(dump(rng, k) + rng.choice([":", ": "]) + dump(rng, v) for k, v in d.items()) + "}"


def norm(d):
    """tree with numbers as floats (JSON has one number type)."""
    if isinstance(d, bool) or d is None or isinstance(d, str):
        return d
    if isinstance(d, (int, float)):
        return float(d)
    if isinstance(d, list):
        return [norm(x) for x in d]
    return {k: norm(v) for k, v in d.items()}


def parse(text):
    try:
        return norm(json.loads(text))
    except (ValueError, RecursionError):
        return ("unparsable", text[:80])


# ---- script-built values (Y lines) ----
def rand_js(rng, depth):
    k = rng.random()
    if depth <= 0 or k < 0.4:
        return rng.choice([("u",), ("f",), ("y",), ("n", "NaN"), ("n", "Infinity"), ("n", "-Infinity"), ("n", "-0"), ("n", "1.5"), ("n", "3"),
                           ("s", "x"), ("s", "a\"b"), ("b", True), ("z",), ("n", "1e21"), ("n", "2**53"), ("s", "é😀")])
    if k < 0.7:
        return ("a", [rand_js(rng, depth - 1) for _ in range(rng.randint(0, 4))])
    return ("o", [(rng.choice(["a", "b", "0", "1", "k k", "z"]) + str(i), rand_js(rng, depth - 1)) for i in range(rng.randint(0, 4))])


def js_src(v):
    t = v[0]
    if t == "u":
        return "undefined"
    if t == "f":
        return "function(){ return 1; }"
    if t == "y":
        return "Symbol(\"q\")"
    if t == "z":
        return "null"
    if t == "n":
        return "(" + v[1] + ")"
    if t == "s":
        return json.dumps(v[1], ensure_ascii=False)     # raw non-ASCII: escapes in TS literals are C01's business
    if t == "b":
        return "true" if v[1] else "false"
    if t == "a":
        return "[" + ", ".join(js_src(x) for x in v[1]) + "]"
    return "({" + ", ".join(json.dumps(k, ensure_ascii=False) + ": " + js_src(x) for k, x in v[1]) + "})"


def js_expected(v, in_array=False, top=False):
    """python tree a conforming stringify+parse must give; OMIT marks omission."""
    t = v[0]
    if t in ("u", "f", "y"):
        return None if (in_array or top) else "OMIT"
    if t == "z":
        return None
    if t == "n":
        x = eval(v[1].replace("NaN", "float('nan')").replace("Infinity", "float('inf')"))
        return float(x) if math.isfinite(x) else None
    if t == "s":
        return v[1]
    if t == "b":
        return v[1]
    if t == "a":
        return [js_expected(x, True) for x in v[1]]
    out = {}
    for k, x in v[1]:
        e = js_expected(x)
        if e != "OMIT":
            out[k] = e
    return out


def js_ext(v):
    """extended JSON for the Lean driver (markers for undefined/function/symbol/non-finite)."""
    t = v[0]
    if t == "u":
        return '{"$":"u"}'
    if t == "f":
        return '{"$":"f"}'
    if t == "y":
        return '{"$":"y"}'
    if t == "z":
        return "null"
    if t == "n":
        x = eval(v[1].replace("NaN", "float('nan')").replace("Infinity", "float('inf')"))
        if x != x:
            return '{"$":"nan"}'
        if x == float("inf"):
            return '{"$":"inf"}'
        if x == float("-inf"):
            return '{"$":"ninf"}'
        return repr(float(x))
    if t == "s":
        return json.dumps(v[1])
    if t == "b":
        return "true" if v[1] else "false"
    if t == "a":
        return "[" + ",".join(js_ext(x) for x in v[1]) + "]"
    return "{" + ",".join(json.dumps(k) + ":" + js_ext(x) for k, x in v[1]) + "}"


def run(ctx):
    rng = ctx.rng
    docs = []
    n = 1500 if ctx.tier == "quick" else 25000
    for _ in range(n):
        docs.append(rand_doc(rng, rng.randint(1, 6)))
    # corpus: the fixed defects and extremes
    docs += [{"0": 1}, {"1": {"2": [0, {"3": "x"}]}}, {"01": 1, "1": 2}, [{"4294967295": 1, "4294967294": 2}],
             -999999999999999900000.0, [1e21, 1e-7, 5e-324], {"": {"": [""]}}, "", [], {}, [[[[[[[[[[1]]]]]]]]]]]
    deep = 1
    for _ in range(100):      # serde_json refuses nesting beyond 128 with an error (documented limit, see DESIGN.md)
        deep = [deep] if rng.random() < 0.5 else {"k": deep}
    docs.append(deep)
    docs.append(list(range(20000 if ctx.tier == "quick" else 100000)))
    docs.append({"k%d" % i: i for i in range(3000)})
    plines = ["P " + dump(rng, d) for d in docs]
    klines = ["K " + k for k in KEYS + [str(i) for i in (0, 5, 99, 2 ** 32 - 1, 2 ** 32, 2 ** 53)] + ["1 ", " 1", "1_0", "١"] if "\n" not in k and "\t" not in k]
    elines = []
    for _ in range(400 if ctx.tier == "quick" else 5000):
        elines.append("E " + dump(rng, rand_string(rng))[1:-1])
    lines = plines + klines + elines
    exp = common.driver(["json"], lines)
    got = common.harness(["json"], lines, timeout=240)
    distinct = set()
    kinds = {"P": 0, "K": 0, "E": 0, "Y": 0}
    stats = {"index_keys": 0, "escaped_strings": 0, "max_depth": 100, "numbers": 0}
    for d, line, e, g in zip(docs + [None] * (len(klines) + len(elines)), lines, exp, got):
        ctx.cov["evaluations"] += 1
        ctx.cov["traces_validated_against_impl"] += 1
        k = line[0]
        kinds[k] += 1
        if k == "P":
            want = parse(line[2:])
            em = parse(e)
            outs = g.split("\t")
            names = ["JSON.stringify(JSON.parse(t))", "script read-back of JSON.parse(t)", "js_value_to_json(create_from_json(d))",
                     "script read-back of create_from_json(d)", "JSON.stringify(JSON.parse(t), null, 2)"]
            if len(outs) != 5:
                ctx.prop_fail("crash: implementation gave no answer (%s)" % g[:60], {"doc": line[2:300]})
                continue
            for name, o in zip(names, outs):
                t = parse(o)
                if t != em:
                    ctx.corr_fail("M-Json != implementation via " + name, {"doc": line[2:300]}, e[:200], o[:200])
                if t != want:
                    ctx.prop_fail("roundtrip: document does not read back unchanged via %s" % name, {"doc": line[2:400], "impl": o[:400]})
            distinct.add(outs[0])
        else:
            if e != g:
                ctx.corr_fail("M-Json != implementation (%s)" % ("property_key" if k == "K" else "string escape"), {"line": line}, e, g)
            distinct.add(g)
            if k == "E":
                back = parse('"' + g + '"')
                if back != parse('"' + line[2:] + '"'):
                    ctx.prop_fail("string: characters not preserved through parse+print", {"line": line, "impl": g})
    # script-built values
    ys = []
    for _ in range(600 if ctx.tier == "quick" else 8000):
        ys.append(rand_js(rng, rng.randint(1, 4)))
    ylines_h = ["Y const v: any = %s; JSON.stringify(v) + \"\";" % js_src(v) for v in ys]
    ylines_d = ["P " + js_ext(v) for v in ys]
    cyc = ["Y const a: any = {x: 1}; a.self = a; JSON.stringify(a);",
           "Y const a: any = [1]; const b: any = {a}; a.push(b); JSON.stringify({top: a});",
           "Y const a: any = {}; const b: any = {a}; const c: any = {b}; a.c = c; JSON.stringify([c]);"]
    goty = common.harness(["json"], ylines_h + cyc, timeout=240)
    expy = common.driver(["jsonext"], ylines_d)
    for v, hl, g, e in zip(ys, ylines_h, goty, expy):
        ctx.cov["evaluations"] += 1
        ctx.cov["traces_validated_against_impl"] += 1
        kinds["Y"] += 1
        want = js_expected(v, top=True)
        t = parse(g)
        if v[0] in ("u", "f", "y"):
            continue        # top-level undefined: JSON.stringify gives undefined (not a document)
        if parse(e) != t:
            ctx.corr_fail("M-Json.toJson != JSON.stringify", {"program": hl}, e[:200], g[:200])
        if t != norm(want):
            ctx.prop_fail("stringify: serialised text does not map back to the value (undefined/functions omitted, non-finite as null)",
                          {"program": hl, "impl": g[:300], "expected_tree": json.dumps(want)[:300]})
        distinct.add(g)
    # shared (not cyclic) sub-values: the same object at several positions of one value is legal and is written out each time
    shared_lines, shared_vals = [], []
    for _ in range(150 if ctx.tier == "quick" else 2500):
        comps = [rng.choice([("a", []), ("o", []), ("a", [("n", "1")]), ("o", [("k", ("s", "v"))]), rand_js(rng, 1), rand_js(rng, 2)]) for _ in range(rng.randint(1, 3))]
        comps = [c if c[0] in ("a", "o") else ("a", [c]) for c in comps]

        def with_refs(depth):
            k = rng.random()
            if depth <= 0 or k < 0.5:
                return ("r", rng.randrange(len(comps)))
            if k < 0.75:
                return ("a", [with_refs(depth - 1) for _ in range(rng.randint(1, 4))])
            return ("o", [("p%d" % i, with_refs(depth - 1)) for i in range(rng.randint(1, 4))])

        def expand(v):
            if v[0] == "r":
                return comps[v[1]]
            if v[0] == "a":
                return ("a", [expand(x) for x in v[1]])
            return ("o", [(k, expand(x)) for k, x in v[1]])

        def src(v):
            if v[0] == "r":
                return "s%d" % v[1]
            if v[0] == "a":
                return "[" + ", ".join(src(x) for x in v[1]) + "]"
            return "({" + ", ".join(json.dumps(k) + ": " + src(x) for k, x in v[1]) + "})"
        top = ("a", [with_refs(2), with_refs(2)]) if rng.random() < 0.5 else ("o", [("x", with_refs(2)), ("y", with_refs(2)), ("z", ("r", 0)), ("w", ("r", 0))])
        decl = " ".join("const s%d: any = %s;" % (i, js_src(c)) for i, c in enumerate(comps))
        shared_lines.append("Y %s const v: any = %s; JSON.stringify(v) + \"\";" % (decl, src(top)))
        shared_vals.append(expand(top))
    gots = common.harness(["json"], shared_lines, timeout=240)
    for v, hl, g in zip(shared_vals, shared_lines, gots):
        ctx.cov["evaluations"] += 1
        kinds["Y"] += 1
        want = js_expected(v, top=True)
        if g.startswith("ERR"):
            ctx.prop_fail("shared: a value with a sub-object at several positions (no cycle) is refused (%s)" % g[:40], {"program": hl, "impl": g[:200]})
        elif parse(g) != norm(want):
            ctx.prop_fail("stringify: serialised text does not map back to the value (shared sub-values)", {"program": hl, "impl": g[:300], "expected_tree": json.dumps(want)[:300]})
        distinct.add(g)
    for hl, g in zip(cyc, goty[len(ys):]):
        ctx.cov["evaluations"] += 1
        if g != "ERR TypeError":
            ctx.prop_fail("cycle: cyclic value not refused with a TypeError", {"program": hl, "impl": g[:200]})
    ctx.cov["distinct_nontrivial"] = len(distinct)
    ctx.cov["rule"] = ("random JSON documents (depth<=6, strings over all Unicode planes with every escape form, keys incl. canonical/non-canonical index spellings, "
                       "integers to 2^64, arbitrary finite doubles) + corpus + depth-100 nest + 20000-element array + 3000-member object, each through 5 entry points; "
                       "property_key on key spellings; string escape round trips; script-built values with undefined/functions/symbols/non-finite numbers; cyclic values. "
                       "distinct_nontrivial = distinct implementation outputs")
    ctx.cov["input_distribution"] = kinds
    for i in (0, 7, len(docs) + 3, len(lines) - 1):
        ctx.sample({"case": lines[i][:200], "model": exp[i][:200], "impl": got[i][:300]})
