"""C19 — all ways of running a program agree (DESIGN.md §4 C19)."""
import json
import re
from . import common, gen, c09

LEAN_TARGETS = ["TsrunVerif.Props.C19", "TsrunVerif.Props.C19Compile"]
THEOREMS = ["TsrunVerif.Run." + t for t in ["map_result_eq", "advance_add", "run_eq_steps", "single_steps_eq_run", "terminal_stable"]] + \
    ["TsrunVerif.Compile." + t for t in ["run_eq_advance", "compiled_chunks_agree", "completes_under_every_schedule", "throws_under_every_schedule"]]
ASSUMPTIONS = [
    "over M-Compile (the compiler and VM model of C01, tied to the code by the instruction-listing correspondence run by C01) the schedule independence is instantiated with the model VM's step function: "
    "every chunking of a compiled program of the modelled core ends in the halt / uncaught-error state the reference semantics prescribes",
    "M-Run transcribes the two result-mapping copies (run_vm_to_completion for eval, process_vm_result for step) and treats the VM as an arbitrary deterministic step function; "
    "the translator part of the check re-reads both Rust match blocks on every run and requires them to be textually identical after normalisation (so the single Lean transcription covers both)",
    "that the five entry points (eval, prepare+step, step with interleaved API reads and collections, C API tsrun_run, C API tsrun_step) and the three module roles produce equal transcripts "
    "is evaluated on generated programs (PROP); export wiring for the three roles is three separate Rust functions that are not modelled",
]
ORDER_HEAD = "import { order } from 'tsrun:host';\n"


def extract_match_block(src, fn_name):
    i = src.index("fn %s(" % fn_name)
    j = src.index("match result {", i)
    depth, k = 0, j + len("match result ")
    start = k
    while True:
        c = src[k]
        if c == "{":
            depth += 1
        elif c == "}":
            depth -= 1
            if depth == 0:
                break
        k += 1
    body = src[start:k + 1]
    body = re.sub(r"//[^\n]*", "", body)
    body = re.sub(r"\s+", "", body)
    return body.replace("crate::StepResult", "StepResult").replace("bytecode_vm::", "")


def run(ctx):
    rng = ctx.rng
    # ---- translator tripwire: the two result-mapping copies are the same text
    try:
        src = open(common.REPO + "/src/interpreter/mod.rs").read()
        a = extract_match_block(src, "run_vm_to_completion")
        b = extract_match_block(src, "process_vm_result")
        ctx.cov["evaluations"] += 1
        if a != b:
            ctx.corr_fail("the result mappings of eval (run_vm_to_completion) and step (process_vm_result) are no longer the same text: "
                          "M-Run.mapEval/mapStep were transcribed from identical copies", {"site": "src/interpreter/mod.rs"}, a[:300], b[:300])
    except (ValueError, OSError) as e:
        ctx.corr_fail("could not re-read run_vm_to_completion/process_vm_result from the source (%s)" % e, {"site": "src/interpreter/mod.rs"}, "", "")
    cases = []
    n = 140 if ctx.tier == "quick" else 3000
    for i in range(n):
        k = i % 4
        if k == 0:
            s, fs = gen.program(rng, depth=rng.randint(1, 3), fail=(i % 8 == 0))
            cases.append({"src": s, "path": None, "mods": {}, "kind": "script"})
        elif k == 1:
            s, fs = gen.program(rng, depth=rng.randint(1, 2), fail=(i % 12 == 1))
            s = "export const before = 1;\n" + s[: s.rindex("main()")] + "export const result = main();\nexport default {r: result};\nresult"
            cases.append({"src": s, "path": "/m/main", "mods": {}, "kind": "module"})
        elif k == 2:
            g = rng.randint(1, 6)
            paths, deps, main_deps = c09.gen_graph(rng, g)
            main, srcs, expected, specs, msp = c09.build_sources(rng, paths, deps, main_deps)
            cases.append({"src": main.replace("console.log('exec:main');", "console.log('exec:main'); export const tag = 'm';"), "path": "/m/main", "mods": srcs, "kind": "imports"})
        else:
            body = []
            for j in range(rng.randint(1, 4)):
                body.append("const r%d = %sorder({k: %d, w: [%d]}); console.log('got', r%d);" % (j, "await " if rng.random() < 0.5 else "", j, j, j))
                if rng.random() < 0.3:
                    body.append("[1, 2].map(x => x + r%d);" % j)
            tail = rng.choice(["[%s].join('+')" % ", ".join("r%d" % j for j in range(len([b for b in body if b.startswith('const')]))), "throw new RangeError('after orders');", "undefinedFn();"])
            cases.append({"src": ORDER_HEAD + "\n".join(body) + "\n" + tail, "path": rng.choice([None, "/m/main"]), "mods": {}, "kind": "orders"})
    # corpus: orders issued from a native callback (Complete with orders pending), syntax error, empty program
    cases += [{"src": ORDER_HEAD + "const rs = [1, 2].map(x => order({x})); typeof rs[0]", "path": None, "mods": {}, "kind": "orders"},
              {"src": "let x = ;", "path": None, "mods": {}, "kind": "script"},
              {"src": "", "path": None, "mods": {}, "kind": "script"},
              {"src": "export const a = 1; throw new Error('mod');", "path": "/m/main", "mods": {}, "kind": "module"}]
    # sessions: one to three earlier programs run in the same interpreter through the same entry point (failing and
    # completing ones, with and without a module path, with exports collected before the failure, with orders left behind)
    def session_prog(j):
        tail = rng.choice(["throw new Error('dies %d');" % j, "undefinedFn%d();" % j, "null.x;", "'done %d'" % j, "'done %d'" % j])
        exp = rng.choice(["export const leaked%d = %d;" % (j, j), "export let s%d = 'v'; export function f%d() { return %d; }" % (j, j, j), "export default %d;" % j, "const plain%d = 1;" % j])
        mid = rng.choice(["", "console.log('run %d');" % j, "globalThis.g%d = (globalThis.g%d || 0) + 1;" % (j % 2, j % 2), "export const late%d = [%d];" % (j, j)])
        return {"src": "%s\n%s\n%s" % (exp, mid, tail), "path": rng.choice([None, None, "/m/pre%d" % j, "/m/main"])}
    for i in range(60 if ctx.tier == "quick" else 1500):
        pre = [session_prog(j) for j in range(rng.randint(1, 3))]
        last = session_prog(9)
        if rng.random() < 0.6:
            last["src"] = "export const real = typeof globalThis.g0 + ':' + typeof globalThis.g1;\n'last'"
            last["path"] = rng.choice(["/m/main", "/m/last", None])
        cases.append({"src": last["src"], "path": last["path"], "mods": {}, "kind": "session", "pre": pre})
    cases.append({"src": "export const real = 2;\n'ok'", "path": "/m/main", "mods": {}, "kind": "session",
                  "pre": [{"src": "export const leaked = 1;\nthrow new Error('anonymous run dies after exporting');", "path": None}]})
    lines = [json.dumps({"src": c["src"], "path": c["path"], "mods": c["mods"], "pre": c.get("pre", [])}) for c in cases]
    got = common.harness(["entry"], lines, timeout=900)
    names = ["eval(+step)", "prepare+step", "prepare+step with interleaved API reads and collect()", "C API tsrun_run", "C API tsrun_step"]
    hist = {}
    distinct = set()
    for c, g in zip(cases, got):
        ctx.cov["evaluations"] += 1
        ctx.cov["traces_validated_against_impl"] += 1
        hist[c["kind"]] = hist.get(c["kind"], 0) + 1
        outs = g.split("\t")
        case = {"program": c["src"][:1200], "path": c["path"], "impl": [o[:250] for o in outs]}
        if c.get("pre"):
            case["earlier_programs_in_the_same_interpreter"] = c["pre"]
        if len(outs) != 5:
            ctx.prop_fail("crash: not all entry points answered (%s)" % g[-80:], case); continue
        distinct.add(outs[1])
        for nm, o in zip(names[1:], outs[1:]):
            if o != outs[0]:
                ctx.prop_fail("entry: %s gives a different transcript than %s" % (nm, names[0]), dict(case, differs=nm, a=outs[0][:400], b=o[:400])); break
    # ---- module roles
    rl = []
    for i in range(60 if ctx.tier == "quick" else 1200):
        s, fs = gen.program(rng, depth=rng.randint(1, 2), fail=False)
        extra = []
        for j in range(rng.randint(1, 3)):
            kind = rng.choice(["alias", "plain", "let", "later"])
            if kind == "alias":
                extra.append("let n%d = %d; export { n%d as count%d }; export function bump%d() { n%d = n%d + 1; return n%d; } n%d = n%d + 10;" % (j, j, j, j, j, j, j, j, j, j))
            elif kind == "plain":
                extra.append("let p%d = %d; export { p%d }; export function bumpP%d() { p%d += 2; }" % (j, j, j, j, j))
            elif kind == "let":
                extra.append("export let q%d = %d; export const bumpQ%d = () => { q%d = q%d * 2 + 1; };" % (j, j + 1, j, j, j))
            else:
                extra.append("export let late%d = 'a'; export const obj%d = {v: [%d]}; late%d = 'b' + late%d; obj%d.v.push(9);" % (j, j, j, j, j, j))
        s = ("export const before = {k: [1, 2]};\n" + s[: s.rindex("main()")] + "console.log('body runs');\nexport const result = main();\n"
             + "\n".join(extra) + "\nexport default [result, 3];")
        rl.append(s)
    rcases = [{"src": s} for s in rl]
    # modules with imports of their own, living in another directory than the program that imports them; a decoy with the
    # same file name sits in the importer's directory (a relative specifier is relative to the module it is written in)
    for i in range(30 if ctx.tier == "quick" else 400):
        d = rng.choice(["/m/sub", "/m/sub/deep", "/lib", "/m"])
        u = rng.randint(1, 50)
        utilspec = rng.choice(["./util", "./util", "./inner/../util", "../%s/util" % d.rsplit("/", 1)[1] if d.count("/") > 1 else "./util"])
        src = ("import { u, more } from '%s'; import * as U from '%s';\nexport const got = u + 1; export const viaNs = U.u; export let cnt = 0; export function bumpC() { cnt += more(); }\n"
               "console.log('body runs', u);\nexport default [got, viaNs];" % (utilspec, utilspec))
        mods = {d + "/util": "export const u = %d; export function more() { return 2; } console.log('util %d');" % (u, u),
                "/m/util": "export const u = -7; export function more() { return 100; } console.log('decoy');"}
        if d == "/m":
            del mods["/m/util"]
            mods[d + "/util"] = "export const u = %d; export function more() { return 2; } console.log('util %d');" % (u, u)
        spec = "." + (d + "/p")[2:] if d.startswith("/m") else "../lib/p"
        rcases.append({"src": src, "path": d + "/p", "spec": spec, "mods": mods})
        rl.append(src)
    rgot = common.harness(["roles"], [json.dumps(c) for c in rcases], timeout=600)
    for s, g in zip(rl, rgot):
        ctx.cov["evaluations"] += 1
        outs = g.split("\t")
        if len(outs) != 3:
            ctx.prop_fail("crash: module role run did not finish (%s)" % g[-60:], {"module": s[:800]}); continue
        def canon(txt):
            try:
                return json.dumps(json.loads(txt), sort_keys=True)
            except ValueError:
                return txt
        a_head, _, a_log = outs[0].partition(" L:")
        res = []
        for o in outs[1:]:
            head, _, log = o.partition(" L:")
            first, _, second = head.partition(" AFTER ")
            res.append((canon(first), canon(second), log))
        (b1, b2, bl), (c1, c2, cl) = res
        entry = json.loads(a_head) if a_head.startswith("{") else None
        if entry is not None:
            entry = json.dumps({k: v for k, v in entry.items() if v is not None or True}, sort_keys=True)
        # the entry role exposes functions as null through the host API: compare on the non-function keys
        def drop_null(txt):
            try:
                return json.dumps({k: v for k, v in json.loads(txt).items() if not k.startswith("bump")}, sort_keys=True)
            except ValueError:
                return txt
        if not (b1 == c1 and b2 == c2 and bl == cl):
            ctx.prop_fail("role: the module behaves differently as provided dependency and as internal source module (values before/after calling its exported functions, console)",
                          {"module": s[:1200], "dependency": (b1 + " AFTER " + b2)[:400], "internal": (c1 + " AFTER " + c2)[:400]})
        elif drop_null(a_head) != drop_null(b1) or a_log != bl:
            ctx.prop_fail("role: the module behaves differently as entry program and as dependency", {"module": s[:1200], "entry": a_head[:400], "dependency": b1[:400]})
        distinct.add(b1 + b2)
    # ---- known finding witness: a dependency module cannot suspend
    for f in ctx.findings:
        if f.get("kind") == "witness":
            g = common.harness(["roles"], [json.dumps({"src": f["witness_source"]})])[0].split("\t")
            ctx.cov["evaluations"] += 1
            if len(g) == 3 and not (g[0].split(" L:")[0] != "" and g[0] == g[1]):
                ctx.known(f["id"], f["what"])
    ctx.cov["distinct_nontrivial"] = len(distinct)
    ctx.cov["rule"] = ("generated scripts, entry modules with exports, import graphs (from C09's generator) and order-issuing programs (awaited / not awaited / from native callbacks / ending in errors), each through "
                       "5 entry points (transcript = import requests, order traffic with payloads, result as JSON, exports, console); sessions (one to three earlier programs, failing or completing, with or without a module path, run in the same interpreter through the same entry point before the program compared); generated modules through the 3 module roles; "
                       "plus the textual identity of the two result-mapping copies. distinct_nontrivial = distinct transcripts")
    ctx.cov["input_distribution"] = hist
    ctx.sample({"program": cases[3]["src"][:300], "transcripts": got[3].split("\t")[:2]})
