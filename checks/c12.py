"""C12 — execution is deterministic and interpreter instances are isolated (DESIGN.md §4 C12)."""
import json
import subprocess
import os
from . import common, gen, c08

LEAN_TARGETS = ["TsrunVerif.Props.C12"]
THEOREMS = ["TsrunVerif.Iso." + t for t in ["product_isolation", "run_deterministic", "find_rename", "tstep_rename", "map_addr_invariant"]] + \
           ["TsrunVerif.Gen.globals_allowed", "TsrunVerif.Gen.iterations_allowed"]
ASSUMPTIONS = [
    "instances are modelled as deterministic machines with disjoint state; the code fact behind that model - no process-global mutable state, no iteration over address-keyed tables "
    "outside the reviewed allowlist - is re-extracted from /repo/src by bin/extract on every run (Gen/Globals.lean) and discharged by `decide` against the committed allowlists",
    "hash-map iteration over counter-keyed tables (wait graph) is deterministic because FxHash is seedless; this is exercised (same transcript in every process/thread/after every prior lifetime), not proved",
    "time and random providers are the defaults; programs of the generator do not read them",
]


def pre_proof(ctx):
    rc, out = common.sh([os.path.join(common.ROOT, "bin", "extract")])
    ctx.notes.append("bin/extract: " + out.strip())


NAMES = ["alpha", "bravo", "charlie", "delta", "echo", "foxtrot", "golf", "hotel", "india", "juliett", "kilo", "lima", "mike", "november", "oscar", "papa"]


def module_program(rng):
    """an entry module that imports a many-export module as a namespace and enumerates it (Object.keys, for-in,
    JSON.stringify, entries), re-exports part of it and exports names of its own: every enumeration order is observable"""
    k = rng.randint(2, 16)
    names = rng.sample(NAMES, k)
    lib = " ".join("export %s %s = %d;" % (rng.choice(["const", "let", "var"]), n, i) for i, n in enumerate(names))
    lib += " export function fn_%s() { return 1; } export class Cls_%s {} export default %d;" % (names[0], names[-1], k)
    own = rng.sample(NAMES, rng.randint(2, 8))
    main = ("import * as lib from './lib'; import dflt, { %s as first } from './lib'; export * from './lib';\n" % names[0]
            + " ".join("export const own_%s = %d;" % (n, i) for i, n in enumerate(own))
            + "\nconst seen: string[] = []; for (const k in lib) seen.push(k);\n"
            + "export const summary = [Object.keys(lib).join(','), seen.join(','), JSON.stringify(lib), Object.entries(lib).map(e => e[0]).join(','), String(dflt + first)].join('|');\nsummary")
    return "//MODS " + json.dumps({"/m/lib": lib}) + "\n" + main


def run(ctx):
    rng = ctx.rng
    groups = []
    n = 50 if ctx.tier == "quick" else 900
    for i in range(n):
        k = rng.randint(2, 3)
        ps = []
        for j in range(k):
            if rng.random() < 0.2:
                ps.append(module_program(rng))
            elif rng.random() < 0.25:
                s, resp, settle = c08.gen_script(rng, rng.randint(1, 3))
                # only plain value orders (the iso harness answers every order with a number)
                s = c08.HEAD + "\n".join("console.log('I'); const r%d = %sorder({k: %d}); out.push('R' + r%d);" % (q, "await " if q % 2 else "", q, q) for q in range(rng.randint(1, 3))) + "\nout.join(';')"
                ps.append(s)
            else:
                s, _ = gen.program(rng, depth=rng.randint(1, 3), fail=(rng.random() < 0.2))
                ps.append(s)
        groups.append(ps)
    lines, meta = [], []
    for gi, ps in enumerate(groups):
        variants = [{"variant": "solo"}, {"variant": "solo", "churn": rng.randint(1, 6)}, {"variant": "threads"},
                    {"variant": "interleave", "schedule": [rng.randrange(len(ps)) for _ in range(rng.randint(10, 400))]},
                    {"variant": "interleave", "schedule": [rng.randrange(len(ps)) for _ in range(rng.randint(10, 4000))], "churn": 2}]
        for vi, v in enumerate(variants):
            lines.append(json.dumps(dict(v, progs=ps)))
            meta.append((gi, vi, v))
    got1 = common.harness(["iso"], lines, timeout=900)
    got2 = common.harness(["iso"], lines, timeout=900, workers=3)          # other processes, other chunking (ASLR, different neighbours)
    base = {}
    distinct = set()
    vnames = ["solo", "solo after other instance lifetimes", "one thread per instance", "interleaved step by step", "interleaved after other lifetimes"]
    for (gi, vi, v), a, b in zip(meta, got1, got2):
        ctx.cov["evaluations"] += 2
        ctx.cov["traces_validated_against_impl"] += 2
        case = {"programs": [p[:500] for p in groups[gi]], "variant": vnames[vi], "schedule_len": len(v.get("schedule", [])), "transcripts": a[:500]}
        if a != b:
            ctx.prop_fail("process: the same run gives different transcripts in different processes", dict(case, other_process=b[:500])); continue
        if "THREAD-PANIC" in a or "CRASH" in a:
            ctx.prop_fail("crash: %s" % a[:80], case); continue
        if vi == 0:
            base[gi] = a
            distinct.add(a)
        elif a != base.get(gi):
            ctx.prop_fail("isolation: transcripts under '%s' differ from the solo runs" % vnames[vi], dict(case, solo=base.get(gi, "")[:500]))
    # several top-level tasks on one interpreter woken by one host action
    mt = [json.dumps({"progs": [], "variant": "multitask", "tasks": t, "churn": c}) for t in (2, 5, 12, 20) for c in (0, 1, 4)]
    outs = []
    for rep in range(3):
        outs.append(common.harness(["iso"], mt, timeout=300, chunk=1 if rep else None))
    thr = common.harness(["iso"], [json.dumps({"progs": ["1"], "variant": "threads"})] * 2, timeout=60)
    for i, l in enumerate(mt):
        ctx.cov["evaluations"] += 3
        t = json.loads(l)["tasks"]
        vals = {o[i] for o in outs}
        same_tasks = {outs[0][j] for j, l2 in enumerate(mt) if json.loads(l2)["tasks"] == t}
        if len(vals) > 1 or len(same_tasks) > 1:
            ctx.prop_fail("wakeorder: the order in which simultaneously ready tasks resume differs between processes / prior instance lifetimes: %s" % sorted(vals | same_tasks)[:3],
                          {"tasks": t, "harness_line": l})
        distinct.add(outs[0][i])
    # ---- resource limits are part of the outcome: how deep a recursion through native callbacks gets before its RangeError must not depend on
    # where the operating system placed the stack (fresh processes with environments of different sizes shift it byte by byte)
    import subprocess, os
    shapes = ["[1].map(rec)", "[1].forEach(rec)", "[2, 1].sort((a, b) => { rec(); return a - b; })", "'x'.replace(/x/, () => { rec(); return ''; })", "({get g() { return rec(); }}).g",
              "String({toString() { rec(); return ''; }})", "[1].reduce((a) => rec(), 0)", "JSON.stringify({toJSON() { return rec(); }})", "new Map([[1, 1]]).forEach(rec)", "Array.from([1], rec)"]
    probe = ("const out: string[] = [];\n" + "\n".join(
        "for (const lead of [0, 1, 2, 3, 5, 8]) { let d = 0; const rec = (): any => { d++; return %s; }; const go = (k: number): any => k > 0 ? [0].map(() => go(k - 1)) : rec(); "
        "try { go(lead); out.push('%d:end'); } catch (e) { out.push('%d:' + lead + ':' + d + ':' + (e as any).name); } }" % (sh, i, i) for i, sh in enumerate(shapes))
        + "\nout.join(' ')")
    pline = json.dumps({"variant": "solo", "progs": [probe]}) + "\n" + json.dumps({"variant": "threads", "progs": [probe, probe]}) + "\n"
    pouts = []
    for k in range(12 if ctx.tier == "quick" else 48):
        env = dict(common.env_offline(), TV_STACK_PAD="p" * (k * 353 % 4096 + k))
        try:
            pr = subprocess.run([common.HARNESS_BIN, "iso"], input=pline, stdout=subprocess.PIPE, stderr=subprocess.PIPE, text=True, env=env, timeout=600)
            pouts.append(pr.stdout.strip() if pr.returncode == 0 else "CRASH(rc=%s)" % pr.returncode)
        except subprocess.TimeoutExpired:
            pouts.append("TIMEOUT")
        ctx.cov["evaluations"] += 1
    if any(o.startswith(("CRASH", "TIMEOUT")) for o in pouts):
        ctx.prop_fail("crash: the recursion-limit probe did not run (%s)" % [o for o in pouts if o.startswith(("CRASH", "TIMEOUT"))][0], {"program": probe[:1500]})
    elif len(set(pouts)) > 1:
        a, b = sorted(set(pouts))[:2]
        ctx.prop_fail("process: the depth at which recursion through native callbacks is cut off differs between processes whose stacks start at different addresses",
                      {"program": probe[:2500], "one_process": a[:1200], "other_process": b[:1200], "distinct_outputs": len(set(pouts)), "processes": len(pouts)})
    else:
        lines_ = pouts[0].split("\n")
        distinct.add(pouts[0][:200])
        ctx.notes.append("recursion-limit probe: %d processes, one output (%s...)" % (len(pouts), pouts[0][:120]))
    ctx.cov["distinct_nontrivial"] = len(distinct)
    ctx.cov["rule"] = ("groups of 2-3 generated programs (scripts, order-issuing scripts, 1/5 failing) run solo, solo after 1-6 other instance lifetimes (created, run, failed, dropped), one thread each, "
                       "and interleaved step-by-step under random schedules of 10..4000 steps; every variant twice in different processes; transcripts (step index of every event, order ids, result, console) "
                       "must equal the solo transcript; plus 2..20 top-level tasks on one interpreter woken by a single host resolve, across processes and prior lifetimes. "
                       "plus a recursion-limit probe (10 native-callback shapes x 6 lead-in depths: the depth reached before the RangeError) in 12 (thorough: 48) fresh processes whose environments differ in size, on the main thread and on spawned threads. "
                       "distinct_nontrivial = distinct solo transcripts")
    ctx.sample({"programs": [p[:200] for p in groups[0]], "solo": base.get(0, "")[:300]})
    ctx.sample({"multitask": mt[2], "order": outs[0][2]})
