"""C05 — every source text is accepted or rejected cleanly, in bounded time (DESIGN.md §4 C05)."""
import json
import random
from . import common, gen, c03, c04

LEAN_TARGETS = ["TsrunVerif.Props.C05"]
THEOREMS = ["TsrunVerif.Parse." + t for t in ["costAgain_eq_size", "costFirst_le", "costFirst_quadratic", "costNaive_chain", "guard_bounds_recursion",
                                               "guard_accepts_iff", "leftDeep_depth", "scan_inv", "chain_accounting_bounds_depth", "nestedChains_tdepth"]] + ["TsrunVerif.Gen.limits_sane"]
ASSUMPTIONS = [
    "M-Parse's trees `Tr` (recursive constructs whose children are accounting scopes; loop-built chains whose operands are parsed in the scope of the chain) and `scan` transcribe Parser::chain_link / "
    "chain_scope; MAX_CHAIN, the two stack budgets and the number of counting loops / scope entry points are re-extracted from src/parser.rs and src/compiler/mod.rs on every run (Gen/ParserLimits.lean, obligation limits_sane); "
    "the model's verdict is compared with the parser's 'chain is too long' on generated trees except within 50 links of the limit",
    "M-Parse abstracts a source text to its nesting skeleton and counts construct visits; the real unit of work is the lexer token (cfg(tsrun_verif) counter, re-lexing after roll-backs included); "
    "the correspondence requires work <= K * model cost on skeletons rendered in the speculative family and work <= K * size in the non-speculative families (K calibrated, stated in the evidence)",
    "the real depth guard compares stack addresses with a byte budget; the model counts levels - monotonicity of acceptance in the depth (guard_accepts_iff) is what is compared",
    "absence of panics / stack overflows / loops outside the modelled mechanisms is searched for on generated inputs (token soups, prefixes and single-token mutations of valid programs, "
    "random bytes, nesting and chain families up to 200000 levels), every input on a 2 MB thread and with a work budget; it is not proved",
]
K_SPEC = 24         # tokens per construct visit in the speculative family '(a = …)'
K_LIN = 14         # tokens per construct in the linear families
VOCAB = ["(", ")", "[", "]", "{", "}", "<", ">", "=>", "=", ",", ";", ":", "?", ".", "...", "!", "+", "-", "*", "/", "%", "**", "&&", "||", "??", "?.", "==", "===", "<<", ">>", ">>>",
         "`", "${", "'", '"', "\\", "#", "@", "a", "b", "x", "1", "0x", "1e", "1n", ".5", "'s'", "`t`", "/re/g", "if", "else", "for", "while", "do", "return", "function", "class", "extends",
         "new", "this", "super", "let", "const", "var", "async", "await", "yield", "of", "in", "instanceof", "typeof", "void", "delete", "try", "catch", "finally", "throw", "switch", "case",
         "default", "break", "continue", "import", "export", "from", "as", "type", "interface", "enum", "namespace", "declare", "abstract", "public", "private", "readonly", "static", "get",
         "set", "is", "keyof", "infer", "satisfies", "unique", "never", "unknown", "any", "\n", " ", "/*", "*/", "//", "<!--", " ", "é", "\U0001F600", "\ud800".encode("utf-8", "surrogatepass").decode("utf-8", "replace")]


def rand_sk(rng, budget, depth=0):
    """random nesting skeleton as a paren string"""
    if budget <= 1 or depth > 60:
        return "()", 1
    n = rng.choice([0, 1, 1, 1, 2, 3])
    used, kids = 1, []
    for _ in range(n):
        if budget - used <= 0:
            break
        s, u = rand_sk(rng, (budget - used) // max(1, n) + 1 if rng.random() < 0.5 else budget - used, depth + 1)
        kids.append(s)
        used += u
    return "(" + "".join(kids) + ")", used


def render(sk, fam):
    """render a skeleton paren string in a syntactic family"""
    out, first = [], []
    for ch in sk:
        if ch == "(":
            if first and not first[-1]:
                out.append({"spec": ", ", "arr": ", ", "call": ", ", "block": " ", "gen": ", ", "obj": ", c: ", "tmpl": " + ", "fn": " ", "arrow": ", "}[fam])
            if first:
                first[-1] = False
            out.append({"spec": "(a = 1, b = ", "arr": "[1, ", "call": "f(1, ", "block": "{ x; ", "gen": "A<B, ", "obj": "{a: 1, b: ", "tmpl": "`x${1 + ", "fn": "function f() { x; ",
                        "arrow": "((a, b = 1) => [a, "}[fam])
            first.append(True)
        else:
            if first.pop():
                out.append({"spec": "1", "arr": "1", "call": "1", "block": "", "gen": "C", "obj": "1", "tmpl": "1", "fn": "", "arrow": "1"}[fam])
            out.append({"spec": ")", "arr": "]", "call": ")", "block": "}", "gen": ">", "obj": "}", "tmpl": "}`", "fn": "}", "arrow": "])(1)"}[fam])
    body = "".join(out)
    return {"gen": "let t: %s;" % body, "obj": "x = %s;" % body}.get(fam, body + (";" if fam not in ("block", "fn") else ""))


FAMILIES = {
    "paren": lambda k: "(" * k + "1" + ")" * k, "bracket": lambda k: "[" * k + "]" * k, "brace": lambda k: "{" * k + "}" * k, "unary": lambda k: "!" * k + "x", "typeof": lambda k: "typeof " * k + "x",
    "binleft": lambda k: "1" + "+1" * k, "pow": lambda k: "2" + "**2" * k, "cond": lambda k: "a?" * k + "1" + ":1" * k, "assignparen": lambda k: "(a = " * k + "1" + ")" * k,
    "arrow": lambda k: "x=>" * k + "1", "arrowparen": lambda k: "(x)=>" * k + "1", "call": lambda k: "f" + "()" * k, "member": lambda k: "a" + ".b" * k, "index": lambda k: "a" + "[0]" * k,
    "tmpl": lambda k: "`${" * k + "1" + "}`" * k, "generic": lambda k: "let x: " + "A<" * k + "B" + ">" * k + ";", "arrtype": lambda k: "let x: " + "[" * k + "]" * k + ";",
    "parentype": lambda k: "let x: " + "(" * k + "T" + ")" * k + ";", "fntype": lambda k: "let x: " + "(a: " * k + "T" + ") => 1" * k + ";", "fntypefail": lambda k: "let x: " + "(a: " * k + "T" + ")" * k + ";",
    "fn": lambda k: "function f(){" * k + "}" * k, "cls": lambda k: "class A { m() {" * k + "}}" * k, "objlit": lambda k: "x = " + "{a:" * k + "1" + "}" * k, "ifelse": lambda k: "if(a){}else " * k + "{}",
    "arrowdefault": lambda k: "((a = " * k + "1" + ") => 1)" * k, "ltparen": lambda k: "a < (a < " * k + "1" + ")" * k, "anglechain": lambda k: "<T>" * k + "x", "genericcall": lambda k: "f<T>(" * k + "1" + ")" * k,
    "destruct": lambda k: "let " + "[a = " * k + "1" + "]" * k + " = [];", "objpattern": lambda k: "let " + "{a: " * k + "b" + "}" * k + " = {};", "comma": lambda k: "x = " + "1," * k + "1",
    "optchain": lambda k: "a" + "?.b" * k, "regexparen": lambda k: "(a = " * k + "1/2" + ")" * k, "nonnull": lambda k: "a" + "!" * k, "aschain": lambda k: "a" + " as T" * k,
    "arrsuffix": lambda k: "let x: T" + "[]" * k + ";", "union": lambda k: "let x: T" + " | T" * k + ";", "logical": lambda k: "a" + " && a" * k, "nullish": lambda k: "a" + " ?? a" * k,
    "stmts": lambda k: "x;" * k, "label": lambda k: "a: " * k + "x;", "tagged": lambda k: "f" + "`x`" * k, "strconcat": lambda k: "''" + "+'a'" * k, "spread": lambda k: "f(" + "...a," * k + ")",
    "typeargs": lambda k: "f<" + "T," * k + "T>()", "switch": lambda k: "switch(a){" + "case 1:" * k + "}", "extends": lambda k: "type X = " + "A extends B ? C : " * k + "D;",
    "decorators": lambda k: "@d " * k + "class A {}", "longident": lambda k: "a" * k, "longstr": lambda k: "'" + "a" * k + "'", "comment": lambda k: "/*" + "x" * k + "*/", "unterminated": lambda k: "/*" + "x" * k,
    "regex": lambda k: "/" + "(a" * k + ")" * k + "/", "tmplstr": lambda k: "`" + "a${1}" * k + "`", "asyncparen": lambda k: "async (a = " * k + "1" + ")" * k, "awaitchain": lambda k: "async function f(){" + "await " * k + "1}",
    "newparen": lambda k: "new (" * k + "X" + ")" * k, "yieldchain": lambda k: "function* g(){" + "yield " * k + "1}", "keyof": lambda k: "type X = " + "keyof " * k + "T;", "classext": lambda k: "class A extends (" * k + "B" + ")" * k + "{}",
    "arrowbody": lambda k: "() => {" * k + "}" * k, "trynest": lambda k: "try{" * k + "}catch(e){}" * k, "whilenest": lambda k: "while(a)" * k + ";", "fornest": lambda k: "for(;;)" * k + ";",
    "enumbig": lambda k: "enum E {" + "A = (" * k + "1" + ")" * k + "}", "nsnest": lambda k: "namespace N {" * k + "}" * k, "dotted": lambda k: "namespace A" + ".B" * k + " {}", "paramdefault": lambda k: "function f(a = (" * k + "1" + ")" * k + "){}",
    "objtype": lambda k: "let x: " + "{a: " * k + "T" + "}" * k + ";", "mapped": lambda k: "type X = " + "{[K in keyof T]: " * k + "T" + "}" * k + ";", "tuple": lambda k: "type X = " + "[...(" * k + "T" + ")]" * k + ";",
}


# products of two nesting mechanisms: every level of a recursive construct carries a loop-built chain. No single level is deep,
# the levels add up on the native stack (a guard that is re-based per sub-compiler / per construct shows only here).
NEST = {"paren": ("(", ")"), "arrow": ("(x => ", ")"), "arrowblock": ("(() => { return ", "; })"), "fnexpr": ("(function () { return ", "; })"), "bracket": ("[", "]"),
        "tmpl": ("`${", "}`"), "objlit": ("({a: ", "})"), "callarg": ("f(", ")"), "cond": ("(a ? ", " : 1)"), "classexpr": ("(class { m() { return ", "; } })"),
        "asyncarrow": ("(async x => ", ")"), "unary": ("(!", ")"), "arrowdefault": ("((a = ", ") => 1)"), "generator": ("(function* () { yield ", "; })"), "getter": ("({get a() { return ", "; }})")}
CHAIN = {"member": ".a", "call": "()", "index": "[0]", "tagged": "`t`", "nonnull": "!", "binleft": " + 1", "optchain": "?.a", "as": " as T"}


def product(nest, chain, d, k):
    pre, suf = NEST[nest]
    e = "x"
    for _ in range(d):
        e = pre + e + CHAIN[chain] * k + suf
    return "let f = %s;" % e


# ---- trees of recursive constructs and loop-built chains (M-Parse `Tr`), rendered as expressions
def gen_tr(rng, depth, budget):
    """-> (model text, javascript expression, is primary); budget ~ chain links still to hand out"""
    k = rng.random()
    if depth <= 0 or k < 0.15:
        return "L", "x", True
    if k < 0.45:
        n = rng.choice([1, 1, 2, 3])
        kids = [gen_tr(rng, depth - 1, budget // n) for _ in range(n)]
        style = rng.choice(["paren", "array", "call"]) if n == 1 else rng.choice(["array", "call"])
        body = ", ".join(j for _, j, _ in kids)
        js = {"paren": "(%s)", "array": "[%s]", "call": "f(%s)"}[style] % body
        return "W[" + "".join(m for m, _, _ in kids) + "]", js, True
    # a chain: member links on a primary head, or binary links with primary / member-chain operands
    links = rng.choice([1, 2, 5, 40, 300, 1500, 3000, 3900, 4100, 6000])
    links = max(1, min(links, budget)) if budget > 0 else rng.choice([1, 2, 3])
    hm, hj, hprim = gen_tr(rng, depth - 1, budget - links)
    if not hprim:
        hm, hj = "W[" + hm + "]", "(" + hj + ")"
    if rng.random() < 0.6:
        return "C[" + hm + "L" * links + "]", hj + ".a" * links, False
    ops_m, ops_j = [], []
    rest = budget - links
    for i in range(links):
        if i in (0, links // 2) and rng.random() < 0.5 and depth > 1:
            om, oj, oprim = gen_tr(rng, depth - 1, max(0, rest // 2))
            if not oprim:
                om, oj = "W[" + om + "]", "(" + oj + ")"
        else:
            om, oj = "L", "y"
        ops_m.append(om)
        ops_j.append(oj)
    return "C[" + hm + "".join(ops_m) + "]", hj + "".join(" + " + o for o in ops_j), False


def pre_proof(ctx):
    import os
    rc, out = common.sh([os.path.join(common.ROOT, "bin", "extract")])
    ctx.notes.append("bin/extract: " + out.strip())


def run(ctx):
    rng = ctx.rng
    budget_of = lambda s: 20000 + 40 * len(s) * min(len(s), 600)
    inputs, origin = [], []

    def add(src, what):
        inputs.append(json.dumps({"src": src, "budget": budget_of(src), "stack_kb": 2048, "module": what.startswith("module")}, ensure_ascii=True))
        origin.append((what, src))
    # ---- (1) nesting / chain families at doubling sizes (also the polynomial check)
    sizes = [16, 32, 64, 128, 1024, 2000, 3990, 5000, 8192, 9990, 200000] if ctx.tier != "quick" else [16, 32, 64, 3990, 9990, 100000]
    fam_index = {}
    for name, f in FAMILIES.items():
        for k in sizes:
            fam_index[(name, k)] = len(inputs)
            add(f(k), "family %s k=%d" % (name, k))
    # ---- (1b) products nest x chain
    for nest in NEST:
        for chain in CHAIN:
            for d, k in ([(4, 150), (16, 100), (8, 1000), (16, 300), (32, 200), (64, 100), (12, 500), (4, 3990), (24, 9990)] if ctx.tier == "quick" else [(2, 150), (4, 120), (4, 150), (6, 100), (8, 60), (16, 100), (64, 30), (8, 1000), (3, 5000), (256, 8), (16, 300), (32, 200), (64, 100), (12, 500), (24, 250), (6, 700), (128, 50), (4, 3990), (24, 9990), (3, 3000), (40, 2000)]):
                add(product(nest, chain, d, k), "product %s x %s d=%d k=%d" % (nest, chain, d, k))
    # ---- (1c) random trees of recursive constructs and chains: the accounting of M-Parse (`scan`) against the parser's
    tr_cases = []
    for i in range(150 if ctx.tier == "quick" else 2500):
        m, js, _ = gen_tr(rng, rng.randint(1, 5), rng.choice([200, 3000, 4500, 9000, 20000]))
        tr_cases.append((m, len(inputs)))
        add("z = %s;" % js, "tree " + m[:80])
    n_stack_inputs = len(inputs)          # families and products: the inputs whose only risk is native stack use
    # ---- (2) skeleton correspondence inputs
    sk_cases = []
    for i in range(60 if ctx.tier == "quick" else 800):
        sk, n = rand_sk(rng, rng.choice([5, 20, 60, 150]))
        for fam in ("spec", "arr", "call", "block", "gen", "obj", "tmpl", "fn", "arrow"):
            sk_cases.append((sk, fam, len(inputs)))
            add(render(sk, fam), "skeleton %s %s" % (fam, sk[:60]))
    # ---- (3) valid programs: every prefix at token-ish boundaries and single-token mutations
    progs = [p for p, _ in [gen.program(rng, depth=rng.randint(1, 2), fail=False) for _ in range(6 if ctx.tier == "quick" else 40)]]
    progs += [d for d, _ in c03.CORPUS] + [t for t, _, _, _ in [(a, b, c, d) for a, b, c, d in []]]
    erase_lines = common.driver(["erase"], [str(rng.randrange(1, 2 ** 40)) for _ in range(10 if ctx.tier == "quick" else 80)])
    progs += [l.split("\t")[0].replace("\\n", "\n") for l in erase_lines if "\t" in l]
    for p in progs:
        cuts = sorted(set([i for i, ch in enumerate(p) if ch in " \n(){}[];,.<>=:'\"`"] + [len(p)]))
        step = max(1, len(cuts) // (40 if ctx.tier == "quick" else 400))
        for c in cuts[::step]:
            add(p[:c], "prefix")
        for _ in range(20 if ctx.tier == "quick" else 150):
            c = rng.choice(cuts)
            e = rng.choice([x for x in cuts if x >= c][:6])
            tok = rng.choice(VOCAB)
            add(p[:c] + rng.choice(["", tok, tok + " " + rng.choice(VOCAB)]) + p[e:], "mutation")
    # ---- (4) token soups and raw bytes
    for i in range(300 if ctx.tier == "quick" else 6000):
        n = rng.choice([1, 2, 3, 5, 8, 13, 30, 80, 300])
        add(rng.choice(["", " "]).join(rng.choice(VOCAB) for _ in range(n)), "soup")
    for i in range(100 if ctx.tier == "quick" else 2000):
        bs = bytes(rng.randrange(256) for _ in range(rng.choice([1, 4, 16, 64, 400])))
        add(bs.decode("utf-8", "replace"), "bytes")
        add(bs.decode("latin-1"), "latin1")
    # ---- (5) corpus of past failures and the ambient / declare skippers
    for src in ["declare class A { #x", "declare class A { foo(", "declare class A { [", "declare class A { x", "declare namespace N { function f(", "declare module 'm' {", "declare global {", "declare function f(",
                "declare const x:", "interface I {", "interface I { (", "interface I { new (", "type T =", "type T = {[K in", "enum E {", "enum E { A =", "namespace N {", "abstract class A { abstract",
                "class A { static {", "class A { get", "class A { async *", "class A { [", "class A { constructor(public", "function f(this", "function f(a: ", "let x: (", "let x: (a", "let x: (a:", "x = <", "x = <T",
                "x = <T>(", "x = <T,>(a", "x = async <", "f<", "f<T", "f<T>", "f<T>(", "a ? (b) :", "a ? (b) : c =>", "(a, b", "(a, b)", "(a, b) :", "(a = 1", "({a", "({a})", "({a}) =>", "[a, b] =", "`${", "`${`${",
                "/", "/=", "/[", "/[/]", "a /", "a / b /", "x = /", "'\\", "'\\u", "'\\u{", "'\\u{110000}'", "\\u", "\\u0061", "0x", "0b", "0o", "1e", "1e+", "1_", "1__0", "08", "09.5", "1.e", ".e1", "1n.", "#", "#!", "#!/usr/bin/env node\n1",
                "@", "@(", "@a class", "<!--", "-->", "import", "import {", "import { a as", "import * as", "import a,", "import('", "import.meta", "export", "export {", "export default", "export * from", "export =",
                "import type", "import { type", "export type {", "a?.", "a?.[", "a?.(", "a?.`", "a ?? b || c", "a ** -b", "-a ** b", "new.target", "new", "new new", "super", "super(", "yield", "await", "async", "async () =>",
                "async x =>", "for (", "for (let", "for (let x of", "for (x in", "for await (", "label:", "label: label:", "break x", "continue x", "return", "switch (a) { case", "switch (a) { default: default:", "try {}",
                "try {} catch", "try {} catch (", "try {} finally", "throw\n1", "if (a) function f(){}", "do x while", "with (a) {}", "debugger", "let let = 1", "let [", "let {", "const x", "var", "class", "class extends",
                "class A extends", "function", "function*", "function f(a, a) {}", "({get a(){}, set a(v){}})", "({async *[a](){}})", "a = b = c =", "a, b,", "a = (b,", "x++ ++", "++x++", "delete", "void", "typeof", "! ", "~",
                "a instanceof", "a in", "a as", "a as const as", "a satisfies", "a!", "a!!", "a!.b", "<T>a", "<const>", "enum E { 'a' = ", "namespace A.", "namespace A.B", "'use strict'; with", "\u0000", "﻿1", " ", "a b",
                " ", "𝒳", "\\u{1d4b3}", "ℌ = 1", "a\\u0062c", "'😀'", "/\\p{L}/u", "/(?<n>a)\\k<n>/", "/[/", "/(/", "/a/gg", "/a/x", "x = 1 /a/ 2", "`\\u`", "`\\x`", "tag`\\u`", "`${}`", "`${1}${", "${", "}", ")", "]"]:
        add(src, "corpus")
        add(src, "module corpus")
    got = common.harness(["parse"], inputs, timeout=900, chunk=40)
    hist = {"ACC": 0, "REJ": 0}
    distinct = set()
    for (what, src), g in zip(origin, got):
        ctx.cov["evaluations"] += 1
        kind = what.split(" ")[0]
        hist[kind] = hist.get(kind, 0) + 1
        case = {"origin": what, "source_len": len(src), "source": src[:1500], "impl": g[:200]}
        if g.startswith("ACC") or g.startswith("REJ"):
            hist[g[:3]] += 1
            distinct.add(" ".join(g.split(" ")[:2]) + kind)
            continue
        if g.startswith("BUDGET"):
            ctx.prop_fail("loop: preparing the text exceeded its work budget of %d tokens (input length %d)" % (budget_of(src), len(src)), case)
        elif g.startswith("PANIC"):
            ctx.prop_fail("panic: preparing the text panicked (%s)" % g[6:80], case)
        elif g.startswith("CRASH") or g == "NOT-RUN":
            ctx.prop_fail("abort: preparing the text killed the process (stack overflow / abort)", case)
        elif g.startswith("TIMEOUT"):
            ctx.prop_fail("hang: preparing the text did not return", case)
        else:
            ctx.prop_fail("unclassified outcome %s" % g[:40], case)

    # ---- the stack-bound inputs once more on an UNOPTIMISED build of tsrun (frames several times larger: what a host's debug
    #      build or a `cargo test` thread sees), on a 1.75 MB thread
    ok, log = common.harness_dbg_build()
    if not ok:
        ctx.corr_fail("the unoptimised harness build failed", {"log": log[-800:]}, "build", "failed")
    else:
        # 1.75 MB: a 2 MB thread ("threads commonly have 2 MB", src/parser.rs) of which the host has used 256 KB
        small = [json.dumps(dict(json.loads(x), stack_kb=1792)) for x in inputs[:n_stack_inputs]]
        got_dbg = common.harness_dbg(["parse"], small, timeout=1800, chunk=20)
        hist["unoptimised_build"] = 0
        for (what, src), g in zip(origin[:n_stack_inputs], got_dbg):
            ctx.cov["evaluations"] += 1
            hist["unoptimised_build"] += 1
            case = {"origin": what + " (tsrun built without optimisation)", "source_len": len(src), "source": src[:1500], "impl": g[:200]}
            if g.startswith("ACC") or g.startswith("REJ") or g.startswith("BUDGET"):
                continue
            if g.startswith("PANIC"):
                ctx.prop_fail("panic: preparing the text panicked in an unoptimised build (%s)" % g[6:80], case)
            elif g.startswith("CRASH") or g == "NOT-RUN":
                ctx.prop_fail("abort: preparing the text killed the process in an unoptimised build (stack overflow / abort)", case)
            elif g.startswith("TIMEOUT"):
                ctx.prop_fail("hang: preparing the text did not return in an unoptimised build", case)

    def work(g):
        try:
            return int(g.rsplit("work=", 1)[1])
        except (IndexError, ValueError):
            return None
    # ---- polynomial growth on the families: doubling the size multiplies the work by at most ~4
    for name in FAMILIES:
        prev = None
        for k in sizes:
            g = got[fam_index[(name, k)]]
            w = work(g)
            if w is None or not g.startswith("ACC"):
                prev = None
                continue
            if prev is not None:
                pk, pw = prev
                ratio = (w + 50) / (pw + 50)
                growth = (k / pk) ** 2 * 1.3
                if ratio > growth:
                    ctx.prop_fail("superquadratic: family %s needs %d tokens at size %d but %d at size %d (x%.1f for x%d input)" % (name, pw, pk, w, k, ratio, k // pk),
                                  {"family": name, "source": FAMILIES[name](min(k, 200))[:400], "sizes": [pk, k], "work": [pw, w]})
            prev = (k, w)
        # acceptance is monotone in the depth (guard_accepts_iff)
        acc = [got[fam_index[(name, k)]].startswith("ACC") for k in sizes]
        if any((not a) and b for a, b in zip(acc, acc[1:])):
            ctx.corr_fail("M-Parse.guard_accepts_iff: acceptance of family %s is not monotone in the nesting depth %s" % (name, list(zip(sizes, acc))), {"family": name}, "monotone", str(acc))
    # ---- the chain accounting: the parser says "chain is too long" exactly when M-Parse's scan refuses (cases within 50 links of
    #      the limit are not compared: the loops count a few positions differently)
    tout = common.driver(["parse"], ["T " + m for m, _ in tr_cases])
    thist = {"accept": 0, "refuse": 0, "near_limit": 0}
    for (m, idx), t in zip(tr_cases, tout):
        ctx.cov["traces_validated_against_impl"] += 1
        f = dict(p.split("=") for p in t.split(" ")[1:]) if t.startswith("tr ") else None
        if f is None:
            ctx.corr_fail("M-Parse driver rejected a generated tree", m[:200], "tr ...", t[:80])
            continue
        if f["lo"] != f["hi"]:
            thist["near_limit"] += 1
            continue
        g = got[idx]
        impl_refuses = "tag=chain" in g
        model_refuses = f["acc"] == "0"
        thist["refuse" if model_refuses else "accept"] += 1
        if impl_refuses != model_refuses:
            ctx.corr_fail("M-Parse.scan: the parser %s a tree that the model's accounting %s (limit %s, tree depth %s, recursion depth %s)"
                          % ("refuses" if impl_refuses else "accepts", "refuses" if model_refuses else "accepts", f["max"], f["tdepth"], f["rdepth"]),
                          {"tree": m[:300], "source": origin[idx][1][:300], "impl": g[:80]}, "refuse" if model_refuses else "accept", g[:60])
        # chain_accounting_bounds_depth on the instance: an accepted tree is at most MAX_CHAIN deeper than the recursion
        if not model_refuses and int(f["tdepth"]) > int(f["rdepth"]) + int(f["max"]):
            ctx.corr_fail("M-Parse: theorem chain_accounting_bounds_depth fails on an instance", m[:200], "", t)
    ctx.cov["chain_accounting"] = thist
    # ---- correspondence with the model's cost on random skeletons
    mout = common.driver(["parse"], [sk for sk, _, _ in sk_cases])
    worst = {"spec": 0.0, "lin": 0.0}
    for (sk, fam, idx), m in zip(sk_cases, mout):
        ctx.cov["traces_validated_against_impl"] += 1
        g = got[idx]
        w = work(g)
        f = dict(p.split("=") for p in m.split(" ")) if m.startswith("size=") else None
        if f is None or w is None or not g.startswith("ACC"):
            if f is not None and int(f["depth"]) <= 40 and not g.startswith("ACC") and not g.startswith("REJ TypeError"):
                ctx.corr_fail("a rendered skeleton of depth %s is not accepted (%s)" % (f["depth"], g[:60]), {"skeleton": sk, "family": fam, "source": render(sk, fam)[:600]}, "ACC", g[:80])
            continue
        if fam in ("spec", "arrow"):
            bound = K_SPEC * int(f["first"]) + 40
            worst["spec"] = max(worst["spec"], w / max(1, int(f["first"])))
        else:
            bound = K_LIN * int(f["size"]) + 40
            worst["lin"] = max(worst["lin"], w / max(1, int(f["size"])))
        if w > bound:
            ctx.corr_fail("M-Parse: measured work %d exceeds the model bound %d (family %s, size %s, depth %s, costFirst %s)" % (w, bound, fam, f["size"], f["depth"], f["first"]),
                          {"skeleton": sk, "family": fam, "source": render(sk, fam)[:600]}, str(bound), str(w))
            if w > 40 * (len(render(sk, fam)) + 10) ** 2:
                ctx.prop_fail("superquadratic: %d tokens of work for %d characters" % (w, len(render(sk, fam))), {"source": render(sk, fam)[:800]})
    ctx.cov["distinct_nontrivial"] = len(distinct)
    ctx.cov["worst_tokens_per_model_unit"] = {k: round(v, 2) for k, v in worst.items()}
    ctx.cov["rule"] = ("%d nesting/chain families at sizes %s; products of 15 recursive constructs x 8 loop-built chains (every level carries a chain); random nesting skeletons rendered in 9 syntactic families (model cost vs measured lexer work, K_spec=%d, K_lin=%d); every 1/k-th prefix and random "
                       "single-token mutations of generated/corpus/model-generated TypeScript programs; token soups over a %d-word vocabulary; random bytes as UTF-8 (lossy) and Latin-1; a corpus of "
                       "truncated constructs (script and module). Each input on a 2 MB thread with a work budget of 20000 + 40*len*min(len,600) tokens. distinct_nontrivial = distinct (outcome, class, origin)"
                       % (len(FAMILIES), sizes, K_SPEC, K_LIN, len(VOCAB)))
    ctx.cov["input_distribution"] = hist
    ctx.sample({"family": "assignparen", "work_by_size": {k: work(got[fam_index[("assignparen", k)]]) for k in sizes}})
    ctx.sample({"input": origin[len(FAMILIES) * len(sizes)][1][:200], "impl": got[len(FAMILIES) * len(sizes)][:80]})
