"""C10 — meaning does not depend on size (DESIGN.md §4 C10)."""
import os
import re
from . import common

LEAN_TARGETS = ["TsrunVerif.Props.C10", "TsrunVerif.Props.C01Compile"]
P = "TsrunVerif.RegAlloc."
THEOREMS = [P + t for t in [
    "inv_init", "alloc_fresh", "free_inv", "reserve_fresh", "window_sound", "oversize_refused",
    "saved_stack", "stmt_neutral", "restore_inv", "addConstant_sound", "addDedup_sound", "index_stable"]] + ["TsrunVerif.Gen.narrowing_reviewed"] + \
    ["TsrunVerif.Compile." + t for t in ["codeE_isSome_iff", "codeS_isSome_iff", "program_refused_iff", "rightNested_limit", "leftNested_limit",
                                          "codeE_regs", "codeS_regs", "program_registers_in_file", "compileE_restores"]]
ASSUMPTIONS = [
    "over M-Compile (C01's compiler model, whose instruction listing and register count are compared with the real compiler's on every C01 run): a statement of the modelled core is refused exactly when its register demand exceeds 255, "
    "what is accepted is compiled correctly whatever its size, and no instruction names a register outside the chunk's register file",
    "alloc_fresh / free_inv / window_sound assume a disciplined client (a register is freed once, by its holder): the allocator's cfg(tsrun_verif) hook counts undisciplined frees and allocations while the real compiler compiles the family programs and C01's feature programs; the count must be 0",
    "M-RegAlloc transcribes RegisterAllocator::{alloc,free,reserve_range,save,restore}, BytecodeBuilder::{reserve_registers_for,add_constant,add_number,add_string}; "
    "it is compared with the real builder on random operation sequences (every result, next and max_used after every op, final pool contents)",
    "that the compiler brackets every statement with save/restore and requests windows only through reserve_registers_for is read from the source "
    "(tripwire: a grep for narrowing casts in src/compiler) and exercised by the size sweeps; the sweeps themselves are self-checking programs (PROP), not a model comparison",
]
LIMIT = re.compile(r"[Tt]oo many|limit|too large|too deep", re.I)


def ra_sequence(rng, n):
    ops = []
    live = []
    for _ in range(n):
        k = rng.random()
        if k < 0.35:
            ops.append("a"); live.append(None)
        elif k < 0.6 and live:
            ops.append("f%d" % rng.randint(0, 40))
        elif k < 0.75:
            ops.append("r%d" % rng.choice([0, 1, 2, 3, 5, 8, 20, 100, 200, 254, 255, 256, 257, 300, 511, 512, 65536, 65537]))
        elif k < 0.85:
            ops.append("s")
        elif k < 0.95:
            ops.append("t")
        else:
            ops.append("f%d" % rng.randint(0, 255))
    return ";".join(ops)


class PyRA:
    """python mirror of the allocator, used only to *generate* disciplined sequences (frees of live registers)."""

    def __init__(self):
        self.next, self.free, self.saved = 0, [], []

    def alloc(self):
        if self.free:
            return self.free.pop()
        if self.next == 255:
            return None
        self.next += 1
        return self.next - 1

    def release(self, r):
        if r == max(self.next - 1, 0):
            self.next = r
        else:
            self.free.append(r)

    def reserve(self, n):
        if n > 255 or self.next + n > 255:
            return None
        self.next += n
        return self.next - n


def ra_disciplined(rng, n):
    """what a compiler does: allocate, free only what it holds, windows, nested statements."""
    ra, ops, live = PyRA(), [], []
    for _ in range(n):
        k = rng.random()
        if k < 0.4:
            r = ra.alloc(); ops.append("a")
            if r is not None:
                live.append(r)
        elif k < 0.7 and live:
            r = live.pop(rng.randrange(len(live)) if rng.random() < 0.3 else -1)
            ra.release(r); ops.append("f%d" % r)
        elif k < 0.8:
            c = rng.choice([0, 1, 2, 3, 4, 10, 50, 120, 254, 255, 256, 300, 65536, 65600])
            s0 = ra.reserve(c); ops.append("r%d" % c)
            if s0 is not None:
                live.extend(range(s0, s0 + c))
        elif k < 0.9:
            ra.saved.append(ra.next); ops.append("s")
        elif ra.saved:
            pos = ra.saved.pop(); ra.next = pos
            ra.free = [r for r in ra.free if r < pos]
            live = [r for r in live if r < pos]
            ops.append("t")
    return ";".join(ops)


def pool_sequence(rng, n, distinct):
    ops = []
    for _ in range(n):
        k = rng.random()
        if k < 0.45:
            ops.append("N%d" % rng.randrange(distinct))
        elif k < 0.9:
            ops.append("S%d" % rng.randrange(distinct))
        else:
            ops.append("C%d" % rng.randrange(distinct))
    return ";".join(ops)


def norm_ra(s):
    return re.sub(r"#\d*", "#", s)


# ------------------------------------------------------------------ size sweeps (self-checking programs)
def fam_array(n):
    src = "let keep = 4242; const a = [%s]; let s = 0; for (const x of a) s += x; [keep, a.length, s, a.length ? a[a.length-1] : -1].join(',')" % ",".join(str(i) for i in range(n))
    return src, "4242,%d,%d,%d" % (n, n * (n - 1) // 2, n - 1 if n else -1)


def fam_object(n):
    src = "let keep = 4242; const o: any = {%s}; let s = 0; for (const k of Object.keys(o)) s += o[k]; [keep, Object.keys(o).length, s].join(',')" % ",".join("k%d: %d" % (i, i) for i in range(n))
    return src, "4242,%d,%d" % (n, n * (n - 1) // 2)


def fam_args(n):
    src = "let keep = 4242; function f(...r: number[]) { let s = 0; for (const x of r) s += x; return r.length + ':' + s; } [keep, f(%s)].join(',')" % ",".join(str(i) for i in range(n))
    return src, "4242,%d:%d" % (n, n * (n - 1) // 2)


def fam_params(n):
    ps = ",".join("p%d: number" % i for i in range(n))
    body = "+".join("p%d" % i for i in range(n)) or "0"
    src = "let keep = 4242; function f(%s) { return %s; } [keep, f(%s)].join(',')" % (ps, body, ",".join(str(i) for i in range(n)))
    return src, "4242,%d" % (n * (n - 1) // 2)


def fam_params_spread(n):
    """n formal parameters, the arguments supplied through a spread / apply (a literal list of n arguments has its own limit);
    the bodies use only a few of them, so that the parameter list itself is what meets the register file"""
    ps = ",".join("p%d: number" % i for i in range(n))
    pick = "[%s].join(':')" % ", ".join("p%d" % i for i in sorted({0, n // 2, max(0, n - 2), n - 1}) if 0 <= i < n) if n else "''"
    src = ("let keep = 4242; const xs = Array.from({length: %d}, (_, i) => i * 10); function f(%s) { return %s; } class C { m(%s) { return %s; } } const ar = (%s) => { return %s; };\n"
           "[keep, f(...xs), f.apply(null, xs), new C().m(...xs), ar(...xs)].join(',')" % (n, ps, pick, ps, pick, ps, pick))
    v = ":".join(str(i * 10) for i in sorted({0, n // 2, max(0, n - 2), n - 1}) if 0 <= i < n) if n else ""
    return src, "4242,%s,%s,%s,%s" % (v, v, v, v)


def fam_template(n):
    src = "let keep = 4242; const x = 7; const t = `%s`; [keep, t.length].join(',')" % "".join("${x}-" for _ in range(n))
    return src, "4242,%d" % (2 * n)


def fam_switch(n):
    cases = "".join("case %d: r = %d; break; " % (i, i * 2) for i in range(n))
    src = "let keep = 4242; function f(v: number) { let r = -1; switch (v) { %s default: r = -2; } return r; } [keep, f(0), f(%d), f(%d)].join(',')" % (cases, max(n - 1, 0), n)
    return src, "4242,%d,%d,-2" % (0 if n else -2, 2 * (n - 1) if n else -2)


def fam_statements(n):
    src = "let keep = 4242; function f(a: number, b: number) { return a + b; } let s = 0;\n" + "".join("s = f(s, %d);\n" % (i % 7) for i in range(n)) + "[keep, s].join(',')"
    return src, "4242,%d" % sum(i % 7 for i in range(n))


def fam_arraystmts(n):
    src = "let keep = 4242; let s = 0;\n" + "".join("s += [1, 2, 3, %d].length;\n" % i for i in range(n)) + "[keep, s].join(',')"
    return src, "4242,%d" % (4 * n)


def fam_decls(n):
    src = "let keep = 4242;\n" + "".join("const v%d = %d;\n" % (i, i) for i in range(n)) + "[keep, %s].join(',')" % ("v%d" % (n - 1) if n else "-1")
    return src, "4242,%d" % (n - 1)


def fam_seqexpr(n):
    src = "let keep = 4242; let c = 0; const r = (%s); [keep, r, c].join(',')" % ", ".join(["c++"] * n + ["99"])
    return src, "4242,99,%d" % n


def fam_concat(n):
    src = "let keep = 4242; const x = 1; const r = %s; [keep, r].join(',')" % " + ".join(["x"] * max(n, 1))
    return src, "4242,%d" % max(n, 1)


def fam_numconsts(n):
    src = "let keep = 4242; let s = 0; let last = 0;\n" + "".join("last = %d; s += last;\n" % (1000 + i) for i in range(n)) + "[keep, last, s].join(',')"
    return src, "4242,%d,%d" % (1000 + n - 1 if n else 0, sum(1000 + i for i in range(n)))


def fam_strconsts(n):
    src = "let keep = 4242; let s = 0; let last = '';\n" + "".join("last = 'q%d'; s += last.length;\n" % i for i in range(n)) + "[keep, last, s].join(',')"
    return src, "4242,%s,%d" % ("q%d" % (n - 1) if n else "", sum(len("q%d" % i) for i in range(n)))


def fam_lengths(n):
    src = "let keep = 4242; const a: number[] = []; for (let i = 0; i < %d; i++) a.push(i); const s = a.join(''); [keep, a.length, s.length, 'ab'.repeat(%d).length].join(',')" % (n, n)
    return src, "4242,%d,%d,%d" % (n, sum(len(str(i)) for i in range(n)), 2 * n)


def fam_elseif(n):
    chain = "".join("if (v === %d) r = %d; else " % (i, i + 1) for i in range(n)) + "r = -1;"
    src = "let keep = 4242; function f(v: number) { let r = 0; %s return r; } [keep, f(%d), f(-5)].join(',')" % (chain, max(n - 1, 0))
    return src, "4242,%d,-1" % (n if n else -1)


def fam_destructure(n):
    src = "let keep = 4242; const [%s] = [%s]; [keep, %s].join(',')" % (",".join("d%d" % i for i in range(n)) , ",".join(str(i) for i in range(n)), ("d%d" % (n - 1)) if n else "-1")
    return src, "4242,%d" % (n - 1)


def fam_destructure_rest(n):
    # n bound elements, then a rest element: the rest must start after the n-th element for every n
    src = "let keep = 4242; const [%s...rest] = [%s]; [keep, rest.length, rest[0], rest[4], %s].join(',')" % (
        "".join("d%d," % i for i in range(n)), ",".join(str(i) for i in range(n + 5)), ("d%d" % (n - 1)) if n else "-1")
    return src, "4242,5,%d,%d,%d" % (n, n + 4, n - 1)


def fam_destructure_holes(n):
    # assignment pattern (not a declaration) with n holes before one target and a rest, over a string
    src = "let keep = 4242; let a: any, rest: any; [%s a, ...rest] = '%s'.split(''); [keep, a, rest.length, rest.join('')].join(',')" % ("," * n, "".join(chr(97 + (i % 26)) for i in range(n + 4)))
    return src, "4242,%s,3,%s" % (chr(97 + (n % 26)), "".join(chr(97 + (i % 26)) for i in range(n + 1, n + 4)))


def fam_destructure_params(n):
    # a parameter pattern with n elements and a rest, called with n + 3 values
    src = "let keep = 4242; function f([%s...rest]: number[]) { return rest.length + ':' + rest[0] + ':' + %s; } [keep, f([%s])].join(',')" % (
        "".join("q%d," % i for i in range(n)), ("q%d" % (n - 1)) if n else "-1", ",".join(str(i) for i in range(n + 3)))
    return src, "4242,3:%d:%d" % (n, n - 1)


def fam_object_pattern(n):
    # object pattern with n properties (defaults on every third) and a rest object
    props = ",".join(("k%d = -1" % i) if i % 3 == 0 else ("k%d" % i) for i in range(n))
    src = "let keep = 4242; const {%s...others} = {%s}; [keep, Object.keys(others).length, others.z0, %s].join(',')" % (
        props + ("," if n else ""), ",".join(["k%d: %d" % (i, i) for i in range(n)] + ["z0: 7", "z1: 8"]), ("k%d" % (n - 1)) if n else "-1")
    return src, "4242,2,7,%d" % (n - 1)


def fam_spread_calls(n):
    # n spread arguments of one element each
    src = "let keep = 4242; function f(...r: number[]) { return r.length + ':' + r[r.length - 1]; } [keep, f(%s)].join(',')" % ",".join("...[%d]" % i for i in range(n))
    return src, "4242,%d:%s" % (n, str(n - 1) if n else "undefined")


def fam_optional_chain(n):
    # a member chain of depth n built at run time and read through ?. (and a chain that is cut at the root)
    src = "let keep = 4242; let o: any = {v: 9}; for (let i = 0; i < %d; i++) o = {p: o}; const none: any = null; [keep, o%s.v, String(none%s)].join(',')" % (n, "?.p" * n, "?.p" * max(n, 1))
    return src, "4242,9,undefined"


REG_FAMILIES = {"array": fam_array, "object": fam_object, "args": fam_args, "params": fam_params, "params_spread": fam_params_spread, "template": fam_template,
                "switch": fam_switch, "seqexpr": fam_seqexpr, "concat": fam_concat, "elseif": fam_elseif, "destructure": fam_destructure,
                "destructure_rest": fam_destructure_rest, "destructure_holes": fam_destructure_holes, "destructure_params": fam_destructure_params,
                "object_pattern": fam_object_pattern, "spread_calls": fam_spread_calls, "optional_chain": fam_optional_chain}
BODY_KINDS = {          # (declarations around the statements, expression giving the result)
    "function": ("function g() { let s = 0;\nSTMTS return s; }", "g()"),
    "method": ("class K { m() { let s = 0;\nSTMTS return s; } }", "new K().m()"),
    "constructor": ("class K { s: number; constructor() { let s = 0;\nSTMTS this.s = s; } }", "new K().s"),
    "derived_constructor": ("class B { b = 1; } class K extends B { s: number; constructor() { super(); let s = 0;\nSTMTS this.s = s; } }", "new K().s"),
    "arrow": ("const ar = () => { let s = 0;\nSTMTS return s; };", "ar()"),
    "getter": ("const og = { get g() { let s = 0;\nSTMTS return s; } };", "og.g"),
    "static_block": ("let out = 0; class K { static { let s = 0;\nSTMTS out = s; } }", "out"),
    "generator": ("function* g() { let s = 0;\nSTMTS yield s; }", "g().next().value"),
    "block_in_loop": ("let s = 0; for (let once = 0; once < 1; once++) {\nSTMTS }", "s"),
    "catch_body": ("let s = 0; try { throw 1; } catch (e) {\nSTMTS }", "s"),
    "namespace": ("namespace N { export let s = 0;\nSTMTS }", "N.s"),
}


def fam_body(kind):
    """n small statements, each reserving a window (call arguments, an array literal, a template), as the body of every kind of code block"""
    def fam(n):
        stmts = "".join(("s = f(s, %d, 1);\n" % (i % 7), "s += [1, 2, %d].length - 3 + %d;\n" % (i, i % 7), "s += `${%d}${s}`.length > 0 ? %d : 0;\n" % (i, i % 7))[i % 3] for i in range(n))
        decl, expr = BODY_KINDS[kind]
        src = "let keep = 4242; function f(a: number, b: number, c: number) { return a + b; }\n" + decl.replace("STMTS", stmts) + "\n[keep, %s].join(',')" % expr
        return src, "4242,%d" % sum(i % 7 for i in range(n))
    return fam


CUMULATIVE = {"statements": fam_statements, "arraystmts": fam_arraystmts, "decls": fam_decls, "lengths": fam_lengths}
CONST_FAMILIES = {"numconsts": fam_numconsts, "strconsts": fam_strconsts}
CUMULATIVE.update({"body_" + k: fam_body(k) for k in BODY_KINDS})


def sizes(tier):
    base = [0, 1, 2, 3, 4, 7, 8, 9, 15, 16, 17, 31, 32, 33, 63, 64, 65, 100, 126, 127, 128, 129, 130, 200, 250, 251, 252, 253, 254, 255, 256, 257, 258, 259,
            260, 300, 383, 384, 400, 511, 512, 513, 600]
    if tier != "quick":
        base = sorted(set(base + list(range(0, 601, 1))))
    return base


def pre_proof(ctx):
    rc, out = common.sh([os.path.join(common.ROOT, "bin", "extract")])
    ctx.notes.append("bin/extract: " + out.strip())


def run(ctx):
    rng = ctx.rng
    # ---- CORR: allocator and pool against the real builder
    lines = ["a;a;r3;f0;a;s;r200;a;t;r60;N5;S5;N5;C1;N7;f4;f3;f2", "r255", "r256", "a;r255", "r300;r65536;r65791",
             ";".join(["a"] * 260), ";".join(["r100"] * 4), "s;" + ";".join(["r50"] * 5) + ";t;r250"]
    for i in range(1500 if ctx.tier == "quick" else 20000):
        lines.append(ra_sequence(rng, rng.randint(5, 120)))
    ndis0 = len(lines)
    for i in range(2500 if ctx.tier == "quick" else 30000):
        lines.append(ra_disciplined(rng, rng.randint(5, 400)))
    ndis1 = len(lines)
    for i in range(300 if ctx.tier == "quick" else 4000):
        lines.append(pool_sequence(rng, rng.randint(5, 300), rng.choice([3, 20, 1000])))
    # the 16-bit boundary of the pool: > 65535 distinct constants, mixed kinds
    big = ";".join(("N%d" if i % 3 else "S%d") % i for i in range(65600)) + ";N1;S0;C5;N70000"
    lines.append(big)
    exp = common.driver(["regalloc"], lines, timeout=900)
    got = common.harness(["regalloc"], lines, timeout=900)
    for li, (line, e, g) in enumerate(zip(lines, exp, got)):
        ctx.cov["evaluations"] += 1
        ctx.cov["traces_validated_against_impl"] += 1
        m = re.match(r"^(.*)\|L(\d+)\|bad(\d+)$", g)
        if not m:
            ctx.prop_fail("crash: builder op sequence did not complete (%s)" % g[-40:], {"ops": line[:300]})
            continue
        body, plen, bad = m.group(1), int(m.group(2)), int(m.group(3))
        if norm_ra(e) != norm_ra(body):
            eo, go = norm_ra(e).split("|"), norm_ra(body).split("|")
            k = next((i for i, (x, y) in enumerate(zip(eo, go)) if x != y), min(len(eo), len(go)))
            ctx.corr_fail("M-RegAlloc != BytecodeBuilder at op %d" % k, {"ops": line[:300], "op_index": k},
                          eo[k] if k < len(eo) else None, go[k] if k < len(go) else None)
        if bad:
            ctx.prop_fail("constindex: %d constant indices handed out no longer address their constant" % bad, {"ops": line[:300]})
        if plen > 65535:
            ctx.prop_fail("constindex: pool grew beyond what a 16-bit index can address (%d)" % plen, {"ops": line[:300]})
        # PROP on the allocator trace itself (disciplined sequences only: frees name live registers):
        # a register handed out must not be live
        if not (li < 8 or ndis0 <= li < ndis1):
            continue
        live = set()
        saved = []
        nxt = 0
        for op, o in zip(line.split(";"), body.split("|")):
            if not op or op[0] not in "afrst":
                continue
            res, _, tail = o.partition("@")
            cur = int(tail.split(",")[0]) if tail else nxt
            if op[0] == "a" and res != "E":
                r = int(res)
                if r in live or r >= 255:
                    ctx.prop_fail("alloc: handed out a live or out-of-file register %d" % r, {"ops": line[:300]})
                    break
                live.add(r)
            elif op[0] == "r" and res != "E":
                s0, n = int(res), int(op[1:])
                w = set(range(s0, s0 + n))
                if (w & live) or s0 + n > 255 or n > 255:
                    ctx.prop_fail("window: reserved window overlaps live registers or leaves the register file", {"ops": line[:300]})
                    break
                live |= w
            elif op[0] == "f":
                live.discard(int(op[1:]))
            elif op[0] == "s":
                saved.append(cur)
            elif op[0] == "t" and saved:
                pos = saved.pop()
                if cur != pos:
                    ctx.prop_fail("neutral: restore did not return the cursor to the saved position", {"ops": line[:300]})
                    break
                live = {r for r in live if r < pos}
            nxt = cur
    # ---- PROP: size sweeps on whole programs
    progs, meta = [], []
    for name, fam in REG_FAMILIES.items():
        for n in sizes(ctx.tier):
            src, want = fam(n)
            progs.append(src.replace("\n", "\\n")); meta.append((name, n, want, "construct"))
    for name, fam in CUMULATIVE.items():
        for n in [0, 1, 50, 100, 127, 128, 129, 130, 200, 255, 256, 257, 300, 600, 1000, 3000] + ([10000, 30000] if ctx.tier != "quick" else []):
            src, want = fam(n)
            progs.append(src.replace("\n", "\\n")); meta.append((name, n, want, "cumulative"))
    for name, fam in CONST_FAMILIES.items():
        for n in [10, 1000, 65520, 65530, 65533, 65534, 65535, 65536, 65537, 65540, 70000]:
            src, want = fam(n)
            progs.append(src.replace("\n", "\\n")); meta.append((name, n, want, "constpool"))
    outs = common.harness(["prog"], progs, timeout=1200, chunk=8)
    hist = {}
    distinct = set()
    known = {f.get("site"): f for f in ctx.findings if f.get("kind") == "site"}
    for (name, n, want, kind), o, src in zip(meta, outs, progs):
        ctx.cov["evaluations"] += 1
        case = {"family": name, "n": n, "program_head": src[:160], "impl": o[:200], "expected": want}
        if o.startswith("OK "):
            val = o[3:].split(" | ")[0]
            hist.setdefault(name, [0, 0])[0] += 1
            distinct.add((name, n))
            if val != "s:" + want:
                ctx.prop_fail("wrongvalue: %s of size %d evaluates to a wrong value" % (name, n), case)
        elif o.startswith("ERR ") and LIMIT.search(o):
            hist.setdefault(name, [0, 0])[1] += 1
            distinct.add((name, n))
            if kind == "cumulative":
                ctx.prop_fail("cumulative: a sequence of individually small statements (%s x %d) is refused with a limit error" % (name, n), case)
            elif kind == "constpool":
                f = known.get("constant-pool-per-chunk")
                if f:
                    ctx.known(f["id"], f["what"])
                else:
                    ctx.prop_fail("cumulative: %d statements with distinct constants are refused (constant pool limit is per chunk)" % n, case)
        else:
            ctx.prop_fail("crash: %s of size %d neither evaluates nor is refused with an explicit limit error" % (name, n), case)
    # ---- OBLIGATION: the compiler is a disciplined client of the allocator (what alloc_fresh / free_inv / window_sound assume)
    from . import c01_compile, c01_corpus
    whole = [p.replace("\\n", "\n") for p, (name, n, want, kind) in zip(progs, meta) if n <= 300]
    whole += [q if isinstance(q, str) else q[0] for q in c01_corpus.feature_programs(ctx.rng, "quick")]
    nprog, nbad = c01_compile.discipline(ctx, common, whole, "C10 families and C01 feature programs")
    ctx.notes.append("register discipline: %d whole programs compiled with the allocator's hook, %d undisciplined" % (nprog, nbad))
    ctx.cov["distinct_nontrivial"] = len(distinct)
    ctx.cov["rule"] = ("(a) random and adversarial op sequences on the real BytecodeBuilder/RegisterAllocator (alloc/free/reserve_registers_for with sizes 0..65537/save/restore) "
                       "and constant pool (add_number/add_string/add_constant incl. 65600 distinct constants), compared op by op with M-RegAlloc; "
                       "(b) self-checking programs: %d register-bound construct families x sizes %s, %d cumulative families up to 3000 (30000 thorough) statements, "
                       "2 constant-pool families around 2^16, each with a canary variable; outcome must be the closed-form value or an explicit limit error. "
                       "distinct_nontrivial = distinct (family,size) pairs that ran" % (len(REG_FAMILIES), "0..600 (dense at 2^7, 2^8)" , len(CUMULATIVE)))
    ctx.cov["accepted_vs_refused_per_family"] = hist
    ctx.sample({"ops": lines[0], "model": exp[0], "impl": got[0]})
    ctx.sample({"family": meta[30][0], "n": meta[30][1], "impl": outs[30][:100]})
