"""C18 — Module specifiers resolve to canonical paths (DESIGN.md §4 C18)."""
import itertools
from . import common

LEAN_TARGETS = ["TsrunVerif.Props.C18"]
P = "TsrunVerif.Path."
THEOREMS = [P + t for t in [
    "resolve_bare", "resolve_spec_relative", "resolve_spec_absolute", "resolve_canonical",
    "resolve_abs", "canonical_no_trailing_slash", "resolve_idem", "normalize_dot",
    "normalize_dblslash", "normalize_dotdot", "resolve_spelling_dot", "resolve_spelling_dblslash",
    "resolve_spelling_dotdot", "resolveOld_not_abs"]]
ASSUMPTIONS = [
    "M-Path (Model/Path.lean) is a line-by-line transcription of ModulePath::{parent,is_relative,is_bare,resolve,normalize_path}; "
    "its agreement with the Rust code is checked on every generated (specifier, importer) pair, not proved",
    "strings are modelled as List Char; the Rust code splits on the ASCII byte '/', which cannot occur inside a multi-byte UTF-8 sequence",
]
ALPHABET = ["", ".", "..", "a", "b", "..a", "a.ts"]


def ref_resolve(spec, base):
    """independent reference: join to the importer's directory, drop '', '.', resolve '..'."""
    if not (spec.startswith("/") or spec.startswith("./") or spec.startswith("../")):
        return spec
    if spec.startswith("/"):
        joined = spec
    elif base is None or "/" not in base:
        joined = spec
    else:
        joined = base[:base.rfind("/")] + "/" + spec
    out = []
    for seg in joined.split("/"):
        if seg in ("", "."):
            continue
        if seg == "..":
            if out:
                out.pop()
            continue
        out.append(seg)
    return ("/" if joined.startswith("/") else "") + "/".join(out)


def is_bare(s):
    return not (s.startswith("/") or s.startswith("./") or s.startswith("../"))


def canonical(p):
    if not p.startswith("/"):
        return False
    if p == "/":
        return True
    return all(seg not in ("", ".", "..") for seg in p[1:].split("/"))


def strings(n):
    return ["/".join(t) for t in itertools.product(ALPHABET, repeat=n)]


def gen_cases(ctx):
    maxtotal = 5 if ctx.tier == "quick" else 6
    by_n = {n: strings(n) for n in range(1, maxtotal)}
    cases = []
    for total in range(2, maxtotal + 1):
        for n1 in range(1, total):
            n2 = total - n1
            for s in by_n[n1]:
                for b in by_n[n2]:
                    cases.append((s, b))
    exhaustive_n = len(cases)
    for n in range(1, maxtotal):
        for s in by_n[n]:
            cases.append((s, None))
    # random longer paths, 7 segments and beyond, non-ASCII segments, odd characters
    rng = ctx.rng
    extra = ALPHABET + ["ü", "日本", "...", "a b", "c.d.ts", ".hidden", "..", ".", ""]
    nrand = 20000 if ctx.tier == "quick" else 600000
    for _ in range(nrand):
        k1, k2 = rng.randint(1, 9), rng.randint(1, 9)
        s = "/".join(rng.choice(extra) for _ in range(k1))
        b = "/".join(rng.choice(extra) for _ in range(k2))
        r = rng.random()
        if r < 0.4:
            s = rng.choice(["./", "../", "/", "../../"]) + s
        if rng.random() < 0.7:
            b = "/" + b
        cases.append((s, b if rng.random() < 0.97 else None))
    return cases, exhaustive_n


def respell(rng, s):
    """a spelling of the same file: insert './', 'x/../' or a doubled slash after some slash."""
    idx = [i for i, c in enumerate(s) if c == "/"]
    if not idx:
        return None
    i = rng.choice(idx)
    ins = rng.choice(["./", "x/../", "/", "a.ts/../", "././"])
    return s[:i + 1] + ins + s[i + 1:]


def run(ctx):
    cases, exhaustive_n = gen_cases(ctx)
    lines = [s + "\t" + (b if b is not None else "<none>") for s, b in cases]
    exp = common.driver(["path"], lines)
    got = common.harness(["path"], lines)
    distinct = set()
    hist = {"bare": 0, "absolute_spec": 0, "relative_abs_importer": 0, "relative_rel_importer": 0, "no_importer": 0,
            "dotdot_at_root": 0}
    for (s, b), line, e, g in zip(cases, lines, exp, got):
        ctx.cov["evaluations"] += 1
        ctx.cov["traces_validated_against_impl"] += 1
        if e != g:
            ctx.corr_fail("M-Path.resolve != ModulePath::resolve", {"specifier": s, "importer": b}, e, g)
        # PROP on the implementation's output, independent of the Lean model
        case = {"specifier": s, "importer": b, "impl": g}
        if is_bare(s):
            hist["bare"] += 1
            if g != s:
                ctx.prop_fail("bare: bare specifier not passed through", case)
            continue
        babs = b is not None and b.startswith("/")
        if s.startswith("/"):
            hist["absolute_spec"] += 1
        elif b is None:
            hist["no_importer"] += 1
        elif babs:
            hist["relative_abs_importer"] += 1
        else:
            hist["relative_rel_importer"] += 1
        if babs or s.startswith("/"):
            distinct.add(g)
            r = ref_resolve(s, b)
            if g != r:
                ctx.prop_fail("reference: result differs from join+normalise reference (%r)" % r, case)
            if not g.startswith("/"):
                ctx.prop_fail("absolute: result of resolving against an absolute importer is not absolute", case)
            elif not canonical(g):
                ctx.prop_fail("clean: result contains '', '.', '..' segment or trailing slash", case)
    # idempotence + spelling on a sample (second round trip through the implementation)
    pool = [(s, b, g) for (s, b), g in zip(cases, got) if not is_bare(s) and b is not None and b.startswith("/")]
    rng = ctx.rng
    rng.shuffle(pool)
    pool = pool[: (30000 if ctx.tier == "quick" else 300000)]
    l2, meta = [], []
    for s, b, g in pool:
        l2.append(g + "\t" + rng.choice(["/zz/other.ts", "<none>", b]))
        meta.append(("idem", s, b, g))
        t = respell(rng, s)
        if t is not None and not is_bare(t) == False or (t is not None and not is_bare(t)):
            if t is not None and not is_bare(t):
                l2.append(t + "\t" + b)
                meta.append(("spell", s, b, g, t))
    got2 = common.harness(["path"], l2)
    exp2 = common.driver(["path"], l2)
    for m, line, g2, e2 in zip(meta, l2, got2, exp2):
        ctx.cov["evaluations"] += 1
        ctx.cov["traces_validated_against_impl"] += 1
        if g2 != e2:
            ctx.corr_fail("M-Path.resolve != ModulePath::resolve", {"line": line}, e2, g2)
        if m[0] == "idem" and g2 != m[3]:
            ctx.prop_fail("idempotent: resolving the result again changed it",
                          {"specifier": m[1], "importer": m[2], "first": m[3], "second": g2, "second_case": line})
        if m[0] == "spell" and g2 != m[3]:
            ctx.prop_fail("spelling: two spellings of one file resolve differently",
                          {"specifier": m[1], "respelled": m[4], "importer": m[2], "first": m[3], "second": g2})
    ctx.cov["distinct_nontrivial"] = len(distinct)
    ctx.cov["rule"] = ("every (specifier, importer) pair over the alphabet %s with segment total <= %d (exhaustive: %d pairs), "
                       "every specifier with no importer, plus %d random long paths with non-ASCII segments; second round: idempotence and "
                       "respelling (./, x/../, //) of a sample. distinct_nontrivial = number of distinct resolved paths of non-bare "
                       "specifiers against absolute importers" % (ALPHABET, 5 if ctx.tier == "quick" else 6, exhaustive_n,
                                                                  len(cases) - exhaustive_n))
    ctx.cov["exhaustive"] = True
    ctx.cov["input_distribution"] = hist
    for i in (0, len(cases) // 3, len(cases) // 2, len(cases) - 1):
        ctx.sample({"specifier": cases[i][0], "importer": cases[i][1], "model": exp[i], "impl": got[i]})
