"""C01, compiler and VM: M-Compile (Lean) against the real compiler and the real interpreter.

Two comparisons per generated statement:
  listing   — `compileProgram` of the model and `Compiler::compile_statement` of tsrun emit the same
              instructions (registers, jump targets, constants), or both refuse (register exhaustion)
  meaning   — the model's reference semantics (== the model VM on the model's code, which the driver
              checks and the theorems prove) and tsrun (and the reference engine) leave the same
              variables behind, or throw the same error after the same side effects
Trees are rendered twice: as prefix tokens for the model driver and as fully parenthesised source."""

BIN_ALL = ["+", "-", "*", "/", "%", "**", "==", "!=", "===", "!==", "<", "<=", ">", ">=", "&", "|", "^", "<<", ">>", ">>>", "in", "instanceof"]
# no `*`: products of products leave the exactly representable integers (M-Ops is exact), then a bit operator hides it
BIN_SEM = ["+", "-", "==", "!=", "===", "!==", "<", "<=", ">", ">=", "&", "|", "^", "<<", ">>", ">>>"]
UN_ALL = ["-", "+", "!", "~", "void", "typeof"]
LOG = ["&&", "||", "??"]
VARS = ["a", "b", "c"]
STRS = ["~", "x", "ab", "7", "0"]


class Gen:
    def __init__(self, rng, sem):
        self.rng = rng
        self.sem = sem          # semantic run: only operators M-Ops models, loops that terminate
        self.counters = []
        self.in_loop = 0

    def sem_ops(self):
        """inside a loop nothing may double: `s += s` on a string, 25 times over, does not fit into memory"""
        return [o for o in BIN_SEM if o != "+"] if self.in_loop else BIN_SEM

    def lit(self):
        r = self.rng
        k = r.randrange(8)
        if k < 4:
            return ("N", r.choice([0, 1, 2, 3, 5, 7, 127, 128, 300, 1000, 65536, 2147483647] if not self.sem else [0, 1, 2, 3, 5, 7, 127, 128, 300]))
        if k == 4:
            return ("S", r.choice(STRS))
        k = r.choice(["T", "F", "U", "Z"])
        return ("V", "undefined") if k == "U" else (k,)      # `undefined` is a global variable, not a literal

    def var(self):
        r = self.rng
        if r.randrange(25) == 0:
            return "d"                       # never declared
        return r.choice(VARS)

    def expr(self, d):
        r = self.rng
        if d <= 0 or r.randrange(6) == 0:
            return self.lit() if r.randrange(2) else ("V", self.var())
        k = r.randrange(16)
        if k < 4:
            if self.sem:
                op = r.choice(self.sem_ops()) if r.randrange(12) else r.choice(["in", "instanceof"])
            else:
                op = r.choice(BIN_ALL)
            return ("b", op, self.expr(d - 1), self.expr(d - 1))
        if k < 6:
            return ("u", r.choice(UN_ALL), self.expr(d - 1))
        if k < 8:
            return ("l", r.choice(LOG), self.expr(d - 1), self.expr(d - 1))
        if k < 10:
            return ("c", self.expr(d - 1), self.expr(d - 1), self.expr(d - 1))
        if k < 13:
            ops = ["=", "&&=", "||=", "??="] + [o + "=" for o in (self.sem_ops() if self.sem else BIN_ALL) if o not in ("==", "!=", "===", "!==", "<", "<=", ">", ">=", "in", "instanceof")]
            return ("a", self.var(), r.choice(ops), self.expr(d - 1))
        if k == 13:
            return ("q", self.expr(d - 1), self.expr(d - 1))
        if k == 14:
            return ("p", r.choice(VARS), r.choice("+-"), r.choice(["pre", "post"]))
        return ("u", "typeof", ("V", self.var()))

    def stmt(self, d):
        r = self.rng
        k = r.randrange(12) if d > 0 else 0
        if k < 4:
            return ("E", self.expr(3))
        if k == 4:
            return ("I", self.expr(2), self.stmt(d - 1))
        if k == 5:
            t = self.stmt(d - 1)
            if dangling(t):
                t = ("B", [t])              # `if (a) if (b) x; else y` would give the else to the inner if
            return ("J", self.expr(2), t, self.stmt(d - 1))
        if k in (6, 7) and len(self.counters) < 2:
            i = "ij"[len(self.counters)]
            self.counters.append(i)
            self.in_loop += 1
            n = r.randrange(0, 6)
            body = ("B", [self.stmt(d - 1) for _ in range(r.randrange(0, 3))] + [("E", ("p", i, "+", r.choice(["pre", "post"])))])
            cond = ("b", "<", ("V", i), ("N", n))
            if r.randrange(3) == 0:
                cond = ("l", "&&", cond, ("b", "!==", ("V", r.choice(VARS)), ("N", r.randrange(4))))
            self.in_loop -= 1
            self.counters.pop()
            reset = ("E", ("a", i, "=", ("N", 0)))
            loop = ("W", cond, body) if k == 6 else ("D", body, cond)
            return ("B", [reset, loop])
        if k in (8, 9):
            return ("B", [self.stmt(d - 1) for _ in range(r.randrange(0, 4))])
        if k == 10:
            return ("O",)
        if k == 11:
            j = r.randrange(6)
            if j == 0:
                return ("X", self.expr(2))
            if j < 4:
                body = [self.stmt(d - 1) for _ in range(r.randrange(0, 3))]
                if r.randrange(2):
                    body.insert(r.randrange(len(body) + 1), ("X", self.expr(1)))
                return ("Y", body, [self.stmt(d - 1) for _ in range(r.randrange(0, 3))])
        return ("E", self.expr(2))


def dangling(t):
    return t[0] == "I" or (t[0] == "J" and dangling(t[3])) or (t[0] == "W" and dangling(t[2]))


def tokens(t):
    k = t[0]
    if k in ("N", "S", "V"):
        return "%s %s" % (k, t[1])
    if k in ("T", "F", "U", "Z", "O"):
        return k
    if k == "u":
        return "u %s %s" % (t[1], tokens(t[2]))
    if k in ("b", "l"):
        return "%s %s %s %s" % (k, t[1], tokens(t[2]), tokens(t[3]))
    if k == "c":
        return "c %s %s %s" % (tokens(t[1]), tokens(t[2]), tokens(t[3]))
    if k == "a":
        return "a %s %s %s" % (t[1], t[2], tokens(t[3]))
    if k == "q":
        return "q %s %s" % (tokens(t[1]), tokens(t[2]))
    if k == "p":
        return "p %s %s %s" % (t[1], t[2], t[3])
    if k == "E":
        return "E " + tokens(t[1])
    if k == "I":
        return "I %s %s" % (tokens(t[1]), tokens(t[2]))
    if k == "J":
        return "J %s %s %s" % (tokens(t[1]), tokens(t[2]), tokens(t[3]))
    if k == "W":
        return "W %s %s" % (tokens(t[1]), tokens(t[2]))
    if k == "D":
        return "D %s %s" % (tokens(t[1]), tokens(t[2]))
    if k == "B":
        return " ".join(["B %d" % len(t[1])] + [tokens(s) for s in t[1]])
    if k == "X":
        return "X " + tokens(t[1])
    if k == "Y":
        return " ".join(["Y %d" % len(t[1])] + [tokens(s) for s in t[1]] + ["%d" % len(t[2])] + [tokens(s) for s in t[2]])
    raise ValueError(k)


def js(t):
    k = t[0]
    if k == "N":
        return str(t[1])
    if k == "S":
        return "'%s'" % ("" if t[1] == "~" else t[1])
    if k == "V":
        return t[1]
    if k in ("T", "F", "U", "Z"):
        return {"T": "true", "F": "false", "U": "undefined", "Z": "null"}[k]
    if k == "u":
        return "(%s %s)" % (t[1], js(t[2]))
    if k in ("b", "l"):
        return "(%s %s %s)" % (js(t[2]), t[1], js(t[3]))
    if k == "c":
        return "(%s ? %s : %s)" % (js(t[1]), js(t[2]), js(t[3]))
    if k == "a":
        return "(%s %s %s)" % (t[1], t[2], js(t[3]))
    if k == "q":
        return "(%s, %s)" % (js(t[1]), js(t[2]))
    if k == "p":
        return "(%s%s)" % (t[2] * 2, t[1]) if t[3] == "pre" else "(%s%s)" % (t[1], t[2] * 2)
    if k == "E":
        return js(t[1]) + ";"
    if k == "I":
        return "if (%s) %s" % (js(t[1]), js(t[2]))
    if k == "J":
        return "if (%s) %s else %s" % (js(t[1]), js(t[2]), js(t[3]))
    if k == "W":
        return "while (%s) %s" % (js(t[1]), js(t[2]))
    if k == "D":
        return "do %s while (%s);" % (js(t[1]), js(t[2]))
    if k == "B":
        return "{ " + " ".join(js(s) for s in t[1]) + " }"
    if k == "O":
        return ";"
    if k == "X":
        return "throw %s;" % js(t[1])
    if k == "Y":
        return "try { " + " ".join(js(s) for s in t[1]) + " } catch { " + " ".join(js(s) for s in t[2]) + " }"
    raise ValueError(k)


def right_nested(depth, op="+"):
    t = ("V", "a")
    for _ in range(depth):
        t = ("b", op, ("V", "a"), t)
    return ("E", ("a", "b", "=", t))


def left_nested(depth):
    t = ("V", "a")
    for _ in range(depth):
        t = ("b", "+", t, ("N", 1))
    return ("E", ("a", "b", "=", t))


def flat_js(t):
    """the same trees without the parentheses: `a + 1 + 1 …` (left-associative), `a ** a ** a …` (right-associative)"""
    e = t[1][3]
    if e[0] == "b" and e[1] == "**":
        n = 0
        while e[0] == "b":
            n, e = n + 1, e[3]
        return "b = " + "a ** " * n + "a;"
    n = 0
    while e[0] == "b":
        n, e = n + 1, e[2]
    return "b = a" + " + 1" * n + ";"


def listing_cases(rng, tier):
    """-> [(model line, harness line)]"""
    n = 6000 if tier == "thorough" else 1500
    out = []
    g = Gen(rng, sem=False)
    for i in range(n):
        t = g.stmt(rng.randrange(0, 4))
        out.append(t)
    # register pressure: two registers per right-nested level, the 255-register boundary from both sides
    for d in list(range(118, 134)) + [10, 50, 100, 200]:
        out.append(right_nested(d))
    flat = []
    for d in [10, 200, 500] + list(range(250, 259)):
        flat.append(left_nested(d))
    for d in [5, 60] + list(range(120, 132)):
        flat.append(right_nested(d, "**"))
    # nested conditionals / logicals: jump targets far apart
    t = ("V", "a")
    for d in range(40):
        t = ("c", ("V", "b"), t, ("l", rng.choice(LOG), ("V", "c"), t)) if d < 8 else ("l", rng.choice(LOG), t, ("V", "c"))
        out.append(("E", t))
    return [("C\t" + tokens(t), "C\t" + js(t)) for t in out] + [("C\t" + tokens(t), "C\t" + flat_js(t)) for t in flat]


ENVS = [
    {"a": ("n1", "1"), "b": ("n2", "2"), "c": ("n0", "0")},
    {"a": ("U", "undefined"), "b": ("N", "null"), "c": ("sx", "'x'")},
    {"a": ("s7", "'7'"), "b": ("n-3", "-3"), "c": ("T", "true")},
    {"a": ("nNaN", "NaN"), "b": ("s", "''"), "c": ("F", "false")},
    {"a": ("n5", "5"), "b": ("n-0", "-0"), "c": ("nInf", "Infinity")},
]

SV = ("const sv=v=>typeof v==='number'?'n:'+(Object.is(v,-0)?'-0':String(v)):typeof v==='string'?'s:'+v:"
      "v===null?'object:null':typeof v+':'+String(v);")


def meaning_cases(rng, tier):
    """-> [(model line, javascript expression)]; the expression's value is the model's output text"""
    n = 8000 if tier == "thorough" else 2000
    out = []
    g = Gen(rng, sem=True)
    for i in range(n):
        t = g.stmt(rng.randrange(0, 4))
        env = dict(rng.choice(ENVS))
        env["i"] = ("n0", "0")
        env["j"] = ("n0", "0")
        names = ["a", "b", "c", "i", "j"]
        mline = "R\t%s,undefined=U\t%s" % (",".join("%s=%s" % (k, env[k][0]) for k in names), tokens(t))
        dump = "[" + ",".join("'%s='+sv(%s)" % (k, k) for k in names) + "].join(',')"
        expr = ("(()=>{%s let %s; try { %s } catch (e) { return 'throw '+(e instanceof Error?e.name:'value:'+sv(e))+' '+%s; } return 'ok '+%s; })()"
                % (SV, ",".join("%s=%s" % (k, env[k][1]) for k in names), js(t), dump, dump))
        out.append((mline, expr))
    return out


def normal(model_out):
    """the model's `throw ReferenceError:d env` -> `throw ReferenceError env`"""
    model_out = model_out.replace(",undefined=undefined:undefined", "")
    if model_out.startswith("throw "):
        parts = model_out.split(" ", 2)
        name = parts[1].split(":")[0] if parts[1].startswith("ReferenceError") else parts[1]
        return "throw %s %s" % (name, parts[2] if len(parts) > 2 else "")
    return model_out


def too_big(text):
    """a number beyond the exactly representable integers: outside the model's stated domain"""
    import re
    return any(len(m.lstrip("-")) > 15 for m in re.findall(r"n:(-?[0-9]+)", text))


def discipline(ctx, common, programs, label):
    """OBLIGATION of alloc_fresh / free_inv (C10): the compiler frees only registers it holds and is never handed a held one.
    The allocator (built with cfg tsrun_verif) counts violations while the real compiler compiles whole programs."""
    import json
    outs = common.harness(["compile"], ["P\t" + json.dumps(p) for p in programs], timeout=900, chunk=20)
    bad = 0
    for p, o in zip(programs, outs):
        ctx.cov["evaluations"] += 1
        if o.startswith("parse-error") or o == "bad-case":
            continue
        ctx.cov["traces_validated_against_impl"] += 1
        if "badfree=0 badalloc=0" not in o:
            bad += 1
            ctx.corr_fail("the compiler broke the register discipline the allocator theorems assume (alloc_fresh / free_inv: a register is freed once, by its holder): "
                          "a register was freed that was not held, or handed out while held, while compiling this program",
                          {"program": p[:4000], "source": label}, "badfree=0 badalloc=0", o)
    return len(programs), bad


# ---------------------------------------------------------------- random control-flow programs (reference-engine differential)
class Ctl:
    """statements with every kind of non-local exit - break / continue (plain and labelled), switch fall-through, return and throw
    through try / catch / finally - around traced expressions; every loop advances its counter first, so every program ends"""

    def __init__(self, rng):
        self.rng = rng
        self.n = 0          # trace marker
        self.loops = []     # [(label or None, kind)]
        self.fn = 0         # inside a function body (return allowed)
        self.ids = 0

    def mark(self):
        self.n += 1
        # half of the marks also record which binding of `q` is in scope (blocks shadow it)
        return "t(%d);" % self.n if self.rng.randrange(2) else "t('%d' + q);" % self.n

    def cond(self):
        r = self.rng
        return r.choice(["a < %d" % r.randrange(4), "(a + b) %% %d === %d" % (r.randrange(2, 4), r.randrange(2)), "b > a", "true", "false",
                         "t(%d) > 0" % (self.n + 1000), "a++ < 2", "(b = b + 1) < 3", "c === 'x'", "typeof q === 'undefined'"])

    def simple(self):
        r = self.rng
        k = r.randrange(7)
        if k == 0:
            return "a = a + %d;" % r.randrange(1, 4)
        if k == 1:
            return "b += a;"
        if k == 2:
            return "c = c + '%s';" % r.choice("xyz")
        if k == 3:
            return "a = b %% %d;" % r.randrange(2, 5)
        return self.mark()

    def exit_stmt(self):
        r = self.rng
        opts = ["throw %s;" % r.choice(["a", "'boom'", "new Error('e' + a)", "{code: b}", "undefined", "null"])]
        if self.fn:
            opts += ["return %s;" % r.choice(["a", "b + 1", "c", "", "t(%d)" % (self.n + 2000)])] * 2
        for lab, kind in self.loops:
            if kind == "loop":
                opts += ["break;", "continue;"] if lab is None else ["break %s;" % lab, "continue %s;" % lab]
            elif kind == "switch":
                opts += ["break;"]
            else:
                opts += ["break %s;" % lab]
        return r.choice(opts)

    def block(self, d, n=None):
        n = self.rng.randrange(1, 4) if n is None else n
        return " ".join(self.stmt(d) for _ in range(n))

    def stmt(self, d):
        r = self.rng
        k = r.randrange(14) if d > 0 else r.randrange(3)
        if k < 3:
            return self.simple()
        if k == 3:
            return "if (%s) { %s }" % (self.cond(), self.exit_stmt()) if r.randrange(3) else self.exit_stmt()
        if k == 4:
            return "if (%s) { %s } else { %s }" % (self.cond(), self.block(d - 1), self.block(d - 1))
        if k in (5, 6, 7):
            self.ids += 1
            i = "i%d" % self.ids
            lab = "L%d" % self.ids if r.randrange(3) == 0 else None
            self.loops.append((lab, "loop"))
            body = self.block(d - 1)
            self.loops.pop()
            n = r.randrange(1, 4)
            head = ("%s: " % lab) if lab else ""
            if k == 5:
                return "%sfor (let %s = 0; %s < %d; %s++) { %s }" % (head, i, i, n, i, body)
            if k == 6:
                return "{ let %s = 0; %swhile (%s < %d) { %s++; %s } }" % (i, head, i, n, i, body)
            return "{ let %s = 0; %sdo { %s++; %s } while (%s < %d); }" % (i, head, i, body, i, n)
        if k == 8:
            self.loops.append((None, "switch"))
            cases = []
            for v in r.sample([0, 1, 2, 3, "'x'"], r.randrange(1, 4)):
                cases.append("case %s: %s %s" % (v, self.block(d - 1, r.randrange(0, 3)), r.choice(["break;", "", ""])))
            if r.randrange(2):
                cases.insert(r.randrange(len(cases) + 1), "default: %s %s" % (self.block(d - 1, 1), r.choice(["break;", ""])))
            self.loops.pop()
            return "switch (%s) { %s }" % (r.choice(["a", "b % 3", "c", "a + b"]), " ".join(cases))
        if k in (9, 10, 11):
            tb = self.block(d - 1)
            form = r.randrange(5)
            if form == 4:
                # the exit leaves a block that shadows `q` THROUGH the finally: the finally block runs in the scope of the try statement
                self.ids += 1
                return ("try { { let q = 'i%d'; %s if (%s) { %s } %s } } %sfinally { t('f' + q); %s }"
                        % (self.ids, self.mark(), self.cond(), self.exit_stmt(), self.simple(), r.choice(["", "catch (e) { t('c' + q); } "]), self.simple()))
            if form == 0:
                return "try { %s } catch (e) { t(String(e && e.message || e)); %s }" % (tb, self.block(d - 1, r.randrange(0, 3)))
            if form == 1:
                return "try { %s } finally { %s }" % (tb, self.block(d - 1, r.randrange(1, 3)))
            if form == 2:
                return "try { %s } catch { %s } finally { %s }" % (tb, self.block(d - 1, r.randrange(0, 2)), self.block(d - 1, r.randrange(1, 3)))
            return "try { %s } catch (e) { t(typeof e); %s } finally { %s }" % (tb, self.block(d - 1, r.randrange(0, 2)), self.block(d - 1, r.randrange(1, 3)))
        if k == 12 and r.randrange(2):
            # a block that shadows `q`: whatever leaves it (break, continue, return, throw) must leave its scope too,
            # and a finally block outside sees the outer binding again
            self.ids += 1
            return "{ let q = 'i%d'; %s %s }" % (self.ids, self.mark(), self.block(d - 1))
        if k == 12:
            self.ids += 1
            lab = "B%d" % self.ids
            self.loops.append((lab, "block"))
            body = self.block(d - 1)
            self.loops.pop()
            return "%s: { %s }" % (lab, body)
        # a function whose body exits in all those ways; called at once
        self.ids += 1
        saved, self.loops = self.loops, []
        self.fn += 1
        body = self.block(d - 1, r.randrange(1, 4))
        self.fn -= 1
        self.loops = saved
        return "t('r' + String((function f%d() { %s })()));" % (self.ids, body)


def control_programs(rng, tier):
    n = 1200 if tier == "thorough" else 250
    out = []
    for _ in range(n):
        g = Ctl(rng)
        body = g.block(rng.randrange(2, 5), rng.randrange(2, 5))
        out.append("let a = %d, b = %d, c = %s, q = 'o'; const tr = []; function t(x) { tr.push(x); return tr.length; } "
                   "try { %s } catch (e) { t('uncaught:' + String(e && e.message || e)); } out(tr.join(','), a, b, c);"
                   % (rng.randrange(3), rng.randrange(3), rng.choice(["'x'", "''", "'q'"]), body))
    return out
