"""C08 — the order protocol is exact (DESIGN.md §4 C08)."""
import json
from . import common

LEAN_TARGETS = ["TsrunVerif.Props.C08", "TsrunVerif.Props.C08Comb"]
P = "TsrunVerif.Orders."
THEOREMS = [P + t for t in [
    "inv_init", "inv_step", "nextId_mono", "reported_increasing", "order_once", "issued_reported_next",
    "issue_then_report", "cancel_once", "report_drains"]] + ["TsrunVerif.Comb." + t for t in [
    "runF_spec", "all_fulfilled_any_order", "all_rejected_first", "allRun_settled", "allSettled_waits", "allSettled_not_pending",
    "any_first_fulfilled", "any_all_rejected", "lookupF_perm", "all_order_independent"]]
ASSUMPTIONS = [
    "M-Comb models Promise.all / allSettled / any / race as bookkeeping over the order in which the inputs settle (each input settles once); handlers, thenables and "
    "non-promise inputs are outside it; it is compared with tsrun and the reference engine after every settlement of generated orders (complete and incomplete)",
    "M-Orders models the host-visible ledger (next_order_id, pending_orders, cancelled_orders and their mem::take in every Suspended result); the script and the promise "
    "machinery are abstracted to the ledger events they cause. The event sequence of every generated run is reconstructed from the script's own markers and the host's actions "
    "and replayed through the model; its reports must equal the Suspended lists of the real interpreter",
    "progress / no-lost-wake-up / Complete-only-when-quiescent / catchable error responses are evaluated on the implementation's trace (PROP), they are not theorems of the ledger model",
]
HEAD = "import { order, __cancelOrder__, __getOrderId__ } from 'tsrun:host';\nconst out: string[] = [];\n"


def gen_script(rng, norders):
    """returns (source, resp kinds, settle list, expected markers) — a straight-line script over the DSL."""
    lines = [HEAD]
    resp, settle = [], []
    next_id = 1
    promises = []           # (var, order id, linked)
    ledger = []             # model events in script order are reconstructed from the trace, not here
    plan = []               # statements for the python-side expectation
    n_issued = 0
    while n_issued < norders:
        k = rng.random()
        if k < 0.08:
            lines.append("console.log('G'); __getOrderId__();")
            next_id += 1
            continue
        if k < 0.2 and next_id > 1:
            victim = rng.randint(1, next_id + 1)       # also ids never issued / already answered
            lines.append("console.log('X:%d'); __cancelOrder__(%d);" % (victim, victim))
            continue
        oid = next_id
        next_id += 1
        n_issued += 1
        kind = rng.choice(["v", "v", "e", "o", "p", "op", "op"])
        resp.append(kind)
        use_await = rng.random() < 0.5
        call = ("await " if use_await and kind not in ("p", "op") else "") + "order({k: %d, tag: 'payload-%d', list: [%d, 'x']})" % (oid, oid, oid)
        if kind in ("p", "op"):
            var = "p%d" % oid
            lines.append("console.log('I'); const %s = %s; out.push('P%d:' + (typeof %s.then));" % (var, call, oid, var))
            promises.append((var, oid, kind == "op"))
            settle.append([oid, "res" if rng.random() < 0.7 else "rej"])
        else:
            lines.append("console.log('I'); try { const r%d = %s; out.push('R%d:' + (typeof r%d === 'object' ? 'obj' + r%d.x + r%d.nested.y.length : r%d)); } catch (e) { out.push('R%d:caught:' + e); }"
                         % (oid, call, oid, oid, oid, oid, oid, oid))
        # sometimes consume promises
        if promises and rng.random() < 0.45:
            c = rng.random()
            if c < 0.5:
                var, pid, _ = promises.pop(rng.randrange(len(promises)))
                lines.append("console.log('W:%d'); try { out.push('A%d:' + (await %s)); } catch (e) { out.push('A%d:caught:' + e); }" % (pid, pid, var, pid))
            elif len(promises) >= 2:
                comb = rng.choice(["all", "all", "race", "race", "any"])
                take = [promises.pop(rng.randrange(len(promises))) for _ in range(2)]
                ids = ",".join(str(t[1]) for t in take)
                lines.append("console.log('K:%s:%s'); try { const c = await Promise.%s([%s]); out.push('%s:' + JSON.stringify(c)); } catch (e) { out.push('%s:caught:' + e); }"
                             % (comb, ids, comb, ", ".join(t[0] for t in take), comb, comb))
    for var, pid, _ in promises:
        if rng.random() < 0.6:
            lines.append("console.log('W:%d'); try { out.push('A%d:' + (await %s)); } catch (e) { out.push('A%d:caught:' + e); }" % (pid, pid, var, pid))
    lines.append("out.join(';')")
    rng.shuffle(settle)
    return "\n".join(lines), resp, settle


def expected_out(script_markers, resp_by_id, settle_map):
    return None


def part_comb(ctx):
    """CORR / PROP: the combinators' result after every settlement == M-Comb (== reference engine)"""
    import shutil, subprocess
    from . import c08_comb
    rng = ctx.rng
    cases = [c08_comb.gen_case(rng) for _ in range(300 if ctx.tier == "quick" else 5000)]
    mls, spans = [], []
    for c in cases:
        ml = c08_comb.model_lines(*c)
        spans.append(len(ml))
        mls += ml
    mo = common.driver(["comb"], mls)
    exp, k = [], 0
    for sp in spans:
        exp.append("|".join(mo[k:k + sp]))
        k += sp
    progs = [c08_comb.render(*c) for c in cases]
    got = common.harness(["prog"], [p.replace("\n", "\\n") for p in progs], timeout=600)
    node = shutil.which("node")
    refv = [None] * len(cases)
    if node:
        src = "const out=[];\n" + "\n".join("out.push(await (async()=>{%s})().catch(e=>'E:'+e));" % p.replace("seen.join('|')", "return seen.join('|')") for p in progs) + "\nconsole.log(JSON.stringify(out))"
        try:
            pr = subprocess.run([node, "--input-type=module", "-e", src], capture_output=True, text=True, timeout=600)
            refv = json.loads(pr.stdout)
        except (OSError, ValueError, subprocess.TimeoutExpired):
            refv = [None] * len(cases)
    kinds = {}
    for c, e, g, r, p in zip(cases, exp, got, refv, progs):
        ctx.cov["evaluations"] += 1
        ctx.cov["traces_validated_against_impl"] += 1
        kinds[c[0]] = kinds.get(c[0], 0) + 1
        if "bad-case" in e:
            ctx.corr_fail("M-Comb driver rejected a generated case", str(c), e, g[:100])
        elif r is not None and r != e:
            ctx.corr_fail("M-Comb differs from the reference engine (the model is wrong)", {"case": str(c), "program": p[:800]}, e, str(r)[:200])
        elif not g.startswith("OK s:" + e + " "):
            ctx.prop_fail("combinator: Promise.%s over hand-settled promises differs from M-Comb (and the reference engine): the result after each settlement should be %s" % (c[0], e[:120]),
                          {"program": p[:1500], "impl": g[:300], "model": e[:300], "inputs": c[1], "settlements": ["%s%d:%d" % x for x in c[2]]})
    ctx.notes.append("combinators: %d cases %s (result observed after every settlement)" % (len(cases), json.dumps(kinds, sort_keys=True)))


def run(ctx):
    part_comb(ctx)
    rng = ctx.rng
    cases = []
    n = 700 if ctx.tier == "quick" else 12000
    for i in range(n):
        src, resp, settle = gen_script(rng, rng.randint(1, 6))
        early = [s[0] for s in settle if rng.random() < 0.4]
        cases.append({"script": src, "resp": resp, "settle": settle, "early": early, "spurious": rng.choice([0, 0, 1, 3]), "junk": rng.random() < 0.25, "gc": rng.random() < 0.3})
    # corpus
    cases.append({"script": HEAD + "console.log('I'); const a = await order({k: 1, tag: 'payload-1', list: [1, 'x']}); console.log('I'); const b = await order({k: 2, tag: 'payload-2', list: [2, 'x']}); [a, b].join(',')",
                  "resp": ["v", "v"], "settle": [], "spurious": 2, "junk": True})
    cases.append({"script": HEAD + "console.log('I'); const p1 = order({k: 1, tag: 'payload-1', list: [1, 'x']}); console.log('I'); const p2 = order({k: 2, tag: 'payload-2', list: [2, 'x']});"
                  " console.log('K:race:1,2'); const w = await Promise.race([p1, p2]); 'w' + w", "resp": ["op", "op"], "settle": [[2, "res"], [1, "res"]], "spurious": 0})
    # batches: several orders outstanding at once, awaited in another order than issued, answered a few at a time
    nb = 150 if ctx.tier == "quick" else 3000
    for i in range(nb):
        k = rng.randint(2, 5)
        perm = list(range(1, k + 1))
        rng.shuffle(perm)
        kinds = [rng.choice(["v", "v", "o", "e"]) for _ in range(k)]
        body = ["console.log('I');" * k, "const ms = [%s].map(order as any);" % ",".join("{k: %d, tag: 'payload-%d', list: [%d, 'x']}" % (j, j, j) for j in range(1, k + 1))]
        for j in perm:
            body.append("try { const r%d = await ms[%d]; out.push('R%d:' + (typeof r%d === 'object' ? 'obj' + r%d.x + r%d.nested.y.length : r%d)); } catch (e) { out.push('R%d:caught:' + e); }" % (j, j - 1, j, j, j, j, j, j))
        body.append("out.join(';')")
        plan = []
        left = list(range(1, k + 1))
        while left:
            take = rng.sample(left, rng.randint(1, len(left)))
            plan.append(take)
            left = [x for x in left if x not in take]
        cases.append({"script": HEAD + "\n".join(body), "resp": kinds, "settle": [], "spurious": rng.choice([0, 0, 1, 2]), "junk": False, "gc": rng.random() < 0.3, "partial": plan})
    hl = [json.dumps(c) for c in cases]
    got = common.harness(["orders"], hl, timeout=600)
    # reconstruct ledger events from each trace, replay through the model
    mlines, per, twices = [], [], []
    for c, g in zip(cases, got):
        evs = g.split("|")
        led = []
        linked = {}
        issue_no = 0
        races = []           # (ids, settled?)
        settled, lost_race, twice = set(), set(), set()
        for e in evs:
            if e == "L:I":
                led.append("i"); issue_no += 1
            elif e == "L:G":
                led.append("g")
            elif e.startswith("L:X:"):
                led.append("c" + e[4:])
            elif e.startswith("L:K:race:"):
                members = [int(x) for x in e[9:].split(",")]
                already = [m for m in members if m in settled]
                if already:
                    # an input is already settled: it wins at once, every pending order-linked input loses now
                    for other in members:
                        if other not in settled and linked.get(other):
                            led.append("m%d" % other)
                            lost_race.add(other)
                    races.append([members, True])
                else:
                    races.append([members, False])
            elif e.startswith("F:"):
                _, oid, kind = e.split(":")
                if kind == "op":
                    linked[int(oid)] = True
            elif e.startswith("Z:"):
                parts = e.split(":")
                oid, how = int(parts[1]), parts[2]
                settled.add(oid)
                for r in races:
                    if not r[1] and oid in r[0]:
                        r[1] = True
                        for other in r[0]:
                            if other != oid and linked.get(other):
                                led.append("m%d" % other)
                                lost_race.add(other)
                if how == "rej" and linked.get(oid):
                    led.append("m%d" % oid)
                    if oid in lost_race:
                        twice.add(str(oid))
            elif e.startswith("S:"):
                led.append("r")
        mlines.append(",".join(led))
        per.append(evs)
        twices.append(twice)
    exp = common.driver(["orders"], mlines)
    distinct = set()
    hist = {"orders": 0, "suspensions": 0, "promises": 0, "cancels": 0, "stuck": 0, "errors": 0}
    known = {f["id"]: f for f in ctx.findings}
    for c, evs, ml, e, twice in zip(cases, per, mlines, exp, twices):
        ctx.cov["evaluations"] += 1
        ctx.cov["traces_validated_against_impl"] += 1
        case = {"script": c["script"][len(HEAD):][:700], "resp": c["resp"], "settle": c["settle"], "spurious": c["spurious"], "junk": c.get("junk"), "trace": "|".join(evs)[:900]}
        impl_reports = [x[2:] for x in evs if x.startswith("S:")]
        model_reports = e.split("|") if e else []
        # race losers are marked when the race settles, which may be reported one Suspended later than the
        # rejection mark; compare the concatenated cancelled multiset and the exact pending lists
        ip = [r.split(":")[0] for r in impl_reports]
        mp = [r.split(":")[0] for r in model_reports]
        ic = sorted(x for r in impl_reports for x in r.split(":")[1].split(",") if x)
        mc = sorted(x for r in model_reports for x in r.split(":")[1].split(",") if x)
        if ip != mp or (ic != mc and not any(x == "STUCK" or x.startswith("ERR") for x in evs)):
            ctx.corr_fail("M-Orders reports != Suspended lists", case, e[:300], "|".join(impl_reports)[:300])
        # ---- PROP on the trace
        ids = [int(x) for r in ip for x in r.split(",") if x]
        hist["orders"] += len(ids)
        hist["suspensions"] += len(impl_reports)
        if ids != sorted(set(ids)):
            ctx.prop_fail("once: an order id was reported twice or ids are not increasing: %s" % ids, case); continue
        bad = False
        for x in evs:
            if x.startswith("P:"):
                _, oid, payload = x.split(":", 2)
                want = {"k": int(oid), "tag": "payload-%s" % oid, "list": [int(oid), "x"]}
                try:
                    if json.loads(payload) != want:
                        raise ValueError
                except ValueError:
                    ctx.prop_fail("payload: order %s reached the host with payload %s" % (oid, payload[:80]), case); bad = True; break
            if x.startswith("s:") and x not in ("s:S0:0",):
                ctx.prop_fail("spurious: an extra step() while nothing was ready did not return an empty Suspended (%s)" % x, case); bad = True; break
        if bad:
            continue
        if "STUCK" in evs:
            hist["stuck"] += 1
            f = known.get("C08-any-never-settles")
            if f and any("K:any" in x for x in evs):
                ctx.known(f["id"], f["what"])
            else:
                ctx.prop_fail("progress: Suspended although every order is answered and every host promise settled (lost wake-up)", case)
            continue
        final = evs[-1]
        if final.startswith("ERR"):
            hist["errors"] += 1
            ctx.prop_fail("catchable: the run ended with %s although every error response and rejection is wrapped in try/catch" % final[:80], case); continue
        if not final.startswith("C:s:"):
            ctx.prop_fail("complete: run did not complete with the script's result (%s)" % final[:60], case); continue
        out = final[4:].split(";")
        # value / error responses arrive intact
        kinds = {}
        for x in evs:
            if x.startswith("F:"):
                _, oid, kind = x.split(":")
                kinds[int(oid)] = kind
        settle_map = {s[0]: s[1] for s in c["settle"]}
        for item in out:
            if item.startswith("R"):
                oid = int(item[1:].split(":")[0])
                val = item.split(":", 1)[1]
                want = {"v": str(100 + oid), "e": "caught:TypeError: boom%d" % oid, "o": "obj%d2" % oid}.get(kinds.get(oid))
                if kinds.get(oid) in ("v", "e", "o") and val != want:
                    ctx.prop_fail("response: order %d answered with kind %s arrived in the script as %r (expected %r)" % (oid, kinds.get(oid), val, want), case); break
            elif item.startswith("A"):
                oid = int(item[1:].split(":")[0])
                val = item.split(":", 1)[1]
                want = str(1000 + oid) if settle_map.get(oid, "res") == "res" else "caught:rej%d" % oid
                if val != want:
                    ctx.prop_fail("settle: awaiting host promise of order %d gave %r (expected %r)" % (oid, val, want), case); break
            elif item.startswith("P"):
                if not item.endswith(":function"):
                    ctx.prop_fail("response: a promise response did not arrive as a promise (%s)" % item, case); break
        # cancellations: every cancelled id names an issued order and reaches the host exactly once
        explicit = [x[4:] for x in evs if x.startswith("L:X:")]
        hist["cancels"] += len(ic)
        for x in explicit:
            if ic.count(x) < explicit.count(x):
                ctx.prop_fail("cancel: explicit cancellation of %s did not reach the host" % x, case); break
        want_cancels = sorted(x[1:] for x in ml.split(",") if x[:1] in ("c", "m"))
        if want_cancels != ic:
            f = known.get("C08-cancel-lost-at-complete")
            tail = ml.split(",")
            after_last_report = tail[len(tail) - 1 - tail[::-1].index("r") + 1:] if "r" in tail else tail
            lost = sorted(x[1:] for x in after_last_report if x[:1] in ("c", "m"))
            if f and sorted(ic + lost) == want_cancels:
                ctx.known(f["id"], f["what"])
            else:
                ctx.prop_fail("cancel: cancellations %s expected, host was told %s" % (want_cancels, ic), case)
                continue
        issued_ids = set(str(i) for i in ids)
        for x in sorted(set(ic)):
            sloppy = (x not in issued_ids) or ic.count(x) > 1
            if sloppy:
                f = known.get("C08-cancel-unchecked")
                f2 = known.get("C08-cancel-twice-loser-then-rejected")
                if f and x in explicit:
                    ctx.known(f["id"], f["what"])
                elif f2 and x in twice and ic.count(x) == 2:
                    ctx.known(f2["id"], f2["what"])
                else:
                    ctx.prop_fail("cancel: id %s reported cancelled %d time(s), issued=%s" % (x, ic.count(x), x in issued_ids), case)
                break
        distinct.add("|".join(evs))
    # ---- PROP: a host that answers ahead of time (an id the NEXT order will get, the quantifier's "unknown ids"): every order the program
    # issues must still be handed to the host exactly once.  The programs issue their orders unconditionally, whatever the answers are.
    pre = []
    for i in range(40 if ctx.tier == "quick" else 600):
        k = rng.randint(2, 6)
        body = []
        for j in range(1, k + 1):
            form = rng.randrange(3)
            if form == 0:
                body.append("console.log('I'); try { const r%d = await order({k: %d, tag: 'payload-%d', list: [%d, 'x']}); out.push('R%d:' + typeof r%d); } catch (e) { out.push('R%d:caught'); }" % (j, j, j, j, j, j, j))
            elif form == 1:
                body.append("console.log('I'); try { const r%d = order({k: %d, tag: 'payload-%d', list: [%d, 'x']}); out.push('R%d:' + typeof r%d); } catch (e) { out.push('R%d:caught'); }" % (j, j, j, j, j, j, j))
            else:
                body.append("console.log('I'); let q%d; try { q%d = order({k: %d, tag: 'payload-%d', list: [%d, 'x']}); } catch (e) { q%d = 0; } try { out.push('Q%d:' + typeof (await q%d)); } catch (e) { out.push('Q%d:caught'); }" % (j, j, j, j, j, j, j, j, j))
        body.append("out.join(';')")
        pre.append({"script": HEAD + "\n".join(body), "resp": [rng.choice(["v", "v", "o", "e"]) for _ in range(k)], "settle": [], "spurious": 0, "junk": False, "gc": False, "n": k})
    pg = common.harness(["orders"], [json.dumps(dict(c, preanswer=False)) for c in pre] + [json.dumps(dict(c, preanswer=True)) for c in pre], timeout=600)
    for c, a, b in zip(pre, pg[:len(pre)], pg[len(pre):]):
        ctx.cov["evaluations"] += 2
        ids_a = sorted(int(e.split(":")[1]) for e in a.split("|") if e.startswith("P:"))
        ids_b = sorted(int(e.split(":")[1]) for e in b.split("|") if e.startswith("P:"))
        if ids_a != list(range(1, c["n"] + 1)):
            ctx.corr_fail("the pre-answer scripts do not issue their orders unconditionally (generator)", {"script": c["script"][:800]}, list(range(1, c["n"] + 1)), ids_a)
        elif ids_b != ids_a:
            ctx.prop_fail("once: with a host that answers the next id ahead of time, the orders handed to the host are %s instead of %s (an issued order was never reported, or reported twice)" % (ids_b, ids_a),
                          {"script": c["script"][:1500], "resp": c["resp"], "trace_plain_host": a[:600], "trace_answering_ahead": b[:600]})
    ctx.cov["distinct_nontrivial"] = len(distinct)
    ctx.cov["rule"] = ("generated straight-line scripts with 1..6 orders (awaited or not), __getOrderId__, __cancelOrder__ of issued/unissued/answered ids, awaits of host promises, "
                       "Promise.all/race/allSettled over host promises; host policies: value / error / object / plain promise / order-linked promise responses, settle order and "
                       "resolve-or-reject per promise, 0..3 spurious steps at every suspension, junk answers (unknown and duplicate ids), forced collections. "
                       "plus batches of 2..5 orders issued at once, awaited in a shuffled order and answered a few at a time (the awaited one not necessarily first). distinct_nontrivial = distinct protocol traces")
    ctx.cov["input_distribution"] = hist
    ctx.sample({"script": cases[0]["script"][len(HEAD):][:500], "policy": {k: cases[0][k] for k in ("resp", "settle", "spurious")}, "trace": got[0][:600], "model_events": mlines[0], "model_reports": exp[0]})
