"""C01, operators over objects: M-Coerce (Lean) == tsrun (== reference engine): the result AND the log of conversion calls."""
import json
from . import c01_corpus as corpus

PRIMS = ["U", "N", "T", "F", "n0", "n1", "n-1", "n5", "nNaN", "s", "s1", "sa", "s10"]
BEHS = ["A", "O", "T7", "Rn5", "Rn0", "Rs10", "Rsa", "RU", "RN", "RT"]
BIN = ["+", "-", "*", "<", ">", "<=", ">=", "==", "!=", "===", "!=="]
UN = ["+", "-", "!", "typeof", "String", "Number"]


def gen_operand(rng, name):
    if rng.random() < 0.3:
        return rng.choice(PRIMS)
    tp = rng.choice(["A", "A", "A"] + BEHS)
    return "O%d;%s;%s;%s" % (name, rng.choice(BEHS), rng.choice(BEHS), tp)


def beh_js(b, tag):
    if b == "A":
        return "undefined"
    body = {"O": "return {}", "T": "throw {tag: %s}" % b[1:]}.get(b[0]) or "return %s" % corpus.token_js(b[1:])
    return "function(){ log.push('%s'); %s }" % (tag, body)


def operand_js(t):
    if not t.startswith("O"):
        return corpus.token_js(t)
    n, v, s, p = t[1:].split(";")
    parts = ["valueOf: %s" % beh_js(v, n + "v"), "toString: %s" % beh_js(s, n + "s")]
    if p != "A":
        parts.append("[Symbol.toPrimitive]: %s" % beh_js(p, n + "p"))
    return "({%s})" % ", ".join(parts)


def cases(rng, tier):
    out = []
    n = 900 if tier == "quick" else 12000
    for i in range(n):
        if rng.random() < 0.8:
            op = rng.choice(BIN)
            a, b = gen_operand(rng, 1), gen_operand(rng, 2)
            if a.startswith("O") and b.startswith("O") and rng.random() < 0.1:
                b = a                           # the same object on both sides
                expr = "A %s A" % op
            else:
                expr = "A %s B" % op
            model = "B\t%s\t%s\t%s" % (op, a, b)
            decl = "const A = %s, B = %s;" % (operand_js(a), operand_js(b))
        else:
            op = rng.choice(UN)
            a = gen_operand(rng, 1)
            model = "U\t%s\t%s" % (op, a)
            expr = {"String": "`${A}`", "Number": "Number(A)", "typeof": "typeof A"}.get(op, "%s A" % op)
            if op == "String" and rng.random() < 0.5:
                expr = "String(A)"
            decl = "const A = %s;" % operand_js(a)
        js = ("(() => { const log = []; %s let r; try { r = show(%s); } catch (e) { r = e && e.tag !== undefined ? 'thrown:' + e.tag : (e && e.name); } return r + '|' + log.join(','); })()"
              % (decl, expr))
        out.append((model, js))
    return out


def expected(model_out):
    res, _, log = model_out.partition("|")
    if res.startswith("s:"):
        res = "s:" + json.dumps(res[2:], ensure_ascii=False)
    return res + "|" + log
