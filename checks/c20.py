"""C20 — error reports point at the code that failed (DESIGN.md §4 C20)."""
import json
from . import common

LEAN_TARGETS = ["TsrunVerif.Props.C20"]
P = "TsrunVerif.Pos."
THEOREMS = [P + t for t in [
    "posFrom_append", "posFrom_line", "pos_formula_line", "pos_formula_col_first_line", "pos_formula_col",
    "layout_line", "layout_col_earlier_line", "layout_col_same_line", "mapOk_init", "mapOk_step",
    "lookup_floor", "span_of_instr"]]
ASSUMPTIONS = [
    "M-Pos transcribes Lexer::advance (line/column bookkeeping), BytecodeBuilder::{set_span,clear_span,emit} and BytecodeChunk::get_source_location; "
    "token positions of the real Lexer and every source-map lookup of real compiled chunks are compared with the model on every generated source",
    "which span the compiler *chooses* for an instruction (set_span call sites) is not modelled: it is checked by the planted-fault programs (PROP): "
    "every reported position must lie inside the planted token/expression, every trace must equal the generated call chain",
]
LT = "\n\u2028\u2029"


def pos_of(src, off):
    """python mirror of the position rule (for locating planted spans)."""
    line, col = 1, 1
    for ch in src[:off]:
        if ch in LT:
            line += 1
            col = 1
        else:
            col += 1
    return line, col


def enc(src):
    return json.dumps(src, ensure_ascii=False)[1:-1].replace("\u2028", "\\u2028").replace("\u2029", "\\u2029")


SEPS = [" ", " ", " ", "  ", "\t", "\n", "\n", "\r\n", "\n\n  ", " /* c */ ", " /* multi\n line 日本 */ ", " // tail comment é😀\n", "\n\t\t", "\u00a0", " \u2028 ", "\n/* 😀😀 */\n"]
SAME_LINE = [" ", "  ", "\t", " /* c */ ", " /* 日本😀 */ ", "\u00a0", " \"wide 日本語😀\"; ", ""]


def layout(rng, toks, wild):
    """join (text, flags) tokens; returns source and the char span of every token."""
    out, spans = [], []
    off = 0
    for i, (t, fl) in enumerate(toks):
        spans.append((off, off + len(t)))
        out.append(t)
        off += len(t)
        if i + 1 < len(toks):
            nxt = toks[i + 1]
            if "tight" in fl or "tight_before" in nxt[1]:
                sep = ""
            elif "nonl" in fl or not wild:
                sep = rng.choice(SAME_LINE[:5]) if wild else " "
                if sep == "":
                    sep = " "
            else:
                sep = rng.choice(SEPS)
            out.append(sep)
            off += len(sep)
    return "".join(out), spans


def T(*words, fl=()):
    return [(w, set(fl)) for w in words]


def chain_program(rng, depth, fault_kind):
    """tokens of a call chain f0 <- f1 <- … <- top; returns toks, names, index ranges of the fault and of each call expr."""
    toks = []
    marks = {}
    names = []         # one entry per FRAME, innermost first
    lvl_names = []     # one entry per level
    kinds = []
    if fault_kind == "member":
        fault = T("o") + [(".", {"tight"}), ("a", {"tight"}), (".", {"tight"}), ("b", set())]
    elif fault_kind == "refcall":
        fault = T("missingFn") + [("(", {"tight"})] + T("o", ")")
    elif fault_kind == "notfn":
        fault = T("o") + [("(", {"tight"})] + T(")")
    else:  # nullread
        fault = T("(", "void", "0", ")") + [(".", {"tight"})] + T("q")
    reps = {}          # level -> number of recursive activations above the innermost one (kind "rec")
    for lvl in range(depth + 1):
        kind = rng.choice(["fn", "fn", "arrow", "method", "objmethod", "rec"]) if lvl else rng.choice(["fn", "method", "rec"])
        kinds.append(kind)
        body_expr = fault if lvl == 0 else None
        if lvl > 0:
            callee_kind, callee = kinds[lvl - 1], lvl_names[lvl - 1]
            if callee_kind in ("fn", "arrow"):
                body_expr = T("f%d" % (lvl - 1)) + [("(", {"tight"})] + T("o", ")")
            elif callee_kind == "rec":
                body_expr = T("r%d" % (lvl - 1)) + [("(", {"tight"})] + T("o", ",", str(reps[lvl - 1]), ")")
            elif callee_kind == "method":
                body_expr = T("new", "C%d" % (lvl - 1), "(", ")") + [(".", {"tight"}), ("m%d" % (lvl - 1), {"tight"}), ("(", {"tight"})] + T("o", ")")
            else:
                body_expr = T("O%d" % (lvl - 1)) + [(".", {"tight"}), ("k%d" % (lvl - 1), {"tight"}), ("(", {"tight"})] + T("o", ")")
        pad = T("const", "z%d" % lvl, "=", str(lvl), ";") if rng.random() < 0.5 else []
        if kind == "rec":
            # direct recursion: the activations of ONE function are stopped at different calls - the innermost at the
            # fault / the call of the next level (after `:`), the ones above it at the recursive call (after `?`)
            k = rng.randint(1, 3)
            reps[lvl] = k
            lvl_names.append("r%d" % lvl)
            head = T("function", "r%d" % lvl, "(", "o", ":", "any", ",", "n", ":", "number", ")", "{") + pad + [("return", {"nonl"})] + T("n", ">", "0", "?")
            site_a = T("r%d" % lvl) + [("(", {"tight"})] + T("o", ",", "n", "-", "1", ")")
            toks += head
            a0 = len(toks)
            toks += site_a + T(":")
            b0 = len(toks)
            toks += body_expr + T(";", "}")
            marks[len(names)] = (b0, b0 + len(body_expr))
            names.append("r%d" % lvl)
            for _ in range(k):
                marks[len(names)] = (a0, a0 + len(site_a))
                names.append("r%d" % lvl)
            continue
        if kind == "fn":
            lvl_names.append("f%d" % lvl)
            head = T("function", "f%d" % lvl, "(", "o", ":", "any", ")", "{") + pad + [("return", {"nonl"})]
            tail = T(";", "}")
        elif kind == "arrow":
            lvl_names.append("f%d" % lvl)
            head = T("const", "f%d" % lvl, "=", "(", "o", ":", "any", ")") + [("=>", {"tight_before"})] + T("{") + pad + [("return", {"nonl"})]
            tail = T(";", "}", ";")
        elif kind == "method":
            lvl_names.append("m%d" % lvl)
            head = T("class", "C%d" % lvl, "{", "m%d" % lvl, "(", "o", ":", "any", ")", "{") + pad + [("return", {"nonl"})]
            tail = T(";", "}", "}")
        else:
            lvl_names.append("k%d" % lvl)
            head = T("const", "O%d" % lvl, "=", "{", "k%d" % lvl, "(", "o", ":", "any", ")", "{") + pad + [("return", {"nonl"})]
            tail = T(";", "}", "}", ";")
        toks += head
        marks[len(names)] = (len(toks), len(toks) + len(body_expr))
        names.append(lvl_names[-1])
        toks += body_expr + tail
    # top-level call
    lvl = depth
    ck, cn = kinds[lvl], lvl_names[lvl]
    if ck in ("fn", "arrow"):
        call = T("f%d" % lvl) + [("(", {"tight"})] + T("{", "}", ")")
    elif ck == "rec":
        call = T("r%d" % lvl) + [("(", {"tight"})] + T("{", "}", ",", str(reps[lvl]), ")")
    elif ck == "method":
        call = T("new", "C%d" % lvl, "(", ")") + [(".", {"tight"}), ("m%d" % lvl, {"tight"}), ("(", {"tight"})] + T("{", "}", ")")
    else:
        call = T("O%d" % lvl) + [(".", {"tight"}), ("k%d" % lvl, {"tight"}), ("(", {"tight"})] + T("{", "}", ")")
    toks += T("const", "q", "=", "5", ";")
    marks["top"] = (len(toks), len(toks) + len(call))
    toks += call + T(";")
    return toks, names, marks


STRAY = [")", "]", "*", ",", ";", "}", "=>", "else", "in", "instanceof", "?", ":", ".", "%", "&&", "extends"]


def syntax_program(rng):
    pre = []
    for i in range(rng.randint(0, 4)):
        pre += T("let", "p%d" % i, "=", str(i), "+", "1", ";")
        if rng.random() < 0.4:
            pre += T("function", "g%d" % i, "(", ")", "{", "return", "1", ";", "}")
    stray = rng.choice(STRAY)
    toks = pre + T("let", "v", "=")
    idx = len(toks)
    toks += [(stray, set())] + T("1", ";")
    return toks, idx


def in_span(src, spans, a, b, line, col):
    (l0, c0), (l1, c1) = pos_of(src, spans[a][0]), pos_of(src, spans[b - 1][1])
    return (l0, c0) <= (line, col) < (l1, c1)


VOCAB = ["let", "x", "日本", "é", "=", "1", "2.5e3", "\"s\"", "'a\\nb'", "\"wide 日本😀\"", "`t\n${x}\nu`", "(", ")", "{", "}", "[", "]", ";", ",", "+", "===", "=>", "...",
         "/* c */", "/* a\nb\u2028c */", "// l\n", "function", "return", "0xff", ".5", "a.b", "?.", "??=", "\t", "\r\n", "\n", " ", "\u2028", "\u2029", "\u00a0", "\ufeff", "😀", "#", "@"]


def run(ctx):
    rng = ctx.rng
    # ---------- CORR 1: token positions of the real lexer vs M-Pos
    srcs = []
    for _ in range(1200 if ctx.tier == "quick" else 20000):
        srcs.append("".join(rng.choice(VOCAB) + rng.choice(["", " ", "\n", "  "]) for _ in range(rng.randint(1, 40))))
    tl = ["T " + enc(s) for s in srcs]
    tgot = common.harness(["pos"], tl)
    ll = []
    for s, g in zip(srcs, tgot):
        offs = [x.split(":")[0] for x in g.split(",")] if g and ":" in g else ["0"]
        ll.append("L " + ",".join(offs) + "\t" + enc(s))
    lexp = common.driver(["pos"], ll)
    ntok = 0
    for s, g, e in zip(srcs, tgot, lexp):
        ctx.cov["evaluations"] += 1
        ctx.cov["traces_validated_against_impl"] += 1
        ntok += g.count(",") + 1
        if g != e:
            ctx.corr_fail("M-Pos.posAfter != Lexer token position", {"source": s[:200]}, e[:300], g[:300])
        # PROP: independent python rule
        for item in g.split(","):
            try:
                o, l, c = (int(x) for x in item.split(":"))
            except ValueError:
                ctx.prop_fail("crash: lexer produced no token list (%s)" % g[:40], {"source": s[:200]}); break
            if pos_of(s, o) != (l, c):
                ctx.prop_fail("position: token at char offset %d reported at %d:%d, rule gives %s" % (o, l, c, pos_of(s, o)), {"source": s[:300]})
                break
    # ---------- programs with planted faults
    cases = []
    n = 500 if ctx.tier == "quick" else 8000
    for i in range(n):
        depth = rng.choice([0, 1, 2, 3, 5, 8, 12]) if i % 4 else rng.randint(0, 12)
        kind = rng.choice(["member", "refcall", "notfn", "nullread"])
        toks, names, marks = chain_program(rng, depth, kind)
        src, spans = layout(rng, toks, wild=(i % 5 != 0))
        cases.append(("rt", src, spans, names, marks, kind))
    for i in range(n // 2):
        toks, idx = syntax_program(rng)
        src, spans = layout(rng, toks, wild=True)
        cases.append(("syn", src, spans, idx))
    rl = ["R " + enc(c[1]) for c in cases]
    rgot = common.harness(["pos"], rl)
    hist = {"rt": 0, "syn": 0, "frames_checked": 0}
    distinct = set()
    for c, g in zip(cases, rgot):
        ctx.cov["evaluations"] += 1
        src, spans = c[1], c[2]
        hist[c[0]] += 1
        case = {"source": src, "impl": g}
        if c[0] == "syn":
            idx = c[3]
            if not g.startswith("SyntaxError|"):
                ctx.prop_fail("syntax: stray token not reported as SyntaxError with a location", case); continue
            try:
                l, col = (int(x) for x in g.split("|")[1].split(":"))
            except ValueError:
                ctx.prop_fail("syntax: SyntaxError without position", case); continue
            if not in_span(src, spans, idx, idx + 1, l, col):
                ctx.prop_fail("syntax: reported position %d:%d is outside the offending token %r at %s" % (l, col, src[spans[idx][0]:spans[idx][1]], pos_of(src, spans[idx][0])), case)
            distinct.add(g)
            continue
        names, marks, kind = c[3], c[4], c[5]
        parts = g.split("|")
        want_cls = {"member": "TypeError", "refcall": "ReferenceError", "notfn": "TypeError", "nullread": "TypeError"}[kind]
        if len(parts) != 3 or parts[0] != want_cls:
            ctx.prop_fail("runtime: planted %s fault not reported as %s with a trace" % (kind, want_cls), case); continue
        frames = [f for f in parts[2].split(";") if f]
        want_names = names + ["<anonymous>"]
        got_names = [f.split("@")[0] for f in frames]
        if got_names != want_names:
            ctx.prop_fail("trace: frames %s differ from the active calls %s (innermost first)" % (got_names, want_names), case); continue
        ok = True
        for i, f in enumerate(frames):
            loc = f.split("@")[1]
            file, l, col = loc.rsplit(":", 2)
            l, col = int(l), int(col)
            a, b = marks[i] if i < len(names) else marks["top"]
            hist["frames_checked"] += 1
            if not in_span(src, spans, a, b, l, col):
                ctx.prop_fail("location: frame %d (%s) reports %d:%d outside its expression %r spanning %s..%s" % (
                    i, got_names[i], l, col, src[spans[a][0]:spans[b - 1][1]], pos_of(src, spans[a][0]), pos_of(src, spans[b - 1][1])), case)
                ok = False
                break
            if file not in ("/t/main.ts", "<none>"):
                ctx.prop_fail("file: frame names the wrong file %r" % file, case); ok = False; break
        distinct.add(g)
    # ---------- PROP: traces that cross a module boundary: a frame never names a file that does not contain its function
    xcases = []
    for i in range(60 if ctx.tier == "quick" else 800):
        nlib, nmain = rng.randint(1, 3), rng.randint(1, 4)
        pad = lambda: "\n" * rng.randint(0, 3) + "// " + "x" * rng.randint(0, 30) + "\n"

        def mkfn(name, callee, style):
            call = "%s(x)" % callee if callee else "x.missing.field"
            if style == "arrow_expr":
                return "export const %s = (x: any) => %s;\n" % (name, call)
            if style == "arrow_block":
                return "export const %s = (x: any) => { return %s; };\n" % (name, call)
            if style == "ctor":
                return "export class K_%s { v: any; constructor(x: any) { this.v = %s; } }\nexport function %s(x: any) { return new K_%s(x).v; }\n" % (name, call, name, name)
            if style == "method":
                return "export const O_%s = { run(x: any) { return %s; } };\nexport function %s(x: any) { return O_%s.run(x); }\n" % (name, call, name, name)
            return "export function %s(x: any) {\n  return %s;\n}\n" % (name, call)
        styles = ["fn", "arrow_expr", "arrow_block", "ctor", "method"]
        lib_names = ["lib%d_%d" % (i, k) for k in range(nlib)]
        main_names = ["main%d_%d" % (i, k) for k in range(nmain)]
        lib_src, callee = "", None
        for nm in lib_names:
            lib_src += pad() + mkfn(nm, callee, rng.choice(styles)); callee = nm
        main_src = "import { %s } from './lib';\n" % lib_names[-1]
        for nm in main_names:
            main_src += pad() + mkfn(nm, callee, rng.choice(styles)).replace("export ", ""); callee = nm
        main_src += pad() + "%s(null);\n" % callee
        xcases.append((main_src, lib_src, lib_names, main_names))
    xgot = common.harness(["pos"], ["X " + json.dumps({"main": m, "mods": {"/t/lib": l, "/t/lib.ts": l}}) for m, l, _, _ in xcases])
    hist["cross_module_frames"] = 0
    for (m, l, lib_names, main_names), g in zip(xcases, xgot):
        ctx.cov["evaluations"] += 1
        case = {"main": m[:1500], "lib": l[:1500], "impl": g[:600]}
        parts = g.split("|")
        if len(parts) != 3 or parts[0] != "TypeError":
            ctx.prop_fail("runtime: the planted fault behind a cross-module call chain was not reported as TypeError with a trace", case); continue
        xsrcs = {"/t/main.ts": m, "/t/lib": l, "/t/lib.ts": l}
        for f in [x for x in parts[2].split(";") if x]:
            name, loc = f.split("@", 1)
            file, ln, col = loc.rsplit(":", 2)
            hist["cross_module_frames"] += 1
            if file in ("<none>", "<eval>"):
                continue            # no file claimed
            if file not in xsrcs:
                ctx.prop_fail("file: frame %s names an unknown file %r" % (name, file), case); break
            text = xsrcs[file].split("\n")
            base = name.split(".")[-1]
            owner = "/t/main.ts" if (base.startswith("main") or base == "<anonymous>") else ("/t/lib" if base.startswith("lib") else None)
            if owner and not file.startswith(owner.replace(".ts", "")) and not (owner == "/t/lib" and file.startswith("/t/lib")):
                ctx.prop_fail("file: frame %s is reported in %s, which does not contain it" % (name, file), case); break
            if int(ln) < 1 or int(ln) > len(text):
                ctx.prop_fail("file: frame %s reports line %s of %s, which has %d lines" % (name, ln, file, len(text)), case); break
        distinct.add(g[:200])
    # ---------- CORR 2: source-map lookups of real chunks vs M-Pos.lookup
    msrc = [c[1] for c in cases if c[0] == "rt"][: (250 if ctx.tier == "quick" else 4000)]
    mgot = common.harness(["pos"], ["M " + enc(s) for s in msrc])
    mlines, back = [], []
    for s, g in zip(msrc, mgot):
        if g.startswith("ERR") or ";" not in g:
            continue
        for ch in g.split("|"):
            nn, ents, looks = ch.split(";")
            mlines.append("M %s;%s" % (nn, ents))
            back.append((s, looks, ents))
    mexp = common.driver(["pos"], mlines)
    for (s, looks, ents), e in zip(back, mexp):
        ctx.cov["evaluations"] += 1
        ctx.cov["traces_validated_against_impl"] += 1
        if e != looks:
            ctx.corr_fail("M-Pos.lookup != BytecodeChunk::get_source_location", {"source": s[:200], "entries": ents[:200]}, e[:300], looks[:300])
        # PROP: offsets strictly increasing (invariant MapOk) and floor lookup
        offs = [int(x.split(":")[0]) for x in ents.split(",") if x]
        if any(b <= a for a, b in zip(offs, offs[1:])):
            ctx.prop_fail("sourcemap: entry offsets not strictly increasing", {"source": s[:300], "entries": ents[:300]})
        ent = [x.split(":") for x in ents.split(",") if x]
        for i, lk in enumerate(looks.split(",")):
            cand = [x for x in ent if int(x[0]) <= i]
            want = ":".join(cand[-1][1:]) if cand else "-"
            if lk != want:
                ctx.prop_fail("lookup: instruction %d maps to %s, the entry covering it says %s" % (i, lk, want), {"source": s[:300], "entries": ents[:300]})
                break
    # ---------- known-finding witnesses (run every time; reported only while they still fail)
    for f in ctx.findings:
        if f.get("kind") != "witness":
            continue
        w = f["witness_source"]
        g = common.harness(["pos"], ["R " + enc(w)])[0]
        ctx.cov["evaluations"] += 1
        try:
            l, col = (int(x) for x in g.split("|")[1].split(":"))
        except (ValueError, IndexError):
            l, col = -1, -1
        a, b = f["offending_char_span"]
        if not (pos_of(w, a) <= (l, col) < pos_of(w, b)):
            ctx.known(f["id"], f["what"])
    ctx.cov["distinct_nontrivial"] = len(distinct)
    ctx.cov["rule"] = ("(a) %d token soups over a vocabulary with tabs, CR/LF, LS/PS, NBSP, BOM, comments, templates, wide characters: every token position of the real Lexer vs M-Pos (%d tokens); "
                       "(b) programs with a planted runtime fault (4 kinds) behind call chains of depth 0..12 mixing functions, arrows, class and object methods, and programs with a planted stray token "
                       "(16 kinds), each under a random layout (reflow, comments, blank lines, CRLF, tabs, wide characters before the fault): reported positions must lie inside the planted "
                       "expression/token and the trace must equal the chain; (c) every source-map lookup of every chunk of those programs vs M-Pos.lookup. "
                       "distinct_nontrivial = distinct error reports" % (len(srcs), ntok))
    ctx.cov["input_distribution"] = hist
    ctx.sample({"source": cases[1][1][:400], "impl": rgot[1]})
    ctx.sample({"tokens_of": srcs[0][:120], "impl": tgot[0][:200], "model": lexp[0][:200]})
