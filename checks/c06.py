"""C06 — the host keeps control: bounded steps, no script can abort the process (DESIGN.md §4 C06)."""
import json
import os
import re
from . import common

LEAN_TARGETS = ["TsrunVerif.Props.C06", "TsrunVerif.Props.C06Compile"]
THEOREMS = ["TsrunVerif.StepCost." + t for t in [
    "step_unit", "steps_count_work", "deep_script_calls_no_native_stack", "step_unbounded_with_reentrant_native",
    "native_depth_of_nest", "guard_bounds_stack", "alloc_guarded", "huge_refused"]] + ["TsrunVerif.Gen.reentrant_allowed"] + \
    ["TsrunVerif.Compile." + t for t in ["codeE_targets", "codeS_targets", "exec1_next_shape", "stepH_inCode", "run_never_faults", "compiled_never_faults"]]
ASSUMPTIONS = [
    "over M-Compile (C01's compiler and VM model, tied to the code by the instruction-listing correspondence of every C01 run): every jump and catch target the compiler emits lies inside the construct's own code, "
    "so the program counter and the try stack of the VM stay inside the code for every run, terminating or not, and no step faults (compiled_never_faults); each step of that VM executes exactly one instruction",
    "M-Step abstracts instructions to trampolined ones (cost 1, no native stack) and re-entrant native calls (cost 1 + callback, native depth + 1); which natives re-enter the interpreter is "
    "re-extracted from /repo/src by bin/extract on every run (Gen/Reentrant.lean) and must be contained in the committed, reviewed list",
    "per-step instruction counts and native re-entry depth are read through the cfg(tsrun_verif) counters; absence of aborts is observed by running every risky program in its own process",
    "a step that triggers a garbage collection does work proportional to the live heap; this is not counted as instructions",
]

RECURSION_PATHS = {
    "map": "[n].map(x => f(x - 1))[0]", "forEach": "(() => { let r = 0; [n].forEach(x => { r = f(x - 1); }); return r; })()",
    "filter": "[n].filter(x => f(x - 1) >= 0).length - 1", "reduce": "[n].reduce((a, x) => f(x - 1), 0)", "reduceRight": "[n].reduceRight((a, x) => f(x - 1), 0)",
    "sort": "[n, n].sort((a, b) => f(a - 1) * 0)[0] * 0", "toSorted": "[n, n].toSorted((a, b) => f(a - 1) * 0)[0] * 0", "find": "([n].find(x => f(x - 1) >= 0) as number) * 0",
    "findIndex": "[n].findIndex(x => f(x - 1) >= 0)", "findLast": "([n].findLast(x => f(x - 1) >= 0) as number) * 0", "some": "([n].some(x => f(x - 1) < 0) ? 1 : 0)",
    "every": "([n].every(x => f(x - 1) >= 0) ? 0 : 1)", "flatMap": "[n].flatMap(x => [f(x - 1)])[0]", "arrayFrom": "Array.from([n], x => f(x - 1))[0]",
    "replaceFn": "Number('1'.replace(/1/, () => String(f(n - 1))))", "mapForEach": "(() => { let r = 0; new Map([[1, n]]).forEach(v => { r = f(v - 1); }); return r; })()",
    "setForEach": "(() => { let r = 0; new Set([n]).forEach(v => { r = f(v - 1); }); return r; })()", "getter": "({get g() { return f(n - 1); }}).g",
    "setter": "(() => { let r = 0; const o = {set s(v: number) { r = f(v - 1); }}; o.s = n; return r; })()", "valueOf": "+({valueOf() { return f(n - 1); }})",
    "proxyGet": "new Proxy({}, {get() { return f(n - 1); }}).x", "proxyApply": "new Proxy(function () {}, {apply() { return f(n - 1); }})()", "fnCall": "f.call(null, n - 1)", "fnApply": "f.apply(null, [n - 1])",
    "bound": "f.bind(null, n - 1)()", "ctor": "new (class { v: number; constructor() { this.v = f(n - 1); } })().v",
    "promiseExec": "(() => { let r = 0; new Promise(() => { r = f(n - 1); }); return r; })()", "thenHandler": "(() => { let r = 0; Promise.resolve(1).then(() => { r = f(n - 1); }); return r; })()",
    "spreadIter": "[...{*[Symbol.iterator]() { yield f(n - 1); }}][0]", "tagged": "((s: any, v: number) => v)`${f(n - 1)}`", "method": "({m(k: number) { return f(k - 1); }}).m(n)",
    "plain": "f(n - 1)", "arrow": "((k: number) => f(k - 1))(n)", "reflectApply": "Reflect.apply(f, null, [n - 1])", "reflectConstruct": "Reflect.construct(function () { (this as any).v = f(n - 1); } as any, []).v",
    "optionalCall": "f?.(n - 1)", "generator": "(function* () { yield f(n - 1); })().next().value", "forOfGen": "(() => { let r = 0; for (const v of (function* () { yield f(n - 1); })()) r = v; return r; })()",
    "asyncFn": "(() => { let r = 0; (async () => { r = f(n - 1); })(); return r; })()", "destructDefault": "(({k = f(n - 1)}: any) => k)({})", "groupBy": "Object.keys(Object.groupBy([n], x => String(f(x - 1)))).length",
    "jsonDeep": "JSON.stringify((() => { let o: any = {}; for (let i = 0; i < 3000; i++) o = {o}; return o; })()).length * 0 + f(n - 1)",
}

SIZE_CALLS = ["new Array(N).length", "Array(N).length", "(() => { const a: any[] = []; a.length = N; return a.length; })()", "(() => { const a: any[] = []; a[N] = 1; return a.length; })()",
              "'x'.repeat(N).length", "'ab'.padStart(N).length", "'ab'.padEnd(N, 'xyz').length", "Array.from({length: N}).length", "new Array(5).fill(0, 0, N).length",
              "[1, 2, 3].slice(0, N).length", "'abc'.substring(0, N).length", "[1, 2].concat(new Array(3)).flat(N).length", "(1.5).toFixed(N)", "(1.5).toPrecision(N)", "(255).toString(N)",
              "'abc'.at(N)", "[1, 2, 3].at(N)", "'abc'.charAt(N)", "[1, 2, 3].splice(N).length", "new Array(3).join('x'.repeat(5)).repeat(N).length", "String.fromCharCode(N)", "'x'.codePointAt(N)",
              "[3, 1].copyWithin(N, 0).length", "[1, 2, 3].indexOf(1, N)", "'abc'.slice(N)", "Number.parseInt('1', N)", "new Array(3).keys().next().value + N", "[1,2,3].with(N, 1).length"]
SIZES = ["0", "1", "255", "256", "65535", "65536", "2147483647", "2147483648", "4294967294", "4294967295", "4294967296", "1e10", "9007199254740991", "9007199254740992", "1e21", "-1", "-2147483649", "1.5", "NaN", "Infinity", "-Infinity"]


# long structures built by a LOOP and then used once: every use has to be a loop (or a guarded recursion) too
DEEP = {
    "protoGetHit": "let o: any = {top: 1}; for (let i = 0; i < D; i++) o = Object.create(o) ;;; o.top",
    "protoGetMiss": "let o: any = {top: 1}; for (let i = 0; i < D; i++) o = Object.create(o) ;;; String(o.missing)",
    "protoIn": "let o: any = {top: 1}; for (let i = 0; i < D; i++) o = Object.create(o) ;;; ('top' in o) + ':' + ('nope' in o)",
    "protoForIn": "let o: any = {top: 1}; for (let i = 0; i < D; i++) o = Object.create(o); let n = 0; for (const k in o) n++ ;;; n",
    "protoSetAndAccessor": "let o: any = {get a() { return 5; }, set a(v) { (this as any).s = v; }, m() { return 7; }}; for (let i = 0; i < D; i++) o = Object.create(o); o.a = 3; o.fresh = 1 ;;; o.s + o.a + o.m() + o.fresh",
    "protoInstanceof": "function F(this: any) {} let o: any = new (F as any)(); for (let i = 0; i < D; i++) o = Object.create(o) ;;; (o instanceof (F as any)) + ':' + Object.prototype.isPrototypeOf.call(F.prototype, o)",
    "protoToString": "let o: any = {}; for (let i = 0; i < D; i++) o = Object.create(o) ;;; String(o) + o.hasOwnProperty('x') + JSON.stringify(o)",
    "protoSetPrototypeOf": "let o: any = {}; const base = o; for (let i = 0; i < D; i++) o = Object.create(o); let r = 'ok'; try { Object.setPrototypeOf(base, o); } catch (e) { r = (e as any).name; } ;;; r + Object.getPrototypeOf(o).constructor.name",
    "boundCall": "let f: any = function (this: any, a: number) { return a + 1; }; for (let i = 0; i < D; i++) f = f.bind(null) ;;; f(1)",
    "boundNew": "let F: any = function (this: any) { this.v = 2; }; for (let i = 0; i < D; i++) F = F.bind(null) ;;; new F().v",
    "boundMeta": "let f: any = function named(a: any, b: any) {}; for (let i = 0; i < D; i++) f = f.bind(null) ;;; f.name.length + f.length",
    "boundViaNative": "let f: any = (x: number) => x + 1; for (let i = 0; i < D; i++) f = f.bind(null) ;;; [1, 2].map(f).join()",
    "classChain": "class A { static s = 1; x() { return 1; } } let K: any = A; for (let i = 0; i < Math.min(D, 3000); i++) K = class extends K {} ;;; K.s + new K().x() + (new K() instanceof A ? 1 : 0)",
    "thenChain": "let res: any; let p: any = new Promise(r => { res = r; }); for (let i = 0; i < D; i++) p = p.then((x: number) => x + 1); res(0) ;;; await p",
    "thenChainRejected": "let rej: any; let p: any = new Promise((_, r) => { rej = r; }); for (let i = 0; i < D; i++) p = p.then((x: number) => x + 1); rej(new RangeError('deep')); let r; try { await p; r = 'no'; } catch (e) { r = (e as any).name; } ;;; r",
    "nestedArrayJoin": "let a: any = [1]; for (let i = 0; i < D; i++) a = [a]; let r; try { r = String(a).length; } catch (e) { r = (e as any).name; } ;;; r",
    "nestedArrayFlatJson": "let a: any = [1]; for (let i = 0; i < D; i++) a = [a]; let r; try { r = a.flat(Infinity).length + JSON.stringify(a).length; } catch (e) { r = (e as any).name; } ;;; r",
    "linkedListEquality": "let a: any = null; for (let i = 0; i < D; i++) a = {next: a, v: i}; let n = 0; for (let c = a; c; c = c.next) n++ ;;; n + (a == a ? 1 : 0)",
    "causeChain": "let e: any = new Error('e0'); for (let i = 0; i < D; i++) e = new Error('e', {cause: e}) ;;; String(e).length + (e.stack || '').length * 0",
    "proxyChainGet": "let p: any = {x: 1}; for (let i = 0; i < D; i++) p = new Proxy(p, {}); let r; try { r = p.x; } catch (e) { r = (e as any).name; } ;;; r",
    "proxyChainHasSetKeys": "let p: any = {x: 1}; for (let i = 0; i < D; i++) p = new Proxy(p, {}); let r; try { r = ('x' in p) + ':' + (p.y = 2) + ':' + Object.keys(p).length; } catch (e) { r = (e as any).name; } ;;; r",
    "proxyChainApply": "let p: any = function () { return 3; }; for (let i = 0; i < D; i++) p = new Proxy(p, {}); let r; try { r = p() + new p().constructor.length * 0; } catch (e) { r = (e as any).name; } ;;; r",
    "closureChain": "let f: any = () => 0; for (let i = 0; i < D; i++) { const g = f; f = () => g() + 1; } let r; try { r = f(); } catch (e) { r = (e as any).name; } ;;; r",
    "generatorDelegation": "function* g(n: number): any { if (n > 0) { yield* g(n - 1); } else { yield 1; } } let r; try { r = [...g(Math.min(D, 5000))].length; } catch (e) { r = (e as any).name; } ;;; r",
}


LCG = "let seed = %d; function rnd(): number { seed = (seed * 1103515245 + 12345) %% 2147483648; return seed / 2147483648; }\n"
COMPARATORS = ["() => rnd() - 0.5", "() => 1", "() => -1", "() => NaN", "(a: any, b: any) => (rnd() < 0.3 ? b - a : a - b)", "() => ({} as any)", "(a: any, b: any) => { if (rnd() < 0.02) throw new TypeError('cmp'); return a - b; }",
               "(a: any, b: any) => { if (rnd() < 0.1) xs.push(1); if (rnd() < 0.1) xs.pop(); return rnd() - 0.5; }", "(a: any, b: any) => { xs.length = 0; return 1; }", "() => undefined as any", "(a: any, b: any) => a < b ? 1 : 1"]
SORTERS = ["xs.sort(CMP)", "xs.toSorted(CMP)", "xs.slice().sort(CMP)"]
MUTATORS = ["xs.push(i)", "xs.pop()", "xs.length = 0", "xs.splice(0, 1)", "xs.unshift(i, i)", "xs.length = xs.length + 3", "delete (xs as any)[i + 1]", "xs.reverse()", "xs.fill(0)", "if (i === 2) throw new RangeError('cb')", "xs[i + 5] = i"]
ITERS = ["xs.map((x, i) => { MUT; return x; }).length", "(() => { let n = 0; xs.forEach((x, i) => { if (n++ > 500) return; MUT; }); return n; })()", "xs.filter((x, i) => { MUT; return true; }).length",
         "xs.reduce((a, x, i) => { MUT; return a + 1; }, 0)", "xs.reduceRight((a, x, i) => { MUT; return a + 1; }, 0)", "xs.find((x, i) => { MUT; return false; })", "xs.findIndex((x, i) => { MUT; return false; })",
         "xs.findLast((x, i) => { MUT; return false; })", "xs.some((x, i) => { MUT; return false; })", "xs.every((x, i) => { MUT; return true; })", "xs.flatMap((x, i) => { MUT; return [x, x]; }).length",
         "Array.from(xs, (x, i) => { MUT; return x; }).length", "(() => { let i = 0, n = 0; for (const x of xs) { if (n++ > 500) break; MUT; i++; } return n; })()",
         "(() => { let i = 0; const m = new Map(xs.map((x, k) => [k, x])); let n = 0; m.forEach((v, k) => { if (n++ > 500) return; MUT; if (n < 400) m.set(k + 100, v); m.delete(k); }); return n; })()",
         "(() => { let i = 0; const st = new Set(xs); let n = 0; st.forEach(v => { if (n++ > 500) return; MUT; if (n < 400) st.add(n + 1000); st.delete(v); }); return n; })()",
         "(() => { let i = 0; return xs.join({toString() { MUT; return ','; }} as any).length; })()", "(() => { let i = 1; return xs.indexOf({valueOf() { MUT; return 1; }} as any); })()",
         "(() => { let i = 1; return xs.slice({valueOf() { MUT; return 1; }} as any, {valueOf() { MUT; return 9; }} as any).length; })()",
         "(() => { let i = 1; return xs.splice({valueOf() { MUT; return 1; }} as any, {valueOf() { MUT; return 9; }} as any).length; })()",
         "(() => { let i = 1; return xs.fill(1, {valueOf() { MUT; return 1; }} as any, {valueOf() { MUT; return 90; }} as any).length; })()",
         "(() => { let i = 1; return xs.copyWithin({valueOf() { MUT; return 1; }} as any, 0, {valueOf() { MUT; return 90; }} as any).length; })()",
         "(() => { let i = 1; return xs.at({valueOf() { MUT; return 7; }} as any); })()", "(() => { let i = 1; return xs.includes(1, {valueOf() { MUT; return 1; }} as any); })()",
         "(() => { let i = 1; return xs.with({valueOf() { MUT; return 1; }} as any, 5).length; })()", "(() => { let i = 1; return xs.lastIndexOf(3, {valueOf() { MUT; return 8; }} as any); })()"]
# a callback the native invokes (accessor, toJSON, iterator, trap) WRITES to the very object the native is reading
READERS = ["JSON.stringify(o)", "JSON.stringify(o, null, 2)", "JSON.stringify([o, o])", "Object.assign({}, o)", "Object.entries(o).length", "Object.values(o).length", "({...o})",
           "(() => { let n = 0; for (const k in o) { n += String((o as any)[k]).length; } return n; })()", "Object.getOwnPropertyDescriptors(o)", "String(Object.keys(o)) + o.a", "structuredCloneLike(o)"]
WRITES = ["(this as any).n = 1", "delete (this as any).b", "Object.freeze(this)", "Object.defineProperty(this, 'z', {value: 1, enumerable: true})", "(this as any).b = [(this as any).b]",
          "Object.setPrototypeOf(this, null)", "for (let i = 0; i < 40; i++) (this as any)['k' + i] = i"]
SELF_WRITERS = ["(() => { function structuredCloneLike(x: any) { return JSON.parse(JSON.stringify(x)); } const o: any = { get a() { %s; return 1; }, b: 2, c: {d: 3} }; return %s; })()" % (w, r)
                for r in READERS for w in WRITES] + \
               ["(() => { const o: any = { get toJSON() { (this as any).x = 1; return undefined; }, y: 1 }; return JSON.stringify(o); })()",
                "(() => { const o: any = { toJSON() { delete (this as any).y; (this as any).z = 2; return this; }, y: 1 }; return JSON.stringify({o, p: o}); })()",
                "(() => { const a: any[] = [1, 2, 3]; Object.defineProperty(a, 1, { get() { a.length = 0; a.push(9); return 7; }, enumerable: true, configurable: true }); return JSON.stringify(a) + a.join() + [...a].length; })()",
                "(() => { const m = new Map([[1, 2]]); let n = 0; m.forEach((v, k, mm) => { if (n++ < 60) { mm.set(k + 1, v); mm.delete(k); } }); return m.size + n; })()",
                "(() => { const st = new Set([1]); let n = 0; for (const v of st) { if (n++ < 60) { st.add(v + 1); st.delete(v); } } return st.size + n; })()",
                "(() => { const o: any = { toString() { (this as any).toString = () => 'y'; delete (this as any).valueOf; return 'x'; } }; return `${o}${o}` + (o + '') + [o, o].join(); })()",
                "(() => { const p: any = new Proxy({a: 1}, { ownKeys(t) { (t as any)['k' + Object.keys(t).length] = 1; return Reflect.ownKeys(t); }, getOwnPropertyDescriptor(t, k) { delete (t as any).a; return Reflect.getOwnPropertyDescriptor(t, k); } }); return JSON.stringify(p) + Object.keys(p).length; })()",
                "(() => { const o: any = {a: 1, b: 2}; return JSON.stringify(o, function (k, v) { if (k === 'a') { delete (this as any).b; (this as any).c = 3; } return v; }); })()"]
HOSTILE = SELF_WRITERS + [
    "Array.prototype.map.call({length: N, 0: 1}, (x: any) => x).length", "Array.prototype.forEach.call({length: N, 0: 1}, () => { throw new RangeError('stop'); })", "Array.prototype.slice.call({length: N}, 0, 3).length",
    "Array.prototype.join.call({length: N}, ',').length", "Array.prototype.indexOf.call({length: N}, 1)", "Array.prototype.includes.call({length: N, 0: 5}, 5)", "Array.prototype.fill.call({length: N}, 0, 0, 2).length",
    "Array.prototype.reverse.call({length: N, 0: 1}).length", "Array.prototype.push.call({length: N}, 1)", "Array.prototype.pop.call({length: N})", "Array.prototype.shift.call({length: N, 0: 1})", "Array.prototype.concat.call([], {length: N, [Symbol.isConcatSpreadable]: true}).length",
    "Array.from({length: N, 0: 1} as any, (x: any) => { throw new RangeError('stop'); })", "String.prototype.repeat.call('ab', N).length", "Object.keys({length: N}).length", "new Array(3).fill('x'.repeat(1000)).join('').repeat(N).length",
    "[...{[Symbol.iterator]() { return {next() { return 5 as any; }}; }}].length", "[...{[Symbol.iterator]() { return {next() { throw new TypeError('nx'); }}; }}].length", "[...{[Symbol.iterator]() { return 5 as any; }}].length",
    "(() => { let n = 0; for (const x of {[Symbol.iterator]() { return {next() { return {done: n++ > N || n > 2000, value: 1}; }, return() { throw new Error('ret'); }}; }}) { if (n > 50) break; } return n; })()",
    "JSON.stringify({a: [1, {b: 2}]}, function (k, v) { if (typeof v === 'object' && v && k !== '' ) { (this as any).z = 1; } return v; })", "JSON.parse('[1,[2,[3]],{\"a\":{\"b\":1}}]', function (k, v) { if (Array.isArray(v)) v.length = 0; delete (this as any)[k]; return v; })",
    "JSON.stringify({toJSON() { throw new RangeError('tj'); }})", "JSON.stringify({get a() { throw new RangeError('ga'); }})", "'aaa'.replace(/a/g, (() => ({toString() { throw new TypeError('ts'); }})) as any)",
    "'abc'.replace('b', (() => { throw new RangeError('r'); }) as any)", "'abc'.split({[Symbol.split]() { throw new RangeError('sp'); }} as any)", "`${{toString() { return {}; }, valueOf() { return {}; }}}`",
    "+({[Symbol.toPrimitive]() { return {}; }} as any)", "({[Symbol.toPrimitive]() { throw new RangeError('tp'); }} as any) + 1", "new Proxy({}, {get() { throw new RangeError('pg'); }}).x", "Object.keys(new Proxy({}, {ownKeys() { return [1, {}] as any; }}))",
    "new Proxy({}, {has() { return 5 as any; }, get(t, k) { return k; }, getPrototypeOf() { return 5 as any; }}) instanceof Object", "Object.defineProperty({}, 'x', {get: 5 as any})", "Object.defineProperty([], 'length', {value: N})",
    "Object.setPrototypeOf({}, new Proxy({}, {get(t, k, r) { return (r as any)[k]; }})).zzz", "(() => { const a: any = {}; Object.setPrototypeOf(a, a); return a.x; })()", "(() => { const a: any = {}, b: any = Object.create(a); Object.setPrototypeOf(a, b); return b.x; })()",
    "(() => { class A { constructor() { return 5 as any; } } return typeof new A(); })()", "(() => { class A extends (null as any) {} return new A(); })()", "(() => { class B { constructor() { throw new RangeError('c'); } } class A extends B { constructor() { try { super(); } catch (e) {} (this as any).x = 1; } } return new A(); })()",
    "new (Function.prototype.bind.apply(Array, [null, N]) as any)().length", "Reflect.apply(Array.prototype.map, null as any, [])", "Reflect.construct(Array, {length: N} as any).length", "Function.prototype.apply.call(Math.max, null, {length: N} as any)",
    "Math.max.apply(null, new Array(70000).fill(1))", "String.fromCharCode.apply(null, new Array(70000).fill(65)).length", "Math.max(...new Array(70000).fill(1))", "[].concat(...new Array(3000).fill([1, 2])).length",
    "new RegExp('(a*)*b').test('a'.repeat(28))", "new RegExp('('.repeat(3000) + ')'.repeat(3000)).test('')", "new RegExp('[').test('')", "/(?<n>a)|(?<n>b)/.test('a')", "'x'.match(new RegExp('x{' + N + '}'))", "new RegExp('a'.repeat(70000)).test('b')",
    "structuredClone === undefined ? 0 : 1", "(() => { const m = new Map(); m.set(m, m); const st = new Set(); st.add(st); return JSON.stringify([...m].length + [...st].length); })()", "(() => { const a: any[] = []; a.push(a); return a.join(',') + String(a) + a.toString(); })()",
    "(() => { const a: any[] = []; a.push(a); return a.flat(Infinity).length; })()", "(() => { const o: any = {}; o.o = o; return JSON.stringify(o); })()", "(() => { const e: any = new Error('x'); e.cause = e; return String(e) + e.stack; })()",
    "(() => { const e: any = new Error('x'); Object.defineProperty(e, 'message', {get() { throw e; }}); throw e; })()", "(() => { throw {toString() { throw new Error('ts'); }}; })()",
    "Promise.resolve({get then() { throw new RangeError('th'); }})", "Promise.resolve({then(r: any) { r(this); }})", "Promise.all({[Symbol.iterator]() { throw new RangeError('it'); }} as any)", "(async () => { await {then() { throw new RangeError('aw'); }}; })()",
    "new Promise(r => r(new Promise(r2 => r2(new Promise(() => { throw new RangeError('in'); })))))", "(function* () { yield* (function* (): any { yield* [1]; throw new RangeError('g'); })(); })().next()", "(() => { const g = (function* (): any { yield g.next(); })(); return g.next(); })()",
    "(() => { const g: any = (function* (): any { try { yield 1; } finally { yield 2; } })(); g.next(); g.return(1); g.return(2); return g.throw(new RangeError('t')); })()", "Symbol() + ''", "BigInt === undefined ? 0 : (BigInt as any)(N)",
    "new Date(N).toISOString()", "new Date(NaN).toISOString()", "new Date(8.64e15 + 1).toISOString()", "new Date(-8.64e15).toISOString()", "new Date(N, N, N, N, N, N, N).getTime()", "Date.UTC(N, N)", "new Date('275760-09-13T00:00:00.001Z').getTime()",
    "(N).toString(2).length", "parseFloat('1' + '0'.repeat(N % 5000)).toString().length", "Number('0x' + 'f'.repeat(N % 5000))", "Number('1e' + N)", "(1e21).toFixed(2)", "(N).toFixed(100)", "(N).toExponential(100)", "(0).toPrecision(100)",
    "'abc'.normalize('NFC' + N)", "'abc'.localeCompare(N as any)", "'\\ud800'.codePointAt(0)", "String.fromCodePoint(N)", "'ab'.at(N)", "encodeURIComponent('\\ud800')", "decodeURIComponent('%')", "decodeURIComponent('%E0%A4%A')", "escape === undefined ? 0 : 1",
    "'abc'.substr(N, N)", "'a-b'.split('-', N).length", "'abc'.lastIndexOf('c', N)", "'abc'.startsWith('a', N)", "'abc'.endsWith('c', N)", "'abc'.includes('a', N)", "'abc'.padStart(N, '')", "'abc'.replaceAll('', 'x'.repeat(N % 100000)).length",
    "new Array(N % 100000).fill(0).toString().length", "new Map([[1, 2]]).get({valueOf() { throw 1; }})", "new Set({length: N} as any)", "new Map([1, 2] as any)", "new WeakMap([[1, 2]] as any)", "Object.fromEntries([[{toString() { throw new RangeError('k'); }}, 1]] as any)",
    "Object.entries(new Proxy([1, 2], {}))", "Object.assign({}, new Proxy({a: 1}, {getOwnPropertyDescriptor() { throw new RangeError('d'); }}))", "Object.freeze(new Proxy({}, {preventExtensions() { return false; }}))", "({...new Proxy({a: 1}, {ownKeys() { throw new RangeError('ok'); }})})",
    "(() => { 'use strict'; (Object.freeze([1]) as any).push(2); })()", "(() => { const a = Object.freeze([3, 1, 2]); return (a as any).sort(); })()", "(() => { const o = Object.freeze({a: 1}); (o as any).a = 2; delete (o as any).a; return o.a; })()",
    "(undefined as any).x", "(null as any)()", "(5 as any)()", "new (5 as any)()", "new (Math.max as any)()", "new ((() => 1) as any)()", "(class A {} as any)()", "({}) instanceof (5 as any)", "'x' in (5 as any)", "Symbol.iterator in Object(5)",
    "eval === undefined ? 0 : 1", "typeof Function === 'function' ? (() => { try { return (Function as any)('return 1')(); } catch (e) { throw e; } })() : 0",
]


# cyclic values through every route that turns a value into a string or a number (receiver or argument of a built-in, operators, property keys)
CYCLIC_MAKERS = ["(() => { const a: any[] = [1, 2]; a.push(a); return a; })()", "(() => { const a: any[] = [1]; const b: any[] = [a, 2]; a.push(b); return a; })()",
                 "(() => { const a: any[] = [1]; const o: any = {a, toString() { return 'o' + a.length; }}; a.push(o); return a; })()",
                 "(() => { const o: any = {toString() { return String([o, 1]); }}; return [o]; })()", "(() => { const a: any[] = []; for (let i = 0; i < 3; i++) a.push([a, [a]]); return a; })()"]
COERCIONS = ["'x'.concat(a)", "String.prototype.trim.call(a)", "'x' + a", "`${a}`", "a.join()", "a.toString()", "String(a)", "[a, a].join('-')", "'abc'.indexOf(a)", "'abc'.includes(a)", "'x'.padEnd(5, a)", "'x'.startsWith(a)",
             "String.prototype.toUpperCase.call(a)", "String(new RegExp(a))", "parseInt(a)", "Number(a)", "isNaN(a)", "Object.keys({[a]: 1})[0]", "'x'.localeCompare(a)", "'a,b'.split(a).length", "'x'.replace(a, 'y')",
             "'x'.replace('x', a)", "encodeURIComponent(a)", "String(Symbol(a))", "new Error(a).message", "a < 'z'", "a == '1,2,'", "a in {}", "a.toLocaleString()", "JSON.stringify({[a]: 1})", "[a, 'b', a].sort().length",
             "String(new Date(a))", "new Map([[String(a), 1]]).size", "(() => { const o: any = {}; o[a] = 1; return Object.keys(o)[0]; })()", "String.prototype.charAt.call(a, 0)", "String.prototype.repeat.call(a, 2)",
             "String.prototype.slice.call(a, 1)", "String.prototype.split.call(a, ',').length", "String.prototype.at.call(a, 0)", "String.prototype.normalize.call(a)", "String.prototype.codePointAt.call(a, 0)",
             "String.prototype.endsWith.call(a, ']')", "String.prototype.match.call(a, /1/)", "String.prototype.search.call(a, /1/)", "String.prototype.substring.call(a, 0, 3)", "String.prototype.padStart.call(a, 30, a)",
             "String.prototype.lastIndexOf.call(a, a)", "String.prototype.replaceAll.call(a, ',', a)", "a.concat(a).join()", "Number.parseFloat(a)", "Math.max(a)", "a * 1", "-a", "a | 0", "a ** 2", "+a", "a >= a", "Array.prototype.join.call({length: 2, 0: a, 1: a})"]


def tramp_program(rng):
    """only script-to-script calls: plain functions, recursion, closures, methods, constructors, static methods, bound-free."""
    n = rng.randint(2, 6)
    parts = []
    for i in range(n):
        k = rng.random()
        if k < 0.35:
            parts.append("function f%d(n: number): number { if (n <= 0) return %d; let s = 0; for (let i = 0; i < 3; i++) { s += i; } return s + f%d(n - 1); }" % (i, i, i))
        elif k < 0.6:
            parts.append("class K%d { v: number; constructor(v: number) { this.v = v; } m(n: number): number { return n <= 0 ? this.v : this.m(n - 1) + 1; } static mk(v: number) { return new K%d(v); } }\nfunction f%d(n: number): number { return K%d.mk(n).m(n %% 7); }" % (i, i, i, i))
        elif k < 0.8:
            parts.append("const mk%d = (a: number) => (b: number) => a * b + 1;\nfunction f%d(n: number): number { const g = mk%d(n); return g(2) + (n > 0 ? f%d(n - 1) : 0); }" % (i, i, i, i))
        else:
            parts.append("function f%d(n: number): number { let t = 0; try { if (n %% 2 === 0) throw new RangeError('e'); t = 1; } catch (e) { t = 2; } finally { t += 3; } return t + (n > 0 ? f%d(n - 1) : 0); }" % (i, i))
    calls = " + ".join("f%d(%d)" % (i, rng.randint(2, 40)) for i in range(n))
    shallow = " + ".join("f%d(%d)" % (i, i % 2 + 1) for i in range(n))
    return "\n".join(parts) + "\n" + calls, "\n".join(parts) + "\n" + shallow


def pre_proof(ctx):
    rc, out = common.sh([os.path.join(common.ROOT, "bin", "extract")])
    ctx.notes.append("bin/extract: " + out.strip())


def run(ctx):
    rng = ctx.rng
    known = {f["id"]: f for f in ctx.findings}
    # ---- (A) trampolined fragment: one instruction per step, no native stack, host budget works
    tl = []
    for i in range(120 if ctx.tier == "quick" else 2500):
        deep, shallow = tramp_program(rng)
        tl.append(json.dumps({"src": deep, "max_steps": 5_000_000}))
        tl.append(json.dumps({"src": shallow, "max_steps": 5_000_000}))
    stop = [json.dumps({"src": "for (;;) {}", "max_steps": 20000}), json.dumps({"src": "let i = 0; while (true) { i++; }", "max_steps": 50000}),
            json.dumps({"src": "function f(): number { return f() + 1; } f()", "max_steps": 10**9, "max_depth": 20000}),
            json.dumps({"src": "class A { m(): number { return new A().m(); } } new A().m()", "max_steps": 10**9, "max_depth": 3000}),
            json.dumps({"src": "const g = (n: number): number => g(n + 1); g(0)", "max_steps": 10**9, "max_depth": 50000})]
    got = common.harness(["budget"], tl + stop, timeout=900)
    distinct = set()
    prev_re = None
    for idx, (line, g) in enumerate(zip(tl, got)):
        ctx.cov["evaluations"] += 1
        ctx.cov["traces_validated_against_impl"] += 1
        f = dict(x.split("=") for x in g.split(" ")[-6:]) if " steps=" in g else {}
        case = {"program": json.loads(line)["src"][:900], "impl": g[:200]}
        if not g.startswith("OK "):
            ctx.prop_fail("trampolined: program of script-to-script calls did not complete (%s)" % g[:60], case); continue
        if f.get("max_instr_per_step") != "1" or f.get("steps_gt1") != "0":
            ctx.corr_fail("M-Step.step_unit: a step of the trampolined fragment executed %s instructions" % f.get("max_instr_per_step"), case, "1", f.get("max_instr_per_step"))
            ctx.prop_fail("bounded: a step of a program with only script-to-script calls executed %s instructions" % f.get("max_instr_per_step"), case); continue
        if idx % 2 == 1:
            # the shallow twin of the previous program: native stack use must not depend on the script call depth
            if prev_re != f.get("max_reentry"):
                ctx.prop_fail("nativestack: native re-entry depth grows with the script call depth (%s deep vs %s shallow)" % (prev_re, f.get("max_reentry")), dict(case, deep_program=json.loads(tl[idx - 1])["src"][:900]))
            continue
        prev_re = f.get("max_reentry")
        if f.get("steps") != f.get("instr"):
            ctx.corr_fail("M-Step.steps_count_work: steps != instructions", case, f.get("steps"), f.get("instr"))
        distinct.add(g.split(" steps=")[0] + f.get("steps", ""))
    for line, g in zip(stop, got[len(tl):]):
        ctx.cov["evaluations"] += 1
        if not (g.startswith("BUDGET") or g.startswith("DEPTH")) or " max_instr_per_step=1 " not in g or " max_reentry=0 " not in g:
            ctx.prop_fail("stoppable: a host counting steps / watching call_depth() could not stop the script (%s)" % g[:100], {"program": json.loads(line)["src"], "impl": g[:200]})
    # ---- (C) no abort: recursion through every call path, sizes up to 2^53 through every size-taking builtin (own process each)
    progs, meta = [], []
    depth = 3000 if ctx.tier == "quick" else 20000
    for nm, expr in RECURSION_PATHS.items():
        progs.append("function f(n: number): number { return n <= 0 ? 0 : 1 + %s; } let r; try { r = 'v' + f(%d); } catch (e) { r = 'caught:' + (e && (e as any).name); } r" % (expr, depth))
        meta.append(("recursion", nm))
    for call in SIZE_CALLS:
        for sz in (SIZES if ctx.tier != "quick" else SIZES[::2] + ["4294967295", "1e10"]):
            progs.append("let r; try { r = 'v' + (%s); } catch (e) { r = 'caught:' + (e && (e as any).name); } String(r).slice(0, 40)" % re.sub(r"\bN\b", "(" + sz + ")", call))
            meta.append(("size", call + " N=" + sz))
    nsort = 0
    for cmp in COMPARATORS:
        for n in ([0, 1, 2, 3, 7, 20, 21, 22, 50, 64, 129, 300] if ctx.tier != "quick" else [0, 2, 21, 50, 129]):
            for srt in SORTERS:
                progs.append((LCG % rng.randint(1, 10**6)) + "const xs: any[] = []; for (let i = 0; i < %d; i++) xs.push((i * 7919) %% 101);\nlet r; try { r = 'v' + (%s).length; } catch (e) { r = 'caught:' + (e && (e as any).name); } r" % (n, srt.replace("CMP", cmp)))
                meta.append(("hostile-comparator", "%s n=%d %s" % (srt, n, cmp)))
    for it in ITERS:
        for mut in MUTATORS:
            for n in ((0, 3, 40) if ctx.tier != "quick" else (rng.choice([0, 3, 40]),)):
                progs.append("const xs: any[] = []; for (let k = 0; k < %d; k++) xs.push(k);\nlet r; try { r = 'v' + (%s); } catch (e) { r = 'caught:' + (e && (e as any).name); } String(r).slice(0, 40)" % (n, it.replace("MUT", mut)))
                meta.append(("mutating-callback", "%s / %s n=%d" % (it[:50], mut, n)))
    for nm, src in DEEP.items():
        for d in ((2000, 40000) if ctx.tier == "quick" else (2000, 40000, 100000)):
            setup, expr = re.sub(r"\bD\b", str(d), src).split(" ;;; ")
            progs.append("%s;\nlet out; try { out = 'v' + (%s); } catch (e) { out = 'caught:' + (e && (e as any).name); } String(out).slice(0, 60)" % (setup, expr))
            meta.append(("deep-structure", "%s D=%d" % (nm, d)))
    for co in COERCIONS:
        progs.append("const outs: string[] = [];\n" + "\n".join("{ const a: any = %s; let r; try { r = 'v' + String(%s).slice(0, 20); } catch (e) { r = 'caught:' + (e && (e as any).name); } outs.push(r); }" % (mk, co) for mk in CYCLIC_MAKERS)
                     + "\nouts.join(' ').slice(0, 150)")
        meta.append(("cyclic-coercion", co))
    for h in HOSTILE:
        for sz in ((SIZES if ctx.tier != "quick" else ["3", "4294967295", "9007199254740991", "-1", "NaN"]) if re.search(r"\bN\b", h) else ["0"]):
            # the thrown value may itself be hostile (a proxy whose get trap throws): looking at it is guarded too
            progs.append("let r; try { r = 'v' + String(%s); } catch (e) { let nm: any = 'opaque'; try { nm = e && (e as any).name; } catch (_) { } r = 'caught:' + nm; } String(r).slice(0, 40)" % re.sub(r"\bN\b", "(" + sz + ")", h))
            meta.append(("hostile", h[:70] + " N=" + sz))
    # a generous limit: four programs share one process, and the machine may be busy (a limit that is reached only
    # under load would be a false alarm); a real hang is still a hang after 5 minutes
    limit = 300
    outs = common.harness(["prog"], [p.replace("\n", "\\n") for p in progs], timeout=limit, chunk=4)
    hist = {"caught_range": 0, "caught_other": 0, "values": 0}
    for (kind, nm), p, o in zip(meta, progs, outs):
        ctx.cov["evaluations"] += 1
        hist[kind] = hist.get(kind, 0) + 1
        case = {"kind": kind, "what": nm, "program": p[:500], "impl": o[:200]}
        if o.startswith("CRASH") or o == "NOT-RUN" or o.startswith("PANIC"):
            site = [f for f in ctx.findings if f.get("kind") == "site" and kind == "deep-structure" and nm.split(" ")[0] in f.get("families", [])]
            if site and o.startswith("CRASH"):
                ctx.known(site[0]["id"], site[0]["what"])
            else:
                ctx.prop_fail("abort: the script made the process abort (%s through %s)" % (kind, nm), case)
        elif o.startswith("TIMEOUT"):
            ctx.prop_fail("hang: %s through %s did not finish within %d s" % (kind, nm, limit), case)
        elif o.startswith("ERR"):
            ctx.prop_fail("uncatchable: %s through %s raised an error that try/catch did not see (%s)" % (kind, nm, o[:60]), case)
        else:
            hist["caught_range" if "caught:RangeError" in o else "caught_other" if "caught:" in o else "values"] += 1
            distinct.add(kind + nm + o[:30])
    # ---- (B) known finding: a looping callback of a re-entrant native never returns from ONE step
    f = known.get("C06-reentrant-unbounded-step")
    w = common.harness(["budget"], [json.dumps({"src": "[1].forEach(() => { for (;;) {} });", "max_steps": 1000})], timeout=6)[0]
    ctx.cov["evaluations"] += 1
    if w.startswith("TIMEOUT") or w.startswith("CRASH"):
        if f:
            ctx.known(f["id"], f["what"])
        else:
            ctx.prop_fail("bounded: a single step() never returned (callback of a native loops)", {"program": "[1].forEach(() => { for (;;) {} });", "impl": w})
    ctx.cov["distinct_nontrivial"] = len(distinct)
    ctx.cov["rule"] = ("(A) generated programs of script-to-script calls only (recursion, methods, constructors, static methods, closures, try/catch/finally): every step must execute exactly one instruction "
                       "with re-entry depth 0; infinite loops/recursions must be stoppable by a step budget / call_depth watch; (C) recursion of depth %d routed through %d call paths and %d size-taking "
                       "built-ins x sizes up to 2^53 / NaN / +-Infinity, each program in its own process group: value or catchable error, never abort/hang; (B) witness of the recorded re-entrancy finding. "
                       "distinct_nontrivial = distinct outcomes" % (depth, len(RECURSION_PATHS), len(SIZE_CALLS)))
    ctx.cov["input_distribution"] = hist
    ctx.sample({"program": json.loads(tl[0])["src"][:300], "impl": got[0]})
    ctx.sample({"recursion_path": "map", "impl": outs[0][:80]})
