"""Per-property registry used to generate MANIFEST.json (bin/mkmanifest)."""
BASE_NOTE = ("Trusted: Lean 4.33 kernel; axioms propext/Classical.choice/Quot.sound only (audited on every run, no native_decide/bv_decide/sorry/own axioms); "
             "the hand-written model definitions and theorem statements; the correspondence harness (Rust, linked against /repo's working tree) and bin/check. "
             "The theorems are about the Lean model; the model is tied to the code by the correspondence run of every check (differential, sampled/enumerated — not a proof). ")

CHECKS = {
    "C18": {
        "technique": "Lean 4 proof over M-Path (all strings) + exhaustive differential correspondence with ModulePath::resolve",
        "text": "All seven clauses of the property are Lean theorems over arbitrary specifier/importer strings (canonical absolute result, idempotence, "
                "spelling-invariance for ./, x/../ and //, bare pass-through, join+normalise characterisation). The model is a transcription of the 60-line Rust "
                "function and is compared with it on every pair over the property's 7-symbol alphabet up to 5 (quick) / 6 (thorough) segments plus random long non-ASCII paths.",
        "note": "Modelled, not verified: that M-Path equals the Rust function outside the enumerated/sampled pairs.",
        "design_ref": "DESIGN.md §4 C18",
    },
}
CHECKS["C13"] = {
    "technique": "Lean 4 proof over M-Heap (invariant by induction over all operation lists; mark soundness/completeness/termination) + differential correspondence with the real Heap/Guard/Gc after every operation",
    "text": "collect_exact (after a collection a slot is non-pooled iff reachable from a live guard), stats_exact, reachable_keeps_contents (for every history an object keeps its contents while reachable) "
            "and inv_step/inv_run are Lean theorems over the model of Space/Guard/Gc; the marker's termination within its fuel is proved, not assumed. The model is compared with the real generic Heap<T> "
            "on exhaustive short histories, random histories with stale handles/heap drop, and long histories crossing the 256-slot chunk and 16-guard pool boundaries; a python spec-level reference "
            "additionally evaluates the property on the implementation's observations alone.",
    "note": "Not shown by the proof: absence of undefined behaviour in the unsafe blocks (only the index arithmetic behind get_unchecked is a lemma); histories run in-process, so invalid accesses are visible only if they crash or corrupt observations.",
    "design_ref": "DESIGN.md §4 C13",
}
CHECKS["C15"] = {
    "technique": "Lean 4 proof over M-Num (exact Nat/Int arithmetic on decoded doubles) + bit-exact differential correspondence with number_to_string/to_int32/string_to_number/toFixed/toPrecision/toExponential/bitwise ops",
    "text": "ToInt32/ToUint32 wrap modulo 2^32 for every integer, shift counts mod 32, round-half-up on the exact decimal expansion is nearest with ties up for every (n, d), "
            "the exact expansion is exact, and the notation theorem (exponent form iff point outside (-6,21]) are Lean theorems for all inputs. The model's shortest-digit search "
            "(exact interval arithmetic) is compared with the Rust output on structured families of doubles (all powers of 2 and 10 with neighbours, every exponent x boundary mantissas, "
            "integers around 2^31..2^64, exact ties) plus random bit patterns; a python oracle (repr/Fraction) independently checks round-trip, shortest-ness, notation, exact rounding and correctly rounded parsing. M-RadixLit: literal_correct / value_bracket / scan_inv / rneAt_sticky (a 0x / 0o / 0b literal of ANY length is read as the correctly rounded double: 120 kept bits, dropped-bit count and one sticky bit suffice), compared with the lexer and with Python's exact int -> float on literals up to 1100 bits with exact ties and ties broken by one far digit.",
    "note": "Modelled, not verified: core::fmt digit generation and str::parse::<f64> (trusted parameters, compared differentially). Not yet covered: toString(radix) for non-integers, hex/octal/binary literals beyond 2^63. "
            "shortest-digit minimality is checked per double (model self-check + python oracle), not proved for all doubles.",
    "design_ref": "DESIGN.md §4 C15",
}
CHECKS["C16"] = {
    "technique": "Lean 4 proof over M-Json (structural induction over all documents/values) + differential correspondence through the five JSON entry points with python's json as the conforming parser",
    "text": "host_roundtrip (toJson (fromJson d) = d for every document with finite numbers), script_read_back (every member is found under the key spelling a script uses, for every key text), "
            "key_canon/propertyKey_injective (canonicalisation loses nothing, no collisions), stringify_wellformed and omitted_members are Lean theorems for all inputs. The model (incl. its own JSON "
            "parser/printer and string escaping) is compared with JSON.parse, JSON.stringify (with and without indent), api::create_from_json, js_value_to_json and a script-side walk on random documents, "
            "key spellings, escape forms over all Unicode planes, script-built values with undefined/functions/symbols/non-finite numbers, and cyclic values.",
    "note": "Modelled, not verified: serde_json's text printer/parser (trusted parameter, compared differentially); object member order is ignored; nesting beyond serde_json's limit of 128 is refused with a SyntaxError (documented limit); "
            "cycle refusal is checked on the implementation only (the model covers acyclic values).",
    "design_ref": "DESIGN.md §4 C16",
}
CHECKS["C10"] = {
    "technique": "Lean 4 proof over M-RegAlloc (allocator invariant, window soundness for every size, statement neutrality, constant-pool index soundness) + translator: inventory of the compiler's narrowing casts regenerated from the source and discharged by decide + op-by-op correspondence with the real BytecodeBuilder + self-checking size sweeps",
    "text": "alloc_fresh/reserve_fresh/window_sound (a register or window handed out is never live and lies inside the 8-bit file, or the request is refused - for every n), stmt_neutral (any properly nested op sequence "
            "between save and restore leaves cursor and save stack unchanged: no cumulative register limit), addDedup_sound/index_stable (16-bit constant indices never wrap, stay valid) are Lean theorems over all states/op lists; narrowing_reviewed is the obligation over the inventory of narrowing casts "
            "(`as u8`, `as u16`, `as JumpTarget`, ...) re-extracted from src/compiler/*.rs on every run, with multiplicity: a new cast breaks the build until reviewed. "
            "The model is compared op by op with the real allocator and constant pool (incl. >65535 constants); whole-program size sweeps (16 construct families, n = 0..600 dense at 2^7/2^8, cumulative families to 3000+, "
            "constant families around 2^16) must give the closed-form value or an explicit limit error, with a canary variable. Over M-Compile: codeE_isSome_iff / program_refused_iff (a statement is refused exactly when its register demand exceeds 255), codeE_regs / program_registers_in_file (no instruction names a register outside the chunk's register file); the allocator theorems' precondition (a register is freed once, by its holder) is observed by a cfg(tsrun_verif) hook while the real compiler compiles ~850 whole programs per run. The cumulative families (many small statements that each reserve a register window) are repeated as the body of 11 kinds of code block: function, method, constructor, derived constructor, arrow, getter, static block, generator, loop block, catch body, namespace.",
    "note": "Read from the source, not proved: that the compiler requests windows only through reserve_registers_for and brackets every statement with save/restore. Known finding: the constant-pool limit is per chunk (cumulative over statements).",
    "design_ref": "DESIGN.md §4 C10",
}
CHECKS["C20"] = {
    "technique": "Lean 4 proof over M-Pos (line/column formula, layout equivariance, source-map invariant and span_of_instr for all emit sequences) + correspondence with the real Lexer and get_source_location + planted-fault programs",
    "text": "pos_formula (line = 1 + #LT, column = 1 + characters since the last LT, for every prefix), layout_line/layout_col_* (inserting comments/blank lines/CRLF/tabs/wide characters moves a position exactly as the layout says), "
            "mapOk_step (source-map offsets stay strictly increasing), lookup_floor and span_of_instr (for every sequence of set_span/clear_span/emit the location looked up for an instruction is the one current when it was emitted) are Lean theorems. "
            "Token positions of the real lexer and every source-map lookup of real chunks are compared with the model; programs with planted runtime faults behind call chains of depth 0..12 and planted stray tokens, under random layouts, "
            "must report positions inside the planted expression/token and exactly the generated call chain. Call chains contain directly recursive functions whose activations stop at two different calls (the frames of one function must still report their own positions).",
    "note": "Not modelled: which span the compiler chooses at each set_span call site (covered only by the planted-fault programs). Known finding: untokenisable characters are reported at the next token.",
    "design_ref": "DESIGN.md §4 C20",
}
CHECKS["C09"] = {
    "technique": "Lean 4 proof over M-Mod (exactly-once, dependencies-first, termination and order-independence for every dependency function and every hash-map visiting order) + event-level correspondence with the real loader under generated supply schedules",
    "text": "process_loaded_nodup (no module body runs twice), process_depsFirst (every module runs after all modules it imports), process_terminates (pending.length+1 rounds suffice), "
            "process_order_independent (any two visiting orders of the FxHashMap give the same loaded set and the same pending set), unprovided_nodup/unprovided_spec (each request once, only for modules neither loaded nor supplied, "
            "always with an importer) are Lean theorems with the visiting order universally quantified. The model (with M-Path for specifier resolution) is compared with the real prepare/provide_module/step on the sequence of "
            "NeedImports lists and execution rounds for random DAGs of up to 8 modules under all-at-once, one-at-a-time, random subset/early/duplicate supply policies and all 24 one-at-a-time orders; PROP checks exactly-once, "
            "deps-first, expected values (named/default/namespace imports, re-exports, live bindings) and schedule-independence on the implementation's trace alone.",
    "note": "Module bodies are not modelled (values are checked against generator closed forms); live bindings are checked on the implementation only; cyclic graphs are outside the property.",
    "design_ref": "DESIGN.md §4 C09",
}
CHECKS["C08"] = {
    "technique": "Lean 4 proof over M-Orders (ledger invariants by induction over all event sequences) + trace validation of the real interpreter's Suspended lists against the model + protocol predicates on the trace",
    "text": "order_once (no id is ever handed to the host twice), reported_increasing (ids fresh and strictly increasing), issue_then_report (an issued, un-cancelled order is handed over by the very next report together with everything waiting), "
            "cancel_once (every cancellation event - explicit, rejected order promise, race loser - reaches the host exactly once, in order) and report_drains are Lean theorems over arbitrary interleavings of ledger events. "
            "M-Comb: all_fulfilled_any_order / all_order_independent / all_rejected_first / allSettled_waits / allSettled_not_pending / any_first_fulfilled / any_all_rejected (for any number of inputs and EVERY order in which the host settles them, "
            "Promise.all / allSettled / any settle exactly when the inputs decide them - not before, and never later: no lost wake-up) are Lean theorems; the model is compared with tsrun and the reference engine after every settlement of generated orders. "
            "Generated scripts (orders, awaits, all/race/any, getId, cancels) run under host policies (value/error/object/promise/order-promise responses, early and late settlement, spurious steps, junk answers, forced GC); "
            "the ledger events of each run are replayed through the model and its reports must equal the real Suspended lists; exactly-once, payload integrity, progress (no Suspended with nothing outstanding), completion, "
            "catchable error responses and response values are evaluated on the implementation's trace. A host that answers the NEXT order's id ahead of time (the quantifier's unknown ids): every order the program issues must still be handed to the host exactly once.",
    "note": "The script and the promise machinery are abstracted to ledger events (reconstructed from script markers and host actions); progress/quiescence/catchability are checked per run, not proved. Known findings: "
            "__cancelOrder__ unchecked; loser-then-rejected reported twice; cancellations buffered at completion are dropped.",
    "design_ref": "DESIGN.md §4 C08",
}
CHECKS["C14"] = {
    "technique": "Lean 4 proof over M-Roots (guard-stack invariant for every event sequence) and M-Heap (collection reclaims exactly the unreachable) + invariant evaluation on every real interpreter state + 8-fold repetition with live-object counts",
    "text": "inv_step/inv_run (env_guards always equals open scopes + call frames, for every sequence of push/pop scope, call, return from any depth, break/continue/finally unwinding, frame unwinding and uncaught errors), "
            "roots_balanced/uncaught_balanced/repeat_constant (a finished or failed run leaves the guard stack at its starting height, however often it is repeated) and collect_frees_unreachable (every slot no live guard reaches, cycles included, is reclaimed) are Lean theorems. "
            "The invariant is evaluated, through the Lean definition, on the real interpreter's state after every step of generated programs; each program (also ones ending in an uncaught error at a random depth) is run 8 times on one interpreter "
            "under several GC thresholds and host-forced collections, and the live-object count after collect() must stay constant and the run bookkeeping must be back at rest. Large peaks (6000-30000 objects live at once, then dropped; cycles; ending in a throw) are repeated 8 times at the default threshold.",
    "note": "Which objects the interpreter keeps reachable through root_guard and register guards is observed over repetitions, not modelled; programs outside the generator's grammar are not covered.",
    "design_ref": "DESIGN.md §4 C14",
}
CHECKS["C11"] = {
    "technique": "Lean 4 proof over M-Life (lifecycle state machine over M-Roots) + comparison of its predictions with verif_state after every run + observer programs against a fresh interpreter",
    "text": "quiescent_after_error (an uncaught error at any depth leaves no scope, guard, call-stack entry, active VM, module bookkeeping or scratch export), quiescent_after_complete, abandon_then_prepare_clean "
            "(prepare after a run abandoned at an arbitrary step gives exactly the state prepare gives on a clean interpreter), observer_equiv (any later run starts from the same lifecycle state as on a fresh interpreter) "
            "and wf_run (guard stack and call stack stay consistent with the VM frames for every event sequence) are Lean theorems. Histories of victim runs (uncaught error planted at random depth, abandoned at step "
            "0..1500, throwing module bodies) followed by observer programs are run on the real interpreter: verif_state after each run must equal M-Life's prediction, no local of the dead run may be visible, "
            "and the observer's result must equal its result on a fresh interpreter. Victims now include internal source modules (registered by the host) that fail while they are instantiated - in their body or in their own import bindings - imported by a plain script through both entry points.",
    "note": "Suspended runs (orders / pending promises) left behind by the host are not reset by prepare() and are not part of the model; effects the victim makes deliberately on the global object are excluded by the property.",
    "design_ref": "DESIGN.md §4 C11",
}
CHECKS["C02"] = {
    "technique": "Lean 4 proof over M-Heap (a collection is the identity on the reachable sub-graph; idempotent) and M-Reset (a reused slot equals a fresh object whatever the dead object held; the field tables are regenerated from src/value.rs on every run) + schedule-differential runs of template and generated programs over 11 collection schedules",
    "text": "collect_reach_iff (a collection changes no reachability), collect_invisible (contents and edges of every reachable object are untouched), collect_roots, collect_idempotent and gc_transparent_step "
            "(an operation gives the same reachable contents whether or not a collection ran just before it) are Lean theorems over the model tied to src/gc.rs by C13. That interpreter and natives keep what they use rooted is searched "
            "for violations: 25 template programs targeting natives that allocate while holding inputs, allocating callbacks/getters/proxy traps, generators, pending promises with both reactions, async functions, closures, "
            "collections, iterables, plus generated programs and order/host-promise scripts run with collection disabled, at the default threshold, thresholds 1/2/3/5/7/100 and host collect() after every 1/7/50 steps; every schedule must give the outcome of the collection-free run. Since the fourth session: 26 natives that call back per element x 6 ways in which the callback shrinks or overwrites the SOURCE array, under every collection schedule (found Array.from / Map.groupBy / Object.groupBy holding unrooted copies of the elements; repaired). M-Reset: a swept slot is reused, so Gen/ResetFields.lean (regenerated from value.rs on every run: fields of JsObject, impl Reset, JsObject::new()) carries the obligation reset_is_fresh, lifted by reset_forgets / reset_history_invisible to every state the dead object may have been left in; slot-history programs (21 kinds of objects left sealed / frozen / non-extensible / exotic / with null or own prototypes x 3 kinds of fresh objects) look for a concrete leak under every collection schedule.",
    "note": "Root discipline of the ~400 natives is not proved, only exercised; a premature reclamation is visible only if the object is used afterwards in a way that changes value, console text or error class. No stale-handle monitor (hook H1 of the design) was built.",
    "design_ref": "DESIGN.md §4 C02",
}
CHECKS["C19"] = {
    "technique": "Lean 4 proof over M-Run (the two result-mapping copies agree; running in one go equals any chunking into steps) + source re-read of both Rust copies on every run + five-entry-point and three-role transcript comparison",
    "text": "map_result_eq (run_vm_to_completion and process_vm_result map every terminal VM result and ledger state alike), run_eq_steps/single_steps_eq_run (for every deterministic VM, every partition of the run into chunks with pauses - "
            "one instruction at a time included - ends in the same state/result) and terminal_stable are Lean theorems. On every run the two Rust match blocks are re-extracted from src/interpreter/mod.rs and must be textually identical "
            "(so one transcription covers both). Generated scripts, entry modules, import graphs and order-issuing programs go through eval, prepare+step, step with interleaved API reads and collect(), C API tsrun_run and C API tsrun_step; "
            "transcripts (import requests, order traffic with payloads, result, exports, console) must be equal; generated modules must behave identically as entry program, provided dependency and internal source module. Over M-Compile: completes_under_every_schedule / throws_under_every_schedule (every chunking of step() calls of a compiled program of the modelled core ends in the state the reference semantics prescribes). Sessions: one to three earlier programs (failing or completing, with or without a module path, with exports collected before a failure) run in the same interpreter through the same entry point before the program compared.",
    "note": "The VM is an abstract deterministic step function in the model; the three export-wiring functions and the C API glue are not modelled, only compared by transcripts.",
    "design_ref": "DESIGN.md §4 C19",
}
CHECKS["C12"] = {
    "technique": "Lean 4 proof over M-Iso (product isolation for arbitrary deterministic machines, address-renaming invariance of keyed tables) + translator: inventory of global state and address-keyed iterations regenerated from /repo/src and discharged by decide + transcript equality across processes/threads/interleavings/lifetimes",
    "text": "product_isolation (in every interleaving of two instances each instance's outputs and final state are those of its solo run), map_addr_invariant (results of any insert/get/remove/contains sequence on an address-keyed table "
            "are invariant under every injective re-assignment of addresses) are Lean theorems; globals_allowed / iterations_allowed are obligations over Gen/Globals.lean, which bin/extract regenerates from the Rust sources on every run "
            "(statics, thread-locals, global cells/atomics; iterations over VarKey/Gc/callback-id keyed tables) - a new global or a new address-ordered iteration breaks the build. Groups of generated programs are run solo, after other instance lifetimes, "
            "one thread each and interleaved step-by-step under random schedules, every variant in two processes; transcripts with the step index of every event must be identical; several top-level tasks on one interpreter woken by one host action must resume in the same order everywhere. A recursion-limit probe (10 native-callback shapes x 6 lead-in depths: the depth reached before the RangeError) runs in 12 (thorough: 48) fresh processes whose environments differ in size, on the main thread and on spawned threads; all outputs must be equal.",
    "note": "The inventory is syntactic (regex-level reader); determinism of seedless FxHash iteration over counter-keyed tables is exercised, not proved; time/random providers are not read by the generated programs.",
    "design_ref": "DESIGN.md §4 C12",
}
CHECKS["C06"] = {
    "technique": "Lean 4 proof over M-Step (cost and native-stack accounting for every instruction list and nesting depth; guard arithmetic for every size) + translator: the set of natives that re-enter the interpreter regenerated from /repo/src and discharged by decide + per-step instruction counters and one-process-per-program abort search",
    "text": "step_unit/steps_count_work (on programs whose calls are all script-to-script every step executes exactly one instruction, so a host counting steps counts work, for every program), deep_script_calls_no_native_stack "
            "(script call depth never consumes native stack), native_depth_of_nest + guard_bounds_stack (native stack use equals the nesting of re-entrant natives and the guard refuses beyond its budget, for every depth), "
            "alloc_guarded/huge_refused (every size above the limit is refused before allocation, for every n) are Lean theorems; step_unbounded_with_reentrant_native proves the negative part (a re-entrant native makes one step as long as its callback). "
            "reentrant_allowed is an obligation over Gen/Reentrant.lean which bin/extract regenerates from the Rust sources (every native that calls back into the interpreter) - a new re-entrant native breaks the build until reviewed. "
            "Generated trampolined programs are stepped with the cfg(tsrun_verif) counters (exactly 1 instruction per step, re-entry depth 0, step/depth budgets stop loops); recursion through 42 call paths and 28 size-taking built-ins x 21 sizes up to 2^53 "
            "run one process each and must end in a value or a catchable error. Over M-Compile (C01's compiler/VM model): codeE_targets / codeS_targets (every jump and catch target the compiler emits lies inside the construct's own code) and compiled_never_faults (for every statement, every run - terminating or not - keeps the program counter and the try stack inside the code: no step faults). A family of 85 programs in which an accessor / toJSON / iterator / trap WRITES to the object the native is reading. Cyclic values (self-containing arrays, two-array cycles, objects whose toString re-enters) go through 58 routes that turn a value into a string or number (receivers and arguments of String built-ins, operators, property keys): each must return or throw a catchable error.",
    "note": "Known finding: a callback run by a re-entrant native (Array.prototype.map, getters, Proxy traps, ... - the extracted list) executes inside ONE step, so a looping callback is not bounded by step counting. "
            "Not counted: time spent in a garbage collection triggered by a step; Rust stack use per native frame is bounded by a 1 MB budget measured by stack addresses, not proved.",
    "design_ref": "DESIGN.md §4 C06",
}
CHECKS["C04"] = {
    "technique": "Lean 4 proof over M-Emit (tsrun's lowering of enums/namespaces/parameter properties equals the TypeScript emit for every declaration) + correspondence of the model with the real compiler on generated declarations + TypeScript-vs-emit differential on tsrun (node as secondary reference when present)",
    "text": "lower_eq_emit (for every well-formed member list and every starting object - merged declarations - the lowered enum builds exactly the object of the emit), forward_lookup / reverse_last_writer / auto_increment "
            "(E.X is the last member named X, E[n] the last member with value n, a member without initialiser is its predecessor plus one), ns_block_alias_eq_emit / ns_merged_alias_eq_emit / ns_export_is_property "
            "(alias bindings compute the namespace object of the emit for every body and every sequence of merged blocks; exported variables are live), ctor_param_properties are Lean theorems. The model's lowered object is compared "
            "with the object the real compiler builds for every generated enum and pure namespace; every generated TypeScript program (enums, namespaces, parameter properties, abstract classes; top level or in a function) must behave "
            "like its JavaScript emit on tsrun and on the reference engine. Generated abstract classes also hold the other members that emit nothing (declared fields, overload signatures, an index signature) and static initialisation blocks at every position, whose execution order is part of the observation.",
    "note": "The emit text is produced by the check's generator; fractional/NaN enum values, functions inside namespaces, derived-class constructor order and abstract members are covered by the differential only. "
            "Object key order is not compared (a C01 matter).",
    "design_ref": "DESIGN.md §4 C04",
}
CHECKS["C03"] = {
    "technique": "Lean 4 proof over M-Erase (erasure removes all static syntax, fixes plain programs, is a projection; all annotation variants share one meaning) + translator: the parser's type-node kinds regenerated from /repo/src/ast.rs and discharged by decide + bytecode identity and outcome identity of decorated vs model-erased programs through the real parser and compiler",
    "text": "strip_plain / strip_of_plain / strip_idem / variant_strip / variants_agree are Lean theorems over the model's program and type grammar (every decoration position x every type form); kinds_covered ties the grammar to enum TypeAnnotation of the "
            "current source. The model's executable generator draws decorated programs from that grammar; for each, the decorated text and the model's erased text are compiled by the real parser+compiler - the bytecode of every chunk must be "
            "identical (types generate no code and shift no neighbouring parse) - and run - outcomes must be identical; a hand corpus covers '<T>(x)' beside comparison chains, literal type arguments, 'as' in templates, '!' before '.'/'[', "
            "overloads, modifiers, declare/ambient forms and type-only imports/exports. Since the fourth session M-Erase has static initialisation blocks and assignment expressions; blocks are placed directly after members without run-time meaning (index signatures, declare fields).",
    "note": "The erasure is verified in the model; that tsrun's parser+compiler implement it is compared per generated program (bytecode identity is stronger than sampling inputs for that program, but programs are sampled). "
            "Decorators and JSX are outside the model.",
    "design_ref": "DESIGN.md §4 C03",
}
CHECKS["C05"] = {
    "technique": "Lean 4 proof over M-Parse (work of speculative parsing with/without the failure memo, recursion depth under the guard, depth of loop-built chains - for every nesting structure) + deterministic lexer-work counter of the real front end against the model's bounds + abort/panic/loop search over generated inputs on a 2 MB thread",
    "text": "costFirst_le / costFirst_quadratic (with the failure memo a speculative parse of any nesting structure costs at most size x depth <= size^2 construct visits), costNaive_chain (without it k nested constructs cost 2^(k+1)-1), "
            "guard_bounds_recursion / guard_accepts_iff (the guarded descent never enters a level beyond limit+1 and accepts exactly by depth, monotonically), leftDeep_depth, "
            "chain_accounting_bounds_depth (whatever the parser's accounting of loop-built chains accepts - chains in heads, operands and nested constructs, in any distribution - is at most MAX_CHAIN levels deeper than the parser's own guarded recursion; "
            "nestedChains_tdepth exhibits the family a per-loop limit lets through) are Lean theorems over all skeletons / trees; limits_sane is the obligation over the constants re-extracted from the source. "
            "The real parser+compiler run every input on a 2 MB thread with the cfg(tsrun_verif) token counter and a work budget (the stack-bound inputs once more with tsrun built without optimisation on a 1.75 MB thread): 70 nesting/chain families up to 200000 levels, products of 15 recursive constructs x 8 loop-built chains with chain lengths up to the limit, random trees whose accept/refuse verdict is compared with the model's accounting (doubling sizes: growth at most quadratic; acceptance monotone), "
            "random skeletons rendered in 9 syntactic families (work <= K x model cost), prefixes and single-token mutations of valid programs, token soups, random bytes, truncated-construct corpus: outcome must be accept or a syntax/compile error value.",
    "note": "The work unit of the model (construct visit) and of the code (lexer token) are related by calibrated constants; the depth guard is a byte budget in the code and a level count in the model. Totality outside the modelled mechanisms is searched, not proved.",
    "design_ref": "DESIGN.md §4 C05",
}
CHECKS["C07"] = {
    "technique": "Lean 4 proof over M-Susp (save/restore is a round trip on every VM state; hence every run is independent of which awaits suspended, of the host's defaults and of the settlement order of independent promises) + translator: the field lists of BytecodeVM/SavedVmState/TrampolineFrame/SavedTrampolineFrame regenerated from the source and discharged by decide + host-schedule-vs-stub differential",
    "text": "restore_save (for every VM state - registers, this, open block scopes, try stack, handled exception, completion pending behind finally, suspended callers, environment - restore(save v) = v), "
            "run_mode_independent / run_schedules_agree / run_host_independent (for every continuation function, every value sequence and every choice of which awaits really suspended, the outcome is that of the run that never suspends), "
            "lookup_perm (reads from independently settled promises do not depend on settlement order), lossy_not_roundtrip (the pre-repair save is refuted by a witness) are Lean theorems; fields_saved is the obligation over Gen/VmFields.lean "
            "(a VM field that is neither saved nor reviewed as transient breaks the build). Generated async programs with awaits at every syntactic position run with host-suspending order() under six schedules and with an in-program stub; outcomes must be identical. fields_faithful: the four record literals of save_state / from_saved_state are re-extracted on every run and every field must take its value from the field of the same name of the same record (frame.x, self.x, saved.x, state.x; reviewed renamings). Every kind of synchronous caller frame is forced once per run, including a three-level constructor chain whose middle constructor suspends before super(); several blocking orders outstanding at once (a native calls order per element) answered in one call or one call each; programs tsrun cannot parse are reported instead of being compared with themselves.",
    "note": "The VM's continuation is an arbitrary function of the listed fields in the model; dependence on interpreter-level state outside them is covered by the differential only. Known finding: await inside an async generator body cannot suspend.",
    "design_ref": "DESIGN.md §4 C07",
}
CHECKS["C17"] = {
    "technique": "Lean 4 proof over M-Ffi (handle discipline of the C API: NULL arguments reported, release order irrelevant, values outlive contexts, duplicates independent, every touched object exists in a well-formed state) + call-by-call correspondence with the real C API + every sequence under valgrind memcheck",
    "text": "touches_exist, null_context_reported / null_value_reported, free_commutes_ctx_free, getters_survive_ctx_free, dup_independent, wf_init are Lean theorems over the model of the data plane. Generated call sequences "
            "(constructors, getters, properties under 12 key spellings incl. NULL, arrays, globals, dup, release of boxes and contexts in any order, NULL and survivors of released contexts as arguments) are executed by the real API "
            "(linked with --features c-api) and by the model; every result token must agree and every model state must satisfy the well-formedness predicate. Full sequences add scripts, native callbacks re-entering the API, internal modules, "
            "orders answered and released at once, promises and calls; all sequences run under valgrind memcheck (invalid read/write/free = violation) and every returned string is checked for NUL termination, UTF-8 validity and length. Every step result is inspected after its release (all array pointers NULL, all counts 0) and released a second time; scenarios in which the host rejects order promises it created make the next suspension carry cancelled ids.",
    "note": "Memory safety is observed by memcheck on generated sequences, not proved; preservation of well-formedness by every model operation is evaluated per run, not proved. The script side (what natives/orders do inside the interpreter) is not modelled.",
    "design_ref": "DESIGN.md §4 C17",
}
CHECKS["C01"] = {
    "technique": "Lean 4 proof over M-Compile (the expression/statement compiler with its register allocator and jump patching, and the register VM: for every expression and statement of the modelled core, the emitted code computes what ECMAScript's evaluation order prescribes - value, side effects, thrown error - and the compiler refuses exactly when the construct's register demand exceeds 255; the model's instruction listing is compared with Compiler::compile_statement's on every run), M-Pratt (the precedence-climbing loop, for every operator table and every expression tree; the table of the current source is regenerated from parser.rs and proved order-isomorphic to ECMA-262's), M-Lib (relative-index arithmetic of the array/string built-ins for all lists and all arguments), M-Ops (ECMAScript operators and coercions on primitives) and M-Ctl (completion-record semantics of blocks, loops, labels, switch, try/catch/finally, temporal dead zone) + correspondence of both models with tsrun on exhaustive operand cross products and Lean-generated programs + differential against a reference engine (node, or golden outputs recorded from it) over operators x operand shapes, the built-in library and feature programs + reference-free equivalence of spellings",
    "text": "M-Compile: compileE_eq / compileS_eq / compileProgram_eq (the compiler as written - RegisterAllocator alloc/free, emit_jump placeholders, patch_jump - emits exactly the structured code codeE / codeS and restores the allocator: stack discipline), "
            "codeE_ok / codeS_ok / compileE_correct / program_completes / program_throws (for every value domain and operator semantics, every expression - literals, variables, unary, binary, && || ??, ?:, comma, =, op=, &&= ||= ??=, ++/-- - and every statement - expression, if, while, do-while, block - of any size, "
            "any initial registers and environment: the VM running the emitted code ends with the value in the destination register, the environment the reference semantics prescribes (left-to-right operands, target read before the right-hand side of a compound assignment, short-circuit forms evaluate and assign only when needed), "
            "every live register of the enclosing constructs untouched, or throws the same error after the same side effects; loops by induction on the iteration count), run_unique (the outcome does not depend on the fuel), "
            "program_refused_iff / codeE_isSome_iff / rightNested_limit / leftNested_limit (a statement is refused exactly when its register demand needS exceeds 255: 127 right-nested or 253 left-nested additions compile, one more does not) are Lean theorems; "
            "on every run the model's listing (instructions, registers, jump targets, constants, register count) is compared with the real compiler's on 1.6k (quick) / 6k (thorough) generated statements including the register-exhaustion boundaries, and the variables 2k / 8k statements leave behind (or the error they throw, and the side effects before it) with the reference engine and tsrun. "
            "parse_minimal_parens / parse_wellformed (for every operator table and every expression tree of any size, the Pratt loop recovers the tree from its minimally parenthesised token list), parse_order_iso (the parse depends on the table only through the order of its numbers and the associativity flags), "
            "table_is_spec + gen_parses_as_spec (the 25-row table, the break test, the next_prec rule, the logical-operator mapping and the prefix operators regenerated from src/parser.rs by bin/extract parse EVERY token list exactly as ECMA-262's nesting of productions does) are Lean theorems; "
            "the model with the regenerated table is compared with the real parser on all 625 operator pairs and 3000 (quick) / 40000 (thorough) random and malformed token lists, the real parser with the model under the specification's table, and every text with its fully parenthesised tree by evaluation. "
            "M-Coerce: toPrim_exclusive / string_hint_toString_first / number_hint_valueOf_first / calls_at_most_once / both_left_first / strict_never_converts / nullish_eq_no_convert / prim_passthrough (ToPrimitive and every operator over object operands: which "
            "conversion method is called, in which order, at most once, left operand first, never for === or against null/undefined; TypeError when no primitive results) for every behaviour of the methods, compared with tsrun and the reference engine (result and call log). "
            "M-Obj: lookup_nearest / lookup_append_miss ([[Get]] finds the nearest holder on a prototype chain of any length), forIn_mem_iff / forIn_nodup (for-in reports exactly the keys whose nearest holder has them enumerable, each once, a nearer non-enumerable property hides an inherited one), "
            "resolveCall_spec / bind_compose / new_call_agree (any number of bind layers passes all bound arguments, innermost first, to the innermost target; new and call agree) are Lean theorems, compared with tsrun and the reference engine on generated chains and bind layers. "
            "M-Lib: slice_contiguous / slice_length / slice_last / splice_partition / splice_lengths / fill_get / with_isSome_iff / indexOf_first / substring_swap / padStart_length ... (27 theorems: the relative-index arithmetic of slice, splice, at, with, fill, copyWithin, indexOf, "
            "lastIndexOf, substring, substr, charAt, padStart/End, repeat for every list of any length and every argument - absent, NaN, +-Infinity, every integer, every non-integral number); M-Lib is compared with tsrun and the reference engine on every list up to length 5 x the boundary argument set (33k quick / 93k thorough calls). "
            "Symmetry of ==/===, NaN and null/undefined rules, string concatenation, commutativity of number addition, the equivalent spellings (+v = v-0 = v*1, -v = v*-1 but not 0-v, a>b = b<a, != = !==) are Lean theorems over all values; "
            "that a finally block keeps the pending completion when it ends normally and overrides it otherwise, that catch binds the thrown value, that break/continue reach exactly their own label and that a block-level let shadows from the start of its block (TDZ) "
            "are Lean theorems over all programs, states and fuel. M-Ops is compared with tsrun on every pair of 45+ primitive operands x 14 binary and 5 unary operators; M-Ctl on 400 (quick) / 6000 (thorough) programs generated in Lean. "
            "About 30k operator expressions over objects/arrays/functions/wrappers, 10-25k library calls with boundary arguments (NaN, -0, negative/fractional/out-of-range indices, empty and non-ASCII strings, holes), 100 feature programs x parameters and 8k+ pairs of equivalent spellings are evaluated on tsrun and compared with the reference engine / with each other.",
    "note": "The core language beyond the two models (functions, classes, destructuring, generators, library) is covered by the differential only - sampled, not proved. The reference engine (V8) is trusted as the exhibit of the specification; implementation-defined and implementation-approximated results are relaxed as listed in checks/c01_corpus.py. Known findings: array holes, strings as code-point sequences, integer-key ordering, Function.prototype.toString text, array keys()/entries() returning arrays.",
    "design_ref": "DESIGN.md §4 C01",
}
NOT_YET = {}
