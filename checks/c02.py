"""C02 — garbage collection is invisible (DESIGN.md §4 C02)."""
import json
from . import common, gen

LEAN_TARGETS = ["TsrunVerif.Props.C02", "TsrunVerif.Props.C02Reset"]
THEOREMS = ["TsrunVerif.Heap." + t for t in [
    "mem_rootsOf", "mem_succs", "collect_reach_iff", "collect_invisible", "collect_roots", "collect_idempotent",
    "gc_transparent_step", "collect_exact", "reachable_keeps_contents", "inv_run"]] + \
    ["TsrunVerif.ResetObj." + t for t in ["reset_is_fresh", "reset_forgets", "reset_history_invisible"]]
ASSUMPTIONS = [
    "M-Reset: a swept slot is reused, not freed; Gen/ResetFields.lean is regenerated on every run from src/value.rs (fields of struct JsObject, the assignments of impl Reset for JsObject, the literal of JsObject::new()); "
    "reset_forgets: whatever state the dead object was left in, the reset slot equals the fresh object field by field (clear() of the property storage is the reviewed equivalent of PropertyStorage::new()). "
    "The extractor is a regex-level reader; what the code that allocates INTO a reused slot overwrites afterwards is not modelled (it is exercised by the slot-history programs)",
    "the theorems are about M-Heap (tied to src/gc.rs by C13's correspondence): a collection is the identity on the sub-graph reachable from live guards. "
    "That the interpreter and its ~400 natives keep every object they still use reachable from a guard (root discipline) is NOT proved: it is searched for violations by running every "
    "generated program under all collection schedules and requiring identical outcomes",
    "a root-discipline violation is visible only if the prematurely reclaimed object is used afterwards in a way that changes the outcome (value, console text, error class)",
]
ALLOC = "function churn(n: number) { const junk: any[] = []; for (let i = 0; i < n; i++) { junk.push({i, s: 'x' + i, a: [i, i + 1]}); } return junk.length; }\n"

# natives that allocate while holding inputs, callbacks that allocate, getters, proxies, generators, promises …
# natives that call back per element: the callback shrinks / overwrites the SOURCE array, so elements the native has copied but not yet
# visited are reachable from nothing else (6 mutations x 26 natives; found Array.from, Map.groupBy, Object.groupBy on the unchanged tree)
SRC_MUTS = ["a.length = 3", "a.length = 0", "a.splice(2)", "a.fill(0 as any)", "a[3] = 0; a[4] = 0; a[5] = 0", "a.pop(); a.pop(); a.shift()"]
SRC_NATIVES = [
    "sv(a.map(x => { M(); return x && x.v; }))", "(() => { const r: any[] = []; a.forEach(x => { M(); r.push(x && x.v); }); return sv(r); })()", "sv(a.filter(x => { M(); return true; }))",
    "sv(a.find(x => { M(); return x && x.v === 5; }))", "sv(a.findLast(x => { M(); return x && x.v === 1; }))", "sv(a.some(x => { M(); return x && x.v === 9; }))", "sv(a.every(x => { M(); return true; }))",
    "sv(a.reduce((acc, x) => { M(); acc.push(x && x.v); return acc; }, [] as any[]))", "sv(a.reduceRight((acc, x) => { M(); acc.push(x && x.v); return acc; }, [] as any[]))",
    "sv(a.flatMap(x => { M(); return [x, x]; }))", "sv(a.slice().sort((p, q) => { M(); return (p && p.v || 0) - (q && q.v || 0); }))", "sv(a.sort((p, q) => { M(); return (q && q.v || 0) - (p && p.v || 0); }))",
    "sv(a.toSorted((p, q) => { M(); return (q && q.v || 0) - (p && p.v || 0); }))", "sv(Array.from(a, x => { M(); return x; }))", "sv([...Map.groupBy(a, x => { M(); return x && x.v % 2; })])",
    "sv(Object.groupBy(a, x => { M(); return x && x.v % 2 ? 'o' : 'e'; }))", "(() => { const r: any[] = []; for (const x of a) { M(); r.push(x); } return sv(r); })()",
    "(() => { const it = a[Symbol.iterator](); const r: any[] = []; for (;;) { const s = it.next(); if (s.done) break; M(); r.push(s.value); } return sv(r); })()",
    "(() => { const r: any[] = []; for (const [i, x] of a.entries()) { M(); r.push(x); } return sv(r); })()", "a.map(x => ({ toString() { M(); return String(x.v); } })).join('-')", "sv(a.findIndex(x => { M(); return x && x.v === 6; }))",
    "(() => { const st = new Set(a); const r: any[] = []; st.forEach(x => { if (n++ === 1) { st.clear(); } J(); r.push(x); }); return sv(r); })()",
    "(() => { const mp = new Map(a.map((x, i) => [i, x])); const r: any[] = []; mp.forEach((x, k) => { if (n++ === 1) { mp.clear(); } J(); r.push(x); }); return sv(r); })()",
    "(() => { const it = { [Symbol.iterator]() { let i = 0; return { next() { M(); return i < a.length ? {value: a[i++], done: false} : {value: undefined, done: true}; } }; } }; const [p, q, ...rest] = it as any; return sv([p, q, rest]); })()",
    "sv([].concat(...a.map(x => { M(); return [x]; })))", "'abcdef'.replace(/[a-f]/g, (c) => { M(); return sv(a[c.charCodeAt(0) - 97]); })",
]
SRC_PRE = ("const a: any[] = [1,2,3,4,5,6].map(v => ({v})); let n = 0; const J = () => { const junk: any[] = []; for (let i = 0; i < 60; i++) junk.push({i}); return junk.length; }; "
           "const M = () => { if (n++ === 1) { MUT; } J(); }; const sv = (x: any) => JSON.stringify(x, (k, v) => v === undefined ? 'U' : v);\n")
SOURCE_MUTATION = [SRC_PRE.replace("MUT", m) + nat for nat in SRC_NATIVES for m in SRC_MUTS]

# slot history: objects left in every non-default state (sealed, frozen, non-extensible, null prototype, own prototype, exotic kinds, accessors,
# private fields) become garbage; the objects allocated afterwards - in the reused slots when a collection ran - must be plain fresh ones
SLOT_DIRTY = ["Object.seal({a: i})", "Object.freeze({a: i})", "Object.preventExtensions({a: i})", "Object.create(null)", "Object.create({inherited: i})", "[i, i]", "(() => i)",
              "new Map([[i, i]])", "new Set([i])", "new Date(i)", "/x/g", "new (class { #p = i; q = 1; })()", "Object.defineProperty({}, 'k', {get() { return i; }})", "new Proxy({}, {})",
              "Promise.resolve(i)", "(function* () { yield i; })()", "new Error('e' + i)", "Symbol('s' + i) && Object(Symbol('s' + i))", "new Number(i)", "Object.seal([i])", "Object.freeze(() => i)"]
SLOT_PROBE = ("(() => { const r: any[] = []; for (let j = 0; j < 40; j++) { const o: any = KIND; o.fresh = j; r.push([Object.isSealed(o), Object.isFrozen(o), Object.isExtensible(o), Object.keys(o).join(), "
              "o.fresh === j, Object.getPrototypeOf(o) === PROTO, typeof o, 'inherited' in o, 'k' in o, 'a' in o].join('/')); } return [...new Set(r)].join('|') + ':' + r.length; })()")
SLOT_HISTORY = ["for (let round = 0; round < 3; round++) { for (let i = 0; i < 70; i++) { const d: any = %s; if (i %% 7 === 0) { churn(2); } } }\nchurn(3) + ':' + %s"
                % (d, SLOT_PROBE.replace("KIND", k).replace("PROTO", pr)) for d in SLOT_DIRTY for k, pr in (("{}", "Object.prototype"), ("[]", "Array.prototype"), ("(() => 1)", "Function.prototype"))]
TEMPLATES = SOURCE_MUTATION + SLOT_HISTORY + [
    # natives that accumulate results while calling back: the callback takes the accepted element out of the source, so the pending result is its only holder
    "const a: any[] = [1, 2, 3, 4].map(v => ({v, pad: [v]})); const r = a.filter((o, i) => { if (i > 0) { a[i - 1] = null; churn(40); } return true; }); churn(20); r.map(o => o.v + ':' + o.pad[0]).join(',')",
    "const a: any[] = [1, 2, 3, 4].map(v => ({v, pad: [v]})); const r = a.map((o, i) => { if (i > 0) { a[i - 1] = null; } churn(40); return {w: o.v, q: [o.v]}; }); churn(20); r.map(o => o.w + ':' + o.q[0]).join(',')",
    "const a: any[] = [1, 2, 3].map(v => ({v, pad: [v]})); const r = a.flatMap((o, i) => { if (i > 0) { a[i - 1] = null; } churn(40); return [o, {c: o.v}]; }); churn(20); r.map((o: any) => (o.v || o.c)).join(',') + r.length",
    "const a: any[] = [3, 1, 2].map(v => ({v, pad: [v]})); const f = a.find((o, i) => { if (i === 1) { a[0] = null; churn(60); } return o.v === 2; }); const fl = a.findLast((o: any) => { churn(10); return o && o.v === 2; }); a.length = 0; churn(60); f.pad[0] + ':' + fl.pad[0]",
    "const a: any[] = [1, 2, 3, 4].map(v => ({v})); const r = a.reduce((acc: any, o, i) => { a[i] = null; churn(30); return {sum: acc.sum + o.v, list: [...acc.list, {o}]}; }, {sum: 0, list: []}); churn(30); r.sum + ':' + r.list.map((x: any) => x.o.v).join('')",
    "const src: any[] = [1, 2, 3].map(v => ({v, pad: [v]})); const s = new Set(src); src.length = 0; const out: any[] = []; s.forEach(o => { s.delete(o); churn(40); out.push(o); }); const m = new Map<any, any>([[{k: 1}, {val: [1]}], [{k: 2}, {val: [2]}]]); const got: any[] = []; m.forEach((v, k) => { m.delete(k); churn(40); got.push([k, v]); }); churn(20); out.map(o => o.pad[0]).join('') + got.map(e => e[0].k + ':' + e[1].val[0]).join(',')",
    "const a: any[] = [1, 2, 3, 4].map(v => ({v, pad: [v]})); const r = a.toSorted((x, y) => { a.length = 0; churn(10); return y.v - x.v; }); const e = Object.entries({p: {x: [1]}, q: {x: [2]}}).map(([k, v]: any) => { churn(20); return k + v.x[0]; }); churn(20); r.map((o: any) => o.pad[0]).join('') + e.join('')",
    # combinators over DERIVED promises nobody else holds: the early results live only in the combinator's own state (found on the unchanged tree; fixed)
    "let r1: any, r2: any, r3: any; const p1 = new Promise(r => { r1 = r; }); const p2 = new Promise(r => { r2 = r; }); const p3 = new Promise(r => { r3 = r; }); const out: string[] = []; Promise.all([p1.then(v => ({s: [v]})), p2.then(v => ({s: [v, v]})), p3]).then(rs => out.push(JSON.stringify(rs))); r1(1); churn(60); r2(2); churn(60); r3({t: 3}); churn(20); out.join('')",
    "let r1: any, r2: any, j3: any; const p1 = new Promise(r => { r1 = r; }); const p2 = new Promise(r => { r2 = r; }); const p3 = new Promise((_, j) => { j3 = j; }); const out: string[] = []; Promise.allSettled([p1.then(v => ({s: v})), p2, p3]).then(rs => out.push(JSON.stringify(rs))); r1('a'); churn(80); j3({why: ['x']}); churn(80); r2({b: 2}); churn(20); Promise.any([new Promise((_, j) => { churn(30); j({e: 1}); }), p2.then(v => ({w: v}))]).then(v => out.push(JSON.stringify(v))); churn(40); out.join('|')",
    # objects reachable only through a bound function's arguments, through a Map entry keyed by an object, through a started generator's parameters, through a yield* delegate
    "function mk() { const f = function (this: any, a: any, b: any, c: any) { return this.t + a.v[0] + b.w + c; }; return f.bind({t: 'T'}, {v: [7]}, {w: 'W'}); } const bf = mk(); churn(120); const r1 = bf('x'); churn(50); r1 + bf('y')",
    "const m = new Map<any, any>(); (() => { for (let i = 0; i < 5; i++) m.set({id: i}, {val: [i, i], tag: 't' + i}); })(); churn(150); let acc = ''; for (const [k, v] of m) { churn(5); acc += k.id + v.tag + v.val.length; } const ws = new Set<any>(); (() => { for (let i = 0; i < 4; i++) ws.add({n: [i]}); })(); churn(100); for (const e of ws) acc += e.n[0]; acc",
    "function* gen(a: any, b: any) { churn(30); yield a.x[0]; churn(30); yield b.y.z; churn(30); return a.x.length + b.y.z; } const it = (() => gen({x: [4, 5]}, {y: {z: 6}}))(); churn(100); const r: any[] = []; let st = it.next(); while (!st.done) { r.push(st.value); churn(60); st = it.next(); } r.join() + '/' + st.value",
    "function mkIter() { let i = 0; const payloads = [{p: 'a'}, {p: 'b'}, {p: 'c'}]; return {[Symbol.iterator]() { return {next() { churn(10); return i < 3 ? {done: false, value: payloads[i++]} : {done: true, value: {ret: 'R'}}; }}; }}; } function* outer(): any { const r = yield* (mkIter() as any); churn(20); return r.ret; } const it = outer(); const got: string[] = []; let st = it.next(); while (!st.done) { churn(80); got.push(st.value.p); st = it.next(); } got.join('') + st.value",
    # several reactions on one pending promise: the ones still waiting while the first runs (rejection and fulfilment)
    "let rej: any; const p = new Promise((_, r) => { rej = r; }); const out: string[] = []; p.then(() => out.push('a-ok'), e => { churn(30); out.push('a-err ' + e); }); p.then(() => out.push('b-ok'), e => { churn(30); out.push('b-err ' + e); }); p.then(() => out.push('c-ok'), e => { churn(30); out.push('c-err ' + e); }); churn(300); rej('boom'); churn(20); out.join('|')",
    "let res: any; const p = new Promise(r => { res = r; }); const out: string[] = []; for (let i = 0; i < 5; i++) { p.then((v: any) => { churn(25); out.push(i + ':' + v.tag); return {i}; }).then((o: any) => out.push('n' + o.i)); } churn(200); res({tag: 'T'}); churn(20); out.join(',')",
    # natives that build a result from callback results while running more callbacks
    "const src = [1, 2, 3, 4, 5, 6, 7, 8]; const a = Array.from(src, x => { churn(6); return {v: x, pad: [x, x]}; }); const b = Array.from(new Set(src), x => { churn(6); return {v: x, pad: 'p' + x}; }); const c = Array.from({length: 6}, (_, i) => { churn(6); return {v: i, pad: {i}}; }); const d = Array.from('abcdef', ch => { churn(6); return {ch}; }); churn(40); a.map(o => o.pad[1]).join('') + b.map(o => o.pad).join('') + c.map(o => o.pad.i).join('') + d.map(o => o.ch).join('')",
    # iteration over a collection the callback empties: the entries being visited are reachable from nothing else
    "const m = new Map<any, any>(); for (let i = 0; i < 6; i++) m.set({k: i}, {v: i, pad: [i]}); const seen: string[] = []; m.forEach((v: any, k: any) => { if (seen.length === 0) { m.delete(k); } churn(40); seen.push(k.k + ':' + v.pad[0]); }); const s = new Set<any>(); for (let i = 0; i < 6; i++) s.add({k: i, pad: [i]}); s.forEach((v: any) => { if (v.k === 0) s.delete(v); churn(40); seen.push('s' + v.pad[0]); }); seen.join()",
    "const xs = [5, 3, 8, 1].map(v => ({v, pad: [v]})); const ys = xs.toSorted((a, b) => { churn(8); return a.v - b.v; }); const groups: any = {}; for (const o of ys) { churn(5); (groups[o.v % 2] ||= []).push(o); } const cp = {...groups, extra: Object.entries(groups).map(([k, v]: any) => { churn(5); return {k, n: v.length}; })}; churn(40); JSON.stringify(cp)",
    "const a = [3, 1, 2].map(x => ({v: x, t: [x]})); churn(40); a.sort((p, q) => { churn(3); return p.v - q.v; }); a.map(o => o.v + ':' + o.t.length).join(',')",
    "const o: any = {get g() { churn(10); return {k: [1, 2, 3]}; }}; const r = o.g; churn(30); r.k.length + ':' + o.g.k.join('')",
    "const src = {a: {x: 1}, b: [1, 2], c: 'str'}; const cp = Object.assign({}, src, {d: {y: 2}}); churn(50); JSON.stringify(cp) + Object.keys(cp).length",
    "const parsed = JSON.parse('{\"a\":[1,2,{\"b\":{\"c\":[3]}}],\"s\":\"t\"}'); churn(60); JSON.stringify(parsed) + parsed.a[2].b.c[0]",
    "const s = 'a-b-c-d'.split('-').map(p => p.toUpperCase() + churn(2)); churn(20); s.join('|') + 'x-y'.replace(/-/g, m => { churn(5); return '+' + m; })",
    "let rejF: any; const p = new Promise((_, r) => { rejF = r; }); const out: string[] = []; p.then(v => out.push('ok' + v), e => { out.push('rejected ' + e.message); return 'recovered'; }).then(v => out.push('chain ' + v)); churn(400); rejF(new Error('boom')); churn(50); out.join(' | ')",
    "let resF: any; const p = new Promise(r => { resF = r; }); const out: string[] = []; p.then(v => { out.push('a' + v); return {w: [v]}; }).then(o => out.push('b' + o.w.length)).finally(() => out.push('fin')); churn(300); resF(7); churn(20); out.join(',')",
    "const out: string[] = []; Promise.all([Promise.resolve({a: 1}), new Promise(r => { churn(100); r({a: 2}); }), 3]).then(vs => out.push(JSON.stringify(vs))); churn(100); out.join('')",
    "function* g() { const big = {arr: [1, 2, 3]}; yield big; churn(50); yield big.arr.length; } const it = g(); const first: any = it.next().value; churn(80); const second = it.next().value; first.arr.join('') + second",
    "const target = {x: {deep: [1]}}; const px = new Proxy(target, {get(t: any, k: string) { churn(10); return k in t ? t[k] : {missing: k}; }}); churn(40); JSON.stringify(px.x) + JSON.stringify(px.nope)",
    "const m = new Map<any, any>(); const k1 = {id: 1}; m.set(k1, {v: [1, 2]}); m.set('s', new Set([{z: 1}])); churn(70); const got = m.get(k1); churn(30); got.v.length + ':' + [...m.keys()].length + ':' + [...m.get('s')].length",
    "class Node { next: Node | null = null; constructor(public v: number) {} } let head: Node | null = null; for (let i = 0; i < 30; i++) { const n = new Node(i); n.next = head; head = n; churn(2); } let s = 0; for (let c = head; c; c = c.next) s += c.v; s",
    "const fns: Array<() => any> = []; for (let i = 0; i < 10; i++) { const cap = {i, big: [i, i]}; fns.push(() => cap.big[0] + cap.i); churn(5); } churn(100); fns.map(f => f()).join(',')",
    "const bound = function (this: any, a: number) { return this.base.v + a; }.bind({base: {v: 10}}); churn(80); bound(5) + ':' + [1, 2].map(bound).join('')",
    "const iter = {*[Symbol.iterator]() { for (let i = 0; i < 4; i++) { churn(10); yield {i, sq: [i * i]}; } }}; const got = [...iter]; churn(40); got.map(o => o.sq[0]).join(',') + Array.from(iter, o => o.i).join('')",
    "const {a, ...rest} = {a: {p: 1}, b: {q: [2]}, c: 3} as any; const [h, ...t] = [{x: 1}, {y: 2}, {z: 3}]; churn(60); JSON.stringify([a, rest, h, t])",
    "async function step(n: number): Promise<any> { const o = {n, l: [n]}; await null; churn(20); return o; } const out: string[] = []; (async () => { const r1 = await step(1); const r2 = await step(2); churn(30); out.push(JSON.stringify([r1, r2])); })(); out.join('')",
    "const arr = Array.from({length: 20}, (_, i) => ({i})); churn(30); const f = arr.filter(o => { churn(2); return o.i % 3 === 0; }); const r = f.reduce((acc: any, o) => { acc.list.push(o.i); return acc; }, {list: []}); churn(30); r.list.join(',') + arr.flatMap(o => [o.i, [o.i]]).length",
    "const e1 = new Error('outer'); (e1 as any).cause = {info: [1, 2]}; let caught: any = null; try { churn(20); throw e1; } catch (e) { caught = e; } churn(60); caught.message + caught.cause.info.length + (caught instanceof Error)",
    "const wm = new Map<string, () => any>(); for (const k of ['a', 'b', 'c']) { const payload = {k, data: [k, k]}; wm.set(k, () => payload); } churn(120); [...wm.values()].map(f => f().data.join('')).join(',')",
    "const str = ['x', 'y', 'z'].map((c, i) => c.repeat(i + 1)).join('-'); const pieces = str.split('-').map(p => ({p, n: p.length})); churn(90); pieces.map(o => o.p + o.n).join('') + `${pieces.length}${churn(5)}`",
    "const date = new Date(86400000 * 365); const re = /(\\d+)-(\\d+)/; const m = '2020-11 x 7-8'.match(re); churn(80); date.getUTCFullYear() + ':' + (m ? m[1] + m[2] : 'none') + ':' + '1-2 3-4'.replace(/(\\d)-(\\d)/g, (_, a, b) => { churn(3); return b + a; })",
    "let store: any = null; function keep(o: any) { store = o; } keep({deep: {deeper: {deepest: [1, 2, 3]}}}); churn(200); const v1 = store.deep.deeper.deepest.length; keep(null); churn(10); v1 + ':' + store",
    "const objs = [{n: 'b'}, {n: 'a'}, {n: 'c'}]; const sorted = [...objs].sort((x, y) => x.n < y.n ? -1 : 1); const idx = objs.findIndex(o => o.n === 'c'); churn(70); sorted.map(o => o.n).join('') + idx + objs.some(o => { churn(1); return o.n === 'a'; }) + objs.every(o => o.n.length === 1)",
    "function mk() { let count = 0; const hist: number[] = []; return {inc() { count++; hist.push(count); churn(4); return this; }, get: () => hist.join('')}; } const c = mk(); c.inc().inc().inc(); churn(100); c.get()",
]


def pre_proof(ctx):
    import os
    rc, out = common.sh([os.path.join(common.ROOT, "bin", "extract")])
    ctx.notes.append("bin/extract: " + out.strip())


def schedules(tier):
    s = [{"gc": 0}, {"gc": None}, {"gc": 1}, {"gc": 2}, {"gc": 3}, {"gc": 5}, {"gc": 7}, {"gc": 100},
         {"gc": 0, "collect_every": 1}, {"gc": 0, "collect_every": 7}, {"gc": 100, "collect_every": 50}]
    return s


def run(ctx):
    rng = ctx.rng
    progs = [(ALLOC + t, ["template"]) for t in TEMPLATES]
    n = 120 if ctx.tier == "quick" else 2500
    for i in range(n):
        src, fs = gen.program(rng, depth=rng.randint(1, 3), fail=(i % 5 == 0))
        progs.append((src, fs))
    sched = schedules(ctx.tier)
    lines, meta = [], []
    for pi, (src, _) in enumerate(progs):
        for si, sc in enumerate(sched):
            mode = "steps" if ("collect_every" in sc or si % 2) else "eval"
            runs = [{"src": src, "mode": mode, "collect_every": sc.get("collect_every")}]
            lines.append(json.dumps({"gc": sc["gc"], "runs": runs}))
            meta.append((pi, si))
    got = common.harness(["life"], lines, timeout=1200)
    by_prog = {}
    for (pi, si), g in zip(meta, got):
        ctx.cov["evaluations"] += 1
        out = g.split(";live=")[0]
        by_prog.setdefault(pi, []).append((si, out, g))
    feat = {}
    distinct = set()
    for pi, res in by_prog.items():
        src, fs = progs[pi]
        for f in fs:
            feat[f] = feat.get(f, 0) + 1
        base = res[0][1]
        distinct.add(base)
        if base.startswith("CRASH") or "TIMEOUT" in base or base.startswith("ERR Internal"):
            ctx.prop_fail("crash: program does not run with collection disabled (%s)" % base[:60], {"program": src[:1200]})
            continue
        for si, out, g in res[1:]:
            if out != base:
                ctx.prop_fail("schedule: outcome differs between collection schedules: %s gives %r, collection disabled gives %r" % (sched[si], out[:120], base[:120]),
                              {"program": src[:1800], "schedule": sched[si], "with_schedule": out[:300], "collection_disabled": base[:300]})
                break
    # orders / host promises under forced collection (C08's harness, gc flag on and off)
    from . import c08
    ocases = []
    for i in range(60 if ctx.tier == "quick" else 1500):
        s, resp, settle = c08.gen_script(rng, rng.randint(1, 5))
        ocases.append({"script": s, "resp": resp, "settle": settle, "spurious": 0, "junk": False})
    ol = [json.dumps(dict(c, gc=False)) for c in ocases] + [json.dumps(dict(c, gc=True)) for c in ocases]
    og = common.harness(["orders"], ol, timeout=600)
    k = len(ocases)
    for c, a, b in zip(ocases, og[:k], og[k:]):
        ctx.cov["evaluations"] += 2
        if a != b:
            ctx.prop_fail("schedule: order/promise protocol trace differs with collection forced at every suspension", {"script": c["script"][:1200], "resp": c["resp"], "no_gc": a[:400], "gc": b[:400]})
    ctx.cov["distinct_nontrivial"] = len(distinct)
    ctx.cov["traces_validated_against_impl"] = len(lines)
    ctx.cov["rule"] = ("%d template programs (natives that allocate while holding inputs, allocating callbacks/getters/proxy traps, generators, pending promises with both reactions, async, "
                       "closures, collections, destructuring, bound functions, custom iterables) and %d generated programs, each under %d collection schedules: disabled, default, "
                       "threshold 1/2/3/5/7/100, host collect() after every 1 / 7 / 50 steps; plus order/host-promise scripts with and without forced collection at every suspension. "
                       "All schedules must give the outcome of the run without collection. distinct_nontrivial = distinct baseline outcomes" % (len(TEMPLATES), n, len(sched)))
    ctx.cov["input_distribution"] = feat
    ctx.sample({"program": progs[5][0][:400], "outcomes": [r[1][:80] for r in by_prog[5][:3]]})
