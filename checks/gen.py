"""Random generator of self-contained TypeScript programs (shared by C02 C11 C12 C14 C19 …).

Programs are deterministic, terminate by construction (literal loop bounds, bounded recursion),
write no global state other than their own top-level declarations, and finish with an expression
whose value is a string summarising everything they computed.  `fail=True` plants an uncaught
error at a random depth."""


class G:
    def __init__(self, rng, fail=False, orders=False):
        self.rng = rng
        self.n = 0
        self.fail = fail
        self.orders = orders
        self.failed_planted = False
        self.features = set()

    def fresh(self, p="v"):
        self.n += 1
        return "%s%d" % (p, self.n)

    # ---------------- expressions (numbers mostly, so results are comparable)
    def num(self, vars_, depth):
        r = self.rng
        k = r.random()
        if depth <= 0 or k < 0.3:
            return str(r.randint(0, 9)) if (not vars_ or r.random() < 0.4) else r.choice(vars_)
        a, b = self.num(vars_, depth - 1), self.num(vars_, depth - 1)
        if k < 0.6:
            return "(%s %s %s)" % (a, r.choice(["+", "-", "*"]), b)
        if k < 0.7:
            return "(%s %% 7)" % a
        if k < 0.8:
            return "(%s > %s ? %s : %s)" % (a, b, a, b)
        if k < 0.88:
            self.features.add("array")
            if r.random() < 0.5:
                return "[%s, %s, %s].map(x => x + 1).reduce((p, c) => p + c, 0)" % (a, b, r.randint(0, 5))
            return "[%s, %s].map(function (x) { { let y = {v: x}; if (y.v > 2) { return y.v; } } return 0; }).reduce((p, c) => p + c, 0)" % (a, b)
        if k < 0.94:
            self.features.add("object")
            return "({a: %s, b: {c: %s}}).b.c" % (a, b)
        self.features.add("string")
        return "(`${%s}-${%s}`).length" % (a, b)

    # ---------------- statements
    def block(self, vars_, depth, in_loop, in_fn):
        r = self.rng
        out = []
        local = list(vars_)
        for _ in range(r.randint(1, 4)):
            s, newv = self.stmt(local, depth, in_loop, in_fn)
            out.append(s)
            local += newv
        return "\n".join(out)

    def stmt(self, vars_, depth, in_loop, in_fn):
        r = self.rng
        k = r.random()
        acc = "acc"
        if depth <= 0 or k < 0.22:
            v = self.fresh()
            return "let %s = %s; %s += %s;" % (v, self.num(vars_, 2), acc, v), [v]
        if k < 0.30:
            self.features.add("block")
            return "{ %s }" % self.block(vars_, depth - 1, in_loop, in_fn), []
        if k < 0.40:
            self.features.add("if")
            return "if (%s %% 2 === 0) { %s } else { %s }" % (self.num(vars_, 1), self.block(vars_, depth - 1, in_loop, in_fn), self.block(vars_, depth - 1, in_loop, in_fn)), []
        if k < 0.52:
            self.features.add("for")
            i = self.fresh("i")
            body = self.block(vars_ + [i], depth - 1, True, in_fn)
            kind = r.random()
            if kind < 0.5:
                return "for (let %s = 0; %s < %d; %s++) { %s }" % (i, i, r.randint(1, 4), i, body), []
            if kind < 0.75:
                self.features.add("forof")
                return "for (const %s of [%s]) { %s }" % (i, ", ".join(str(r.randint(0, 9)) for _ in range(r.randint(1, 4))), body), []
            self.features.add("while")
            return "{ let %s = 0; while (%s < %d) { %s++; %s } }" % (i, i, r.randint(1, 4), i, body), []
        if k < 0.58 and in_loop:
            self.features.add("break")
            return "if (%s %% 3 === 0) { %s; }" % (self.num(vars_, 1), r.choice(["break", "continue"])), []
        if k < 0.68:
            self.features.add("try")
            t = self.block(vars_, depth - 1, in_loop, in_fn)
            thrower = r.choice(["", "if (%s %% 2 === 1) throw new RangeError('r%d');" % (self.num(vars_, 1), self.n), "null.x;" if False else "throw {code: %d};" % r.randint(1, 9)])
            c = self.block(vars_, depth - 1, in_loop, in_fn)
            f = self.block(vars_, depth - 1, False, False) if r.random() < 0.6 else None      # no break/return inside finally
            e = self.fresh("e")
            s = "try { %s %s } catch (%s) { acc += 1; %s }" % (t, thrower, e, c)
            if f is not None:
                self.features.add("finally")
                s += " finally { %s }" % f
            return s, []
        if k < 0.78:
            self.features.add("function")
            fn = self.fresh("f")
            p = self.fresh("p")
            body = self.block([p], depth - 1, False, True)
            rec = ""
            if r.random() < 0.4:
                self.features.add("recursion")
                rec = "if (%s > 0) { acc += %s(%s - 1); }" % (p, fn, p)
            ret = "if (%s %% 2 === 0) { { let q = %s; return q + 1; } }" % (p, p) if r.random() < 0.5 else ""
            return "function %s(%s: number): number { let acc = 0; %s %s %s return acc; }\nacc += %s(%d);" % (fn, p, ret, body, rec, fn, r.randint(0, 3)), []
        if k < 0.84:
            self.features.add("closure")
            c = self.fresh("c")
            return "const %s: Array<() => number> = []; for (let j = 0; j < 3; j++) { %s.push(() => j * %s); } acc += %s.reduce((p, f) => p + f(), 0);" % (c, c, self.num(vars_, 1), c), []
        if k < 0.90:
            self.features.add("generator")
            g = self.fresh("g")
            it = self.fresh("it")
            use = r.choice(["for (const y of %s()) { acc += y; %s }" % (g, "if (y > 1) break;" if r.random() < 0.5 else ""),
                            "const %s = %s(); acc += %s.next().value; %s" % (it, g, it, r.choice(["", "%s.return(5);" % it, "acc += %s.next().value;" % it,
                                "try { %s.throw(new RangeError('gt')); } catch (ge%d) { acc += 2; }" % (it, self.n)]))])
            return "function* %s() { for (let k = 0; k < 3; k++) { { let z = k * 2; yield z; } } }\n%s" % (g, use), []
        if k < 0.95:
            self.features.add("class")
            c = self.fresh("C")
            return ("class %s { v: number; constructor(v: number) { this.v = v; } get d() { return this.v * 2; } m(n: number) { return this.v + n; } static s(n: number) { return n + 1; } }\n"
                    "acc += new %s(%s).m(%s) + new %s(1).d + %s.s(2);" % (c, c, self.num(vars_, 1), self.num(vars_, 1), c, c)), []
        if k < 0.975:
            # eval runs code in a scope of its own: the scope (and its guard) must be gone afterwards on every exit path
            self.features.add("eval")
            e = self.fresh("ee")
            a, b = r.randint(0, 9), r.randint(1, 9)
            return r.choice([
                "acc += eval('(%d + %d)');" % (a, b),
                "acc += eval('let ev = %d; { let ew = ev * %d; ew }');" % (a, b),
                "acc += (0, eval)('[%d, %d].map(x => x + 1).length');" % (a, b),
                "try { eval('null.x'); } catch (%s) { acc += 3; }" % e,
                "try { eval('{ let deep = %d; { throw new RangeError(\"ev\"); } }'); } catch (%s) { acc += 4; }" % (a, e),
                "try { (0, eval)('undefinedInEval%d()'); } catch (%s) { acc += 5; }" % (self.n, e),
                "try { eval('let q = 1; {'); } catch (%s) { acc += 6; }" % e,
                "try { acc += eval('(function () { { let z = %d; throw z; } })()'); } catch (%s) { acc += 7; }" % (a, e),
            ]), []
        self.features.add("collections")
        m = self.fresh("m")
        return ("const %s = new Map<string, number>(); %s.set('a', %s); %s.set('b', 2); const st = new Set([1, 2, 2, %s]); acc += %s.get('a')! + st.size + [...%s.keys()].length;"
                % (m, m, self.num(vars_, 1), m, self.num(vars_, 1), m, m)).replace("const st", "const st%d" % self.n).replace("st.size", "st%d.size" % self.n), []

    def program(self, depth=3):
        r = self.rng
        body = self.block([], depth, False, True)
        fail = ""
        if self.fail:
            self.features.add("uncaught")
            kind = r.choice(["throw new TypeError('planted');", "const u: any = undefined; u.x.y;", "plantedMissing();", "throw 'str';", "eval('{ let inEval = 1; plantedMissingInEval(); }');",
                             "const gi = (function* (secretp: number) { let secret = 1; yield secret + secretp; yield 2; })(4); gi.next(); gi.throw(new Error('planted in generator'));"])
            wrap = r.randint(0, 3)
            inner = kind
            for w in range(wrap):
                inner = r.choice(["{ let s%d = %d; %s }" % (w, w, inner), "for (let t%d = 0; t%d < 2; t%d++) { %s }" % (w, w, w, inner),
                                  "(function deep%d() { let d = %d; { %s } })();" % (w, w, inner), "try { %s } finally { acc += 1; }" % inner])
            fail = inner
        asyncpart = ""
        if r.random() < 0.3:
            self.features.add("async")
            asyncpart = "async function af(n: number) { { let w = n; if (w > 1) { return w * 2; } } return n; }\nlet ar = 0; af(%d).then(v => { ar = v; });\nPromise.resolve(3).then(v => v + 1).then(v => { acc += v; });\n" % r.randint(0, 3)
        src = ("function main(): string {\nlet acc = 0;\n%s\n%s\nreturn 'acc=' + acc;\n}\n%smain()" % (body, fail, asyncpart))
        return src


def program(rng, depth=3, fail=False):
    g = G(rng, fail=fail)
    src = g.program(depth)
    return src, sorted(g.features)
