"""C07 — suspending and resuming is transparent to the program (DESIGN.md §4 C07)."""
import json
import os
import shutil
import subprocess
from . import common

LEAN_TARGETS = ["TsrunVerif.Props.C07"]
THEOREMS = ["TsrunVerif.Susp." + t for t in ["restore_save", "run_mode_independent", "run_schedules_agree", "run_host_independent", "lossy_not_roundtrip", "lookup_perm", "fields_saved", "fields_faithful"]]
ASSUMPTIONS = [
    "M-Susp lists the fields of BytecodeVM / TrampolineFrame that determine how execution continues and transcribes save_state / from_saved_state / restore_suspended_vm field for field; the field lists of the four "
    "Rust structs are re-extracted by bin/extract on every run (Gen/VmFields.lean) and every field must be saved or be on the reviewed transient list (obligation fields_saved); "
    "the four record literals of save_state / from_saved_state are re-read too: every field must take its value from the field of the same name of the same record - frame.x, self.x, saved.x, state.x - "
    "up to the reviewed renamings (obligation fields_faithful), which is what makes the Rust code an instance of the model's save / restore",
    "the program is an arbitrary deterministic continuation function in the model; that the real VM's continuation depends on nothing outside the listed fields (e.g. interpreter-level registries) is "
    "what the differential part exercises: generated programs with awaits at every syntactic position, host-suspending order() under schedules versus an in-program stub",
    "error responses are delivered by the host as strings ('TypeError: m'); the stub throws the same string - the shape of error responses is not part of this property",
    "when a node binary is present the stub variant is also run there (secondary oracle)",
]
HOST = "import { order } from 'tsrun:host';\n"
STUB = ("function order(p) { if (p.p) { return p.err !== undefined ? Promise.reject(p.err) : Promise.resolve(p.v); } "
        "if (p.err !== undefined) { throw 'TypeError: ' + p.err; } return p.v; }\n")
NODE_DRIVER = r"""
const vm = require('vm'); const rl = require('readline').createInterface({input: process.stdin});
const lines = []; rl.on('line', l => lines.push(l)); rl.on('close', async () => { for (const l of lines) { let out; const log = [];
  try { const src = JSON.parse(l); const v = await vm.runInNewContext(src, {console: {log: (...a) => log.push(a.join(' '))}}, {timeout: 5000}); out = 'C:s:' + String(v); } catch (e) { out = 'ERR:' + (e && e.name ? e.name : 'Thrown') + ':' + String(e); }
  console.log((out + ' | ' + log.join('\u0001')).replace(/\n/g, '\\n')); } });
"""


class Gen:
    def __init__(self, rng, force=None):
        self.rng = rng
        self.force = force          # the first statement is the sync-caller-frame construct number `force`
        self.k = 0
        self.helpers = []
        self.depth = 0
        self.sites = set()

    def val(self):
        self.k += 1
        return self.k

    def aw(self, kind="num"):
        r = self.rng.random()
        v = self.val()
        if kind == "str":
            return "(await order({v: 's%d'}))" % v
        if r < 0.75:
            return "(await order({v: %d}))" % v
        if r < 0.9:
            return "(await order({v: %d, p: true}))" % v
        return "(await Promise.resolve(%d))" % v

    def expr(self, d=0):
        rng = self.rng
        k = rng.randrange(14 if d < 2 else 3)
        if k == 0:
            return str(rng.randint(0, 9))
        if k in (1, 2):
            return self.aw()
        if k == 3:
            return "(%s + %s)" % (self.expr(d + 1), self.expr(d + 1))
        if k == 4:
            return "(%s ? %s : %s)" % (self.expr(d + 1), self.expr(d + 1), self.expr(d + 1))
        if k == 5:
            return "`t${%s}u${%s}`.length" % (self.expr(d + 1), self.aw("str"))
        if k == 6:
            return "pick(%s, %s, %s)" % (self.expr(d + 1), self.aw(), self.expr(d + 1))
        if k == 7:
            return "({a: %s, b: %s}).b" % (self.expr(d + 1), self.aw())
        if k == 8:
            return "[%s, %s, %s][1]" % (self.expr(d + 1), self.aw(), self.expr(d + 1))
        if k == 9:
            return "(%s && %s || %s)" % (self.expr(d + 1), self.aw(), self.expr(d + 1))
        if k == 10:
            return "(await obj.m(%s))" % self.expr(d + 1)
        if k == 11:
            return "(await helper(%d, %s))" % (rng.randint(0, 3), self.expr(d + 1))
        if k == 12:
            return "(({x = %s}) => x)({})" % self.expr(d + 1) if False else "(await (async (q = %d) => q + %s)())" % (rng.randint(1, 5), self.aw())
        return "(await new Box(%s).get())" % self.aw()

    def stmts(self, n, in_loop=False, in_fn=False):
        return "\n".join(self.stmt(in_loop, in_fn) for _ in range(n))

    def stmt(self, in_loop=False, in_fn=False):
        rng = self.rng
        self.depth += 1
        try:
            k = rng.randrange(20 if self.depth < 4 else 4)
            if self.force is not None:
                k = 15 if self.force < 7 else 19
            if k == 19:
                # several orders outstanding at once (a native calls `order` per element; the markers are awaited later): the host may answer
                # them in one call, one call each, in any order, with steps in between
                self.force = None
                n = self.val()
                vs = [self.val() for _ in range(rng.randint(2, 4))]
                return ("{ const ms%d = [%s].map(order); acc += 'm'; for (const m of ms%d) { acc += 'o' + (await m); } }"
                        % (n, ", ".join("{v: %d}" % v for v in vs), n))
            if k == 18:
                # an async function started from a callback that a NATIVE built-in invokes (map / forEach / sort / valueOf):
                # its await has to suspend while the native frame is on the stack (known finding C07-await-under-native-frame)
                self.sites.add("native-frame")
                n = self.val()
                return rng.choice([
                    "acc += 'N' + (await Promise.all([1, 2].map(async x => (await order({v: x + %d, p: true})) + 1))).join('');" % n,
                    "{ const ps%d = []; [3, 4].forEach(x => { ps%d.push(loadAsync(x)); }); acc += 'E' + (await Promise.all(ps%d)).join(''); }" % (n, n, n),
                    "{ const ps%d = []; [2, 1].sort((a, b) => { ps%d.push(loadAsync(a)); return a - b; }); acc += 'O' + (await Promise.all(ps%d)).length; }" % (n, n, n),
                    "{ let p%d; const ov = { valueOf() { p%d = loadAsync(5); return 1; } }; acc += 'V' + (ov + 1) + (await p%d); }" % (n, n, n),
                ])
            if k in (0, 1):
                return "acc += '|' + %s;" % self.expr()
            if k == 2:
                return "{ let s = %d; acc += 'b' + s; %s s += %s; acc += 's' + s; }" % (rng.randint(1, 9), self.stmts(1, in_loop, in_fn), self.aw())
            if k == 3:
                return "v += %s; o.k *= 1 + (%s %% 3); acc += v + ':' + o.k;" % (self.aw(), self.aw())
            if k == 4:
                return "if (%s %% 2) { %s } else { %s }" % (self.expr(), self.stmts(1, in_loop, in_fn), self.stmts(1, in_loop, in_fn))
            if k == 5:
                i = "i%d" % self.val()
                return "for (let %s = 0; %s < %d; %s++) { fs.push(() => %s); %s acc += 'L' + %s; }" % (i, i, rng.randint(1, 3), i, i, self.stmts(rng.randint(1, 2), True, in_fn), i)
            if k == 6:
                x = "x%d" % self.val()
                return "for (const %s of gen(%d)) { acc += 'g' + %s * (%s %% 4); %s }" % (x, rng.randint(1, 3), x, self.aw(), self.stmts(1, True, in_fn))
            if k == 7:
                thrower = rng.choice(["throw 'T%d';" % self.val(), "await order({err: 'E%d'});" % self.val(), "await order({err: 'R%d', p: true});" % self.val(), "", ""])
                return ("try { acc += 't'; %s %s acc += 'n'; } catch (e) { acc += 'c' + e; %s } finally { acc += 'f' + %s; %s }"
                        % (self.stmts(1, in_loop, in_fn), thrower, self.stmts(1, in_loop, in_fn), self.aw(), self.stmts(1, in_loop, in_fn)))
            if k == 8:
                f = "fin%d" % self.val()
                how = rng.choice(["return 'r%d';" % self.val(), "throw 'x%d';" % self.val(), "return %s;" % self.aw(), "if (%s %% 2) { return 'a'; } throw 'b';" % self.aw()])
                inner = rng.choice(["", "try { %s } finally { acc += 'i' + %s; }" % (how, self.aw())])
                self.helpers.append("async function %s() { try { %s %s } finally { acc += 'F' + %s; %s } }" % (f, inner, how, self.aw(), "" if rng.random() < 0.7 else "acc += 'G' + %s;" % self.aw()))
                return "try { acc += 'R' + (await %s()); } catch (e) { acc += 'X' + e; }" % f
            if k == 9:
                return ("switch (%s %% 3) { case 0: acc += 'z'; %s break; case 1: { const w = %s; acc += 'w' + w; } default: acc += 'd'; }"
                        % (self.aw(), self.stmts(1, in_loop, in_fn), self.aw()))
            if k == 10:
                a, b = "a%d" % self.val(), "b%d" % self.val()
                lab = "lab%d" % self.val()
                return ("%s: for (let %s = 0; %s < 3; %s++) { for (let %s = 0; %s < 3; %s++) { if ((%s + %s) %% 3 === 1) continue %s; if (%s + %s > 3) break %s; acc += 'q' + %s + %s; try { if (%s === 1) continue; } finally { acc += 'k' + %s; } } }"
                        % (lab, a, a, a, b, b, b, self.aw(), b, lab, a, b, lab, a, b, b, self.aw()))
            if k == 11:
                n = rng.randint(2, 4)
                ids = [self.val() for _ in range(n)]
                order = ids[:]
                rng.shuffle(order)
                decl = " ".join("const p%d = order({v: %d, p: true});" % (i, i) for i in ids)
                mode = rng.random()
                if mode < 0.25:
                    return "%s acc += 'A' + (await Promise.all([%s])).join(',');" % (decl, ", ".join("p%d" % i for i in ids))
                if mode < 0.6:
                    # mixed inputs: already settled host promises, plain values, resolved promises, pending promises
                    pre = " ".join("acc += 'e' + (await p%d);" % i for i in ids[:rng.randint(1, len(ids) - 1)])
                    items = ["p%d" % i for i in ids] + [str(self.val()), "Promise.resolve(%d)" % self.val(), "order({v: %d})" % self.val(), "order({v: %d, p: true})" % self.val()]
                    rng.shuffle(items)
                    return "%s %s acc += 'M' + (await Promise.all([%s])).join(',');" % (decl, pre, ", ".join(items))
                return "%s %s" % (decl, " ".join("acc += 'S' + (await p%d);" % i for i in order))
            if k in (15, 16, 17):
                # the await suspends while SYNCHRONOUS callers are on the stack (constructor with field initialisers and private
                # methods, derived constructor before/after super, getter, method, function using `arguments`): after the
                # resumption each caller goes on with its own this / new.target / arguments / locals
                n = self.val()
                which = rng.randrange(7)
                if self.force is not None:
                    which, self.force = self.force, None
                if which == 6:
                    # three levels: the MIDDLE constructor starts the load before its own super(); after the resumption each
                    # constructor of the chain must still know which class it belongs to (super() resolves per frame)
                    self.helpers.append("const trc%d = []; class A%d { constructor(x) { this.x = x; trc%d.push('A'); } } "
                                        "class Bm%d extends A%d { constructor(hp, x) { const p = awaitIt(hp); super(x + 1); this.p = p; trc%d.push('B'); } } "
                                        "class Cm%d extends Bm%d { constructor(hp) { super(hp, %d); trc%d.push('C'); this.nt = this.constructor === Cm%d; } }"
                                        % (n, n, n, n, n, n, n, n, rng.randint(1, 5), n, n))
                    # the host promise is obtained first: whether `await hp` inside the constructor chain suspends depends on the schedule
                    return ("{ const hp%d = order({v: %d, p: true}); const c = new Cm%d(hp%d); acc += 'h' + c.x + c.nt + trc%d.join('') + (await c.p) + (c instanceof A%d); }"
                            % (n, n, n, n, n, n))
                if which == 0:
                    self.helpers.append("class K%d { #p() { return 7; } f = startLoad(%d); g = 2; constructor(a) { this.a = a; this.sum = this.#p() + this.g + a; } get me() { return this; } }" % (n, n))
                    return "{ const k = new K%d(%d); acc += 'k' + k.sum + (k.me === k) + (await k.f); }" % (n, rng.randint(1, 5))
                if which == 1:
                    self.helpers.append("class B%d { constructor(x) { this.x = x; this.nt = (this.constructor === B%d) ? 'base' : 'derived'; } } class D%d extends B%d { #q = 3; constructor() { const p = startLoad(%d); super(%d); this.p = p; this.t = this.constructor === D%d; this.r = this.#q + this.x; } }"
                                        % (n, n, n, n, n, rng.randint(1, 5), n))
                    return "{ const d = new D%d(); acc += 'd' + d.nt + d.t + d.r + (await d.p); }" % n
                if which == 2:
                    self.sites.add("native-frame")          # a getter is invoked through the native property read
                    self.helpers.append("const og%d = { base: %d, get v() { const p = startLoad(%d); return [this.base, p, this === og%d]; } };" % (n, rng.randint(1, 9), n, n))
                    return "{ const [b, p, same] = og%d.v; acc += 'g' + b + same + (await p); }" % n
                if which == 3:
                    self.helpers.append("function wa%d() { const before = arguments.length; const p = startLoad(%d); return [before, arguments.length, arguments[1], p]; }" % (n, n))
                    return "{ const [a0, a1, a2, p] = wa%d(1, 'two', 3); acc += 'a' + a0 + a1 + a2 + (await p); }" % n
                if which == 4:
                    self.helpers.append("class M%d { constructor() { this.tag = 'm%d'; } run(x) { const self = this; const p = startLoad(x); const arrow = () => this.tag; return [self === this, arrow(), p]; } static make() { const p = startLoad(1); return [new this(), p]; } }" % (n, n))
                    return "{ const [same, tag, p] = new M%d().run(%d); const [inst, q] = M%d.make(); acc += 'm' + same + tag + inst.tag + (await p) + (await q); }" % (n, rng.randint(1, 5), n)
                self.sites.add("native-frame")              # the tag function of a template is not called through the trampoline
                self.helpers.append("function tg%d(strs, ...vals) { const p = startLoad(vals.length); return [strs.join('_'), vals.join('+'), p]; }" % n)
                return "{ const [s1, s2, p] = tg%d`a${%d}b${%d}c`; acc += 't' + s1 + s2 + (await p); }" % (n, rng.randint(1, 9), rng.randint(1, 9))
            if k in (13, 14):
                # a rejection that has to leave one or more async functions that have no handler of their own
                f = "rej%d" % self.val()
                err = rng.choice(["await order({err: 'N%d'})", "await order({err: 'P%d', p: true})", "await Promise.reject('Q%d')", "(await order({v: 1}), undefinedFn%d())"]) % self.val()
                self.helpers.append("async function %s(n) { acc += 'r' + n; if (n > 0) { const y = await %s(n - 1); return y + 1; } const z = %s; return z; }" % (f, f, err))
                d = rng.randint(0, 2)
                return rng.choice([
                    "try { acc += 'Y' + (await %s(%d)); } catch (e) { acc += 'J' + (e && e.name || e); }" % (f, d),
                    "acc += 'K' + (await %s(%d).catch(e => 'k' + (e && e.name || e)));" % (f, d),
                    "acc += 'U' + (await Promise.allSettled([%s(%d), order({v: 5, p: true})])).map(r => r.status[0]).join('');" % (f, d),
                    "try { await Promise.all([order({v: 6, p: true}), %s(%d)]); } catch (e) { acc += 'W' + (e && e.name || e); }" % (f, d),
                    "const h%d = %s(%d); h%d.catch(() => {}); acc += 'h' + %s; try { await h%d; } catch (e) { acc += 'H' + (e && e.name || e); }" % (self.k, f, d, self.k, self.aw(), self.k),
                ])
            d = self.val()
            return "const {da%d = %s, db%d = 2} = {}; acc += 'D' + (da%d + db%d);" % (d, self.aw(), d, d, d)
        finally:
            self.depth -= 1

    def program(self):
        body = self.stmts(self.rng.randint(2, 6))
        pre = ("let acc = ''; let v = 1; const o = {k: 2}; const fs = [];\n"
               "function pick(a, b, c) { return a * 100 + b * 10 + c; }\n"
               "function* gen(n) { for (let i = 1; i <= n; i++) { yield i; } }\n"
               "class Box { constructor(x) { this.x = x; } async get() { const t = this; await order({v: 0}); return t === this ? this.x : -1; } }\n"
               "const obj = { base: 7, async m(a) { const r = a + %s; return r + this.base; } };\n"
               "function startLoad(x) { return loadAsync(x); } async function loadAsync(x) { const w = await order({v: x, p: true}); return w + x; }\n"
               "async function awaitIt(p) { const w = await p; return w + 1; }\n"
               "async function helper(n, x) { if (n <= 0) { return x + %s; } const y = await helper(n - 1, x); return y + 1; }\n" % (self.aw(), self.aw()))
        return pre + "\n".join(self.helpers) + "\nasync function main() {\n" + body + "\nreturn acc + '#' + fs.map(f => f()).join('');\n}\n"


CORPUS = [
    # a rejection after a real suspension leaves async functions that have no handler of their own (found on the unchanged tree; fixed)
    "async function inner() { const v = await order({err: 'boom'}); return v; } async function main() { try { await inner(); return 'no'; } catch (e) { return 'caught:' + e; } }",
    "async function inner() { const v = await order({err: 'boom', p: true}); return v; } async function main() { try { await inner(); return 'no'; } catch (e) { return 'caught:' + e; } }",
    "async function inner() { return await order({err: 'boom', p: true}); } async function main() { let out = 'none'; inner().catch(e => { out = 'c:' + e; }); await order({v: 1}); await order({v: 2}); return out; }",
    "async function a() { return await order({err: 'x', p: true}); } async function b() { return (await a()) + 1; } async function main() { try { await b(); return 'no'; } catch (e) { return 'caught ' + e; } }",
    "async function f() { try { return 1; } finally { await order({v: 0}); } } async function main() { return String(await f()); }",
    "async function f() { try { throw 'x'; } finally { await order({v: 0}); } } async function main() { try { return String(await f()); } catch (e) { return 'caught:' + e; } }",
    "class A { constructor() { this.v = 5; } async m() { await order({v: 0}); return this.v; } } async function main() { return String(await new A().m()); }",
    "async function main() { let x = 1; { let x = 2; await order({v: 0}); x += 10; { let y = x; await order({v: 1}); x += y; } } return String(x); }",
    "async function main() { try { try { return 'r'; } finally { await order({v: 0}); } } finally { await order({v: 1}); } }",
    "class A { constructor() { this.v = 3; } async m() { const f = async () => { await order({v: 0}); return this.v; }; return await f(); } } async function main() { return String(await new A().m()); }",
    "async function a(n) { if (n === 0) { return await order({v: 7}); } return 1 + await a(n - 1); } async function main() { return String(await a(4)); }",
    "class B { async m() { return await order({v: 'B'}); } } class D extends B { async m() { return 'D' + await super.m(); } } async function main() { return await new D().m(); }",
    "async function main() { let s = ''; for (const k of [1, 2]) { try { s += 'a'; if (k === 1) continue; s += 'b'; } finally { s += await order({v: 'f'}); } } return s; }",
    "async function main() { const p1 = order({v: 1, p: true}); const p2 = order({v: 2, p: true}); const p3 = order({v: 3, p: true}); const c = await p3; const a = await p1; const b = await p2; return '' + a + b + c; }",
    "async function w(i) { const x = await order({v: i, p: true}); const y = await order({v: i * 10}); return x + y; } async function main() { const r = await Promise.all([w(1), w(2), w(3)]); return r.join(','); }",
    "async function main() { let r = ''; try { await order({err: 'boom'}); r = 'no'; } catch (e) { r = 'c:' + e; } try { await order({err: 'late', p: true}); } catch (e) { r += '|' + e; } return r; }",
]


def matches_finding(f, case, what, extra):
    """site finding: only a program the generator tagged with the site, failing with exactly the recorded observation"""
    if f.get("kind") != "site" or not isinstance(case, dict):
        return False
    return f.get("site_tag") in case.get("sites", []) and f.get("observation", "\0") in case.get("with_host_suspension", "")


def run(ctx):
    rng = ctx.rng
    progs = []
    sites = []
    n = 120 if ctx.tier == "quick" else 2500
    import random as _r
    for i in range(n):
        g = Gen(_r.Random(rng.randrange(2 ** 62)))
        progs.append(("generated", g.program()))
        sites.append(sorted(g.sites))
    # every kind of synchronous caller frame at least once per run, whatever the random draws
    for w in range(8):
        g = Gen(_r.Random(rng.randrange(2 ** 62)), force=w)
        progs.append(("generated", g.program()))
        sites.append(sorted(g.sites))
    progs += [("corpus", c) for c in CORPUS]
    sites += [[] for _ in CORPUS]
    schedules = [("immediate", {}), ("delay", {"delay": 2}), ("batch", {"batch": True}), ("permuted", {"perm": None}), ("gc", {"gc": True, "delay": 1}),
                 ("split-permuted-batch", {"split": True, "batch": True, "perm": None})]
    lines, meta = [], []
    for pi, (kind, p) in enumerate(progs):
        lines.append(json.dumps({"script": STUB + p + "await main()"}))
        meta.append((pi, "stub"))
        for name, sch in schedules:
            s = dict(sch)
            if "perm" in s:
                perm = list(range(8))
                rng.shuffle(perm)
                s["perm"] = perm
            lines.append(json.dumps(dict(s, script=HOST + p + "await main()")))
            meta.append((pi, name))
    got = common.harness(["susp"], lines, timeout=900)
    node = shutil.which("node")
    got_node = None
    if node:
        try:
            pr = subprocess.run([node, "-e", NODE_DRIVER], input="\n".join(json.dumps(STUB + p + "main()") for _, p in progs) + "\n", stdout=subprocess.PIPE, stderr=subprocess.PIPE, text=True, timeout=900)
            o = pr.stdout.split("\n")
            if len(o) >= len(progs):
                got_node = o[:len(progs)]
        except (OSError, subprocess.TimeoutExpired):
            got_node = None
    ctx.notes.append("reference engine: %s" % ("node present, stub variant cross-checked" if got_node else "node not available"))
    base = {}
    hist = {}
    distinct = set()
    reported = set()

    def unesc(t):
        return t.replace("\\\\", "\x00").replace("\\n", "\n").replace("\x00", "\\")
    for (pi, name), g in zip(meta, got):
        ctx.cov["evaluations"] += 1
        ctx.cov["traces_validated_against_impl"] += 1
        kind, p = progs[pi]
        if name == "stub":
            base[pi] = g
            hist[kind] = hist.get(kind, 0) + 1
            distinct.add(g)
            if got_node is not None and g.startswith("C:") and unesc(g) != got_node[pi] and pi not in reported:
                reported.add(pi)
                ctx.prop_fail("reference: the stub variant behaves differently on tsrun and on the reference engine", {"program": p[:3000], "tsrun": g[:400], "node": got_node[pi][:400]})
            elif got_node is not None and g.startswith("ERR:SyntaxError") and got_node[pi].startswith("C:") and pi not in reported:
                # a program the reference engine runs but tsrun cannot parse is dead weight for every schedule: the generator must not emit it
                reported.add(pi)
                ctx.corr_fail("the generator emitted a program tsrun rejects with a SyntaxError (all schedules fail alike, nothing is compared)", {"program": p[:3000]}, got_node[pi][:200], g[:300])
            continue
        if g != base.get(pi) and pi not in reported:
            reported.add(pi)
            ctx.prop_fail("transparent: under host schedule '%s' the program behaves differently from the run with an in-program stub" % name,
                          {"program": p[:3000], "schedule": name, "with_host_suspension": g[:500], "with_stub": base.get(pi, "")[:500], "sites": sites[pi]})
    # ---- known finding: an await inside an async generator body cannot suspend
    for f in ctx.findings:
        if f.get("kind") == "witness" and f.get("property") == "C07":
            w = f["witness_source"]
            a, b = common.harness(["susp"], [json.dumps({"script": HOST + w}), json.dumps({"script": STUB + w})], timeout=60)
            ctx.cov["evaluations"] += 2
            if a != b:
                ctx.known(f["id"], f["what"])
    ctx.cov["distinct_nontrivial"] = len(distinct)
    ctx.cov["rule"] = ("generated async programs (awaits in operands, call arguments, templates, object/array literals, conditions, compound assignments, destructuring defaults, block scopes with shadowing, "
                       "for / for-of-generator / labelled loops with closures, switch, try/catch/finally with pending return/throw/continue, methods using this, recursive async helpers, host promises awaited "
                       "out of creation order and through Promise.all) each run with an in-program stub and under %d host schedules (immediate, delayed by extra steps, batched, permuted settlement, forced "
                       "GC, one response per call); plus a corpus of the shapes named in the property. distinct_nontrivial = distinct outcomes" % len(schedules))
    ctx.cov["input_distribution"] = hist
    ctx.sample({"program": progs[0][1][-700:], "stub": got[0][:200], "host": got[1][:200]})


def pre_proof(ctx):
    rc, out = common.sh([os.path.join(common.ROOT, "bin", "extract")])
    ctx.notes.append("bin/extract: " + out.strip())
