"""C01, built-in library: M-Lib (Lean) == tsrun (== reference engine) on the index arithmetic of the array / string
built-ins, enumerated over every list up to length 4 and the whole boundary argument set."""
import itertools

# argument tokens of the line protocol -> JavaScript spelling
INTS = list(range(-6, 7))
ARGS = [("u", "undefined"), ("n", "NaN"), ("-i", "-Infinity"), ("+i", "Infinity")] + [("i%d" % k, str(k)) for k in INTS] + \
       [("h%d" % k, repr(k + 0.5)) for k in range(-6, 6)] + [("i0", "-0"), ("i7", "7"), ("i-7", "-7"), ("i100", "100"), ("i-100", "-100"),
                                                               ("i4294967296", "4294967296"), ("i-4294967297", "-4294967297"), ("h1", "'1.5'"), ("i2", "'2'"), ("n", "'x'"), ("i0", "null"), ("i1", "true")]
SMALL = [a for a in ARGS if a[0] in ("u", "n", "-i", "+i", "i0", "i1", "i2", "i3", "i-1", "i-2", "i-5", "i5", "h0", "h-1", "h1", "h-2")][:16]
LISTS = [[], [1], [1, 2], [1, 2, 3], [1, 2, 3, 4], [5, 5, 6, 5], [7, 8, 7, 8, 7]]
TEXTS = ["", "a", "ab", "hello", "a b c"]


def js_list(l):
    return "[" + ",".join(str(x) for x in l) + "]"


def cases(rng, tier):
    """-> list of (model line, javascript expression whose value (joined) must equal the model's output)"""
    out = []
    lst = lambda l: ",".join(str(x) for x in l)
    show = "(r=>Array.isArray(r)?r.join(','):String(r))"
    args = ARGS if tier == "thorough" else [a for i, a in enumerate(ARGS) if i < 4 or a[0] in ("i-6", "i-4", "i-3", "i-2", "i-1", "i0", "i1", "i2", "i3", "i4", "i6", "h-3", "h-1", "h0", "h1", "h2", "i100", "i-100", "i4294967296")]
    for l in LISTS:
        for (s, js), (e, je) in itertools.product(args, args):
            out.append(("slice\t%s\t%s\t%s" % (lst(l), s, e), "%s.slice(%s,%s).join(',')" % (js_list(l), js, je)))
        for a, ja in args:
            out.append(("at\t%s\t%s" % (lst(l), a), "String(%s.at(%s))" % (js_list(l), ja)))
            out.append(("with\t%s\t%s\t0" % (lst(l), a), "(()=>{try{return %s.with(%s,0).join(',')}catch(e){return e.name}})()" % (js_list(l), ja)))
            out.append(("indexOf\t%s\t%d\t%s" % (lst(l), (l + [9])[0], a), "String(%s.indexOf(%d,%s))" % (js_list(l), (l + [9])[0], ja)))
            out.append(("indexOf\t%s\t%d\t%s" % (lst(l), (l + [9])[-1], a), "String(%s.indexOf(%d,%s))" % (js_list(l), (l + [9])[-1], ja)))
            out.append(("indexOf\t%s\t%d\t%s" % (lst(l), (l + [9])[0], a), "String(%s.includes(%d,%s)?%s.indexOf(%d,%s):-1)" % (js_list(l), (l + [9])[0], ja, js_list(l), (l + [9])[0], ja)))
            out.append(("lastIndexOf\t%s\t%d\t%s" % (lst(l), (l + [9])[0], a), "String(%s.lastIndexOf(%d,%s))" % (js_list(l), (l + [9])[0], ja)))
            out.append(("splice\t%s\t%s\t~\t" % (lst(l), a), "(a=>{const r=a.splice(%s);return r.join(',')+'|'+a.join(',')})(%s)" % (ja, js_list(l))))
        out.append(("lastIndexOf\t%s\t%d\t~" % (lst(l), (l + [9])[0]), "String(%s.lastIndexOf(%d))" % (js_list(l), (l + [9])[0])))
        out.append(("splice\t%s\t~\t~\t" % lst(l), "(a=>{const r=a.splice();return r.join(',')+'|'+a.join(',')})(%s)" % js_list(l)))
        for (s, js), (d, jd) in itertools.product(args, args):
            items = rng.choice([[], [9], [8, 9]])
            out.append(("splice\t%s\t%s\t%s\t%s" % (lst(l), s, d, lst(items)),
                        "(a=>{const r=a.splice(%s);return r.join(',')+'|'+a.join(',')})(%s)" % (",".join([js, jd] + [str(x) for x in items]), js_list(l))))
            out.append(("fill\t%s\t0\t%s\t%s" % (lst(l), s, d), "%s.fill(0,%s,%s).join(',')" % (js_list(l), js, jd)))
        trip = list(itertools.product(SMALL, SMALL, SMALL))
        if tier != "thorough":
            trip = rng.sample(trip, 400)
        for (t, jt), (s, js), (e, je) in trip:
            out.append(("copyWithin\t%s\t%s\t%s\t%s" % (lst(l), t, s, e), "%s.copyWithin(%s,%s,%s).join(',')" % (js_list(l), jt, js, je)))
    for t in TEXTS:
        q = "'%s'" % t
        for (a, ja), (b, jb) in itertools.product(args, args):
            out.append(("substring\t%s\t%s\t%s" % (t, a, b), "%s.substring(%s,%s)" % (q, ja, jb)))
            out.append(("substr\t%s\t%s\t%s" % (t, a, b), "%s.substr(%s,%s)" % (q, ja, jb)))
            out.append(("strslice\t%s\t%s\t%s" % (t, a, b), "%s.slice(%s,%s)" % (q, ja, jb)))
        for a, ja in args:
            out.append(("charAt\t%s\t%s" % (t, a), "%s.charAt(%s)" % (q, ja)))
            if a not in ("+i", "i4294967296"):          # allocation limits are C06's subject
                for f in ("ab", "x", ""):
                    out.append(("padStart\t%s\t%s\t%s" % (t, a, f), "%s.padStart(%s,'%s')" % (q, ja, f)))
                    out.append(("padEnd\t%s\t%s\t%s" % (t, a, f), "%s.padEnd(%s,'%s')" % (q, ja, f)))
                out.append(("repeat\t%s\t%s" % (t, a), "(()=>{try{return %s.repeat(%s)}catch(e){return e.name}})()" % (q, ja)))
    # the same model line may appear twice with different spellings of the arguments ('-0', '2' as a string, null, true)
    seen, uniq = set(), []
    for m, js in out:
        if (m, js) not in seen:
            seen.add((m, js))
            uniq.append((m, js))
    return uniq
