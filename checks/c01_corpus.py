"""Corpus generators of check C01: operands, operators, library calls, equivalent forms, feature programs."""
import json

# in-program canonical printer (type-tagged; -0, holes, Map/Set/Date/iterators distinguished; keys sorted; depth 4)
SHOW = ("function show(v,d){d=d||0;try{ if(typeof v==='number'){return 'n:'+(Object.is(v,-0)?'-0':String(v));} if(typeof v==='string')return 's:'+JSON.stringify(v); "
        "if(typeof v==='function')return 'fn'; if(typeof v==='symbol')return 'sym:'+String(v.description); if(typeof v==='bigint')return 'big:'+String(v); "
        "if(typeof v==='object'&&v!==null){ if(d>3)return '...'; "
        "if(Array.isArray(v)){const o=[];for(let i=0;i<v.length;i++){o.push(i in v?show(v[i],d+1):'hole');}return '['+o.join(',')+']';} "
        "if(v instanceof Map)return 'Map{'+[...v].map(e=>show(e,d+1)).join(',')+'}'; if(v instanceof Set)return 'Set{'+[...v].map(e=>show(e,d+1)).join(',')+'}'; "
        "if(v instanceof Date)return 'Date:'+v.getTime(); if(v instanceof RegExp)return 're:'+String(v); if(v instanceof Error)return 'err:'+v.name; "
        "if(typeof v.next==='function')return 'iter'+show([...v],d+1); "
        "return '{'+Object.keys(v).sort().map(k=>k+':'+show(v[k],d+1)).join(',')+'}';} return typeof v+':'+String(v);}catch(e){return 'showerr:'+(e&&e.name)}}")

# ------------------------------------------------------------------ M-Ops operands
MODEL_BIN = ["+", "-", "*", "<", ">", "<=", ">=", "==", "!=", "===", "!==", "&&", "||", "??", "&", "|", "^", "<<", ">>", ">>>"]
MODEL_UN = ["!", "-", "+", "typeof", "void", "~"]
FIXED_TOKENS = ["U", "N", "T", "F", "nNaN", "nInf", "n-Inf", "n-0", "n0", "n1", "n-1", "n2", "n7", "n10", "n255", "n-300", "n65536", "n2147483647", "n2147483648", "n-2147483649", "n4294967295", "n4294967296", "n31", "n32", "n33", "n-1000000007",
                "s", "s0", "s1", "s-1", "s 12 ", "sabc", "s0x10", "s-0x10", "sInfinity", "s-Infinity", "s+5", "s-0", "sa", "sb", "sB", "s10", "s9", "s007",
                "s+", "s-", "s ", "strue", "snull", "sundefined", "sNaN", "s0x", "s1 2", "s++1"]
ALPHA = " -+0123456789xafIABn"


def model_operands(rng, extra):
    toks = list(FIXED_TOKENS)
    for _ in range(extra):
        if rng.random() < 0.4:
            toks.append("n%d" % rng.choice([rng.randint(-20, 20), rng.randint(-2 ** 20, 2 ** 20)]))
        else:
            toks.append("s" + "".join(rng.choice(ALPHA) for _ in range(rng.randint(0, 6))))
    seen, out = set(), []
    for t in toks:
        if t not in seen:
            seen.add(t)
            out.append(t)
    return out


def token_js(t):
    fixed = {"U": "undefined", "N": "null", "T": "true", "F": "false", "nNaN": "NaN", "nInf": "Infinity", "n-Inf": "-Infinity", "n-0": "-0"}
    if t in fixed:
        return fixed[t]
    if t[0] == "n":
        return t[1:]
    return json.dumps(t[1:])


def model_show_to_js(m):
    if m.startswith("s:"):
        return "s:" + json.dumps(m[2:], ensure_ascii=False)
    return m


# ------------------------------------------------------------------ operators over every operand shape
VALS = ["undefined", "null", "true", "false", "0", "-0", "1", "-1", "1.5", "NaN", "Infinity", "-Infinity", "2147483648", "4294967296", "9007199254740992", "1e21", "-9223372036854779904", "18446744073709551616",
        "''", "'0'", "'1'", "' 1 '", "'1e3'", "'abc'", "'0x10'", "'-'", "[]", "[1]", "[1,2]", "({})", "({valueOf(){return 7}})", "({toString(){return 'ts'}})",
        "'b'", "'a'", "'10'", "'9'", "0.1", "-2147483649", "'1.5'", "[[]]", "[null]", "({valueOf(){return '3'},toString(){return 'x'}})", "({[Symbol.toPrimitive](h){return h==='default'?'D':h==='number'?5:'S'}})", "Object(1)", "Object('s')",
        "5e-324", "'\\t\\n 7 \\r'", "'0b11'", "'0o17'", "'.5'", "'5.'", "'1_0'"]
BIN = ["+", "-", "*", "/", "%", "**", "==", "!=", "===", "!==", "<", "<=", ">", ">=", "&", "|", "^", "<<", ">>", ">>>", "&&", "||", "??", ",", "in", "instanceof"]
UN = ["+", "-", "!", "~", "typeof ", "void "]


def operator_exprs(rng, tier):
    vals = VALS if tier == "thorough" else VALS[:37]
    out = []
    for a in vals:
        for u in UN:
            out.append("%s(%s)" % (u, a))
        for b in vals:
            for op in BIN:
                if op in ("in", "instanceof") and tier != "thorough":
                    continue
                out.append("(%s) %s (%s)" % (a, op, b))
    # update and compound assignment forms
    for a in vals:
        out.append("((x)=>[x++,x])(%s)" % a)
        out.append("((x)=>[--x,x])(%s)" % a)
        out.append("((x)=>[x--,x])(%s)" % a)
        out.append("((x)=>[++x,x])(%s)" % a)
        # the same on property, computed-property and element targets (the value of the expression AND the stored value)
        for form in ("o.k++", "o.k--", "++o.k", "--o.k", "o[p]++", "--o[p]", "o['k']--", "++o[(p)]"):
            out.append("((o,p)=>[%s,o.k])({k:%s},'k')" % (form, a))
        out.append("((a)=>[a[0]++,a[0]--,a])([%s])" % a)
        opm = rng.choice(["+", "-", "*", "%", "**", "&", "|", ">>>", "&&", "||", "??"])
        out.append("((o,p)=>[o.k %s= (%s),o[p] %s= (%s),o.k])({k:%s},'k')" % (opm, rng.choice(vals), opm, rng.choice(vals), a))
        for op in ["+", "-", "*", "/", "%", "**", "&", "|", "^", "<<", ">>", ">>>", "&&", "||", "??"]:
            b = rng.choice(vals)
            out.append("((x)=>[x %s= (%s),x])(%s)" % (op, b, a))
    return out


# ------------------------------------------------------------------ library
ARGS = ["undefined", "0", "1", "-1", "2", "1.5", "NaN", "Infinity", "-Infinity", "-0", "''", "'a'", "'1'", "null", "100", "'b'", "3", "-2.5", "4294967296", "'é'"]
STR_RECV = ["'abcabc'", "''", "'  a b  '", "'héllo wörld'", "'a,b,,c'", "'AbC'", "'12.5px'", "'\\ud83d\\ude00x'", "'ǅ ß ı'", "'a\\u0000b'"]
STR_M = {"at": 1, "charAt": 1, "charCodeAt": 1, "codePointAt": 1, "concat": 2, "endsWith": 2, "includes": 2, "indexOf": 2, "lastIndexOf": 2, "padEnd": 2, "padStart": 2,
         "repeat": 1, "slice": 2, "split": 2, "startsWith": 2, "substring": 2, "substr": 2, "toLowerCase": 0, "toUpperCase": 0, "trim": 0, "trimStart": 0, "trimEnd": 0,
         "replace": 2, "replaceAll": 2, "normalize": 0, "search": 1, "match": 1, "toString": 0, "valueOf": 0}
ARR_RECV = ["[1,2,3,4,5]", "[]", "[3,1,2]", "['b',undefined,'a',null]", "[1,[2,[3,[4]]]]", "[NaN,0,-0]", "[10,9,1,'x']", "[,1,,2]", "[undefined,3,undefined,1]"]
ARR_M = {"at": 1, "concat": 2, "copyWithin": 3, "fill": 3, "includes": 2, "indexOf": 2, "join": 1, "lastIndexOf": 2, "slice": 2, "splice": 3, "flat": 1, "reverse": 0,
         "sort": 0, "toSorted": 0, "toReversed": 0, "toSpliced": 3, "with": 2, "push": 2, "pop": 0, "shift": 0, "unshift": 2, "keys": 0, "entries": 0, "values": 0, "toString": 0}
ARR_CB = {"map": "x=>x*2", "filter": "x=>x>1", "find": "x=>x>1", "findIndex": "x=>x>1", "findLast": "x=>x>1", "findLastIndex": "x=>x>1", "some": "x=>x>2", "every": "x=>x>0",
          "reduce": "(a,x)=>a+x", "reduceRight": "(a,x)=>a+x", "flatMap": "x=>[x,x]", "forEach": "x=>x", "sort": "(a,b)=>b-a", "toSorted": "(a,b)=>a-b"}
NUM_RECV = ["0", "-0", "1", "255", "-1.5", "1e21", "1e-7", "NaN", "Infinity", "123.456", "0.000001234", "2**53", "0.5", "-255.75", "1.005", "25", "0.1"]
NUM_M = {"toFixed": 1, "toPrecision": 1, "toExponential": 1, "toString": 1}
NUM_ARGS = ["0", "1", "2", "5", "10", "16", "20", "21", "36", "100", "-1", "1.5", "NaN", "undefined", "37", "3", "7"]
STATIC = ["Math.abs(A)", "Math.ceil(A)", "Math.floor(A)", "Math.round(A)", "Math.trunc(A)", "Math.sign(A)", "Math.sqrt(A)", "Math.cbrt(A)", "Math.max(A,B)", "Math.min(A,B)", "Math.pow(A,B)",
          "Math.atan2(A,B)", "Math.hypot(A,B)", "Math.fround(A)", "Math.clz32(A)", "Math.imul(A,B)", "Math.log2(A)", "Math.log10(A)", "Math.exp(A)", "Math.expm1(A)", "Math.log1p(A)",
          "Math.sin(A)", "Math.cos(A)", "Math.atan(A)", "Math.log(A)",
          "Number(A)", "Number.isInteger(A)", "Number.isSafeInteger(A)", "Number.isFinite(A)", "Number.isNaN(A)", "Number.parseFloat(A)", "Number.parseInt(A,B)", "parseInt(A)", "parseInt(A,B)", "parseFloat(A)",
          "isNaN(A)", "isFinite(A)", "String(A)", "Boolean(A)", "Object.is(A,B)", "Array.isArray(A)", "Array.of(A,B)", "Array.from(A)", "Array(A)", "new Array(A,B)", "Array.from({length:2},(_, i)=>[i,A])",
          "JSON.stringify(A)", "JSON.stringify([A,B])", "JSON.stringify({a:A,b:B})", "JSON.stringify(A,null,B)", "JSON.parse(JSON.stringify([A,B]))", "JSON.parse(String(A))",
          "Object.keys(Object(A))", "Object.entries({a:A,b:B})", "Object.entries({a:A,1:B})", "Object.assign({},A,{b:B})", "Object.values({x:A,y:B})", "Object.fromEntries([['k',A],[B,1]])",
          "String.fromCharCode(A,B)", "String.fromCodePoint(A)", "encodeURIComponent(A)", "decodeURIComponent(encodeURIComponent(A))", "typeof A", "[A].toString()", "`${A}${B}`", "[A,B].sort()", "[B,A].sort((x,y)=>x-y)",
          "new Map([[A,1],[B,2]]).size", "new Set([A,B,A]).size", "new Map([[A,1]]).get(B)", "new Set([A]).has(B)", "[...new Set([A,B,A,B])]", "[...new Map([[A,1],[B,2],[A,3]])]",
          "Number.prototype.toString.call(255,A)", "new Date(+A).getTime()", "new Date(A===undefined?0:A===null?null:+A).getTime()", "new Date(2020,A,B).getTime()", "Date.UTC(2020,A,B)", "new Date(Date.UTC(2020,0,15,10,A,B)).toISOString()",
          "new Date(A*86400000).getUTCDay()", "new Date(A*1e10).toISOString()", "new Date(Date.UTC(2021,A)).getUTCMonth()", "new Date(0).setUTCHours(A,B)", "new Date(86400000*A).toJSON()",
          "(/a(b)?/g).exec(String(A)+'ab')", "String(A).replace(/[a-z]/g, c=>c.toUpperCase())", "'x'.padStart(A,B)", "Symbol(A).toString()", "Object.prototype.toString.call(A)",
          "[1,2,3].slice(A,B)", "'abcdef'.slice(A,B)", "'abcdef'.substring(A,B)", "[1,2,3].splice(A,B)", "A?.toString()", "(A,B)", "[...String(A)].length", "Number(A).toString(2)",
          "Math.max()", "Math.min()", "[].reduce((a,b)=>a+b,A)", "/^(\\d+)-(?<w>\\w+)$/.exec(String(A)+'-'+String(B))", "String(A).split(/(,)/, B)", "'a1b22c333'.replace(/\\d+/g, (m, o)=>'<'+m+o+A+'>')",
          "'aXbxc'.split(/x/i)", "'2020-01-02'.match(/(\\d+)-(\\d+)/).slice(0)", "[...'a1b2'.matchAll(/[a-z](\\d)/g)].map(m=>m[1]+m.index)", "/a/y.test('ba')", "new RegExp(String(A)).source",
          "Number.MAX_SAFE_INTEGER + A", "Number.EPSILON > A", "(A) instanceof Object", "Array.prototype.concat.call(A,B)", "Array.prototype.slice.call('abc',A,B)",
          "Object.getOwnPropertyNames({b:A,a:B})", "Object.freeze([A]).length", "structuredCloneMissing", "new Error(A).message", "new TypeError(A) instanceof Error", "String(new RangeError(A))",
          "Number(new Date(+A))", "new Date(2020,0,31).setMonth(A)", "new Date(Date.UTC(2019,11,31,23,59,59,999)+A).getUTCFullYear()", "Date.parse('2020-01-01')",
          "new Date('2020-06-15T12:30:45.678Z').getUTCMilliseconds()+A", "new Date('2020-06-15T12:30:45+02:00').toISOString()"]
STATIC = [s for s in STATIC if s != "structuredCloneMissing"]
# results the specification leaves implementation-approximated: compared up to the last digits
APPROX = ("Math.pow", "Math.exp", "Math.expm1", "Math.log", "Math.sin", "Math.cos", "Math.atan", "Math.hypot", "Math.cbrt", "**")


def is_approximated(e):
    return any(a in e for a in APPROX)


def argsets(rng, n, per):
    res = [[]]
    for k in range(1, n + 1):
        if k == 1:
            res += [[a] for a in ARGS]
        else:
            res += [[rng.choice(ARGS) for _ in range(k)] for _ in range(per)]
    return res


def subst(t, a, b):
    # placeholders are the single capitals A and B standing alone
    out = []
    i = 0
    while i < len(t):
        c = t[i]
        alone = (i == 0 or not (t[i - 1].isalnum() or t[i - 1] in "_.$'")) and (i + 1 == len(t) or not (t[i + 1].isalnum() or t[i + 1] in "_$'"))
        if c == "A" and alone:
            out.append(a)
        elif c == "B" and alone:
            out.append(b)
        else:
            out.append(c)
        i += 1
    return "".join(out)


def library_exprs(rng, tier):
    per = 12 if tier == "quick" else 40
    exprs = []
    for r in STR_RECV:
        for m, n in STR_M.items():
            for a in argsets(rng, n, per):
                exprs.append("%s.%s(%s)" % (r, m, ",".join(a)))
    for r in ARR_RECV:
        for m, n in ARR_M.items():
            for a in argsets(rng, n, per):
                exprs.append("((r)=>[r.%s(%s),r])(%s)" % (m, ",".join(a), r))
        for m, cb in ARR_CB.items():
            exprs.append("((r)=>[r.%s(%s),r])(%s)" % (m, cb, r))
            exprs.append("((r)=>[r.%s(%s,%s),r])(%s)" % (m, cb, rng.choice(ARGS), r))
    for r in NUM_RECV:
        for m in NUM_M:
            for a in [[]] + [[x] for x in NUM_ARGS]:
                if m == "toString" and r in ("1e21", "2**53") and a and a[0] not in ("10", "undefined"):
                    continue        # digits beyond 2^53 in another radix are implementation-approximated
                exprs.append("(%s).%s(%s)" % (r, m, ",".join(a)))
    for t in STATIC:
        two = subst(t, "\1", "\2")
        if "\2" in two:
            for _ in range(per * 2):
                exprs.append(subst(t, rng.choice(ARGS), rng.choice(ARGS)))
        elif "\1" in two:
            for a in ARGS:
                exprs.append(subst(t, a, a))
        else:
            exprs.append(t)
    seen, out = set(), []
    for e in exprs:
        if e not in seen:
            seen.add(e)
            out.append(e)
    return out


# ------------------------------------------------------------------ equivalent forms (no reference needed)
FORM_VALS = ["undefined", "null", "true", "false", "0", "-0", "1", "-1", "1.5", "NaN", "Infinity", "''", "'0'", "'1'", "' 1 '", "'abc'", "[]", "[1]", "[1,2]", "({})",
             "({valueOf(){return 7}})", "({toString(){return 'ts'}})", "'b'", "'10'", "'9'", "2147483648", "-2147483649", "'1.5'", "Object(1)", "new Date(5)"]
FORMS2 = [
    ("gt = swapped lt", "(A) > (B)", "(B) < (A)"),
    ("ge = swapped le", "(A) >= (B)", "(B) <= (A)"),
    ("!= is !==", "(A) != (B)", "!((A) == (B))"),
    ("!== is !===", "(A) !== (B)", "!((A) === (B))"),
    ("== symmetric", "(A) == (B)", "(B) == (A)"),
    ("=== symmetric", "(A) === (B)", "(B) === (A)"),
    ("&& as conditional", "(A) && (B)", "((x)=>x ? (B) : x)(A)"),
    ("|| as conditional", "(A) || (B)", "((x)=>x ? x : (B))(A)"),
    ("?? as conditional", "(A) ?? (B)", "((x)=>(x === null || x === undefined) ? (B) : x)(A)"),
    ("compound +=", "((x)=>{x += (B); return x})(A)", "((x)=>{x = x + (B); return x})(A)"),
    ("compound -=", "((x)=>{x -= (B); return x})(A)", "((x)=>{x = x - (B); return x})(A)"),
    ("compound *=", "((x)=>{x *= (B); return x})(A)", "((x)=>{x = x * (B); return x})(A)"),
    ("compound %=", "((x)=>{x %= (B); return x})(A)", "((x)=>{x = x % (B); return x})(A)"),
    ("compound <<=", "((x)=>{x <<= (B); return x})(A)", "((x)=>{x = x << (B); return x})(A)"),
    ("compound >>>=", "((x)=>{x >>>= (B); return x})(A)", "((x)=>{x = x >>> (B); return x})(A)"),
    ("compound &&=", "((x)=>{x &&= (B); return x})(A)", "((x)=>{x = x && (B); return x})(A)"),
    ("compound ??=", "((x)=>{x ??= (B); return x})(A)", "((x)=>{x = x ?? (B); return x})(A)"),
    ("Math.pow = **", "Math.pow(A, B)", "(A) ** (B)"),
    ("Object.is vs ===", "Object.is(A, B) || (A) !== (A) || (A) === 0", "(A) === (B) || (A) !== (A) || (A) === 0"),
    ("call forms", "((f)=>f(A, B))((p,q)=>[p,q])", "((f)=>f.call(null, A, B))(function(p,q){return [p,q]})"),
    ("apply / spread", "((f)=>f.apply(null, [A, B]))(function(p,q){return [p,q]})", "((f)=>f(...[A, B]))((p,q)=>[p,q])"),
    ("includes vs indexOf", "[A, 1].indexOf(B) >= 0 || (B) !== (B)", "[A, 1].includes(B) || (B) !== (B)"),
    ("Set has vs includes", "new Set([A, 1]).has(B)", "[A, 1].includes(B)"),
    ("Map key = Set key", "new Map([[A, 1]]).has(B)", "new Set([A]).has(B)"),
    ("dot / bracket / destructure", "({k: A, j: B}).k", "(({k}) => k)({k: A, j: B})"),
    ("array destructure", "(([p, q]) => [q, p])([A, B])", "((t) => [t[1], t[0]])([A, B])"),
    ("default parameter", "((p = B) => p)(A)", "((p) => p === undefined ? (B) : p)(A)"),
    ("template / concat", "`${A}|${B}`", "String(A) + '|' + String(B)"),
    ("JSON pair", "JSON.stringify([A, B])", "'[' + [A, B].map(v => JSON.stringify(v) === undefined ? 'null' : JSON.stringify(v)).join(',') + ']'"),
    ("entries / keys+values", "Object.entries({p: A, q: B})", "((o) => Object.keys(o).map(k => [k, o[k]]))({p: A, q: B})"),
    ("assign / spread", "Object.assign({}, {p: A}, {q: B})", "({...{p: A}, ...{q: B}})"),
    ("concat / spread", "[A].concat([B])", "[...[A], ...[B]]"),
    ("push / literal", "((r) => {r.push(A, B); return r})([])", "[A, B]"),
    ("max / reduce", "Math.max(A, B)", "[A, B].reduce((m, v) => { const a = +m, b = +v; return (a !== a || b !== b) ? NaN : (b > a || (b === a && Object.is(a, -0)) ? b : a) }, -Infinity)"),
    ("slice / substring in range", "'abcdef'.slice(1, 4)", "'abcdef'.substring(1, 4)"),
    ("for / while", "((n)=>{let s=0; for (let i=0;i<n;i++){ if (i==2) continue; s+=i } return s})(5)", "((n)=>{let s=0; let i=0; while (i<n){ if (i!=2) { s+=i } i++ } return s})(5)"),
]
FORMS1 = [
    ("unary plus forms", "+(A)", "(A) - 0"),
    ("unary plus forms *", "+(A)", "(A) * 1"),
    ("Number() vs +", "Number(A)", "+(A)"),
    ("negation as product", "-(A)", "(A) * -1"),
    ("!! vs Boolean", "!!(A)", "Boolean(A)"),
    ("String vs template", "String(A)", "`${A}`"),
    ("~~ vs |0", "~~(A)", "(A) | 0"),
    (">>>0 twice", "(A) >>> 0", "((A) >>> 0) >>> 0"),
    ("x++ vs +1", "((x)=>{x++; return x})(A)", "((x)=>{x = +x + 1; return x})(A)"),
    ("typeof forms", "typeof (A)", "((x)=>typeof x)(A)"),
    ("isNaN forms", "isNaN(A)", "Number.isNaN(Number(A))"),
    ("at / index", "[1, A, 3].at(-2)", "[1, A, 3][1]"),
    ("Array.from / spread", "Array.from([A, 2])", "[...[A, 2]]"),
    ("values / for-of", "[...[A, 2].values()]", "((r)=>{const o=[]; for (const v of r) o.push(v); return o})([A, 2])"),
    ("keys order", "Object.keys({b: A, a: 1})", "((o)=>{const r=[]; for (const k in o) r.push(k); return r})({b: A, a: 1})"),
    ("JSON round trip", "JSON.parse(JSON.stringify({k: [A]}))", "((v)=>({k: [v === undefined || typeof v === 'function' || (typeof v === 'number' && !isFinite(v)) ? null : JSON.parse(JSON.stringify(v))]}))(A)"),
    ("arrow / function", "((x) => [x, typeof x])(A)", "(function (x) { return [x, typeof x] })(A)"),
    ("class / closure", "new (class { constructor(v) { this.v = v } get() { return this.v } })(A).get()", "((v) => ({ get: () => v }))(A).get()"),
    ("generator / array", "[...(function* (v) { yield v; yield v })(A)]", "[A, A]"),
    ("yield* value, delegate done at once", "((v) => { function* d(){ return v } function* g(){ const r = yield* d(); return [r] } return g().next().value })(A)", "[A]"),
    ("yield* value, delegate yields first", "((v) => { function* d(){ yield 0; return v } function* g(){ const r = yield* d(); return [r] } const it = g(); it.next(); return it.next().value })(A)", "[A]"),
    ("optional chain", "(A)?.x", "((v) => (v === null || v === undefined) ? undefined : v.x)(A)"),
    ("throw / catch identity", "((v) => { try { throw v } catch (e) { return e } })(A)", "A"),
    ("finally keeps value", "((v) => { try { return v } finally { } })(A)", "A"),
    ("switch / if", "((v) => { switch (v) { case 1: return 'one'; case '1': return 'str'; default: return 'other' } })(A)", "((v) => v === 1 ? 'one' : v === '1' ? 'str' : 'other')(A)"),
    ("Math.trunc forms", "Math.trunc(A)", "((n) => n < 0 ? Math.ceil(n) : Math.floor(n))(+(A))"),
    ("toString radix 10", "Number(A).toString()", "Number(A).toString(10)"),
    ("parseInt entry points", "parseInt(A)", "Number.parseInt(A)"),
    ("parseFloat entry points", "parseFloat(A)", "Number.parseFloat(A)"),
    ("sort / toSorted", "[3, A, 1].sort()", "[3, A, 1].toSorted()"),
    ("reverse / toReversed", "[3, A, 1].reverse()", "[3, A, 1].toReversed()"),
    ("map / for", "[1, A].map(v => [v])", "((r)=>{const o=[]; for (let i=0;i<r.length;i++) o.push([r[i]]); return o})([1, A])"),
]


def form_pairs(rng, tier):
    vals = FORM_VALS if tier == "thorough" else FORM_VALS[:22]
    out = []
    for name, l, r in FORMS1:
        for a in vals:
            out.append((name, subst(l, a, a), subst(r, a, a)))
    for name, l, r in FORMS2:
        pairs = [(a, b) for a in vals for b in vals]
        if tier != "thorough":
            pairs = rng.sample(pairs, 120)
        for a, b in pairs:
            out.append((name, subst(l, a, b), subst(r, a, b)))
    return out


# ------------------------------------------------------------------ feature programs
PRELUDE = SHOW + "\nconst log=[]; function out(){ log.push([...arguments].map(a=>show(a)).join(' ')); }\n"
EPILOGUE = "\nlog.join('\\n')"
# each body is wrapped as: PRELUDE + "try { BODY } catch (e) { out('uncaught', e && e.name, e && e.message !== undefined ? typeof e.message : e) }" + EPILOGUE
# K, J are replaced by small integers, S by a short string literal
FEATURES = [
    # closures and scoping
    "const fs=[]; for (let i=0;i<K;i++){ fs.push(()=>i*J); } out(fs.map(f=>f()));",
    "const fs=[]; for (var i=0;i<K;i++){ fs.push(()=>i); } out(fs.map(f=>f()));",
    "function counter(){ let c=J; return { inc(){ return ++c }, get(){ return c } } } const a=counter(), b=counter(); a.inc(); a.inc(); b.inc(); out(a.get(), b.get());",
    "out(typeof hoisted, hoisted()); function hoisted(){ return K } out(typeof v1); var v1 = J; out(v1);",
    "let x=K; { let x=J; out(x); { let x=S; out(x); } } out(x);",
    "function f(){ try { return inner() } catch(e) { return e.name } function inner(){ return tdz } let tdz=K; } out(f());",
    "function tz(){ try { { const t = typeof tdz2; let tdz2=K; return t } } catch(e) { return e.name } } out(tz(), typeof neverDeclared, (()=>{ try { return typeof cz } catch (e) { return e.name } finally { } const cz=J; })());",
    "const o={ n:K, m(){ return [1,2].map(v=>v*this.n) }, g: function(){ return this && this.n } }; out(o.m(), o.g(), (0,o.g)===o.g);",
    "const o={ n:K, m(){ return this===undefined?'undef':this.n } }; out((o.m)(), ((o.m))(), (((o.m)))(), ((o['m']))(), ((o?.m))(), (0,o.m)===o.m);",
    "const p={a:1,z:0}; const c=Object.create(p); c.b=2; c.z=9; Object.defineProperty(c,'hid',{value:1,enumerable:false}); p.hid=5; const ks=[]; for (const k in c) ks.push(k); class P1 { x=1; m(){} } class Q1 extends P1 { y=K; } for (const k in new Q1()) ks.push(k); for (const k in Object.create([7,8])) ks.push(k); for (const k in 'ab') ks.push(k); out(ks, Object.keys(Object.prototype).length, Object.keys(Array.prototype).length, Object.keys(P1.prototype).length);",
    "function G1(a,b){ this.v=a+b } const B1=G1.bind(null,K); const BB=B1.bind(null,J); const o1=new B1(1), o2=new BB(); out(o1.v, o2.v, o1 instanceof B1, o1 instanceof G1, o2 instanceof BB, ({}) instanceof B1, Object.getPrototypeOf(o2)===G1.prototype, B1.name, BB.length);",
    "const jobOrder=[]; let res1; const pj=new Promise(r=>{ res1=r }); pj.then(()=>jobOrder.push('a')).then(()=>jobOrder.push('c')); pj.then(()=>jobOrder.push('b')); res1(K); jobOrder.push('sync'); Promise.resolve().then(()=>jobOrder.push('m')); jobOrder.push('after'); out(jobOrder);",
    "const aggOut=[]; Promise.any([Promise.reject(K), Promise.reject(J)]).catch(e=>{ aggOut.push(typeof AggregateError, e instanceof Error, e && e.name, e && e.errors) }); Promise.any([]).catch(e=>{ aggOut.push(e && e.name, e && e.errors && e.errors.length) }); out(aggOut);",
    "function outer(){ const args=[...arguments]; const arrow=()=>arguments.length; return [args, arrow()] } out(outer(K,J,S));",
    "function fact(n){ return n<=1?1:n*fact(n-1) } out(fact(K+5)); const fib=n=>n<2?n:fib(n-1)+fib(n-2); out(fib(K+10));",
    "function dflt(a, b=a+K, c=()=>a+b){ a=J; return [a,b,c()] } out(dflt(1), dflt(1,2), dflt(undefined, undefined));",
    "function rest(a, ...r){ return [a, r, r.length] } out(rest(), rest(K), rest(K,J,S)); out(rest.length, ((a,b=1,c)=>0).length);",
    "var g1=K; function sh(){ var g1; out(g1); g1=J; out(g1) } sh(); out(g1);",
    "let s=''; L1: for (let i=0;i<3;i++){ for (let j=0;j<3;j++){ if (j==K%3) continue L1; if (i==J%3) break L1; s+=i+''+j+',' } } out(s);",
    "let r=[]; let i=0; do { i++; if (i%2) continue; r.push(i) } while (i<K+4); out(r);",
    "const r=[]; for (const k in {a:1,b:2,c:3}) { r.push(k) } for (const v of 'hé😀') r.push(v); for (const [k,v] of new Map([[1,K],[2,J]])) r.push(k+v); out(r);",
    "function sw(v){ const r=[]; switch(v){ case 0: r.push('0'); case 1: r.push('1'); break; case 2: { r.push('2') } default: r.push('d'); case 3: r.push('3') } return r } out(sw(0),sw(1),sw(2),sw(3),sw(K+4),sw('1'));",
    # classes
    "class A { constructor(x){ this.x=x } get dbl(){ return this.x*2 } set dbl(v){ this.x=v/2 } static make(x){ return new this(x) } toString(){ return 'A('+this.x+')' } } class B extends A { constructor(x){ super(x+K) } get dbl(){ return super.dbl+1 } toString(){ return 'B'+super.toString() } } const b=B.make(J); b.dbl=10; out(b.x, b.dbl, String(b), b instanceof A, Object.getPrototypeOf(B)===A, B.name, typeof A);",
    "function Fn(){ return new.target === undefined ? 'call' : (new.target === Fn ? 'new' : 'sub') } class Base { constructor(){ this.k = new.target.name } } class Der extends Base {} out(Fn(), new Fn() instanceof Fn, new Der().k, new Base().k, Reflect.construct(Fn, [], Der) instanceof Der, K);",
    "const lg=[]; class SO { static { lg.push('b1', SO.x); SO.x = (SO.x|0) + K; } static x = J; static { SO.x += 1; lg.push('b2', SO.x); } static y = SO.x * 2; static nm = SO.name; static { lg.push(this === SO, SO.y); } } out(lg, SO.x, SO.y, SO.nm);",
    "const po={x:1}; (po.x) += K; (po.x) = po.x + 1; out(po.x);",
    "class P { #v=K; static #count=0; static n(){ return P.#count } constructor(){ P.#count++ } get v(){ return this.#v } inc(){ this.#v++; return this } #hid(){ return this.#v*J } pub(){ return this.#hid() } static has(o){ return #v in o } } const p=new P().inc().inc(); new P(); out(p.v, p.pub(), P.n(), P.has(p), P.has({}));",
    "class F { a=K; b=this.a+J; static s=S; ['c'+'d']=1; m=()=>this.a } const f=new F(); out(f, F.s, f.m.call(null), Object.keys(f));",
    "class E1 extends Error { constructor(m){ super(m); this.name='E1'; this.code=K } } try { throw new E1(S) } catch(e) { out(e instanceof E1, e instanceof Error, e.name, e.message, e.code, String(e), Object.prototype.toString.call(e)) }",
    "class Base { who(){ return 'base' } hi(){ return 'hi '+this.who() } } class D extends Base { who(){ return 'derived' } } out(new D().hi(), new Base().hi(), D.prototype.hasOwnProperty('who'), D.prototype.hasOwnProperty('hi'));",
    "try { class X { constructor(){ this.a } } X() } catch(e) { out(e.name) } try { class Y extends Object { constructor(){ this.a=1 } } new Y() } catch(e) { out(e.name) } try { null.x } catch(e) { out(e.name) } try { undefinedFn() } catch(e) { out(e.name) } try { (void 0)() } catch(e) { out(e.name) }",
    "const o={ get a(){ return K }, set a(v){ this._a=v }, ['k'+J]: 1, m(){ return super.toString===Object.prototype.toString } }; o.a=5; out(o.a, o._a, Object.keys(o), o.m(), Object.getOwnPropertyDescriptor(o,'a').set!==undefined);",
    "class It { constructor(n){ this.n=n } *[Symbol.iterator](){ for (let i=0;i<this.n;i++) yield i*J } } out([...new It(K)], Array.from(new It(2)), Math.max(...new It(3))); const [p,q=9,...r]=new It(K); out(p,q,r);",
    "class S1 { static x=K; static { S1.y=S1.x+J } static get z(){ return this.y*2 } } class S2 extends S1 {} out(S1.y, S2.z, Object.hasOwn(S2,'x'), S2.x);",
    "function Old(v){ this.v=v } Old.prototype.get=function(){ return this.v }; const od=new Old(K); out(od.get(), od.constructor===Old, od instanceof Old, Object.create(Old.prototype) instanceof Old, new.target===undefined);",
    "const sym=Symbol('d'); const o={ [sym]:K, s:1 }; out(o[sym], Object.keys(o), JSON.stringify(o), Object.getOwnPropertySymbols(o).length, sym.toString(), sym.description, typeof sym);",
    # destructuring
    "const {a, b:{c=K, ...br}={}, ...rest}={a:1, b:{d:J, e:3}, x:S, y:2}; out(a,c,br,rest);",
    "const [x,,y=K,[z]=[J],...w]=[1,2,undefined,undefined,5,6]; out(x,y,z,w);",
    "let p=K,q=J; [p,q]=[q,p]; out(p,q); ({p, q=S}={p:q}); out(p,q);",
    "function d({a=K, b}={}, [c, d2]=[J]){ return [a,b,c,d2] } out(d(), d({b:2},[3,4]), d({a:null}));",
    "try { const {a}=null } catch(e) { out(e.name) } try { const [a]=K } catch(e) { out(e.name) } const {length}=S; out(length); const [c0]=S; out(c0);",
    "const o={}; [o.a, o['b']]=[K,J]; ({x:o.c, ...o.r}={x:1,y:2,z:3}); out(o);",
    "const m=new Map([[{k:1},K]]); for (const [{k},v] of m) out(k,v); out([[1,2],[3,4]].map(([a,b])=>a*b+K));",
    # generators and iteration protocols
    "function* g(){ const a=yield K; out('got',a); try { yield a+J } finally { out('cleanup') } return S } const it=g(); out(it.next(), it.next(5), it.next(), it.next());",
    "function* g(){ try { yield 1; yield 2 } finally { out('fin'); yield 99 } } const it=g(); out(it.next(), it.return(K), it.next(), it.next());",
    "function* g(){ try { yield 1 } catch(e) { out('caught',e); yield e+J } } const it=g(); it.next(); out(it.throw(K), it.next()); try { g().throw(S) } catch(e) { out('outer',e) }",
    "function* inner(){ const r=yield 'i1'; return r+K } function* outerG(){ const v=yield* inner(); yield v; yield* [J, S]; return 'done' } const it=outerG(); out(it.next(), it.next(10), it.next(), it.next(), it.next(), it.next());",
    "function* nat(){ let n=0; while(true) yield n++ } const r=[]; for (const v of nat()){ if (v>K+2) break; r.push(v*J) } out(r); const it=nat(); it.next(); out(it[Symbol.iterator]()===it, typeof it.next);",
    "let closed=0; const iterable={ [Symbol.iterator](){ let i=0; return { next(){ return {value:i++, done:i>K+3} }, return(){ closed++; return {} } } } }; for (const v of iterable){ if (v==1) break } const [a]=iterable; try { for (const v of iterable) throw v } catch(e) {} out(closed, [...iterable]);",
    "const e=[K,J].entries(); out(e.next(), [...e]); const ks=new Map([[1,S]]).keys(); out(ks.next(), ks.next()); out([...new Set([3,1,3]).entries()]); out(typeof [][Symbol.iterator], Array.from({length:2, 0:S}));",
    "function* g(){ yield* g2(); } function* g2(){ yield K; return J } out([...g()]); out(Object.prototype.toString.call(g()), g() instanceof g, typeof g.prototype);",
    # yield* result values (delegate that never yields, recursion, hand-written iterators)
    "function* walk(n){ if (n===null) return 0; const l=yield* walk(n.l); yield n.v; const r=yield* walk(n.r); return l+r+1 } const tree={v:K,l:{v:1,l:null,r:null},r:{v:J,l:null,r:{v:9,l:null,r:null}}}; const vals=[]; const it=walk(tree); let st=it.next(); while(!st.done){ vals.push(st.value); st=it.next() } out(vals, st.value);",
    "function* none(){ return S } function* one(){ yield 1; return K } function* outerG(){ const a=yield* none(); const b=yield* one(); const c=yield* []; const d=yield* {[Symbol.iterator](){ return { next(){ return {done:true, value:J} } } }}; return [a,b,c,d] } const it=outerG(); out(it.next('x'), it.next('y'), it.next('z'));",
    "function* inner(){ const got=yield 'q'; return got+K } function* outerG(){ const r1=yield* inner(); const r2=yield* (function*(){ return r1+J })(); yield r2; return 'end' } const it=outerG(); out(it.next(), it.next(10), it.next(), it.next());",
    # exceptions
    "function f(v){ try { if (v==0) throw new RangeError(S); if (v==1) return 'ret'; out('body') } catch(e) { out('catch', e.name); return 'c' } finally { out('fin', v) } return 'end' } out(f(0), f(1), f(2));",
    "function f(){ for (let i=0;i<3;i++){ try { if (i==K%3) continue; if (i==2) break; out('b',i) } finally { out('f',i) } } try { try { throw 1 } finally { out('inner') } } catch(e) { out('outer', e) } try { return 'r' } finally { try { out('nested') } finally { out('nested2') } } } out(f());",
    "function f(){ try { throw new Error('a') } catch(e) { try { throw new TypeError(e.message+'b') } catch(e2) { return [e.message, e2.message, e2 instanceof TypeError, e2 instanceof Error] } } } out(f()); try { try { throw K } finally { throw J } } catch(e) { out(e) }",
    "const r=[]; for (const v of [()=>{throw undefined}, ()=>{throw null}, ()=>{throw {a:K}}, ()=>{throw [J]}, ()=>{throw S}]) { try { v() } catch(e) { r.push(e) } } out(r); try { throw new Error(S, {cause:K}) } catch ({message, cause}) { out(message, cause) }",
    "function deep(n){ if (n==0) throw new Error('bottom'); try { deep(n-1) } finally { c++ } } let c=0; try { deep(K+3) } catch(e) { out(e.message, c) } try { JSON.parse('{bad') } catch(e) { out(e.name) } try { new Array(-1) } catch(e) { out(e.name) } try { (1).toFixed(101) } catch(e) { out(e.name) } try { 'a'.repeat(-1) } catch(e) { out(e.name) } try { decodeURIComponent('%') } catch(e) { out(e.name) }",
    "const e=new Error(S); out(e.name, e.message, Object.keys(e), e.toString(), 'stack' in e, Object.prototype.hasOwnProperty.call(e,'message'), new Error().message, Error(S) instanceof Error);",
    # objects, property order, descriptors
    "const o={b:1, 2:K, a:2, 1:J, [Symbol.iterator]:0}; o.c=3; delete o.b; o.b=4; out(Object.keys(o), JSON.stringify(o), Object.entries(o).length);",
    "const o={}; Object.defineProperty(o,'h',{value:K, enumerable:false}); Object.defineProperty(o,'r',{get(){return J}, enumerable:true, configurable:true}); out(Object.keys(o), o.h, o.r, JSON.stringify(o), Object.getOwnPropertyNames(o)); 'use strict'; o.h=5; out(o.h);",
    "const att=f=>{ try { f(); return 'ok' } catch(e) { return e.name } }; const fz=Object.freeze({a:K, n:{b:1}}); out(att(()=>{fz.a=9}), att(()=>{fz.n.b=J}), att(()=>{delete fz.a}), att(()=>{fz.z=1})); out(fz, Object.isFrozen(fz), Object.isFrozen(fz.n)); const sl=Object.seal({a:1}); out(att(()=>{sl.a=2}), att(()=>{sl.b=3}), att(()=>{delete sl.a})); out(sl, Object.isSealed(sl), Object.isExtensible(sl));",
    "const proto={greet(){ return 'hi '+this.n }}; const o=Object.create(proto,{n:{value:S, enumerable:true}}); out(o.greet(), Object.keys(o), 'greet' in o, o.hasOwnProperty('greet'), Object.getPrototypeOf(o)===proto); const bare=Object.create(null); bare.x=K; out(Object.keys(bare), 'toString' in bare);",
    "const o={a:{b:{c:K}}, f(){ return this.a }}; out(o?.a?.b?.c, o?.x?.b?.c, o.f?.().b, o.nf?.(), o?.['a'], (null)?.[J], delete o?.a?.b, o.a);",
    "const a={v:K}; const b=a; b.v=J; const c={...a}; c.v=0; out(a.v, a===b, a=={v:J}, [1]==[1], NaN!=NaN, [a].includes(b), [NaN].includes(NaN), [NaN].indexOf(NaN));",
    "out(JSON.stringify({a:[K,{b:undefined,c:()=>1,d:NaN,e:new Date(0),f:Symbol('s')}],g:null,h:'\\u2028\"\\\\'}), JSON.stringify([undefined,function(){}]), JSON.stringify({toJSON(){return S}}), JSON.stringify('\\ud800'), JSON.stringify({a:1,b:[1,2]},null,J%5), JSON.stringify({a:1,b:2,c:3},['a','c']), JSON.stringify({a:K},(k,v)=>typeof v==='number'?v+1:v));",
    "out(JSON.parse('[1,\"a\",null,true,{\"k\":[{}]}]'), JSON.parse(' 1e3 '), JSON.parse('\"\\\\u0041\\\\n\"'), JSON.parse('{\"a\":1,\"a\":2}'), JSON.parse('{\"__proto__\":1}').__proto__, JSON.parse('[1,2]',(k,v)=>Array.isArray(v)?v:v*K));",
    # Map / Set
    "const m=new Map(); m.set('a',1).set(NaN,K).set(0,'z').set(-0,'nz'); const k={}; m.set(k,J); m.delete('a'); m.set('a',2); out([...m.keys()], m.get(NaN), m.get(0), m.size, m.has({}), m.get(k)); m.forEach((v,key,mm)=>{ if (key===0) mm.delete(NaN) }); out(m.size);",
    "const s=new Set([3,1,3,'3',NaN,NaN,0,-0]); out([...s], s.size, s.has('3'), s.delete(1), s.delete(1), [...s.add(K).add(3)]); const r=[]; for (const v of s){ if (r.length<10) { s.delete(v); s.add(v+'x'.length) ; r.push(v) } } out(r.length>0);",
    "const ga=[1,2,3,4,5,6]; const gm=Map.groupBy(ga, x => { if (x === 2) ga.length = 3; return x % 2 }); const fa=[1,2,3,4,5,6]; const fr=Array.from(fa, x => { if (x === 2) fa.length = 3; return x * K }); out([...gm], fr);",
    "const m=new Map([[1,'a'],[2,'b'],[3,'c']]); const it=m.entries(); m.delete(2); m.set(4,'d'); out([...it]); const m2=new Map(m); m2.clear(); out(m.size, m2.size, new Map(Object.entries({x:K})).get('x'), Object.fromEntries(m));",
    # strings, template literals, regexp
    "const n=K, t=S; out(`a${n}b${t}c${n+J}`, `${{}}`, `${[1,2]}`, `${null}${undefined}`, `line1\\nline2`.split('\\n').length, String.raw`\\n${n}`, ((s,...v)=>s.raw.join('|')+v.join())`x${n}y\\t${t}z`);",
    "const re=/(\\d+)-(?<w>[a-z]+)/gi; const s='10-ab 20-CD 30-ef'; const r=[]; let m; while ((m=re.exec(s))) r.push([m[0],m.index,m.groups.w,re.lastIndex]); out(r, s.replace(re,'$2:$1:$<w>:$&:$$'), s.replace(re,(all,d,w,off)=>w+d+off), s.split(/\\s/), s.match(re), s.match(/x/), s.search(/CD/));",
    "out(/^[\\w.]+@[a-z]+\\.[a-z]{2,}$/.test('a.b@c.de'), /a.c/s.test('a\\nc'), /a.c/.test('a\\nc'), /^b/m.test('a\\nb'), 'aaa'.replace(/a/,'b'), 'aaa'.replace('a','b'), 'aaa'.replaceAll('a','b'), 'a1b2'.replace(/\\d/g, d=>d*K), /(a)|(b)/.exec('b'), /\\u{1F600}/u.test('😀'), /(?<=\\$)\\d+/.exec('$42')[0], /(\\w)\\1/.test('hello'));",
    "const re=/a/g; out(re.test('aa'), re.lastIndex, re.test('aa'), re.test('aa'), re.lastIndex, re.flags, re.source, re.global, String(re), new RegExp('a+','y').sticky, new RegExp(/x/g,'i').flags); try { new RegExp('(') } catch(e) { out(e.name) }",
    "out('abc'[1], 'abc'[K+5], 'abc'.length, 'é'.length, 'a'<'b', 'a'<'B', 'Z'<'a', '10'<'9', 10<9, '10'<9, 'abc'.at(-1), 'a-b-c'.split('-',2), 'abc'.split(''), ' x '.trim().length, 'abc'.localeCompare('abc'), 'ß'.toUpperCase(), 'İ'.toLowerCase().length, 'x'.codePointAt(0), String.fromCodePoint(128512).length);",
    # numbers and dates
    "out(0.1+0.2, 0.1*3, 1/3, 5%3, -5%3, 5%-3, 5.5%2, 2**10, 2**-1, (-8)**(1/3), 7/0, -7/0, 0/0, 1e21+1, 123456789*987654321, 0.1+0.7, 9007199254740993, 1/-0, K/J);",
    "out(5&3, 5|3, 5^3, ~5, 1<<31, 1<<32, -1>>>0, -1>>>28, -9>>1, 2**32>>0, 2**31|0, 1.9|0, -1.9|0, '12'|0, NaN|0, 2**53+2>>>0, K<<J, K>>>1);",
    "out((25).toString(2), (255).toString(16), (0.5).toString(2), (-255).toString(36), (1e21).toString(), (123.456).toFixed(1), (0.000001).toString(), (1e-7).toString(), (1234.5678).toExponential(2), (0).toPrecision(3), (K/7).toPrecision(4), Number('0x1f'), Number(' 12 '), Number('1,2'), Number(''), Number(null), Number([5]), Number('1e3'), Number(true));",
    "const d=new Date(Date.UTC(2020,K,J,10,20,30,456)); out(d.getTime(), d.toISOString(), d.getUTCFullYear(), d.getUTCMonth(), d.getUTCDate(), d.getUTCDay(), d.getUTCHours(), d.getUTCMinutes(), d.getUTCSeconds(), d.getUTCMilliseconds(), d.toJSON(), d.valueOf()===+d, typeof (d+1), d-1, JSON.stringify({d}));",
    "const d=new Date(0); d.setUTCFullYear(2024, 1, 29); d.setUTCHours(25); out(d.toISOString()); d.setUTCMonth(K+12); out(d.toISOString()); d.setUTCDate(0); out(d.toISOString()); d.setTime(NaN); out(d.getTime(), String(d.getUTCDay())); try { d.toISOString() } catch(e) { out(e.name) } out(new Date(2020,0,1) < new Date(2020,0,2), new Date(8.64e15+1).getTime(), new Date(2019,K).getMonth());",
    # arrays
    "const a=[5,1,4]; a.length=K+5; out(a.length); a.length=2; out(a); a[4]=J; out(a.length, a.indexOf(undefined), 3 in a, a.findIndex(v=>v===undefined), JSON.stringify(a)); out([3,20,100].sort(), [3,20,100].sort((x,y)=>x-y), ['b',undefined,'a'].sort(), [1,2,3].reverse(), [[1,2],[3]].flat(), [1,[2,[3,[4]]]].flat(Infinity));",
    "const a=[1,2,3,4,5]; out(a.slice(-2), a.slice(1,-1), a.splice(1,2,'x','y','z'), a, a.concat(6,[7,[8]]), a.join('-'), a.indexOf('y'), a.lastIndexOf(5), a.includes('z'), a.find(v=>v>3), a.findLast(v=>typeof v==='string'), a.at(-1), a.copyWithin(0,3), a.fill(0,K%5), Array.from('abc',c=>c+c), Array.of(7).length, Array(3).length, [,'a'].length);",
    "const r=[]; [1,2,3].forEach((v,i,arr)=>{ if (i==0) arr.push(9); r.push(v) }); out(r, [1,2,3].reduce((a,v)=>a+v), [1,2,3].reduceRight((a,v)=>a+'-'+v), [].reduce((a,v)=>a+v,K), [[1,'a'],[2,'b']].map(([n,s])=>s.repeat(n)), [1,2,3,4].filter((v,i)=>i%2), [1,2,3].every(v=>v<4), [].some(v=>true), [3,1,2].toSorted(), [1,2,3].with(1,K)); try { [].reduce((a,v)=>a) } catch(e) { out(e.name) }",
    "const a=[1,2,3]; const b=[...a, ...'hi', ...new Set([K,K]), ...[[J]]]; out(b, Math.max(...a), [...a.keys()], [...a.entries()], Array.isArray(b), typeof a, a+'', a==='1,2,3', a=='1,2,3', String([1,[2,3]]), String([null,undefined,1]), [] + [], [] + {}, [1]*[2]);",
    # misc semantics
    "out(typeof null, typeof undefined, typeof 1, typeof '', typeof true, typeof {}, typeof [], typeof (()=>1), typeof class{}, typeof Symbol(), typeof undeclared, void 0, null ?? K, 0 ?? K, 0 || J, '' && 1, !!'0', !!NaN, null == undefined, null == 0, null >= 0, undefined == 0, '' == 0, '0' == false, [] == false, [0] == false, [1] == 1);",
    "let a=K; const r=[a++, a, ++a, a--, a, -a, +'3'+ +'4', '3'+4, 3+'4', '3'-1, '3'*'4', [2]*[3], true+true, null+1, undefined+1, {}+1, 1+{}, 'a'+1+2, 1+2+'a', 1<2<3, 3>2>1, a+=2, a-=1, a*=J, a%=7, a**=2, a>>=1, a||=5, a&&=6, a??=7]; out(r);",
    "var getter=0; const o={ get x(){ getter++; return K } }; o.x; o.x; const {x}=o; out(getter, x); let order=[]; const f=n=>{ order.push(n); return n }; f(1)+f(2)*f(3); out(order); order=[]; f(1) && f(0) && f(2); f(0) || f(3); out(order); const arr=[f(7), f(8)][f(0)]; out(arr, order.length);",
    "label: { out('in'); if (K>=0) break label; out('never') } out('after'); let c=0; outer: while (true) { c++; inner: do { if (c<3) continue outer; break outer } while (false) } out(c); const v=(()=>{ if (J>100) return 'big' })(); out(v);",
    "out([1,2,3].map(String), ['1','2','3'].map(Number), ['1','2','3'].map(parseInt), [0,1,'',null,'a'].filter(Boolean), Array.from({length:3},(_, i)=>i*K), Object.entries({a:1}).flat(), [..."
    "'abc'].reverse().join(''), [3,1,2].sort().concat([0]).map(v=>v*J), [[1,2],[3,4]].map(([a,b])=>({a,b})));",
    "function tag(){ return typeof this } out(tag(), tag.call(K), tag.call(S), tag.call(null), tag.bind({})(), (()=>typeof this)()); const bound=function(a,b){ return [this.v,a,b] }.bind({v:K}, J); out(bound(S), bound.name, bound.length);",
    "const o={a:1}; out('a' in o, 'toString' in o, o.hasOwnProperty('toString'), delete o.a, 'a' in o, delete o.nope, Object.keys(o)); const arr=[1,2,3]; out(delete arr[1], arr.length, 1 in arr, K in arr, 'length' in arr, '0' in arr);",
    "out(parseInt('08'), parseInt('0x1f'), parseInt('12px'), parseInt(''), parseInt('z',36), parseInt('101',2), parseInt(0.0000005), parseFloat('3.14abc'), parseFloat('.5'), parseFloat('-.5e-2x'), Number.parseFloat('1e1000'), (12.34).toFixed(), (0.5).toFixed(0), (1.5).toFixed(0), (2.5).toFixed(0), (1.005).toFixed(2), (-1.5).toFixed(0), Math.round(-0.5), Math.round(2.5), Math.round(-2.5), Math.max(), Math.min(K,'3',[J]));",
    "const g=globalThis; out(typeof g, typeof g.Math, g.undefined, typeof Infinity, isNaN('x'), isFinite('1'), typeof encodeURI, encodeURI('a b&c/d?é'), encodeURIComponent('a b&c/d?é'), decodeURI('%41%20%C3%A9'), Number.MAX_SAFE_INTEGER, Number.MIN_VALUE>0, Number.EPSILON<1, Math.PI.toFixed(K%10));",
    "const target={a:K}; const handler={ get(t,k,r){ return k in t ? t[k] : 'def:'+String(k) }, has(t,k){ return k==='magic' || k in t }, set(t,k,v){ t[k]=v*J; return true }, deleteProperty(t,k){ out('del',k); return delete t[k] }, ownKeys(t){ return [...Reflect.ownKeys(t),'extra'] }, getOwnPropertyDescriptor(t,k){ return k==='extra'?{value:1,enumerable:true,configurable:true}:Reflect.getOwnPropertyDescriptor(t,k) } }; const p=new Proxy(target,handler); p.b=2; out(p.a, p.zz, 'magic' in p, 'no' in p, target.b, delete p.a, Object.keys(p), Reflect.has(p,'b'), Reflect.get({x:1},'x'), Reflect.ownKeys({b:1,a:2,1:0}));",
    "out(Symbol.for('k')===Symbol.for('k'), Symbol('k')===Symbol('k'), Symbol.keyFor(Symbol.for(S)), Object(Symbol.iterator)==Symbol.iterator, Symbol.iterator.toString(), ({[Symbol.toPrimitive](h){ return h==='number' ? K : h==='string' ? S : 'd' }})*2, `${({[Symbol.toPrimitive](h){ return h }})}`, ({[Symbol.toPrimitive](h){ return h }})+'', ({get [Symbol.toStringTag](){ return 'Tg' }}).toString(), Object.prototype.toString.call(null), Object.prototype.toString.call([]), Object.prototype.toString.call(()=>1));",
    "function* take(n,it){ let i=0; for (const v of it){ if (i++>=n) return; yield v } } function* mapG(f,it){ for (const v of it) yield f(v) } function* count(){ let i=K; while(true) yield i++ } out([...take(4,mapG(v=>v*J,count()))]); const gen=count(); out(gen.next().value, gen.return(S), gen.next());",
    "var a=1; function f1(){ return typeof a; var a } out(f1()); out(typeof fexp); var fexp=function nm(){ return typeof nm }; out(fexp(), typeof nm); { function blockF(){ return K } out(blockF()) } if (true) { var leak=J } out(leak); try { ccc; let ccc=1 } catch(e) { out(e.name) } try { const cq=1; cq=2 } catch(e) { out(e.name) }",
    "const big=[]; for (let i=0;i<200;i++) big.push(i*K%17); out(big.sort((a,b)=>a-b).slice(0,5), big.reduce((a,b)=>a+b), big.indexOf(16), new Set(big).size, big.map((v,i)=>v*i).filter(v=>v%J==0).length, big.join('').length, Math.max(...big), big.lastIndexOf(0), big.findLast(v=>v<3), big.flatMap(v=>v?[]:[v]).length);",
    "const words=S.repeat(3).split('').concat(['x','y']); const freq={}; for (const w of words) freq[w]=(freq[w]||0)+1; out(Object.entries(freq).sort(([a],[b])=>a<b?-1:a>b?1:0), words.map(w=>w.toUpperCase()).join('').padStart(K+12,'*').padEnd(K+15,'-'), words.join('').split('').reverse().join(''), [...new Set(words)].length);",
]


def feature_programs(rng, tier):
    reps = 2 if tier == "quick" else 8
    progs = []
    for body in FEATURES:
        seen = set()
        for _ in range(reps):
            k, j = rng.randint(0, 6), rng.randint(1, 9)
            s = json.dumps(rng.choice(["ab", "x", "héllo", "a b", "", "Z9", "ok"]))
            b = _subst_kjs(body, str(k), str(j), s)
            if b in seen:
                continue
            seen.add(b)
            progs.append(PRELUDE + "try { " + b + " } catch (e) { out('uncaught', e && e.name, e) }" + EPILOGUE)
    return progs


def _subst_kjs(t, k, j, s):
    out = []
    n = len(t)
    for i, c in enumerate(t):
        alone = (i == 0 or not (t[i - 1].isalnum() or t[i - 1] in "_.$'\"\\")) and (i + 1 == n or not (t[i + 1].isalnum() or t[i + 1] in "_$'\":"))
        if alone and c == "K":
            out.append(k)
        elif alone and c == "J":
            out.append(j)
        elif alone and c == "S":
            out.append(s)
        else:
            out.append(c)
    return "".join(out)
