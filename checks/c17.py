"""C17 — the C API is memory-safe and total for every call sequence (DESIGN.md §4 C17)."""
import json
import os
import shutil
import subprocess
from . import common

LEAN_TARGETS = ["TsrunVerif.Props.C17"]
THEOREMS = ["TsrunVerif.Ffi." + t for t in ["wf_init", "touches_exist", "null_context_reported", "null_value_reported", "free_commutes_ctx_free", "getters_survive_ctx_free", "survivor_touches_nothing", "dup_independent"]]
ASSUMPTIONS = [
    "M-Ffi models the caller's view of the data plane of the C API (contexts, value boxes incl. NULL slots, object/array contents, globals, NULL arguments, release in any order); the result token of every call "
    "is compared with the real API call by call, and the model's well-formedness predicate (every reference held by a box, a property, an element or a global points to an existing object) is evaluated "
    "through the Lean definition on every state of every generated sequence (it is proved for the initial state and used as hypothesis of touches_exist; its preservation by every operation is evaluated, not proved)",
    "memory safety of the real implementation is observed, not proved: every generated sequence (data plane, scripts, native callbacks re-entering the API, internal modules, orders answered and released at once, "
    "promises, values outliving and crossing contexts, NULL everywhere) runs under valgrind memcheck; invalid reads/writes/frees fail the check (leaks are not errors)",
    "the harness never passes a released handle (that is outside the property); strings returned by tsrun_get_string are released with tsrun_free_string as the Rust documentation says "
    "(the C header's comment says 'valid until value freed': following it leaks the copy, it does not dangle)",
]
KEYS = ["k", "a", "b", "0", "1", "2", "10", "01", "-1", "x y", "é", "zz"]
SEP_OP, SEP_F = "\x1e", "\x1f"

SCRIPTS = [
    "const o = {n: 1, s: 'x', a: [1, 2, {d: 3}]}; globalThis.shared = o; o",
    "import { order } from 'tsrun:host'; const r = await order({q: [1, 2]}); globalThis.got = r; r",
    "import { f0, f1, val0 } from 'host:mod'; const r = f0(1, [2, 3]); globalThis.viaModule = [r, f1(), val0]; r.sum",
    "function cb(a, b) { return {sum: a + b, self: this === undefined}; } globalThis.cb = cb; globalThis.arrow = (...xs) => xs.length; 1",
    "export const answer = 42; export function twice(x) { return x * 2; } export default {k: [1]};",
    "const m = new Map(); m.set('a', {deep: [1, [2, [3]]]}); globalThis.big = Array.from({length: 200}, (x, i) => ({i, s: 'v' + i})); m.get('a')",
    "throw new RangeError('from script')",
    # objects that own symbol-keyed properties (only a script can make them): the host sees their string keys only
    "const sy = Symbol('tag'); globalThis.symobj = {a: 1, [sy]: 2, b: 3, [Symbol.iterator]: 4}; globalThis.onlysym = {[sy]: 1}; globalThis.symarr = Object.assign([1, 2], {[sy]: 3, z: 4}); 1",
    "let x = ;",
    "globalThis.p = new Promise(() => {}); globalThis.nat && globalThis.nat(1, 2)",
    "import { order } from 'tsrun:host'; const a = order({n: 1}); const b = order({n: 2}); [await a, await b]",
]


class Tracker:
    """python mirror of what the harness holds, to generate only legal references"""
    def __init__(self, rng):
        self.rng = rng
        self.ctx_alive = []
        self.vals = []          # dict(kind, ctx, null, freed)

    def live_ctx(self, allow_null=True):
        cs = [i for i, a in enumerate(self.ctx_alive) if a]
        if allow_null and (not cs or self.rng.random() < 0.07):
            return -1
        return self.rng.choice(cs) if cs else -1

    def pick_val(self, kinds=None, allow_null=True, content=False):
        """a value slot that is not released; content=True: objects whose heap is still alive only"""
        c = [i for i, v in enumerate(self.vals) if not v["freed"] and not v["null"] and (kinds is None or v["kind"] in kinds)
             and (not content or v["kind"] not in ("obj", "arr") or (v["ctx"] >= 0 and self.ctx_alive[v["ctx"]]))]
        if allow_null and (not c or self.rng.random() < 0.06):
            nulls = [i for i, v in enumerate(self.vals) if v["null"] or v["freed"]]
            return self.rng.choice([-1] + nulls[:3]) if self.rng.random() < 0.5 else -1
        return self.rng.choice(c) if c else -1

    def add(self, kind, ctx, null=False):
        self.vals.append({"kind": kind, "ctx": ctx, "null": null, "freed": False})
        return len(self.vals) - 1


def gen_data(rng, n):
    """a sequence over the modelled operations; returns (harness ops, model op strings)"""
    t = Tracker(rng)
    ops, mops = [], []

    def emit(h, m):
        ops.append(h)
        mops.append(SEP_F.join(str(x) for x in m))
    for _ in range(n):
        k = rng.random()
        if not any(t.ctx_alive) and rng.random() < 0.8 or k < 0.04:
            emit(["ctx"], ["ctx"])
            t.ctx_alive.append(True)
        elif k < 0.07 and len([a for a in t.ctx_alive if a]) > 0:
            c = t.live_ctx()
            # objects of a released context are no longer used for content operations (pick_val content=True)
            emit(["ctxfree", c], ["ctxfree", c])
            if c >= 0:
                t.ctx_alive[c] = False
        elif k < 0.27:
            c = t.live_ctx()
            kind = rng.choice(["undef", "null", "bool", "num", "num", "str", "str"])
            v = {"undef": "0", "null": "0", "bool": rng.choice(["0", "1"]), "num": str(rng.randint(-5, 100)), "str": rng.choice(["", "x", "hello", "été", "a b", "7"])}[kind]
            emit(["mk", c, kind, v], ["mk", c, kind, v if v != "" or kind != "str" else ""])
            t.add("prim", c, null=(c < 0))
        elif k < 0.34:
            c = t.live_ctx()
            which = rng.choice(["obj", "arr"])
            emit([which, c], [which, c])
            t.add(which, c, null=(c < 0))
        elif k < 0.40:
            v = t.pick_val()
            emit(["free", v], ["free", v])
            if v >= 0:
                t.vals[v]["freed"] = True
        elif k < 0.45:
            c, v = t.live_ctx(), t.pick_val()
            emit(["dup", c, v], ["dup", c, v])
            src = t.vals[v] if v >= 0 else None
            t.add(src["kind"] if src else "prim", src["ctx"] if src else c, null=(c < 0 or v < 0 or src["null"] or src["freed"]))
        elif k < 0.52:
            v = t.pick_val()
            which = rng.choice(["typeof", "getn", "gets"])
            emit([which, v], [which, v])
        elif k < 0.64:
            c, o = t.live_ctx(), t.pick_val(kinds=("obj", "arr", "prim"), content=True)
            key = rng.choice(KEYS + [None])
            emit(["get", c, o, key], ["get", c, o, "~" if key is None else key])
            t.add("unknown", c, null=True) if False else t.add("res", c, null=False)
            # the result may be an error (NULL slot); treat it as unknown: never used for content ops
            t.vals[-1]["kind"] = "res"
        elif k < 0.76:
            c, o, v = t.live_ctx(), t.pick_val(kinds=("obj", "arr", "prim"), content=True), t.pick_val(kinds=("prim", "obj", "arr"), content=True)
            key = rng.choice(KEYS + [None])
            emit(["set", c, o, key, v], ["set", c, o, "~" if key is None else key, v])
        elif k < 0.80:
            c, o = t.live_ctx(), t.pick_val(kinds=("obj", "arr", "prim"), content=True)
            key = rng.choice(KEYS)
            which = rng.choice(["has", "del"])
            emit([which, c, o, key], [which, c, o, key])
        elif k < 0.83:
            c, o = t.live_ctx(), t.pick_val(kinds=("obj", "arr", "prim"), content=True)
            emit(["keys", c, o], ["keys", c, o])
        elif k < 0.87:
            a = t.pick_val(kinds=("arr", "obj", "prim"), content=True)
            emit(["alen", a], ["alen", a])
        elif k < 0.91:
            c, a, i = t.live_ctx(), t.pick_val(kinds=("arr", "obj"), content=True), rng.randint(0, 4)
            emit(["aget", c, a, i], ["aget", c, a, i])
            t.add("res", c)
        elif k < 0.96:
            c, a, v = t.live_ctx(), t.pick_val(kinds=("arr", "obj"), content=True), t.pick_val(kinds=("prim", "obj", "arr"), content=True)
            if rng.random() < 0.5:
                emit(["apush", c, a, v], ["apush", c, a, v])
            else:
                i = rng.randint(0, 5)
                emit(["aset", c, a, i, v], ["aset", c, a, i, v])
        else:
            c = t.live_ctx()
            name = rng.choice(["g1", "g2", None])
            if rng.random() < 0.5:
                v = t.pick_val(kinds=("prim", "obj", "arr"), content=True)
                emit(["gset", c, name, v], ["gset", c, "~" if name is None else name, v])
            else:
                emit(["gget", c, name], ["gget", c, "~" if name is None else name])
                t.add("res", c)
    return ops, SEP_OP.join(mops)


def gen_full(rng, n):
    """everything, for memcheck: scripts, natives re-entering the API, modules, orders, promises, cross-context use"""
    t = Tracker(rng)
    ops = []
    pending_orders = []
    for _ in range(n):
        k = rng.random()
        if not any(t.ctx_alive) and rng.random() < 0.85 or k < 0.05:
            ops.append(["ctx"])
            t.ctx_alive.append(True)
        elif k < 0.09:
            c = t.live_ctx()
            ops.append(["ctxfree", c])
            if c >= 0:
                t.ctx_alive[c] = False
        elif k < 0.2:
            c = t.live_ctx()
            kind = rng.choice(["undef", "null", "bool", "num", "str", "strn"])
            ops.append(["mk", c, kind, {"bool": "1", "num": str(rng.choice([0, -1, 3.5, 1e21, 2 ** 53])), "str": rng.choice(["", "x", "é", "a\u0000b"]), "strn": rng.choice(["abc", "", "éé"])}.get(kind, "0")])
            t.add("prim", c, null=(c < 0))
        elif k < 0.27:
            c = t.live_ctx()
            if rng.random() < 0.5:
                ops.append([rng.choice(["obj", "arr"]), c])
            else:
                ops.append(["json", c, rng.choice(['{"a": [1, {"b": null}], "0": "z"}', '[1, 2, [3]]', '"s"', '{bad', None, '{"\\u0000": 1}', '1e999'])])
            t.add("obj", c)
        elif k < 0.33:
            v = t.pick_val()
            ops.append(["free", v])
            if v >= 0:
                t.vals[v]["freed"] = True
        elif k < 0.37:
            ops.append(["dup", t.live_ctx(), t.pick_val()])
            t.add("res", -1)
        elif k < 0.45:
            v = t.pick_val()
            ops.append([rng.choice(["typeof", "is", "getb", "getn", "gets", "alen"]), v])
        elif k < 0.56:
            c, o = t.live_ctx(), t.pick_val()
            key = rng.choice(KEYS + [None, "sum", "length", "then", "constructor"])
            which = rng.choice(["get", "has", "del", "keys", "stringify"])
            if which in ("keys", "stringify"):
                ops.append([which, c, o])
            else:
                ops.append([which, c, o, key])
            if which == "get":
                t.add("res", c)
        elif k < 0.64:
            c, o, v = t.live_ctx(), t.pick_val(), t.pick_val()
            which = rng.choice(["set", "apush", "aset", "gset", "aget", "gget"])
            if which == "set":
                ops.append(["set", c, o, rng.choice(KEYS + [None]), v])
            elif which == "apush":
                ops.append(["apush", c, o, v])
            elif which == "aset":
                ops.append(["aset", c, o, rng.choice([0, 1, 7, 2 ** 31, 2 ** 40]), v])
            elif which == "gset":
                ops.append(["gset", c, rng.choice(["nat", "g1", None, "shared"]), v])
            elif which == "aget":
                ops.append(["aget", c, o, rng.choice([0, 1, 10 ** 9])])
                t.add("res", c)
            else:
                ops.append(["gget", c, rng.choice(["shared", "cb", "arrow", "big", "got", "viaModule", "p", "nat", "nope", "symobj", "onlysym", "symarr", "symobj", None])])
                t.add("res", c)
        elif k < 0.70:
            c = t.live_ctx()
            ops.append(["native", c, rng.choice(["nat", "n2", None]), rng.choice([0, 1, 13, 14])])
            t.add("fn", c)
            if rng.random() < 0.6:
                ops.append(["gset", c, "nat", len(t.vals) - 1])
        elif k < 0.75:
            c = t.live_ctx()
            vals = [["val0", t.pick_val()]] if rng.random() < 0.7 else []
            spec = rng.choice(["host:mod", "host:mod", None, ""])
            ops.append(["imod", c, spec, ["f0", "f1"], vals])
            if vals and vals[0][1] >= 0 and c >= 0 and spec is not None:
                t.vals[vals[0][1]]["freed"] = True          # consumed by the registration
        elif k < 0.83:
            c = t.live_ctx()
            ops.append(["prepare", c, rng.choice(SCRIPTS + [None]), rng.choice([None, "/m/main", "/m/main"])])
            how = rng.random()
            if how < 0.5:
                ops.append(["run", c])
            elif how < 0.8:
                ops.append(["step", c, rng.choice([1, 5, 50, 5000])])
            pending_orders.append(c)
        elif k < 0.88:
            c = t.live_ctx()
            ops.append([rng.choice(["run", "step"]), c] + ([rng.choice([1, 100])] if False else []))
            if ops[-1][0] == "step":
                ops[-1].append(rng.choice([1, 100, 5000]))
        elif k < 0.93:
            c = t.live_ctx()
            items = []
            for oid in rng.sample([1, 2, 3, 7], rng.randint(0, 3)):
                v = t.pick_val()
                items.append([oid, v, rng.choice([None, None, "host says no"])])
            release = rng.random() < 0.6
            ops.append(["fulfill", c, items, release])
            if release:
                for it in items:
                    if it[1] >= 0:
                        t.vals[it[1]]["freed"] = True
            ops.append([rng.choice(["run", "step"]), c, 5000])
        elif k < 0.96:
            c = t.live_ctx()
            ops.append(["opromise", c, rng.choice([1, 2, 99])])
            t.add("res", c)
            ops.append([rng.choice(["resolve", "reject"]), c, len(t.vals) - 1, t.pick_val() if ops[-1] else -1])
            if ops[-1][0] == "reject":
                ops[-1][3] = rng.choice(["no", None])
        else:
            c, f = t.live_ctx(), t.pick_val()
            if rng.random() < 0.5:
                ops.append(["call", c, f, t.pick_val(), [t.pick_val() for _ in range(rng.randint(0, 3))]])
            else:
                ops.append(["callm", c, f, rng.choice(["cb", "push", "toString", "nope", None]), [t.pick_val() for _ in range(rng.randint(0, 2))]])
            t.add("res", c)
            ops.append([rng.choice(["export", "exports"]), c] + (["answer"] if rng.random() < 0.5 else ["twice"]))
            if ops[-1][0] == "export":
                t.add("res", c)
            else:
                ops[-1] = ["exports", c]
    return ops


def scenarios(rng, n):
    """deterministic host scenarios with a known script-visible result: host-provided values must reach the script intact
    although the host releases its handles at once and allocations (collections) happen in between"""
    out = []
    for i in range(n):
        churn = rng.choice([0, 120, 350, 800])
        ops = [["ctx"]]
        nv = 0          # value slots used so far

        def churn_ops(k):
            nonlocal nv
            r = []
            for _ in range(k):
                r.append(["obj", 0])
                r.append(["free", nv])
                nv += 1
            return r
        if i % 5 == 4:
            # order promises the host made itself and then rejects: the next suspension reports their ids as cancelled
            ops.append(["prepare", 0, "import { order } from 'tsrun:host'; const r = await order({q: 1}); 1", None])
            ops.append(["run", 0])
            nv += 1
            k = rng.randint(1, 4)
            for j in range(k):
                ops.append(["opromise", 0, 7 + j])
                ops.append(["reject", 0, nv, rng.choice(["no", None])])
                nv += 1
                ops += churn_ops(rng.choice([0, 1]))
            ops.append([rng.choice(["run", "step"]), 0, 5000])
            out.append((ops, len(ops) - 1, "suspended::%d" % k))
        elif i % 2 == 0:
            regs = rng.randint(1, 3)
            last = None
            for r in range(regs):
                ops.append(["mk", 0, "num", str(10 + r)])
                v = nv
                nv += 1
                ops.append(["imod", 0, "host:mod", ["f0", "f1"], [["val0", v]]])
                last = 10 + r
                ops += churn_ops(rng.choice([0, churn]))
            ops += churn_ops(churn)
            a, b = rng.randint(1, 9), rng.randint(1, 9)
            ops.append(["prepare", 0, "import { f0, f1, val0 } from 'host:mod'; JSON.stringify([f0(%d, %d).sum, f1(%d).sum, val0])" % (a, b, a), None])
            ops.append(["run", 0])
            want = "complete:" + json.dumps(json.dumps([a + b + 1, a + 2, last]).replace(" ", ""))
            out.append((ops, len(ops) - 1, want))
        else:
            ops.append(["prepare", 0, "import { order } from 'tsrun:host'; const r = await order({q: 1}); JSON.stringify([r.x, r.deep.y[1], typeof r])", None])
            ops.append(["run", 0])
            nv += 1                                     # the run duplicated the payload of order 1 into a slot
            ops.append(["json", 0, '{"x": %d, "deep": {"y": [1, %d]}}' % (i, i + 1)])
            v = nv
            nv += 1
            ops.append(["fulfill", 0, [[1, v, None]], True])     # answer and release the handle at once
            ops += churn_ops(churn)
            ops.append(["run", 0])
            want = "complete:" + json.dumps(json.dumps([i, i + 1, "object"]).replace(" ", ""))
            out.append((ops, len(ops) - 1, want))
    return out


def run(ctx):
    rng = ctx.rng
    # ---- own string keys of script-made objects (symbol-keyed properties are not reported, the count matches the array)
    ksc = []
    for i in range(12 if ctx.tier == "quick" else 60):
        strs = rng.sample(["a", "b", "zz", "k0", "é", "x y"], rng.randint(0, 4))
        syms = rng.randint(0, 3)
        parts = ["%s: %d" % (json.dumps(k), j) for j, k in enumerate(strs)] + ["[Symbol('s%d')]: %d" % (j, j) for j in range(syms)] + (["[Symbol.iterator]: 0"] if rng.random() < 0.3 else [])
        rng.shuffle(parts)
        arr = rng.random() < 0.25
        src = "globalThis.target = %s; 1" % ("Object.assign([7, 8], {%s})" % ", ".join(parts) if arr else "{%s}" % ", ".join(parts))
        want = sorted(strs)          # elements of an array are reached through tsrun_array_len / tsrun_array_get, not listed as keys
        ksc.append(([["ctx"], ["prepare", 0, src, None], ["run", 0], ["gget", 0, "target"], ["keys", 0, 0]], 4, "k:" + ",".join(want) if want else "null"))
    kgot = common.harness(["ffi"], [json.dumps(o) for o, _, _ in ksc], timeout=300)
    for (ops, at, want), g in zip(ksc, kgot):
        ctx.cov["evaluations"] += 1
        res = g.split(SEP_OP)
        have = res[at] if at < len(res) else g[:80]
        if have.startswith("k:"):
            have = "k:" + ",".join(sorted(have[2:].split(",")))
        if have != want:
            ctx.prop_fail("keys: tsrun_keys reports %s for an object whose own string keys are %s" % (have[:80], want[:80]), {"ops": ops, "impl": g[:300]})
    # ---- host-provided values reach the script intact
    scen = scenarios(rng, 40 if ctx.tier == "quick" else 400)
    sgot = common.harness(["ffi"], [json.dumps(o) for o, _, _ in scen], timeout=900)
    for (ops, at, want), g in zip(scen, sgot):
        ctx.cov["evaluations"] += 1
        res = g.split(SEP_OP)
        have = res[at] if at < len(res) else g[:80]
        if have != want:
            ctx.prop_fail(("abort: the call sequence killed the process (%s, expected %s)" if have.startswith(("CRASH", "PANIC", "TIMEOUT")) else
                           "contents: a value provided by the host did not reach the script intact (script result %s, expected %s)") % (have[:80], want[:80]),
                          {"ops_without_churn": [o for o in ops if o[0] not in ("obj", "free")][:40], "churn_pairs": sum(1 for o in ops if o[0] == "obj"), "impl": have[:200]})
    nd = 300 if ctx.tier == "quick" else 5000
    nf = 150 if ctx.tier == "quick" else 2500
    data = [gen_data(rng, rng.choice([5, 15, 40, 120])) for _ in range(nd)]
    full = [gen_full(rng, rng.choice([5, 20, 60, 200])) for _ in range(nf)]
    hl = [json.dumps(o) for o, _ in data]
    got = common.harness(["ffi"], hl, timeout=900)
    model = common.driver(["ffi"], [m for _, m in data])
    hist = {"data_sequences": nd, "full_sequences": nf, "calls": 0, "error_results": 0, "null_args": 0}
    distinct = set()
    for (ops, _), g, m in zip(data, got, model):
        ctx.cov["evaluations"] += 1
        ctx.cov["traces_validated_against_impl"] += 1
        case = {"ops": ops[:400]}
        if g in ("PANIC",) or g.startswith("CRASH") or g.startswith("TIMEOUT") or g == "NOT-RUN":
            ctx.prop_fail("abort: the call sequence killed the process (%s)" % g[:40], case)
            continue
        if "\t" not in m:
            ctx.corr_fail("M-Ffi driver rejected a sequence", case, "", m[:100])
            continue
        mres, wf = m.rsplit("\t", 1)
        if wf != "wf=true":
            ctx.corr_fail("M-Ffi: a reachable model state is not well-formed (WellFormed is not preserved)", case, "wf=true", wf)
        a, b = g.split(SEP_OP), mres.split(SEP_OP)
        hist["calls"] += len(a)
        for i, (x, y) in enumerate(zip(a, b)):
            if x.startswith("err:"):
                hist["error_results"] += 1
            if "INVALID-UTF8" in x or "!len" in x:
                ctx.prop_fail("string: a returned string is not valid NUL-terminated UTF-8 of the reported length (%s)" % x[:60], dict(case, at=i, op=ops[i]))
                break
            if x.startswith("k:") and y.startswith("k:"):
                x, y = "k:" + ",".join(sorted(x[2:].split(","))), "k:" + ",".join(sorted(y[2:].split(",")))
            if x != y:
                ctx.corr_fail("M-Ffi: call %d %s returned %r, the model says %r" % (i, json.dumps(ops[i]), x[:80], y[:80]), dict(case, at=i, upto=ops[:i + 1][-12:]), y[:100], x[:100])
                break
        distinct.add(g[:200])
    # ---- everything under memcheck
    vg = shutil.which("valgrind")
    allseq = hl + [json.dumps(o) for o in full] + [json.dumps(o) for o, _, _ in ksc] + [json.dumps(o) for o, _, _ in scen if len(o) < 300]
    if vg:
        chunks = [allseq[i::16] for i in range(16)]
        from concurrent.futures import ThreadPoolExecutor

        def run_chunk(ch):
            if not ch:
                return ch, 0, "", ""
            try:
                pr = subprocess.run([vg, "-q", "--error-exitcode=9", "--leak-check=no", "--num-callers=12", common.HARNESS_BIN, "ffi"], input="\n".join(ch) + "\n",
                                    stdout=subprocess.PIPE, stderr=subprocess.PIPE, text=True, env=common.env_offline(), timeout=3000)
                return ch, pr.returncode, pr.stdout, pr.stderr
            except subprocess.TimeoutExpired:
                return ch, -99, "", "TIMEOUT"
        with ThreadPoolExecutor(max_workers=16) as ex:
            results = list(ex.map(run_chunk, chunks))
        for ch, rc, out, err in results:
            if not ch:
                continue

            class _P:
                returncode = rc
            pr = _P()
            ctx.cov["evaluations"] += len(ch)
            lines = out.split("\n")
            if pr.returncode != 0 or err.strip():
                done = len([l for l in lines if l])
                bad = ch[min(done, len(ch) - 1)] if pr.returncode not in (0, 9) else None
                ctx.prop_fail("memcheck: valgrind reports an invalid memory access / the process died (rc=%s)" % pr.returncode,
                              {"valgrind": err[:3500], "sequence_if_crashed": json.loads(bad)[:300] if bad else None, "sequences_in_chunk": len(ch)})
            for l, src in zip(lines, ch):
                if "STALE-FIELDS" in l:
                    ctx.prop_fail("release: tsrun_step_result_free left a pointer or a count in the released step result (a second release, or a read through it, reaches freed memory)", {"ops": json.loads(src)[:300], "impl": l[:300]})
                if "INVALID-UTF8" in l or "!len" in l:
                    ctx.prop_fail("string: a returned string is not valid NUL-terminated UTF-8 of the reported length", {"ops": json.loads(src)[:300], "impl": l[:300]})
                distinct.add(l[:120])
        ctx.notes.append("memcheck: valgrind present, %d sequences" % len(allseq))
    else:
        outs = common.harness(["ffi"], allseq[len(hl):], timeout=900, chunk=8)
        for o, src in zip(outs, full):
            ctx.cov["evaluations"] += 1
            if o.startswith("CRASH") or o == "PANIC" or o.startswith("TIMEOUT"):
                ctx.prop_fail("abort: the call sequence killed the process (%s)" % o[:40], {"ops": src[:300]})
        ctx.notes.append("memcheck: valgrind NOT available - only crashes are observed")
    ctx.cov["distinct_nontrivial"] = len(distinct)
    ctx.cov["rule"] = ("data-plane sequences of 5..120 calls (constructors, getters, properties with %d key spellings incl. numeric/non-canonical/NULL, arrays, globals, dup, release of values and contexts in any "
                       "order, NULL and released-context survivors as arguments) compared call by call with M-Ffi; full sequences of 5..200 calls adding scripts (10 programs), native callbacks that re-enter "
                       "the API, internal modules, orders answered and released at once, order promises, calls; all of them under valgrind memcheck. distinct_nontrivial = distinct result prefixes" % len(KEYS))
    ctx.cov["input_distribution"] = hist
    ctx.sample({"ops": data[0][0][:12], "impl": got[0].split(SEP_OP)[:12], "model": model[0].split(SEP_OP)[:12]})
