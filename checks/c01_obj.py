"""C01, objects: M-Obj (Lean) == tsrun (== reference engine) on prototype-chain lookup, for-in enumeration and
bound functions; chains and bind layers are generated, the model predicts every observation."""
KEYS = ["a", "b", "c", "d", "e", "f"]


def gen_chain(rng):
    depth = rng.choice([1, 1, 2, 2, 3, 4, 6, 9])
    chain = []
    for _ in range(depth):
        ks = rng.sample(KEYS, rng.randint(0, 4))
        chain.append([(k, rng.randint(0, 99), rng.random() < 0.7) for k in ks])
    return chain            # nearest first


def chain_case(chain):
    model = "chain\t%s\t%s" % ("|".join(",".join("%s:%d:%s" % (k, v, "e" if e else "n") for k, v, e in o) for o in chain), ",".join(KEYS))
    lines = ["let c = Object.create(null);"]
    objs = list(reversed(chain))          # root first
    for i, o in enumerate(objs):
        if i > 0:
            lines.append("c = Object.create(c);")
        for k, v, e in o:
            lines.append("Object.defineProperty(c, '%s', {value: %d, enumerable: %s, writable: true, configurable: true});" % (k, v, "true" if e else "false"))
    lines.append("const ks = []; for (const k in c) ks.push(k);")
    lines.append("return ks.join(',') + ';' + %s.map(k => String(c[k])).join(',') + ';' + %s.map(k => String(k in c)).join(',');" % (KEYS, KEYS))
    return model, "(() => { %s })()" % " ".join(lines)


def gen_bound(rng):
    layers = []
    for _ in range(rng.choice([0, 1, 1, 2, 3, 5])):
        layers.append((rng.choice([None, rng.randint(1, 9)]), [rng.randint(10, 99) for _ in range(rng.randint(0, 3))]))
    args = [rng.randint(100, 199) for _ in range(rng.randint(0, 3))]
    return layers, args


def bound_case(layers, args):
    model = "bound\t%s\t%s" % ("|".join("%s:%s" % ("_" if t is None else t, ",".join(map(str, a))) for t, a in layers), ",".join(map(str, args)))
    js = ["'use strict'; let f = function (...a) { return [this === undefined ? 'u' : this, a.join(',')]; }; function G(...a) { this.args = a; } let g = G;"]
    for t, a in layers:
        js.append("f = f.bind(%s); g = g.bind(%s);" % (", ".join(["undefined" if t is None else str(t)] + list(map(str, a))), ", ".join(["undefined" if t is None else str(t)] + list(map(str, a)))))
    call = ", ".join(map(str, args))
    js.append("const r = f(%s); const n = new g(%s);" % (call, call))
    js.append("return r[0] + ';' + r[1] + ';' + n.args.join(',') + ';' + %d + (n instanceof g && n instanceof G && Object.getPrototypeOf(n) === G.prototype ? '' : '!proto');" % len(layers))
    return model, "(() => { %s })()" % " ".join(js)


def cases(rng, tier):
    out = []
    for _ in range(400 if tier == "quick" else 6000):
        out.append(chain_case(gen_chain(rng)))
    for _ in range(200 if tier == "quick" else 3000):
        out.append(bound_case(*gen_bound(rng)))
    return out
