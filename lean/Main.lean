import TsrunVerif.Driver.Path
import TsrunVerif.Driver.Heap
import TsrunVerif.Driver.Num
import TsrunVerif.Driver.Json
import TsrunVerif.Driver.RegAlloc
import TsrunVerif.Driver.Pos
import TsrunVerif.Driver.Emit
import TsrunVerif.Driver.Erase
import TsrunVerif.Driver.Parse
import TsrunVerif.Driver.Ffi
import TsrunVerif.Driver.Ops
import TsrunVerif.Driver.Mod
import TsrunVerif.Driver.Orders
import TsrunVerif.Driver.Roots
import TsrunVerif.Driver.Life
import TsrunVerif.Driver.Pratt
import TsrunVerif.Driver.Lib
import TsrunVerif.Driver.Obj
import TsrunVerif.Driver.Comb
import TsrunVerif.Driver.Coerce
import TsrunVerif.Driver.Compile
import TsrunVerif.Driver.RadixLit

/-! `tvdriver <model>`: line protocol, one observation line per case line. -/

partial def loop (h : IO.FS.Stream) (out : IO.FS.Stream) (f : String → String) : IO Unit := do
  let line ← h.getLine
  if line.isEmpty then return ()
  let l := if line.endsWith "\n" then (line.dropEnd 1).toString else line
  out.putStrLn (f l)
  loop h out f

def main (args : List String) : IO UInt32 := do
  let stdin ← IO.getStdin
  let stdout ← IO.getStdout
  match args with
  | ["path"] => loop stdin stdout TsrunVerif.Driver.pathLine; return 0
  | ["num"] => loop stdin stdout TsrunVerif.Driver.numLine; return 0
  | ["jsonext"] => loop stdin stdout TsrunVerif.Driver.jsonExtLine; return 0
  | ["json"] => loop stdin stdout TsrunVerif.Driver.jsonLine; return 0
  | ["regalloc"] => loop stdin stdout TsrunVerif.Driver.raLine; return 0
  | ["ops"] => loop stdin stdout TsrunVerif.Driver.opsLine; return 0
  | ["ctl"] => loop stdin stdout TsrunVerif.Driver.ctlLine; return 0
  | ["ffi"] => loop stdin stdout TsrunVerif.Driver.ffiLine; return 0
  | ["parse"] => loop stdin stdout TsrunVerif.Driver.parseLine; return 0
  | ["erase"] => loop stdin stdout TsrunVerif.Driver.eraseLine; return 0
  | ["emit"] => loop stdin stdout TsrunVerif.Driver.emitLine; return 0
  | ["pos"] => loop stdin stdout TsrunVerif.Driver.posLine; return 0
  | ["mod"] => loop stdin stdout TsrunVerif.Driver.modLine; return 0
  | ["orders"] => loop stdin stdout TsrunVerif.Driver.ordersLine; return 0
  | ["roots"] => loop stdin stdout TsrunVerif.Driver.rootsLine; return 0
  | ["life"] => loop stdin stdout TsrunVerif.Driver.lifeLine; return 0
  | ["coerce"] => loop stdin stdout TsrunVerif.Driver.coerceLine; return 0
  | ["radix"] => loop stdin stdout TsrunVerif.Driver.radixLine; return 0
  | ["compile"] => loop stdin stdout TsrunVerif.Driver.CompileD.compileDLine; return 0
  | ["comb"] => loop stdin stdout TsrunVerif.Driver.combLine; return 0
  | ["obj"] => loop stdin stdout TsrunVerif.Driver.objLine; return 0
  | ["lib"] => loop stdin stdout TsrunVerif.Driver.libLine; return 0
  | ["pratt"] => loop stdin stdout TsrunVerif.Driver.prattLine; return 0
  | ["heap"] => loop stdin stdout TsrunVerif.Driver.heapLine; return 0
  | _ => IO.eprintln "usage: tvdriver <model>"; return 2
