-- Root of the `TsrunVerif` library: models, lemmas, property theorems, audits.
import TsrunVerif.Model.Path
import TsrunVerif.Lemmas.Path
