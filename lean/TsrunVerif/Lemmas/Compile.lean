import TsrunVerif.Model.Compile

/-!
Lemmas for M-Compile: the code embedding relation, VM step sequences, and the simulation of the
reference semantics by the code `codeE` / `codeS` describe.
-/
set_option linter.unusedSimpArgs false
set_option linter.unusedVariables false

namespace TsrunVerif.Compile

/-- `body` sits in `C` at offset `base` -/
def Embeds (C : List Op) (base : Nat) (body : List Op) : Prop :=
  ∀ i, i < body.length → C[base + i]? = body[i]?

theorem Embeds.left {C : List Op} {base : Nat} {x y : List Op} (h : Embeds C base (x ++ y)) : Embeds C base x := by
  intro i hi
  have := h i (by simp; omega)
  rw [this, List.getElem?_append_left hi]

theorem Embeds.right {C : List Op} {base : Nat} {x y : List Op} (h : Embeds C base (x ++ y)) :
    Embeds C (base + x.length) y := by
  intro i hi
  have := h (x.length + i) (by simp; omega)
  rw [Nat.add_assoc, this, List.getElem?_append_right (by omega)]
  simp

theorem Embeds.head {C : List Op} {base : Nat} {op : Op} {y : List Op} (h : Embeds C base (op :: y)) :
    C[base]? = some op := by
  simpa using h 0 (by simp)

theorem Embeds.tail {C : List Op} {base : Nat} {op : Op} {y : List Op} (h : Embeds C base (op :: y)) :
    Embeds C (base + 1) y := by
  have := Embeds.right (x := [op]) (y := y) (by simpa using h)
  simpa using this

theorem Embeds.self (pre body post : List Op) : Embeds (pre ++ body ++ post) pre.length body := by
  intro i hi
  rw [List.append_assoc, List.getElem?_append_right (by omega)]
  simp [List.getElem?_append_left hi]

section
variable {V Err : Type} (sem : Sem V Err)

/-- a sequence of ordinary (non-throwing, non-halting) instructions -/
inductive Steps (C : List Op) : St V → St V → Prop where
  | refl (s : St V) : Steps C s s
  | cons {s s' s'' : St V} : step sem C s = .next s' → Steps C s' s'' → Steps C s s''

theorem Steps.trans {C : List Op} {a b c : St V} (h₁ : Steps sem C a b) (h₂ : Steps sem C b c) : Steps sem C a c := by
  induction h₁ with
  | refl => exact h₂
  | cons hs _ ih => exact .cons hs (ih h₂)

theorem Steps.one {C : List Op} {a b : St V} (h : step sem C a = .next b) : Steps sem C a b :=
  .cons h (.refl b)

theorem step_at {C : List Op} {pc : Nat} {op : Op} (h : C[pc]? = some op) (regs : Reg → V) (env : Env V) (H : List Nat) :
    step sem C ⟨pc, regs, env, H⟩ = exec1 sem op ⟨pc, regs, env, H⟩ := by
  simp [step, h]

@[simp] theorem setReg_same (regs : Reg → V) (r : Reg) (v : V) : setReg regs r v r = v := by simp [setReg]
theorem setReg_other (regs : Reg → V) {r r' : Reg} (v : V) (h : r' ≠ r) : setReg regs r v r' = regs r' := by
  simp [setReg, h]

/-- the VM reaches the end of the code with the value in `dst`, the registers below `n` intact -/
def Done (C : List Op) (base len : Nat) (dst n : Nat) (regs : Reg → V) (env : Env V) (H : List Nat) (v : V) (env' : Env V) : Prop :=
  ∃ regs', Steps sem C ⟨base, regs, env, H⟩ ⟨base + len, regs', env', H⟩ ∧ regs' dst = v ∧
    ∀ r, r < n → r ≠ dst → regs' r = regs r

/-- the VM reaches an instruction that throws `er`, with environment `env'` -/
def Throws (C : List Op) (base : Nat) (regs : Reg → V) (env : Env V) (H : List Nat) (er : Err) (env' : Env V) : Prop :=
  ∃ pc regs', Steps sem C ⟨base, regs, env, H⟩ ⟨pc, regs', env', H⟩ ∧
    step sem C ⟨pc, regs', env', H⟩ = .throw er ⟨pc, regs', env', H⟩

/-- the code at `base` simulates the evaluation of `e` into `dst` -/
def ExprOK (C : List Op) (base len : Nat) (e : Expr) (dst n : Nat) : Prop :=
  ∀ (regs : Reg → V) (env : Env V) (H : List Nat),
    (∀ v env', evalE sem e env = .ok v env' → Done sem C base len dst n regs env H v env') ∧
    (∀ er env', evalE sem e env = .thrown er env' → Throws sem C base regs env H er env')

theorem Throws.after {C : List Op} {base pc : Nat} {regs regs' : Reg → V} {env env' env'' : Env V} {H : List Nat} {er : Err}
    (h₁ : Steps sem C ⟨base, regs, env, H⟩ ⟨pc, regs', env', H⟩) (h₂ : Throws sem C pc regs' env' H er env'') :
    Throws sem C base regs env H er env'' := by
  obtain ⟨pc', r', hs, ht⟩ := h₂
  exact ⟨pc', r', h₁.trans sem hs, ht⟩


theorem exec_lit (dst : Reg) (l : Lit) (s : St V) :
    exec1 sem (litOp dst l) s = .next { s with pc := s.pc + 1, regs := setReg s.regs dst (sem.lit l) } := by
  cases l with
  | num z => simp only [litOp]; split <;> simp [exec1]
  | _ => simp [litOp, exec1]

theorem Steps.cons_at {C : List Op} {pc : Nat} {op : Op} {regs : Reg → V} {env : Env V} {s' s'' : St V}
    (h : C[pc]? = some op) (he : exec1 sem op ⟨pc, regs, env, H⟩ = .next s') (hs : Steps sem C s' s'') :
    Steps sem C ⟨pc, regs, env, H⟩ s'' :=
  .cons (by rw [step_at sem h, he]) hs

theorem exec_skip (op : LogOp) (c : Reg) (t pc : Nat) (regs : Reg → V) (env : Env V) (H : List Nat) :
    exec1 sem (retarget (skipOp op c) t) ⟨pc, regs, env, H⟩ = .next ⟨if skips sem op (regs c) then t else pc + 1, regs, env, H⟩ := by
  cases op with
  | and => cases h : sem.truthy (regs c) <;> simp [skipOp, retarget, exec1, skips, h]
  | or => cases h : sem.truthy (regs c) <;> simp [skipOp, retarget, exec1, skips, h]
  | nullish => cases h : sem.nullish (regs c) <;> simp [skipOp, retarget, exec1, skips, h]

theorem getVar_ok {env env0 : Env V} {x : String} {a : V} (h : getVar sem env x = .ok a env0) :
    env.get x = some a ∧ env0 = env := by
  simp only [getVar] at h
  split at h <;> simp at h
  rename_i w hw
  exact ⟨by rw [hw, h.1], h.2.symm⟩

theorem getVar_thrown {env env0 : Env V} {x : String} {er : Err} (h : getVar sem env x = .thrown er env0) :
    env.get x = none ∧ er = sem.refErr x ∧ env0 = env := by
  simp only [getVar] at h
  split at h <;> simp at h
  rename_i hw
  exact ⟨hw, h.1.symm, h.2.symm⟩

theorem setVar_ok {env env' : Env V} {x : String} {v w : V} (h : setVar sem env x v = .ok w env') :
    env.set x v = some env' ∧ w = v := by
  simp only [setVar] at h
  split at h <;> simp at h
  rename_i e2 hw
  exact ⟨by rw [hw, h.2], h.1.symm⟩

theorem setVar_thrown {env env' : Env V} {x : String} {v : V} {er : Err} (h : setVar sem env x v = .thrown er env') :
    env.set x v = none ∧ er = sem.refErr x ∧ env' = env := by
  simp only [setVar] at h
  split at h <;> simp at h
  rename_i hw
  exact ⟨hw, h.1.symm, h.2.symm⟩

/-- `x &&= e`, `x ||= e`, `x ??= e`: read, maybe skip, evaluate, write -/
theorem asgLog_ok (lop : LogOp) (x : String) (e : Expr) (dst n base : Nat) (be : List Op) (C : List Op)
    (ihe : ExprOK sem C (base + 2) be.length e dst n)
    (hget : C[base]? = some (.getVar dst x))
    (hj : C[base + 1]? = some (retarget (skipOp lop dst) (base + 2 + be.length)))
    (hset : C[base + 2 + be.length]? = some (.setVar x dst))
    (regs : Reg → V) (env : Env V) (H : List Nat) :
    (∀ v env', (match getVar sem env x with
        | .ok a env =>
          if skips sem lop a then setVar sem env x a else
          match evalE sem e env with
          | .ok v env => setVar sem env x v
          | .thrown er env => .thrown er env
        | .thrown er env => .thrown er env) = Res.ok v env' → Done sem C base (be.length + 3) dst n regs env H v env') ∧
    (∀ er env', (match getVar sem env x with
        | .ok a env =>
          if skips sem lop a then setVar sem env x a else
          match evalE sem e env with
          | .ok v env => setVar sem env x v
          | .thrown er env => .thrown er env
        | .thrown er env => .thrown er env) = Res.thrown er env' → Throws sem C base regs env H er env') := by
  refine ⟨fun v env' h => ?_, fun er env' h => ?_⟩
  · split at h
    · rename_i a env0 ha
      obtain ⟨hga, rfl⟩ := getVar_ok sem ha
      have s0 : Steps sem C ⟨base, regs, env0, H⟩ ⟨base + 1, setReg regs dst a, env0, H⟩ :=
        Steps.one sem (by rw [step_at sem hget]; simp [exec1, hga])
      split at h
      · rename_i hsk
        obtain ⟨hs, hwv⟩ := setVar_ok sem h
        refine ⟨setReg regs dst a, s0.trans sem (Steps.cons_at sem hj (by rw [exec_skip, setReg_same, if_pos hsk])
          (Steps.one sem ?_)), by simp [hwv], fun r _ hr => setReg_other regs _ hr⟩
        rw [step_at sem hset]
        simp [exec1, hs]
        omega
      · rename_i hsk
        split at h
        · rename_i w env1 hw
          obtain ⟨hs, hwv⟩ := setVar_ok sem h
          obtain ⟨regs1, hs1, hv1, hk1⟩ := (ihe (setReg regs dst a) env0 H).1 w env1 hw
          refine ⟨regs1, s0.trans sem (Steps.cons_at sem hj (s' := ⟨base + 2, setReg regs dst a, env0, H⟩)
            (by rw [exec_skip, setReg_same, if_neg hsk]) (hs1.trans sem (Steps.one sem ?_))), by rw [hv1, hwv],
            fun r hr hrd => by rw [hk1 r hr hrd, setReg_other regs _ hrd]⟩
          rw [step_at sem hset]
          simp [exec1, hv1, hs]
          omega
        · simp at h
    · simp at h
  · split at h
    · rename_i a env0 ha
      obtain ⟨hga, rfl⟩ := getVar_ok sem ha
      have s0 : Steps sem C ⟨base, regs, env0, H⟩ ⟨base + 1, setReg regs dst a, env0, H⟩ :=
        Steps.one sem (by rw [step_at sem hget]; simp [exec1, hga])
      split at h
      · rename_i hsk
        obtain ⟨hs, rfl, rfl⟩ := setVar_thrown sem h
        refine ⟨base + 2 + be.length, setReg regs dst a, s0.trans sem (Steps.one sem
          (by rw [step_at sem hj, exec_skip, setReg_same, if_pos hsk])), ?_⟩
        rw [step_at sem hset]
        simp [exec1, hs]
      · rename_i hsk
        have s1 : Steps sem C ⟨base, regs, env0, H⟩ ⟨base + 2, setReg regs dst a, env0, H⟩ :=
          s0.trans sem (Steps.one sem (by rw [step_at sem hj, exec_skip, setReg_same, if_neg hsk]))
        split at h
        · rename_i w env1 hw
          obtain ⟨hs, rfl, rfl⟩ := setVar_thrown sem h
          obtain ⟨regs1, hs1, hv1, hk1⟩ := (ihe (setReg regs dst a) env0 H).1 w _ hw
          refine ⟨base + 2 + be.length, regs1, s1.trans sem hs1, ?_⟩
          rw [step_at sem hset]
          simp [exec1, hv1, hs]
        · rename_i er1 env1 hw
          simp only [Res.thrown.injEq] at h
          obtain ⟨rfl, rfl⟩ := h
          exact Throws.after sem s1 ((ihe _ _ _).2 _ _ hw)
    · rename_i er1 env0 ha
      obtain ⟨hga, rfl, rfl⟩ := getVar_thrown sem ha
      simp only [Res.thrown.injEq] at h
      obtain ⟨rfl, rfl⟩ := h
      refine ⟨base, regs, .refl _, ?_⟩
      rw [step_at sem hget]
      simp [exec1, hga]

theorem codeE_ok : ∀ (e : Expr) (dst n base : Nat) (body : List Op), codeE e dst n base = some body → dst < n →
    ∀ C, Embeds C base body → ExprOK sem C base body.length e dst n
  | .lit l, dst, n, base, body, hc, hd, C, emb => by
    simp only [codeE, Option.some.injEq] at hc
    subst hc
    intro regs env H
    refine ⟨fun v env' h => ?_, fun er env' h => ?_⟩
    · simp only [evalE, Res.ok.injEq] at h
      obtain ⟨rfl, rfl⟩ := h
      refine ⟨setReg regs dst (sem.lit l), Steps.one sem ?_, by simp, fun r _ hr => setReg_other regs _ hr⟩
      rw [step_at sem emb.head, exec_lit]
      rfl
    · simp [evalE] at h
  | .var x, dst, n, base, body, hc, hd, C, emb => by
    simp only [codeE, Option.some.injEq] at hc
    subst hc
    intro regs env H
    refine ⟨fun v env' h => ?_, fun er env' h => ?_⟩
    · simp only [evalE, getVar] at h
      split at h <;> simp at h
      rename_i w hw
      obtain ⟨rfl, rfl⟩ := h
      refine ⟨setReg regs dst w, Steps.one sem ?_, by simp, fun r _ hr => setReg_other regs _ hr⟩
      rw [step_at sem emb.head]
      simp [exec1, hw]
    · simp only [evalE, getVar] at h
      split at h <;> simp at h
      rename_i hw
      obtain ⟨rfl, rfl⟩ := h
      refine ⟨base, regs, .refl _, ?_⟩
      rw [step_at sem emb.head]
      simp [exec1, hw]
  | .un op e, dst, n, base, body, hc, hd, C, emb => by
    simp only [codeE] at hc
    split at hc
    · simp at hc
    split at hc
    · simp at hc
    rename_i hn be hbe
    simp only [Option.some.injEq] at hc
    subst hc
    have hlast : C[base + be.length]? = some (.un op dst n) := emb.right.head
    intro regs env H
    -- the operand: `be` leaves its value in register `n`
    have hoperand : (∀ v env', (match typeofVar? op e with
            | some x => Res.ok ((env.get x).getD (sem.lit .undef)) env
            | none => evalE sem e env) = Res.ok v env' → Done sem C base be.length n (n + 1) regs env H v env') ∧
        (∀ er env', (match typeofVar? op e with
            | some x => (Res.ok ((env.get x).getD (sem.lit .undef)) env : Res V Err V)
            | none => evalE sem e env) = Res.thrown er env' → Throws sem C base regs env H er env') := by
      cases hq : typeofVar? op e with
      | some x =>
        simp only [hq, Option.some.injEq] at hbe
        subst hbe
        refine ⟨fun v env' h => ?_, fun er env' h => by simp at h⟩
        simp only [Res.ok.injEq] at h
        obtain ⟨rfl, rfl⟩ := h
        refine ⟨setReg regs n ((env.get x).getD (sem.lit .undef)), Steps.one sem ?_, by simp, fun r _ hr => setReg_other regs _ hr⟩
        rw [step_at sem emb.left.head]
        simp [exec1]
      | none =>
        simp only [hq] at hbe
        exact codeE_ok e n (n + 1) base be hbe (by omega) C emb.left regs env H
    refine ⟨fun v env' h => ?_, fun er env' h => ?_⟩
    · simp only [evalE] at h
      split at h
      · rename_i a env1 ha
        obtain ⟨regs1, hs1, hv1, hk1⟩ := hoperand.1 a env1 ha
        simp only [liftE] at h
        split at h <;> simp at h
        rename_i w hw
        obtain ⟨rfl, rfl⟩ := h
        refine ⟨setReg regs1 dst w, hs1.trans sem (Steps.one sem ?_), by simp, fun r hr hrd => ?_⟩
        · rw [step_at sem hlast]
          simp [exec1, hv1, hw, Nat.add_assoc]
        · rw [setReg_other _ _ hrd]
          exact hk1 r (by omega) (by omega)
      · simp at h
    · simp only [evalE] at h
      split at h
      · rename_i a env1 ha
        obtain ⟨regs1, hs1, hv1, hk1⟩ := hoperand.1 a env1 ha
        simp only [liftE] at h
        split at h <;> simp at h
        rename_i w hw
        obtain ⟨rfl, rfl⟩ := h
        refine ⟨base + be.length, regs1, hs1, ?_⟩
        rw [step_at sem hlast]
        simp [exec1, hv1, hw]
      · rename_i er1 env1 ha
        simp only [Res.thrown.injEq] at h
        obtain ⟨rfl, rfl⟩ := h
        exact hoperand.2 _ _ ha
  | .bin op l r, dst, n, base, body, hc, hd, C, emb => by
    simp only [codeE] at hc
    split at hc
    · simp at hc
    split at hc
    · simp at hc
    rename_i hn bl hbl
    split at hc
    · simp at hc
    split at hc
    · simp at hc
    rename_i hn1 br hbr
    simp only [Option.some.injEq] at hc
    subst hc
    have ihl := codeE_ok l n (n + 1) base bl hbl (by omega) C emb.left.left
    have ihr := codeE_ok r (n + 1) (n + 2) (base + bl.length) br hbr (by omega) C emb.left.right
    have hlast : C[base + bl.length + br.length]? = some (.bin op dst n (n + 1)) := by
      have := emb.right.head
      simpa [Nat.add_assoc] using this
    intro regs env H
    refine ⟨fun v env' h => ?_, fun er env' h => ?_⟩
    · simp only [evalE] at h
      split at h
      · rename_i a env1 ha
        split at h
        · rename_i c env2 hcv
          obtain ⟨regs1, hs1, hv1, hk1⟩ := (ihl regs env H).1 a env1 ha
          obtain ⟨regs2, hs2, hv2, hk2⟩ := (ihr regs1 env1 H).1 c env2 hcv
          simp only [liftE] at h
          split at h <;> simp at h
          rename_i w hw
          obtain ⟨rfl, rfl⟩ := h
          have hn2 : regs2 n = a := by rw [hk2 n (by omega) (by omega), hv1]
          refine ⟨setReg regs2 dst w, (hs1.trans sem hs2).trans sem (Steps.one sem ?_), by simp, fun r hr hrd => ?_⟩
          · rw [step_at sem hlast]
            simp [exec1, hn2, hv2, hw, Nat.add_assoc]
          · rw [setReg_other _ _ hrd, hk2 r (by omega) (by omega), hk1 r (by omega) (by omega)]
        · simp at h
      · simp at h
    · simp only [evalE] at h
      split at h
      · rename_i a env1 ha
        obtain ⟨regs1, hs1, hv1, hk1⟩ := (ihl regs env H).1 a env1 ha
        split at h
        · rename_i c env2 hcv
          obtain ⟨regs2, hs2, hv2, hk2⟩ := (ihr regs1 env1 H).1 c env2 hcv
          simp only [liftE] at h
          split at h <;> simp at h
          rename_i w hw
          obtain ⟨rfl, rfl⟩ := h
          have hn2 : regs2 n = a := by rw [hk2 n (by omega) (by omega), hv1]
          refine ⟨base + bl.length + br.length, regs2, hs1.trans sem hs2, ?_⟩
          rw [step_at sem hlast]
          simp [exec1, hn2, hv2, hw]
        · rename_i er1 env2 hcv
          simp only [Res.thrown.injEq] at h
          obtain ⟨rfl, rfl⟩ := h
          exact Throws.after sem hs1 ((ihr regs1 env1 H).2 _ _ hcv)
      · rename_i er1 env1 ha
        simp only [Res.thrown.injEq] at h
        obtain ⟨rfl, rfl⟩ := h
        exact (ihl regs env H).2 _ _ ha
  | .log op l r, dst, n, base, body, hc, hd, C, emb => by
    simp only [codeE] at hc
    split at hc
    · simp at hc
    rename_i bl hbl
    split at hc
    · simp at hc
    rename_i br hbr
    simp only [Option.some.injEq] at hc
    subst hc
    have ihl := codeE_ok l dst n base bl hbl hd C emb.left
    have ihr := codeE_ok r dst n (base + bl.length + 1) br hbr hd C emb.right.tail
    have hj := emb.right.head
    have hlen : (bl ++ retarget (skipOp op dst) (base + bl.length + 1 + br.length) :: br).length = bl.length + 1 + br.length := by
      simp; omega
    intro regs env H
    refine ⟨fun v env' h => ?_, fun er env' h => ?_⟩
    · simp only [evalE] at h
      split at h
      · rename_i a env1 ha
        obtain ⟨regs1, hs1, hv1, hk1⟩ := (ihl regs env H).1 a env1 ha
        split at h
        · rename_i hsk
          simp only [Res.ok.injEq] at h
          obtain ⟨rfl, rfl⟩ := h
          refine ⟨regs1, hs1.trans sem (Steps.one sem ?_), hv1, hk1⟩
          rw [step_at sem hj, exec_skip, hv1, if_pos hsk, hlen]
          simp [Nat.add_assoc]
        · rename_i hsk
          obtain ⟨regs2, hs2, hv2, hk2⟩ := (ihr regs1 env1 H).1 v env' h
          refine ⟨regs2, hs1.trans sem (Steps.cons_at sem hj (by rw [exec_skip, hv1, if_neg hsk]) ?_), hv2,
            fun r hr hrd => by rw [hk2 r hr hrd, hk1 r hr hrd]⟩
          rw [hlen]
          simpa [Nat.add_assoc] using hs2
      · simp at h
    · simp only [evalE] at h
      split at h
      · rename_i a env1 ha
        obtain ⟨regs1, hs1, hv1, hk1⟩ := (ihl regs env H).1 a env1 ha
        split at h
        · simp at h
        · rename_i hsk
          exact Throws.after sem (hs1.trans sem (Steps.one sem (by rw [step_at sem hj, exec_skip, hv1, if_neg hsk])))
            ((ihr regs1 env1 H).2 _ _ h)
      · rename_i er1 env1 ha
        simp only [Res.thrown.injEq] at h
        obtain ⟨rfl, rfl⟩ := h
        exact (ihl regs env H).2 _ _ ha
  | .cond c t f, dst, n, base, body, hc, hd, C, emb => by
    simp only [codeE] at hc
    split at hc
    · simp at hc
    split at hc
    · simp at hc
    rename_i hn bc hbc
    split at hc
    · simp at hc
    rename_i bt hbt
    split at hc
    · simp at hc
    rename_i bf hbf
    simp only [Option.some.injEq] at hc
    subst hc
    have ihc := codeE_ok c n (n + 1) base bc hbc (by omega) C emb.left
    have iht := codeE_ok t dst n (base + bc.length + 1) bt hbt hd C emb.right.tail.left
    have ihf := codeE_ok f dst n (base + bc.length + 1 + bt.length + 1) bf hbf hd C emb.right.tail.right.tail
    have hjf := emb.right.head
    have hj := emb.right.tail.right.head
    have hlen : (bc ++ Op.jumpIfFalse n (base + bc.length + 1 + bt.length + 1) ::
        (bt ++ Op.jump (base + bc.length + 1 + bt.length + 1 + bf.length) :: bf)).length
        = bc.length + 1 + bt.length + 1 + bf.length := by
      simp; omega
    intro regs env H
    refine ⟨fun v env' h => ?_, fun er env' h => ?_⟩
    · simp only [evalE] at h
      split at h
      · rename_i a env1 ha
        obtain ⟨regs1, hs1, hv1, hk1⟩ := (ihc regs env H).1 a env1 ha
        split at h
        · rename_i htr
          obtain ⟨regs2, hs2, hv2, hk2⟩ := (iht regs1 env1 H).1 v env' h
          refine ⟨regs2, hs1.trans sem (Steps.cons_at sem hjf (by simp [exec1, hv1, htr])
            (hs2.trans sem (Steps.one sem ?_))), hv2, fun r hr hrd => by rw [hk2 r hr hrd, hk1 r (by omega) (by omega)]⟩
          rw [step_at sem hj, hlen]
          simp [exec1, Nat.add_assoc]
        · rename_i htr
          obtain ⟨regs2, hs2, hv2, hk2⟩ := (ihf regs1 env1 H).1 v env' h
          refine ⟨regs2, hs1.trans sem (Steps.cons_at sem hjf
            (s' := ⟨base + bc.length + 1 + bt.length + 1, regs1, env1, H⟩) (by simp [exec1, hv1, htr]) ?_), hv2,
            fun r hr hrd => by rw [hk2 r hr hrd, hk1 r (by omega) (by omega)]⟩
          rw [hlen]
          simpa [Nat.add_assoc] using hs2
      · simp at h
    · simp only [evalE] at h
      split at h
      · rename_i a env1 ha
        obtain ⟨regs1, hs1, hv1, hk1⟩ := (ihc regs env H).1 a env1 ha
        split at h
        · rename_i htr
          exact Throws.after sem (hs1.trans sem (Steps.one sem (by rw [step_at sem hjf]; simp [exec1, hv1, htr])))
            ((iht regs1 env1 H).2 _ _ h)
        · rename_i htr
          exact Throws.after sem (hs1.trans sem (Steps.one sem (by rw [step_at sem hjf]; simp [exec1, hv1, htr])))
            ((ihf regs1 env1 H).2 _ _ h)
      · rename_i er1 env1 ha
        simp only [Res.thrown.injEq] at h
        obtain ⟨rfl, rfl⟩ := h
        exact (ihc regs env H).2 _ _ ha
  | .seq a c, dst, n, base, body, hc, hd, C, emb => by
    simp only [codeE] at hc
    split at hc
    · simp at hc
    split at hc
    · simp at hc
    rename_i hn ba hba
    split at hc
    · simp at hc
    rename_i bc hbc
    simp only [Option.some.injEq] at hc
    subst hc
    have iha := codeE_ok a n (n + 1) base ba hba (by omega) C emb.left
    have ihc := codeE_ok c dst n (base + ba.length) bc hbc hd C emb.right
    intro regs env H
    refine ⟨fun v env' h => ?_, fun er env' h => ?_⟩
    · simp only [evalE] at h
      split at h
      · rename_i a' env1 ha
        obtain ⟨regs1, hs1, hv1, hk1⟩ := (iha regs env H).1 a' env1 ha
        obtain ⟨regs2, hs2, hv2, hk2⟩ := (ihc regs1 env1 H).1 v env' h
        refine ⟨regs2, hs1.trans sem ?_, hv2, fun r hr hrd => by rw [hk2 r hr hrd, hk1 r (by omega) (by omega)]⟩
        simpa [Nat.add_assoc] using hs2
      · simp at h
    · simp only [evalE] at h
      split at h
      · rename_i a' env1 ha
        obtain ⟨regs1, hs1, hv1, hk1⟩ := (iha regs env H).1 a' env1 ha
        exact Throws.after sem hs1 ((ihc regs1 env1 H).2 _ _ h)
      · rename_i er1 env1 ha
        simp only [Res.thrown.injEq] at h
        obtain ⟨rfl, rfl⟩ := h
        exact (iha regs env H).2 _ _ ha
  | .asg x .assign e, dst, n, base, body, hc, hd, C, emb => by
    simp only [codeE] at hc
    split at hc
    · simp at hc
    rename_i be hbe
    simp only [Option.some.injEq] at hc
    subst hc
    have ihe := codeE_ok e dst n base be hbe hd C emb.left
    have hlast := emb.right.head
    intro regs env H
    refine ⟨fun v env' h => ?_, fun er env' h => ?_⟩
    · simp only [evalE] at h
      split at h
      · rename_i a env1 ha
        obtain ⟨regs1, hs1, hv1, hk1⟩ := (ihe regs env H).1 a env1 ha
        simp only [setVar] at h
        split at h <;> simp at h
        rename_i env2 hset
        obtain ⟨rfl, rfl⟩ := h
        refine ⟨regs1, hs1.trans sem (Steps.one sem ?_), hv1, hk1⟩
        rw [step_at sem hlast]
        simp [exec1, hv1, hset, Nat.add_assoc]
      · simp at h
    · simp only [evalE] at h
      split at h
      · rename_i a env1 ha
        obtain ⟨regs1, hs1, hv1, hk1⟩ := (ihe regs env H).1 a env1 ha
        simp only [setVar] at h
        split at h <;> simp at h
        rename_i hset
        obtain ⟨rfl, rfl⟩ := h
        refine ⟨base + be.length, regs1, hs1, ?_⟩
        rw [step_at sem hlast]
        simp [exec1, hv1, hset]
      · rename_i er1 env1 ha
        simp only [Res.thrown.injEq] at h
        obtain ⟨rfl, rfl⟩ := h
        exact (ihe regs env H).2 _ _ ha
  | .asg x .andA e, dst, n, base, body, hc, hd, C, emb => by
    simp only [codeE] at hc
    split at hc
    · simp at hc
    rename_i be hbe
    simp only [Option.some.injEq] at hc
    subst hc
    have ihe := codeE_ok e dst n (base + 2) be hbe hd C (by simpa [Nat.add_assoc] using emb.tail.tail.left)
    have hset : C[base + 2 + be.length]? = some (.setVar x dst) := by
      have := emb.tail.tail.right.head
      simpa [Nat.add_assoc] using this
    intro regs env H
    have := asgLog_ok sem .and x e dst n base be C ihe emb.head emb.tail.head hset regs env H
    have hl : (Op.getVar dst x :: Op.jumpIfFalse dst (base + 2 + be.length) :: (be ++ [Op.setVar x dst])).length = be.length + 3 := by
      simp
    rw [hl]
    simp only [evalE]
    exact this
  | .asg x .orA e, dst, n, base, body, hc, hd, C, emb => by
    simp only [codeE] at hc
    split at hc
    · simp at hc
    rename_i be hbe
    simp only [Option.some.injEq] at hc
    subst hc
    have ihe := codeE_ok e dst n (base + 2) be hbe hd C (by simpa [Nat.add_assoc] using emb.tail.tail.left)
    have hset : C[base + 2 + be.length]? = some (.setVar x dst) := by
      have := emb.tail.tail.right.head
      simpa [Nat.add_assoc] using this
    intro regs env H
    have := asgLog_ok sem .or x e dst n base be C ihe emb.head emb.tail.head hset regs env H
    have hl : (Op.getVar dst x :: Op.jumpIfTrue dst (base + 2 + be.length) :: (be ++ [Op.setVar x dst])).length = be.length + 3 := by
      simp
    rw [hl]
    simp only [evalE]
    exact this
  | .asg x .nullishA e, dst, n, base, body, hc, hd, C, emb => by
    simp only [codeE] at hc
    split at hc
    · simp at hc
    rename_i be hbe
    simp only [Option.some.injEq] at hc
    subst hc
    have ihe := codeE_ok e dst n (base + 2) be hbe hd C (by simpa [Nat.add_assoc] using emb.tail.tail.left)
    have hset : C[base + 2 + be.length]? = some (.setVar x dst) := by
      have := emb.tail.tail.right.head
      simpa [Nat.add_assoc] using this
    intro regs env H
    have := asgLog_ok sem .nullish x e dst n base be C ihe emb.head emb.tail.head hset regs env H
    have hl : (Op.getVar dst x :: Op.jumpIfNotNullish dst (base + 2 + be.length) :: (be ++ [Op.setVar x dst])).length = be.length + 3 := by
      simp
    rw [hl]
    simp only [evalE]
    exact this
  | .asg x (.bin op) e, dst, n, base, body, hc, hd, C, emb => by
    simp only [codeE] at hc
    split at hc
    · simp at hc
    split at hc
    · simp at hc
    rename_i hn be hbe
    simp only [Option.some.injEq] at hc
    subst hc
    have ihe := codeE_ok e n (n + 1) (base + 1) be hbe (by omega) C emb.tail.left
    have hget := emb.head
    have hbin : C[base + 1 + be.length]? = some (.bin op dst dst n) := emb.tail.right.head
    have hset : C[base + 1 + be.length + 1]? = some (.setVar x dst) := emb.tail.right.tail.head
    have hl : (Op.getVar dst x :: (be ++ [Op.bin op dst dst n, Op.setVar x dst])).length = be.length + 3 := by simp
    rw [hl]
    intro regs env H
    refine ⟨fun v env' h => ?_, fun er env' h => ?_⟩
    · simp only [evalE] at h
      split at h
      · rename_i a env0 ha
        obtain ⟨hga, rfl⟩ := getVar_ok sem ha
        have s0 : Steps sem C ⟨base, regs, env0, H⟩ ⟨base + 1, setReg regs dst a, env0, H⟩ :=
          Steps.one sem (by rw [step_at sem hget]; simp [exec1, hga])
        split at h
        · rename_i c env2 hcv
          obtain ⟨regs1, hs1, hv1, hk1⟩ := (ihe (setReg regs dst a) env0 H).1 c env2 hcv
          have hd1 : regs1 dst = a := by rw [hk1 dst (by omega) (by omega)]; simp
          split at h
          · rename_i w hw
            obtain ⟨hs, hwv⟩ := setVar_ok sem h
            refine ⟨setReg regs1 dst w, (s0.trans sem hs1).trans sem (Steps.cons_at sem hbin
              (s' := ⟨base + 1 + be.length + 1, setReg regs1 dst w, env2, H⟩) (by simp [exec1, hd1, hv1, hw])
              (Steps.one sem ?_)), by simp [hwv], fun r hr hrd => ?_⟩
            · rw [step_at sem hset]
              simp [exec1, hs]
              omega
            · rw [setReg_other _ _ hrd, hk1 r (by omega) (by omega), setReg_other _ _ hrd]
          · simp at h
        · simp at h
      · simp at h
    · simp only [evalE] at h
      split at h
      · rename_i a env0 ha
        obtain ⟨hga, rfl⟩ := getVar_ok sem ha
        have s0 : Steps sem C ⟨base, regs, env0, H⟩ ⟨base + 1, setReg regs dst a, env0, H⟩ :=
          Steps.one sem (by rw [step_at sem hget]; simp [exec1, hga])
        split at h
        · rename_i c env2 hcv
          obtain ⟨regs1, hs1, hv1, hk1⟩ := (ihe (setReg regs dst a) env0 H).1 c env2 hcv
          have hd1 : regs1 dst = a := by rw [hk1 dst (by omega) (by omega)]; simp
          split at h
          · rename_i w hw
            obtain ⟨hs, rfl, rfl⟩ := setVar_thrown sem h
            refine ⟨base + 1 + be.length + 1, setReg regs1 dst w, (s0.trans sem hs1).trans sem
              (Steps.one sem (by rw [step_at sem hbin]; simp [exec1, hd1, hv1, hw])), ?_⟩
            rw [step_at sem hset]
            simp [exec1, hs]
          · rename_i er1 hw
            simp only [Res.thrown.injEq] at h
            obtain ⟨rfl, rfl⟩ := h
            refine ⟨base + 1 + be.length, regs1, s0.trans sem hs1, ?_⟩
            rw [step_at sem hbin]
            simp [exec1, hd1, hv1, hw]
        · rename_i er1 env2 hcv
          simp only [Res.thrown.injEq] at h
          obtain ⟨rfl, rfl⟩ := h
          exact Throws.after sem s0 ((ihe _ _ _).2 _ _ hcv)
      · rename_i er1 env0 ha
        obtain ⟨hga, rfl, rfl⟩ := getVar_thrown sem ha
        simp only [Res.thrown.injEq] at h
        obtain ⟨rfl, rfl⟩ := h
        refine ⟨base, regs, .refl _, ?_⟩
        rw [step_at sem hget]
        simp [exec1, hga]
  | .upd x inc false, dst, n, base, body, hc, hd, C, emb => by
    simp only [codeE] at hc
    split at hc
    · simp at hc
    split at hc
    · simp at hc
    simp only [Option.some.injEq] at hc
    subst hc
    have h0 := emb.head
    have h1 := emb.tail.head
    have h2 := emb.tail.tail.head
    have h3 := emb.tail.tail.tail.head
    have h4 := emb.tail.tail.tail.tail.head
    have h5 := emb.tail.tail.tail.tail.tail.head
    have h6 := emb.tail.tail.tail.tail.tail.tail.head
    have hnd : n ≠ dst := by omega
    have hnd1 : n + 1 ≠ dst := by omega
    intro regs env H
    refine ⟨fun v env' h => ?_, fun er env' h => ?_⟩
    · simp only [evalE] at h
      split at h
      · rename_i a env0 ha
        obtain ⟨hga, rfl⟩ := getVar_ok sem ha
        split at h
        · rename_i nn hnn
          split at h
          · rename_i w hw
            split at h
            · rename_i u env1 hsv
              obtain ⟨hs, _⟩ := setVar_ok sem hsv
              simp only [Res.ok.injEq, Bool.false_eq_true, if_false] at h
              obtain ⟨rfl, rfl⟩ := h
              refine ⟨setReg (setReg (setReg (setReg (setReg (setReg regs dst a) dst nn) n nn) (n + 1) (sem.lit (.num 1))) dst w) dst nn,
                ?_, by simp, fun r hr hrd => ?_⟩
              · refine Steps.cons_at sem h0 (s' := ⟨base + 1, setReg regs dst a, env0, H⟩) (by simp [exec1, hga]) ?_
                refine Steps.cons_at sem h1 (s' := ⟨base + 1 + 1, setReg (setReg regs dst a) dst nn, env0, H⟩) (by simp [exec1, hnn]) ?_
                refine Steps.cons_at sem h2 (s' := ⟨base + 1 + 1 + 1, setReg (setReg (setReg regs dst a) dst nn) n nn, env0, H⟩) (by simp [exec1]) ?_
                refine Steps.cons_at sem h3 (s' := ⟨base + 1 + 1 + 1 + 1,
                  setReg (setReg (setReg (setReg regs dst a) dst nn) n nn) (n + 1) (sem.lit (.num 1)), env0, H⟩) (by simp [exec1]) ?_
                refine Steps.cons_at sem h4 (s' := ⟨base + 1 + 1 + 1 + 1 + 1,
                  setReg (setReg (setReg (setReg (setReg regs dst a) dst nn) n nn) (n + 1) (sem.lit (.num 1))) dst w, env0, H⟩)
                  (by simp [exec1, setReg, hnd, hnd1, Ne.symm hnd, Ne.symm hnd1, hw]) ?_
                refine Steps.cons_at sem h5 (s' := ⟨base + 1 + 1 + 1 + 1 + 1 + 1,
                  setReg (setReg (setReg (setReg (setReg regs dst a) dst nn) n nn) (n + 1) (sem.lit (.num 1))) dst w, env1, H⟩)
                  (by simp [exec1, hs]) ?_
                refine Steps.one sem ?_
                rw [step_at sem h6]
                simp [exec1, setReg, hnd, hnd1]
              · simp [setReg, hrd, Nat.ne_of_lt hr, Nat.ne_of_lt (Nat.lt_succ_of_lt hr)]
            · simp at h
          · simp at h
        · simp at h
      · simp at h
    · simp only [evalE] at h
      split at h
      · rename_i a env0 ha
        obtain ⟨hga, rfl⟩ := getVar_ok sem ha
        have s1 : Steps sem C ⟨base, regs, env0, H⟩ ⟨base + 1, setReg regs dst a, env0, H⟩ :=
          Steps.one sem (by rw [step_at sem h0]; simp [exec1, hga])
        split at h
        · rename_i nn hnn
          have s4 : Steps sem C ⟨base, regs, env0, H⟩ ⟨base + 1 + 1 + 1 + 1,
              setReg (setReg (setReg (setReg regs dst a) dst nn) n nn) (n + 1) (sem.lit (.num 1)), env0, H⟩ := by
            refine s1.trans sem ?_
            refine Steps.cons_at sem h1 (s' := ⟨base + 1 + 1, setReg (setReg regs dst a) dst nn, env0, H⟩) (by simp [exec1, hnn]) ?_
            refine Steps.cons_at sem h2 (s' := ⟨base + 1 + 1 + 1, setReg (setReg (setReg regs dst a) dst nn) n nn, env0, H⟩) (by simp [exec1]) ?_
            exact Steps.one sem (by rw [step_at sem h3]; simp [exec1])
          split at h
          · rename_i w hw
            split at h
            · simp at h
            · rename_i er1 env1 hsv
              obtain ⟨hs, rfl, rfl⟩ := setVar_thrown sem hsv
              simp only [Res.thrown.injEq] at h
              obtain ⟨rfl, rfl⟩ := h
              refine ⟨base + 1 + 1 + 1 + 1 + 1, setReg (setReg (setReg (setReg (setReg regs dst a) dst nn) n nn) (n + 1) (sem.lit (.num 1))) dst w,
                s4.trans sem (Steps.one sem ?_), ?_⟩
              · rw [step_at sem h4]
                simp [exec1, setReg, hnd, hnd1, Ne.symm hnd, Ne.symm hnd1, hw]
              · rw [step_at sem h5]
                simp [exec1, hs]
          · rename_i er1 hw
            simp only [Res.thrown.injEq] at h
            obtain ⟨rfl, rfl⟩ := h
            refine ⟨_, _, s4, ?_⟩
            rw [step_at sem h4]
            simp [exec1, setReg, hnd, hnd1, Ne.symm hnd, Ne.symm hnd1, hw]
        · rename_i er1 hnn
          simp only [Res.thrown.injEq] at h
          obtain ⟨rfl, rfl⟩ := h
          refine ⟨_, _, s1, ?_⟩
          rw [step_at sem h1]
          simp [exec1, hnn]
      · rename_i er1 env0 ha
        obtain ⟨hga, rfl, rfl⟩ := getVar_thrown sem ha
        simp only [Res.thrown.injEq] at h
        obtain ⟨rfl, rfl⟩ := h
        refine ⟨base, regs, .refl _, ?_⟩
        rw [step_at sem h0]
        simp [exec1, hga]
  | .upd x inc true, dst, n, base, body, hc, hd, C, emb => by
    simp only [codeE] at hc
    split at hc
    · simp at hc
    simp only [Option.some.injEq] at hc
    subst hc
    have h0 := emb.head
    have h1 := emb.tail.head
    have h2 := emb.tail.tail.head
    have h3 := emb.tail.tail.tail.head
    have h4 := emb.tail.tail.tail.tail.head
    have hnd : n ≠ dst := by omega
    intro regs env H
    refine ⟨fun v env' h => ?_, fun er env' h => ?_⟩
    · simp only [evalE] at h
      split at h
      · rename_i a env0 ha
        obtain ⟨hga, rfl⟩ := getVar_ok sem ha
        split at h
        · rename_i nn hnn
          split at h
          · rename_i w hw
            split at h
            · rename_i u env1 hsv
              obtain ⟨hs, _⟩ := setVar_ok sem hsv
              simp only [Res.ok.injEq, if_true] at h
              obtain ⟨rfl, rfl⟩ := h
              refine ⟨setReg (setReg (setReg (setReg regs dst a) dst nn) n (sem.lit (.num 1))) dst w,
                ?_, by simp, fun r hr hrd => ?_⟩
              · refine Steps.cons_at sem h0 (s' := ⟨base + 1, setReg regs dst a, env0, H⟩) (by simp [exec1, hga]) ?_
                refine Steps.cons_at sem h1 (s' := ⟨base + 1 + 1, setReg (setReg regs dst a) dst nn, env0, H⟩) (by simp [exec1, hnn]) ?_
                refine Steps.cons_at sem h2 (s' := ⟨base + 1 + 1 + 1, setReg (setReg (setReg regs dst a) dst nn) n (sem.lit (.num 1)), env0, H⟩) (by simp [exec1]) ?_
                refine Steps.cons_at sem h3 (s' := ⟨base + 1 + 1 + 1 + 1,
                  setReg (setReg (setReg (setReg regs dst a) dst nn) n (sem.lit (.num 1))) dst w, env0, H⟩)
                  (by simp [exec1, setReg, hnd, Ne.symm hnd, hw]) ?_
                refine Steps.one sem ?_
                rw [step_at sem h4]
                simp [exec1, hs]
              · simp [setReg, hrd, Nat.ne_of_lt hr]
            · simp at h
          · simp at h
        · simp at h
      · simp at h
    · simp only [evalE] at h
      split at h
      · rename_i a env0 ha
        obtain ⟨hga, rfl⟩ := getVar_ok sem ha
        have s1 : Steps sem C ⟨base, regs, env0, H⟩ ⟨base + 1, setReg regs dst a, env0, H⟩ :=
          Steps.one sem (by rw [step_at sem h0]; simp [exec1, hga])
        split at h
        · rename_i nn hnn
          have s3 : Steps sem C ⟨base, regs, env0, H⟩ ⟨base + 1 + 1 + 1,
              setReg (setReg (setReg regs dst a) dst nn) n (sem.lit (.num 1)), env0, H⟩ := by
            refine s1.trans sem ?_
            refine Steps.cons_at sem h1 (s' := ⟨base + 1 + 1, setReg (setReg regs dst a) dst nn, env0, H⟩) (by simp [exec1, hnn]) ?_
            exact Steps.one sem (by rw [step_at sem h2]; simp [exec1])
          split at h
          · rename_i w hw
            split at h
            · simp at h
            · rename_i er1 env1 hsv
              obtain ⟨hs, rfl, rfl⟩ := setVar_thrown sem hsv
              simp only [Res.thrown.injEq] at h
              obtain ⟨rfl, rfl⟩ := h
              refine ⟨base + 1 + 1 + 1 + 1, setReg (setReg (setReg (setReg regs dst a) dst nn) n (sem.lit (.num 1))) dst w,
                s3.trans sem (Steps.one sem ?_), ?_⟩
              · rw [step_at sem h3]
                simp [exec1, setReg, hnd, Ne.symm hnd, hw]
              · rw [step_at sem h4]
                simp [exec1, hs]
          · rename_i er1 hw
            simp only [Res.thrown.injEq] at h
            obtain ⟨rfl, rfl⟩ := h
            refine ⟨_, _, s3, ?_⟩
            rw [step_at sem h3]
            simp [exec1, setReg, hnd, Ne.symm hnd, hw]
        · rename_i er1 hnn
          simp only [Res.thrown.injEq] at h
          obtain ⟨rfl, rfl⟩ := h
          refine ⟨_, _, s1, ?_⟩
          rw [step_at sem h1]
          simp [exec1, hnn]
      · rename_i er1 env0 ha
        obtain ⟨hga, rfl, rfl⟩ := getVar_thrown sem ha
        simp only [Res.thrown.injEq] at h
        obtain ⟨rfl, rfl⟩ := h
        refine ⟨base, regs, .refl _, ?_⟩
        rw [step_at sem h0]
        simp [exec1, hga]

end
end TsrunVerif.Compile
