import TsrunVerif.Model.Compile

/-!
Lemmas for M-Compile: the code embedding relation, VM step sequences, and the simulation of the
reference semantics by the code `codeE` / `codeS` describe.
-/
set_option linter.unusedSimpArgs false
set_option linter.unusedVariables false

namespace TsrunVerif.Compile

/-- `body` sits in `C` at offset `base` -/
def Embeds (C : List Op) (base : Nat) (body : List Op) : Prop :=
  ∀ i, i < body.length → C[base + i]? = body[i]?

theorem Embeds.left {C : List Op} {base : Nat} {x y : List Op} (h : Embeds C base (x ++ y)) : Embeds C base x := by
  intro i hi
  have := h i (by simp; omega)
  rw [this, List.getElem?_append_left hi]

theorem Embeds.right {C : List Op} {base : Nat} {x y : List Op} (h : Embeds C base (x ++ y)) :
    Embeds C (base + x.length) y := by
  intro i hi
  have := h (x.length + i) (by simp; omega)
  rw [Nat.add_assoc, this, List.getElem?_append_right (by omega)]
  simp

theorem Embeds.head {C : List Op} {base : Nat} {op : Op} {y : List Op} (h : Embeds C base (op :: y)) :
    C[base]? = some op := by
  simpa using h 0 (by simp)

theorem Embeds.tail {C : List Op} {base : Nat} {op : Op} {y : List Op} (h : Embeds C base (op :: y)) :
    Embeds C (base + 1) y := by
  have := Embeds.right (x := [op]) (y := y) (by simpa using h)
  simpa using this

theorem Embeds.self (pre body post : List Op) : Embeds (pre ++ body ++ post) pre.length body := by
  intro i hi
  rw [List.append_assoc, List.getElem?_append_right (by omega)]
  simp [List.getElem?_append_left hi]

section
variable {V Err : Type} (sem : Sem V Err)

/-- a sequence of ordinary (non-throwing, non-halting) instructions -/
inductive Steps (C : List Op) : St V → St V → Prop where
  | refl (s : St V) : Steps C s s
  | cons {s s' s'' : St V} : step sem C s = .next s' → Steps C s' s'' → Steps C s s''

theorem Steps.trans {C : List Op} {a b c : St V} (h₁ : Steps sem C a b) (h₂ : Steps sem C b c) : Steps sem C a c := by
  induction h₁ with
  | refl => exact h₂
  | cons hs _ ih => exact .cons hs (ih h₂)

theorem Steps.one {C : List Op} {a b : St V} (h : step sem C a = .next b) : Steps sem C a b :=
  .cons h (.refl b)

theorem step_at {C : List Op} {pc : Nat} {op : Op} (h : C[pc]? = some op) (regs : Reg → V) (env : Env V) :
    step sem C ⟨pc, regs, env⟩ = exec1 sem op ⟨pc, regs, env⟩ := by
  simp [step, h]

@[simp] theorem setReg_same (regs : Reg → V) (r : Reg) (v : V) : setReg regs r v r = v := by simp [setReg]
theorem setReg_other (regs : Reg → V) {r r' : Reg} (v : V) (h : r' ≠ r) : setReg regs r v r' = regs r' := by
  simp [setReg, h]

/-- the VM reaches the end of the code with the value in `dst`, the registers below `n` intact -/
def Done (C : List Op) (base len : Nat) (dst n : Nat) (regs : Reg → V) (env : Env V) (v : V) (env' : Env V) : Prop :=
  ∃ regs', Steps sem C ⟨base, regs, env⟩ ⟨base + len, regs', env'⟩ ∧ regs' dst = v ∧
    ∀ r, r < n → r ≠ dst → regs' r = regs r

/-- the VM reaches an instruction that throws `er`, with environment `env'` -/
def Throws (C : List Op) (base : Nat) (regs : Reg → V) (env : Env V) (er : Err) (env' : Env V) : Prop :=
  ∃ pc regs', Steps sem C ⟨base, regs, env⟩ ⟨pc, regs', env'⟩ ∧
    step sem C ⟨pc, regs', env'⟩ = .throw er ⟨pc, regs', env'⟩

/-- the code at `base` simulates the evaluation of `e` into `dst` -/
def ExprOK (C : List Op) (base len : Nat) (e : Expr) (dst n : Nat) : Prop :=
  ∀ (regs : Reg → V) (env : Env V),
    (∀ v env', evalE sem e env = .ok v env' → Done sem C base len dst n regs env v env') ∧
    (∀ er env', evalE sem e env = .thrown er env' → Throws sem C base regs env er env')

theorem Throws.after {C : List Op} {base pc : Nat} {regs regs' : Reg → V} {env env' env'' : Env V} {er : Err}
    (h₁ : Steps sem C ⟨base, regs, env⟩ ⟨pc, regs', env'⟩) (h₂ : Throws sem C pc regs' env' er env'') :
    Throws sem C base regs env er env'' := by
  obtain ⟨pc', r', hs, ht⟩ := h₂
  exact ⟨pc', r', h₁.trans sem hs, ht⟩


theorem exec_lit (dst : Reg) (l : Lit) (s : St V) :
    exec1 sem (litOp dst l) s = .next { s with pc := s.pc + 1, regs := setReg s.regs dst (sem.lit l) } := by
  cases l with
  | num z => simp only [litOp]; split <;> simp [exec1]
  | _ => simp [litOp, exec1]

theorem Steps.cons_at {C : List Op} {pc : Nat} {op : Op} {regs : Reg → V} {env : Env V} {s' s'' : St V}
    (h : C[pc]? = some op) (he : exec1 sem op ⟨pc, regs, env⟩ = .next s') (hs : Steps sem C s' s'') :
    Steps sem C ⟨pc, regs, env⟩ s'' :=
  .cons (by rw [step_at sem h, he]) hs

theorem exec_skip (op : LogOp) (c : Reg) (t pc : Nat) (regs : Reg → V) (env : Env V) :
    exec1 sem (retarget (skipOp op c) t) ⟨pc, regs, env⟩ = .next ⟨if skips sem op (regs c) then t else pc + 1, regs, env⟩ := by
  cases op with
  | and => cases h : sem.truthy (regs c) <;> simp [skipOp, retarget, exec1, skips, h]
  | or => cases h : sem.truthy (regs c) <;> simp [skipOp, retarget, exec1, skips, h]
  | nullish => cases h : sem.nullish (regs c) <;> simp [skipOp, retarget, exec1, skips, h]

theorem getVar_ok {env env0 : Env V} {x : String} {a : V} (h : getVar sem env x = .ok a env0) :
    env.get x = some a ∧ env0 = env := by
  simp only [getVar] at h
  split at h <;> simp at h
  rename_i w hw
  exact ⟨by rw [hw, h.1], h.2.symm⟩

theorem getVar_thrown {env env0 : Env V} {x : String} {er : Err} (h : getVar sem env x = .thrown er env0) :
    env.get x = none ∧ er = sem.refErr x ∧ env0 = env := by
  simp only [getVar] at h
  split at h <;> simp at h
  rename_i hw
  exact ⟨hw, h.1.symm, h.2.symm⟩

theorem setVar_ok {env env' : Env V} {x : String} {v w : V} (h : setVar sem env x v = .ok w env') :
    env.set x v = some env' ∧ w = v := by
  simp only [setVar] at h
  split at h <;> simp at h
  rename_i e2 hw
  exact ⟨by rw [hw, h.2], h.1.symm⟩

theorem setVar_thrown {env env' : Env V} {x : String} {v : V} {er : Err} (h : setVar sem env x v = .thrown er env') :
    env.set x v = none ∧ er = sem.refErr x ∧ env' = env := by
  simp only [setVar] at h
  split at h <;> simp at h
  rename_i hw
  exact ⟨hw, h.1.symm, h.2.symm⟩

/-- `x &&= e`, `x ||= e`, `x ??= e`: read, maybe skip, evaluate, write -/
theorem asgLog_ok (lop : LogOp) (x : String) (e : Expr) (dst n base : Nat) (be : List Op) (C : List Op)
    (ihe : ExprOK sem C (base + 2) be.length e dst n)
    (hget : C[base]? = some (.getVar dst x))
    (hj : C[base + 1]? = some (retarget (skipOp lop dst) (base + 2 + be.length)))
    (hset : C[base + 2 + be.length]? = some (.setVar x dst))
    (regs : Reg → V) (env : Env V) :
    (∀ v env', (match getVar sem env x with
        | .ok a env =>
          if skips sem lop a then setVar sem env x a else
          match evalE sem e env with
          | .ok v env => setVar sem env x v
          | .thrown er env => .thrown er env
        | .thrown er env => .thrown er env) = Res.ok v env' → Done sem C base (be.length + 3) dst n regs env v env') ∧
    (∀ er env', (match getVar sem env x with
        | .ok a env =>
          if skips sem lop a then setVar sem env x a else
          match evalE sem e env with
          | .ok v env => setVar sem env x v
          | .thrown er env => .thrown er env
        | .thrown er env => .thrown er env) = Res.thrown er env' → Throws sem C base regs env er env') := by
  refine ⟨fun v env' h => ?_, fun er env' h => ?_⟩
  · split at h
    · rename_i a env0 ha
      obtain ⟨hga, rfl⟩ := getVar_ok sem ha
      have s0 : Steps sem C ⟨base, regs, env0⟩ ⟨base + 1, setReg regs dst a, env0⟩ :=
        Steps.one sem (by rw [step_at sem hget]; simp [exec1, hga])
      split at h
      · rename_i hsk
        obtain ⟨hs, hwv⟩ := setVar_ok sem h
        refine ⟨setReg regs dst a, s0.trans sem (Steps.cons_at sem hj (by rw [exec_skip, setReg_same, if_pos hsk])
          (Steps.one sem ?_)), by simp [hwv], fun r _ hr => setReg_other regs _ hr⟩
        rw [step_at sem hset]
        simp [exec1, hs]
        omega
      · rename_i hsk
        split at h
        · rename_i w env1 hw
          obtain ⟨hs, hwv⟩ := setVar_ok sem h
          obtain ⟨regs1, hs1, hv1, hk1⟩ := (ihe (setReg regs dst a) env0).1 w env1 hw
          refine ⟨regs1, s0.trans sem (Steps.cons_at sem hj (s' := ⟨base + 2, setReg regs dst a, env0⟩)
            (by rw [exec_skip, setReg_same, if_neg hsk]) (hs1.trans sem (Steps.one sem ?_))), by rw [hv1, hwv],
            fun r hr hrd => by rw [hk1 r hr hrd, setReg_other regs _ hrd]⟩
          rw [step_at sem hset]
          simp [exec1, hv1, hs]
          omega
        · simp at h
    · simp at h
  · split at h
    · rename_i a env0 ha
      obtain ⟨hga, rfl⟩ := getVar_ok sem ha
      have s0 : Steps sem C ⟨base, regs, env0⟩ ⟨base + 1, setReg regs dst a, env0⟩ :=
        Steps.one sem (by rw [step_at sem hget]; simp [exec1, hga])
      split at h
      · rename_i hsk
        obtain ⟨hs, rfl, rfl⟩ := setVar_thrown sem h
        refine ⟨base + 2 + be.length, setReg regs dst a, s0.trans sem (Steps.one sem
          (by rw [step_at sem hj, exec_skip, setReg_same, if_pos hsk])), ?_⟩
        rw [step_at sem hset]
        simp [exec1, hs]
      · rename_i hsk
        have s1 : Steps sem C ⟨base, regs, env0⟩ ⟨base + 2, setReg regs dst a, env0⟩ :=
          s0.trans sem (Steps.one sem (by rw [step_at sem hj, exec_skip, setReg_same, if_neg hsk]))
        split at h
        · rename_i w env1 hw
          obtain ⟨hs, rfl, rfl⟩ := setVar_thrown sem h
          obtain ⟨regs1, hs1, hv1, hk1⟩ := (ihe (setReg regs dst a) env0).1 w _ hw
          refine ⟨base + 2 + be.length, regs1, s1.trans sem hs1, ?_⟩
          rw [step_at sem hset]
          simp [exec1, hv1, hs]
        · rename_i er1 env1 hw
          simp only [Res.thrown.injEq] at h
          obtain ⟨rfl, rfl⟩ := h
          exact Throws.after sem s1 ((ihe _ _).2 _ _ hw)
    · rename_i er1 env0 ha
      obtain ⟨hga, rfl, rfl⟩ := getVar_thrown sem ha
      simp only [Res.thrown.injEq] at h
      obtain ⟨rfl, rfl⟩ := h
      refine ⟨base, regs, .refl _, ?_⟩
      rw [step_at sem hget]
      simp [exec1, hga]

theorem codeE_ok : ∀ (e : Expr) (dst n base : Nat) (body : List Op), codeE e dst n base = some body → dst < n →
    ∀ C, Embeds C base body → ExprOK sem C base body.length e dst n
  | .lit l, dst, n, base, body, hc, hd, C, emb => by
    simp only [codeE, Option.some.injEq] at hc
    subst hc
    intro regs env
    refine ⟨fun v env' h => ?_, fun er env' h => ?_⟩
    · simp only [evalE, Res.ok.injEq] at h
      obtain ⟨rfl, rfl⟩ := h
      refine ⟨setReg regs dst (sem.lit l), Steps.one sem ?_, by simp, fun r _ hr => setReg_other regs _ hr⟩
      rw [step_at sem emb.head, exec_lit]
      rfl
    · simp [evalE] at h
  | .var x, dst, n, base, body, hc, hd, C, emb => by
    simp only [codeE, Option.some.injEq] at hc
    subst hc
    intro regs env
    refine ⟨fun v env' h => ?_, fun er env' h => ?_⟩
    · simp only [evalE, getVar] at h
      split at h <;> simp at h
      rename_i w hw
      obtain ⟨rfl, rfl⟩ := h
      refine ⟨setReg regs dst w, Steps.one sem ?_, by simp, fun r _ hr => setReg_other regs _ hr⟩
      rw [step_at sem emb.head]
      simp [exec1, hw]
    · simp only [evalE, getVar] at h
      split at h <;> simp at h
      rename_i hw
      obtain ⟨rfl, rfl⟩ := h
      refine ⟨base, regs, .refl _, ?_⟩
      rw [step_at sem emb.head]
      simp [exec1, hw]
  | .un op e, dst, n, base, body, hc, hd, C, emb => by
    simp only [codeE] at hc
    split at hc
    · simp at hc
    split at hc
    · simp at hc
    rename_i hn be hbe
    simp only [Option.some.injEq] at hc
    subst hc
    have hlast : C[base + be.length]? = some (.un op dst n) := emb.right.head
    intro regs env
    -- the operand: `be` leaves its value in register `n`
    have hoperand : (∀ v env', (match typeofVar? op e with
            | some x => Res.ok ((env.get x).getD (sem.lit .undef)) env
            | none => evalE sem e env) = Res.ok v env' → Done sem C base be.length n (n + 1) regs env v env') ∧
        (∀ er env', (match typeofVar? op e with
            | some x => (Res.ok ((env.get x).getD (sem.lit .undef)) env : Res V Err V)
            | none => evalE sem e env) = Res.thrown er env' → Throws sem C base regs env er env') := by
      cases hq : typeofVar? op e with
      | some x =>
        simp only [hq, Option.some.injEq] at hbe
        subst hbe
        refine ⟨fun v env' h => ?_, fun er env' h => by simp at h⟩
        simp only [Res.ok.injEq] at h
        obtain ⟨rfl, rfl⟩ := h
        refine ⟨setReg regs n ((env.get x).getD (sem.lit .undef)), Steps.one sem ?_, by simp, fun r _ hr => setReg_other regs _ hr⟩
        rw [step_at sem emb.left.head]
        simp [exec1]
      | none =>
        simp only [hq] at hbe
        exact codeE_ok e n (n + 1) base be hbe (by omega) C emb.left regs env
    refine ⟨fun v env' h => ?_, fun er env' h => ?_⟩
    · simp only [evalE] at h
      split at h
      · rename_i a env1 ha
        obtain ⟨regs1, hs1, hv1, hk1⟩ := hoperand.1 a env1 ha
        simp only [liftE] at h
        split at h <;> simp at h
        rename_i w hw
        obtain ⟨rfl, rfl⟩ := h
        refine ⟨setReg regs1 dst w, hs1.trans sem (Steps.one sem ?_), by simp, fun r hr hrd => ?_⟩
        · rw [step_at sem hlast]
          simp [exec1, hv1, hw, Nat.add_assoc]
        · rw [setReg_other _ _ hrd]
          exact hk1 r (by omega) (by omega)
      · simp at h
    · simp only [evalE] at h
      split at h
      · rename_i a env1 ha
        obtain ⟨regs1, hs1, hv1, hk1⟩ := hoperand.1 a env1 ha
        simp only [liftE] at h
        split at h <;> simp at h
        rename_i w hw
        obtain ⟨rfl, rfl⟩ := h
        refine ⟨base + be.length, regs1, hs1, ?_⟩
        rw [step_at sem hlast]
        simp [exec1, hv1, hw]
      · rename_i er1 env1 ha
        simp only [Res.thrown.injEq] at h
        obtain ⟨rfl, rfl⟩ := h
        exact hoperand.2 _ _ ha
  | .bin op l r, dst, n, base, body, hc, hd, C, emb => by
    simp only [codeE] at hc
    split at hc
    · simp at hc
    split at hc
    · simp at hc
    rename_i hn bl hbl
    split at hc
    · simp at hc
    split at hc
    · simp at hc
    rename_i hn1 br hbr
    simp only [Option.some.injEq] at hc
    subst hc
    have ihl := codeE_ok l n (n + 1) base bl hbl (by omega) C emb.left.left
    have ihr := codeE_ok r (n + 1) (n + 2) (base + bl.length) br hbr (by omega) C emb.left.right
    have hlast : C[base + bl.length + br.length]? = some (.bin op dst n (n + 1)) := by
      have := emb.right.head
      simpa [Nat.add_assoc] using this
    intro regs env
    refine ⟨fun v env' h => ?_, fun er env' h => ?_⟩
    · simp only [evalE] at h
      split at h
      · rename_i a env1 ha
        split at h
        · rename_i c env2 hcv
          obtain ⟨regs1, hs1, hv1, hk1⟩ := (ihl regs env).1 a env1 ha
          obtain ⟨regs2, hs2, hv2, hk2⟩ := (ihr regs1 env1).1 c env2 hcv
          simp only [liftE] at h
          split at h <;> simp at h
          rename_i w hw
          obtain ⟨rfl, rfl⟩ := h
          have hn2 : regs2 n = a := by rw [hk2 n (by omega) (by omega), hv1]
          refine ⟨setReg regs2 dst w, (hs1.trans sem hs2).trans sem (Steps.one sem ?_), by simp, fun r hr hrd => ?_⟩
          · rw [step_at sem hlast]
            simp [exec1, hn2, hv2, hw, Nat.add_assoc]
          · rw [setReg_other _ _ hrd, hk2 r (by omega) (by omega), hk1 r (by omega) (by omega)]
        · simp at h
      · simp at h
    · simp only [evalE] at h
      split at h
      · rename_i a env1 ha
        obtain ⟨regs1, hs1, hv1, hk1⟩ := (ihl regs env).1 a env1 ha
        split at h
        · rename_i c env2 hcv
          obtain ⟨regs2, hs2, hv2, hk2⟩ := (ihr regs1 env1).1 c env2 hcv
          simp only [liftE] at h
          split at h <;> simp at h
          rename_i w hw
          obtain ⟨rfl, rfl⟩ := h
          have hn2 : regs2 n = a := by rw [hk2 n (by omega) (by omega), hv1]
          refine ⟨base + bl.length + br.length, regs2, hs1.trans sem hs2, ?_⟩
          rw [step_at sem hlast]
          simp [exec1, hn2, hv2, hw]
        · rename_i er1 env2 hcv
          simp only [Res.thrown.injEq] at h
          obtain ⟨rfl, rfl⟩ := h
          exact Throws.after sem hs1 ((ihr regs1 env1).2 _ _ hcv)
      · rename_i er1 env1 ha
        simp only [Res.thrown.injEq] at h
        obtain ⟨rfl, rfl⟩ := h
        exact (ihl regs env).2 _ _ ha
  | .log op l r, dst, n, base, body, hc, hd, C, emb => by
    simp only [codeE] at hc
    split at hc
    · simp at hc
    rename_i bl hbl
    split at hc
    · simp at hc
    rename_i br hbr
    simp only [Option.some.injEq] at hc
    subst hc
    have ihl := codeE_ok l dst n base bl hbl hd C emb.left
    have ihr := codeE_ok r dst n (base + bl.length + 1) br hbr hd C emb.right.tail
    have hj := emb.right.head
    have hlen : (bl ++ retarget (skipOp op dst) (base + bl.length + 1 + br.length) :: br).length = bl.length + 1 + br.length := by
      simp; omega
    intro regs env
    refine ⟨fun v env' h => ?_, fun er env' h => ?_⟩
    · simp only [evalE] at h
      split at h
      · rename_i a env1 ha
        obtain ⟨regs1, hs1, hv1, hk1⟩ := (ihl regs env).1 a env1 ha
        split at h
        · rename_i hsk
          simp only [Res.ok.injEq] at h
          obtain ⟨rfl, rfl⟩ := h
          refine ⟨regs1, hs1.trans sem (Steps.one sem ?_), hv1, hk1⟩
          rw [step_at sem hj, exec_skip, hv1, if_pos hsk, hlen]
          simp [Nat.add_assoc]
        · rename_i hsk
          obtain ⟨regs2, hs2, hv2, hk2⟩ := (ihr regs1 env1).1 v env' h
          refine ⟨regs2, hs1.trans sem (Steps.cons_at sem hj (by rw [exec_skip, hv1, if_neg hsk]) ?_), hv2,
            fun r hr hrd => by rw [hk2 r hr hrd, hk1 r hr hrd]⟩
          rw [hlen]
          simpa [Nat.add_assoc] using hs2
      · simp at h
    · simp only [evalE] at h
      split at h
      · rename_i a env1 ha
        obtain ⟨regs1, hs1, hv1, hk1⟩ := (ihl regs env).1 a env1 ha
        split at h
        · simp at h
        · rename_i hsk
          exact Throws.after sem (hs1.trans sem (Steps.one sem (by rw [step_at sem hj, exec_skip, hv1, if_neg hsk])))
            ((ihr regs1 env1).2 _ _ h)
      · rename_i er1 env1 ha
        simp only [Res.thrown.injEq] at h
        obtain ⟨rfl, rfl⟩ := h
        exact (ihl regs env).2 _ _ ha
  | .cond c t f, dst, n, base, body, hc, hd, C, emb => by
    simp only [codeE] at hc
    split at hc
    · simp at hc
    split at hc
    · simp at hc
    rename_i hn bc hbc
    split at hc
    · simp at hc
    rename_i bt hbt
    split at hc
    · simp at hc
    rename_i bf hbf
    simp only [Option.some.injEq] at hc
    subst hc
    have ihc := codeE_ok c n (n + 1) base bc hbc (by omega) C emb.left
    have iht := codeE_ok t dst n (base + bc.length + 1) bt hbt hd C emb.right.tail.left
    have ihf := codeE_ok f dst n (base + bc.length + 1 + bt.length + 1) bf hbf hd C emb.right.tail.right.tail
    have hjf := emb.right.head
    have hj := emb.right.tail.right.head
    have hlen : (bc ++ Op.jumpIfFalse n (base + bc.length + 1 + bt.length + 1) ::
        (bt ++ Op.jump (base + bc.length + 1 + bt.length + 1 + bf.length) :: bf)).length
        = bc.length + 1 + bt.length + 1 + bf.length := by
      simp; omega
    intro regs env
    refine ⟨fun v env' h => ?_, fun er env' h => ?_⟩
    · simp only [evalE] at h
      split at h
      · rename_i a env1 ha
        obtain ⟨regs1, hs1, hv1, hk1⟩ := (ihc regs env).1 a env1 ha
        split at h
        · rename_i htr
          obtain ⟨regs2, hs2, hv2, hk2⟩ := (iht regs1 env1).1 v env' h
          refine ⟨regs2, hs1.trans sem (Steps.cons_at sem hjf (by simp [exec1, hv1, htr])
            (hs2.trans sem (Steps.one sem ?_))), hv2, fun r hr hrd => by rw [hk2 r hr hrd, hk1 r (by omega) (by omega)]⟩
          rw [step_at sem hj, hlen]
          simp [exec1, Nat.add_assoc]
        · rename_i htr
          obtain ⟨regs2, hs2, hv2, hk2⟩ := (ihf regs1 env1).1 v env' h
          refine ⟨regs2, hs1.trans sem (Steps.cons_at sem hjf
            (s' := ⟨base + bc.length + 1 + bt.length + 1, regs1, env1⟩) (by simp [exec1, hv1, htr]) ?_), hv2,
            fun r hr hrd => by rw [hk2 r hr hrd, hk1 r (by omega) (by omega)]⟩
          rw [hlen]
          simpa [Nat.add_assoc] using hs2
      · simp at h
    · simp only [evalE] at h
      split at h
      · rename_i a env1 ha
        obtain ⟨regs1, hs1, hv1, hk1⟩ := (ihc regs env).1 a env1 ha
        split at h
        · rename_i htr
          exact Throws.after sem (hs1.trans sem (Steps.one sem (by rw [step_at sem hjf]; simp [exec1, hv1, htr])))
            ((iht regs1 env1).2 _ _ h)
        · rename_i htr
          exact Throws.after sem (hs1.trans sem (Steps.one sem (by rw [step_at sem hjf]; simp [exec1, hv1, htr])))
            ((ihf regs1 env1).2 _ _ h)
      · rename_i er1 env1 ha
        simp only [Res.thrown.injEq] at h
        obtain ⟨rfl, rfl⟩ := h
        exact (ihc regs env).2 _ _ ha
  | .seq a c, dst, n, base, body, hc, hd, C, emb => by
    simp only [codeE] at hc
    split at hc
    · simp at hc
    split at hc
    · simp at hc
    rename_i hn ba hba
    split at hc
    · simp at hc
    rename_i bc hbc
    simp only [Option.some.injEq] at hc
    subst hc
    have iha := codeE_ok a n (n + 1) base ba hba (by omega) C emb.left
    have ihc := codeE_ok c dst n (base + ba.length) bc hbc hd C emb.right
    intro regs env
    refine ⟨fun v env' h => ?_, fun er env' h => ?_⟩
    · simp only [evalE] at h
      split at h
      · rename_i a' env1 ha
        obtain ⟨regs1, hs1, hv1, hk1⟩ := (iha regs env).1 a' env1 ha
        obtain ⟨regs2, hs2, hv2, hk2⟩ := (ihc regs1 env1).1 v env' h
        refine ⟨regs2, hs1.trans sem ?_, hv2, fun r hr hrd => by rw [hk2 r hr hrd, hk1 r (by omega) (by omega)]⟩
        simpa [Nat.add_assoc] using hs2
      · simp at h
    · simp only [evalE] at h
      split at h
      · rename_i a' env1 ha
        obtain ⟨regs1, hs1, hv1, hk1⟩ := (iha regs env).1 a' env1 ha
        exact Throws.after sem hs1 ((ihc regs1 env1).2 _ _ h)
      · rename_i er1 env1 ha
        simp only [Res.thrown.injEq] at h
        obtain ⟨rfl, rfl⟩ := h
        exact (iha regs env).2 _ _ ha
  | .asg x .assign e, dst, n, base, body, hc, hd, C, emb => by
    simp only [codeE] at hc
    split at hc
    · simp at hc
    rename_i be hbe
    simp only [Option.some.injEq] at hc
    subst hc
    have ihe := codeE_ok e dst n base be hbe hd C emb.left
    have hlast := emb.right.head
    intro regs env
    refine ⟨fun v env' h => ?_, fun er env' h => ?_⟩
    · simp only [evalE] at h
      split at h
      · rename_i a env1 ha
        obtain ⟨regs1, hs1, hv1, hk1⟩ := (ihe regs env).1 a env1 ha
        simp only [setVar] at h
        split at h <;> simp at h
        rename_i env2 hset
        obtain ⟨rfl, rfl⟩ := h
        refine ⟨regs1, hs1.trans sem (Steps.one sem ?_), hv1, hk1⟩
        rw [step_at sem hlast]
        simp [exec1, hv1, hset, Nat.add_assoc]
      · simp at h
    · simp only [evalE] at h
      split at h
      · rename_i a env1 ha
        obtain ⟨regs1, hs1, hv1, hk1⟩ := (ihe regs env).1 a env1 ha
        simp only [setVar] at h
        split at h <;> simp at h
        rename_i hset
        obtain ⟨rfl, rfl⟩ := h
        refine ⟨base + be.length, regs1, hs1, ?_⟩
        rw [step_at sem hlast]
        simp [exec1, hv1, hset]
      · rename_i er1 env1 ha
        simp only [Res.thrown.injEq] at h
        obtain ⟨rfl, rfl⟩ := h
        exact (ihe regs env).2 _ _ ha
  | .asg x .andA e, dst, n, base, body, hc, hd, C, emb => by
    simp only [codeE] at hc
    split at hc
    · simp at hc
    rename_i be hbe
    simp only [Option.some.injEq] at hc
    subst hc
    have ihe := codeE_ok e dst n (base + 2) be hbe hd C (by simpa [Nat.add_assoc] using emb.tail.tail.left)
    have hset : C[base + 2 + be.length]? = some (.setVar x dst) := by
      have := emb.tail.tail.right.head
      simpa [Nat.add_assoc] using this
    intro regs env
    have := asgLog_ok sem .and x e dst n base be C ihe emb.head emb.tail.head hset regs env
    have hl : (Op.getVar dst x :: Op.jumpIfFalse dst (base + 2 + be.length) :: (be ++ [Op.setVar x dst])).length = be.length + 3 := by
      simp
    rw [hl]
    simp only [evalE]
    exact this
  | .asg x .orA e, dst, n, base, body, hc, hd, C, emb => by
    simp only [codeE] at hc
    split at hc
    · simp at hc
    rename_i be hbe
    simp only [Option.some.injEq] at hc
    subst hc
    have ihe := codeE_ok e dst n (base + 2) be hbe hd C (by simpa [Nat.add_assoc] using emb.tail.tail.left)
    have hset : C[base + 2 + be.length]? = some (.setVar x dst) := by
      have := emb.tail.tail.right.head
      simpa [Nat.add_assoc] using this
    intro regs env
    have := asgLog_ok sem .or x e dst n base be C ihe emb.head emb.tail.head hset regs env
    have hl : (Op.getVar dst x :: Op.jumpIfTrue dst (base + 2 + be.length) :: (be ++ [Op.setVar x dst])).length = be.length + 3 := by
      simp
    rw [hl]
    simp only [evalE]
    exact this
  | .asg x .nullishA e, dst, n, base, body, hc, hd, C, emb => by
    simp only [codeE] at hc
    split at hc
    · simp at hc
    rename_i be hbe
    simp only [Option.some.injEq] at hc
    subst hc
    have ihe := codeE_ok e dst n (base + 2) be hbe hd C (by simpa [Nat.add_assoc] using emb.tail.tail.left)
    have hset : C[base + 2 + be.length]? = some (.setVar x dst) := by
      have := emb.tail.tail.right.head
      simpa [Nat.add_assoc] using this
    intro regs env
    have := asgLog_ok sem .nullish x e dst n base be C ihe emb.head emb.tail.head hset regs env
    have hl : (Op.getVar dst x :: Op.jumpIfNotNullish dst (base + 2 + be.length) :: (be ++ [Op.setVar x dst])).length = be.length + 3 := by
      simp
    rw [hl]
    simp only [evalE]
    exact this
  | .asg x (.bin op) e, dst, n, base, body, hc, hd, C, emb => by
    simp only [codeE] at hc
    split at hc
    · simp at hc
    split at hc
    · simp at hc
    rename_i hn be hbe
    simp only [Option.some.injEq] at hc
    subst hc
    have ihe := codeE_ok e n (n + 1) (base + 1) be hbe (by omega) C emb.tail.left
    have hget := emb.head
    have hbin : C[base + 1 + be.length]? = some (.bin op dst dst n) := emb.tail.right.head
    have hset : C[base + 1 + be.length + 1]? = some (.setVar x dst) := emb.tail.right.tail.head
    have hl : (Op.getVar dst x :: (be ++ [Op.bin op dst dst n, Op.setVar x dst])).length = be.length + 3 := by simp
    rw [hl]
    intro regs env
    refine ⟨fun v env' h => ?_, fun er env' h => ?_⟩
    · simp only [evalE] at h
      split at h
      · rename_i a env0 ha
        obtain ⟨hga, rfl⟩ := getVar_ok sem ha
        have s0 : Steps sem C ⟨base, regs, env0⟩ ⟨base + 1, setReg regs dst a, env0⟩ :=
          Steps.one sem (by rw [step_at sem hget]; simp [exec1, hga])
        split at h
        · rename_i c env2 hcv
          obtain ⟨regs1, hs1, hv1, hk1⟩ := (ihe (setReg regs dst a) env0).1 c env2 hcv
          have hd1 : regs1 dst = a := by rw [hk1 dst (by omega) (by omega)]; simp
          split at h
          · rename_i w hw
            obtain ⟨hs, hwv⟩ := setVar_ok sem h
            refine ⟨setReg regs1 dst w, (s0.trans sem hs1).trans sem (Steps.cons_at sem hbin
              (s' := ⟨base + 1 + be.length + 1, setReg regs1 dst w, env2⟩) (by simp [exec1, hd1, hv1, hw])
              (Steps.one sem ?_)), by simp [hwv], fun r hr hrd => ?_⟩
            · rw [step_at sem hset]
              simp [exec1, hs]
              omega
            · rw [setReg_other _ _ hrd, hk1 r (by omega) (by omega), setReg_other _ _ hrd]
          · simp at h
        · simp at h
      · simp at h
    · simp only [evalE] at h
      split at h
      · rename_i a env0 ha
        obtain ⟨hga, rfl⟩ := getVar_ok sem ha
        have s0 : Steps sem C ⟨base, regs, env0⟩ ⟨base + 1, setReg regs dst a, env0⟩ :=
          Steps.one sem (by rw [step_at sem hget]; simp [exec1, hga])
        split at h
        · rename_i c env2 hcv
          obtain ⟨regs1, hs1, hv1, hk1⟩ := (ihe (setReg regs dst a) env0).1 c env2 hcv
          have hd1 : regs1 dst = a := by rw [hk1 dst (by omega) (by omega)]; simp
          split at h
          · rename_i w hw
            obtain ⟨hs, rfl, rfl⟩ := setVar_thrown sem h
            refine ⟨base + 1 + be.length + 1, setReg regs1 dst w, (s0.trans sem hs1).trans sem
              (Steps.one sem (by rw [step_at sem hbin]; simp [exec1, hd1, hv1, hw])), ?_⟩
            rw [step_at sem hset]
            simp [exec1, hs]
          · rename_i er1 hw
            simp only [Res.thrown.injEq] at h
            obtain ⟨rfl, rfl⟩ := h
            refine ⟨base + 1 + be.length, regs1, s0.trans sem hs1, ?_⟩
            rw [step_at sem hbin]
            simp [exec1, hd1, hv1, hw]
        · rename_i er1 env2 hcv
          simp only [Res.thrown.injEq] at h
          obtain ⟨rfl, rfl⟩ := h
          exact Throws.after sem s0 ((ihe _ _).2 _ _ hcv)
      · rename_i er1 env0 ha
        obtain ⟨hga, rfl, rfl⟩ := getVar_thrown sem ha
        simp only [Res.thrown.injEq] at h
        obtain ⟨rfl, rfl⟩ := h
        refine ⟨base, regs, .refl _, ?_⟩
        rw [step_at sem hget]
        simp [exec1, hga]
  | .upd x inc false, dst, n, base, body, hc, hd, C, emb => by
    simp only [codeE] at hc
    split at hc
    · simp at hc
    split at hc
    · simp at hc
    simp only [Option.some.injEq] at hc
    subst hc
    have h0 := emb.head
    have h1 := emb.tail.head
    have h2 := emb.tail.tail.head
    have h3 := emb.tail.tail.tail.head
    have h4 := emb.tail.tail.tail.tail.head
    have h5 := emb.tail.tail.tail.tail.tail.head
    have h6 := emb.tail.tail.tail.tail.tail.tail.head
    have hnd : n ≠ dst := by omega
    have hnd1 : n + 1 ≠ dst := by omega
    intro regs env
    refine ⟨fun v env' h => ?_, fun er env' h => ?_⟩
    · simp only [evalE] at h
      split at h
      · rename_i a env0 ha
        obtain ⟨hga, rfl⟩ := getVar_ok sem ha
        split at h
        · rename_i nn hnn
          split at h
          · rename_i w hw
            split at h
            · rename_i u env1 hsv
              obtain ⟨hs, _⟩ := setVar_ok sem hsv
              simp only [Res.ok.injEq, Bool.false_eq_true, if_false] at h
              obtain ⟨rfl, rfl⟩ := h
              refine ⟨setReg (setReg (setReg (setReg (setReg (setReg regs dst a) dst nn) n nn) (n + 1) (sem.lit (.num 1))) dst w) dst nn,
                ?_, by simp, fun r hr hrd => ?_⟩
              · refine Steps.cons_at sem h0 (s' := ⟨base + 1, setReg regs dst a, env0⟩) (by simp [exec1, hga]) ?_
                refine Steps.cons_at sem h1 (s' := ⟨base + 1 + 1, setReg (setReg regs dst a) dst nn, env0⟩) (by simp [exec1, hnn]) ?_
                refine Steps.cons_at sem h2 (s' := ⟨base + 1 + 1 + 1, setReg (setReg (setReg regs dst a) dst nn) n nn, env0⟩) (by simp [exec1]) ?_
                refine Steps.cons_at sem h3 (s' := ⟨base + 1 + 1 + 1 + 1,
                  setReg (setReg (setReg (setReg regs dst a) dst nn) n nn) (n + 1) (sem.lit (.num 1)), env0⟩) (by simp [exec1]) ?_
                refine Steps.cons_at sem h4 (s' := ⟨base + 1 + 1 + 1 + 1 + 1,
                  setReg (setReg (setReg (setReg (setReg regs dst a) dst nn) n nn) (n + 1) (sem.lit (.num 1))) dst w, env0⟩)
                  (by simp [exec1, setReg, hnd, hnd1, Ne.symm hnd, Ne.symm hnd1, hw]) ?_
                refine Steps.cons_at sem h5 (s' := ⟨base + 1 + 1 + 1 + 1 + 1 + 1,
                  setReg (setReg (setReg (setReg (setReg regs dst a) dst nn) n nn) (n + 1) (sem.lit (.num 1))) dst w, env1⟩)
                  (by simp [exec1, hs]) ?_
                refine Steps.one sem ?_
                rw [step_at sem h6]
                simp [exec1, setReg, hnd, hnd1]
              · simp [setReg, hrd, Nat.ne_of_lt hr, Nat.ne_of_lt (Nat.lt_succ_of_lt hr)]
            · simp at h
          · simp at h
        · simp at h
      · simp at h
    · simp only [evalE] at h
      split at h
      · rename_i a env0 ha
        obtain ⟨hga, rfl⟩ := getVar_ok sem ha
        have s1 : Steps sem C ⟨base, regs, env0⟩ ⟨base + 1, setReg regs dst a, env0⟩ :=
          Steps.one sem (by rw [step_at sem h0]; simp [exec1, hga])
        split at h
        · rename_i nn hnn
          have s4 : Steps sem C ⟨base, regs, env0⟩ ⟨base + 1 + 1 + 1 + 1,
              setReg (setReg (setReg (setReg regs dst a) dst nn) n nn) (n + 1) (sem.lit (.num 1)), env0⟩ := by
            refine s1.trans sem ?_
            refine Steps.cons_at sem h1 (s' := ⟨base + 1 + 1, setReg (setReg regs dst a) dst nn, env0⟩) (by simp [exec1, hnn]) ?_
            refine Steps.cons_at sem h2 (s' := ⟨base + 1 + 1 + 1, setReg (setReg (setReg regs dst a) dst nn) n nn, env0⟩) (by simp [exec1]) ?_
            exact Steps.one sem (by rw [step_at sem h3]; simp [exec1])
          split at h
          · rename_i w hw
            split at h
            · simp at h
            · rename_i er1 env1 hsv
              obtain ⟨hs, rfl, rfl⟩ := setVar_thrown sem hsv
              simp only [Res.thrown.injEq] at h
              obtain ⟨rfl, rfl⟩ := h
              refine ⟨base + 1 + 1 + 1 + 1 + 1, setReg (setReg (setReg (setReg (setReg regs dst a) dst nn) n nn) (n + 1) (sem.lit (.num 1))) dst w,
                s4.trans sem (Steps.one sem ?_), ?_⟩
              · rw [step_at sem h4]
                simp [exec1, setReg, hnd, hnd1, Ne.symm hnd, Ne.symm hnd1, hw]
              · rw [step_at sem h5]
                simp [exec1, hs]
          · rename_i er1 hw
            simp only [Res.thrown.injEq] at h
            obtain ⟨rfl, rfl⟩ := h
            refine ⟨_, _, s4, ?_⟩
            rw [step_at sem h4]
            simp [exec1, setReg, hnd, hnd1, Ne.symm hnd, Ne.symm hnd1, hw]
        · rename_i er1 hnn
          simp only [Res.thrown.injEq] at h
          obtain ⟨rfl, rfl⟩ := h
          refine ⟨_, _, s1, ?_⟩
          rw [step_at sem h1]
          simp [exec1, hnn]
      · rename_i er1 env0 ha
        obtain ⟨hga, rfl, rfl⟩ := getVar_thrown sem ha
        simp only [Res.thrown.injEq] at h
        obtain ⟨rfl, rfl⟩ := h
        refine ⟨base, regs, .refl _, ?_⟩
        rw [step_at sem h0]
        simp [exec1, hga]
  | .upd x inc true, dst, n, base, body, hc, hd, C, emb => by
    simp only [codeE] at hc
    split at hc
    · simp at hc
    simp only [Option.some.injEq] at hc
    subst hc
    have h0 := emb.head
    have h1 := emb.tail.head
    have h2 := emb.tail.tail.head
    have h3 := emb.tail.tail.tail.head
    have h4 := emb.tail.tail.tail.tail.head
    have hnd : n ≠ dst := by omega
    intro regs env
    refine ⟨fun v env' h => ?_, fun er env' h => ?_⟩
    · simp only [evalE] at h
      split at h
      · rename_i a env0 ha
        obtain ⟨hga, rfl⟩ := getVar_ok sem ha
        split at h
        · rename_i nn hnn
          split at h
          · rename_i w hw
            split at h
            · rename_i u env1 hsv
              obtain ⟨hs, _⟩ := setVar_ok sem hsv
              simp only [Res.ok.injEq, if_true] at h
              obtain ⟨rfl, rfl⟩ := h
              refine ⟨setReg (setReg (setReg (setReg regs dst a) dst nn) n (sem.lit (.num 1))) dst w,
                ?_, by simp, fun r hr hrd => ?_⟩
              · refine Steps.cons_at sem h0 (s' := ⟨base + 1, setReg regs dst a, env0⟩) (by simp [exec1, hga]) ?_
                refine Steps.cons_at sem h1 (s' := ⟨base + 1 + 1, setReg (setReg regs dst a) dst nn, env0⟩) (by simp [exec1, hnn]) ?_
                refine Steps.cons_at sem h2 (s' := ⟨base + 1 + 1 + 1, setReg (setReg (setReg regs dst a) dst nn) n (sem.lit (.num 1)), env0⟩) (by simp [exec1]) ?_
                refine Steps.cons_at sem h3 (s' := ⟨base + 1 + 1 + 1 + 1,
                  setReg (setReg (setReg (setReg regs dst a) dst nn) n (sem.lit (.num 1))) dst w, env0⟩)
                  (by simp [exec1, setReg, hnd, Ne.symm hnd, hw]) ?_
                refine Steps.one sem ?_
                rw [step_at sem h4]
                simp [exec1, hs]
              · simp [setReg, hrd, Nat.ne_of_lt hr]
            · simp at h
          · simp at h
        · simp at h
      · simp at h
    · simp only [evalE] at h
      split at h
      · rename_i a env0 ha
        obtain ⟨hga, rfl⟩ := getVar_ok sem ha
        have s1 : Steps sem C ⟨base, regs, env0⟩ ⟨base + 1, setReg regs dst a, env0⟩ :=
          Steps.one sem (by rw [step_at sem h0]; simp [exec1, hga])
        split at h
        · rename_i nn hnn
          have s3 : Steps sem C ⟨base, regs, env0⟩ ⟨base + 1 + 1 + 1,
              setReg (setReg (setReg regs dst a) dst nn) n (sem.lit (.num 1)), env0⟩ := by
            refine s1.trans sem ?_
            refine Steps.cons_at sem h1 (s' := ⟨base + 1 + 1, setReg (setReg regs dst a) dst nn, env0⟩) (by simp [exec1, hnn]) ?_
            exact Steps.one sem (by rw [step_at sem h2]; simp [exec1])
          split at h
          · rename_i w hw
            split at h
            · simp at h
            · rename_i er1 env1 hsv
              obtain ⟨hs, rfl, rfl⟩ := setVar_thrown sem hsv
              simp only [Res.thrown.injEq] at h
              obtain ⟨rfl, rfl⟩ := h
              refine ⟨base + 1 + 1 + 1 + 1, setReg (setReg (setReg (setReg regs dst a) dst nn) n (sem.lit (.num 1))) dst w,
                s3.trans sem (Steps.one sem ?_), ?_⟩
              · rw [step_at sem h3]
                simp [exec1, setReg, hnd, Ne.symm hnd, hw]
              · rw [step_at sem h4]
                simp [exec1, hs]
          · rename_i er1 hw
            simp only [Res.thrown.injEq] at h
            obtain ⟨rfl, rfl⟩ := h
            refine ⟨_, _, s3, ?_⟩
            rw [step_at sem h3]
            simp [exec1, setReg, hnd, Ne.symm hnd, hw]
        · rename_i er1 hnn
          simp only [Res.thrown.injEq] at h
          obtain ⟨rfl, rfl⟩ := h
          refine ⟨_, _, s1, ?_⟩
          rw [step_at sem h1]
          simp [exec1, hnn]
      · rename_i er1 env0 ha
        obtain ⟨hga, rfl, rfl⟩ := getVar_thrown sem ha
        simp only [Res.thrown.injEq] at h
        obtain ⟨rfl, rfl⟩ := h
        refine ⟨base, regs, .refl _, ?_⟩
        rw [step_at sem h0]
        simp [exec1, hga]

/-- the VM reaches the end of the statement's code, the registers below `n` intact -/
def DoneS (C : List Op) (base len : Nat) (n : Nat) (regs : Reg → V) (env env' : Env V) : Prop :=
  ∃ regs', Steps sem C ⟨base, regs, env⟩ ⟨base + len, regs', env'⟩ ∧ ∀ r, r < n → regs' r = regs r

mutual
theorem codeS_ok : ∀ (fuel : Nat) (s : Stmt) (n base : Nat) (body : List Op), codeS s n base = some body →
    ∀ C, Embeds C base body → ∀ (regs : Reg → V) (env : Env V),
    (∀ u env', evalS sem fuel s env = some (.ok u env') → DoneS sem C base body.length n regs env env') ∧
    (∀ er env', evalS sem fuel s env = some (.thrown er env') → Throws sem C base regs env er env')
  | fuel, .expr e, n, base, body, hc, C, emb, regs, env => by
    simp only [codeS] at hc
    split at hc
    · simp at hc
    have ih := codeE_ok sem e n (n + 1) base body hc (by omega) C emb regs env
    refine ⟨fun u env' h => ?_, fun er env' h => ?_⟩
    · simp only [evalS] at h
      split at h <;> simp at h
      rename_i a env1 ha
      subst h
      obtain ⟨regs1, hs1, _, hk1⟩ := ih.1 a env1 ha
      exact ⟨regs1, hs1, fun r hr => hk1 r (by omega) (by omega)⟩
    · simp only [evalS] at h
      split at h <;> simp at h
      rename_i er1 env1 ha
      obtain ⟨rfl, rfl⟩ := h
      exact ih.2 _ _ ha
  | fuel, .empty, n, base, body, hc, C, emb, regs, env => by
    simp only [codeS, Option.some.injEq] at hc
    subst hc
    refine ⟨fun u env' h => ?_, fun er env' h => ?_⟩
    · simp only [evalS, Option.some.injEq, Res.ok.injEq] at h
      obtain ⟨_, rfl⟩ := h
      exact ⟨regs, .refl _, fun _ _ => rfl⟩
    · simp [evalS] at h
  | fuel, .ite c t none, n, base, body, hc, C, emb, regs, env => by
    simp only [codeS] at hc
    split at hc
    · simp at hc
    split at hc
    · simp at hc
    rename_i hn bc hbc
    split at hc
    · simp at hc
    rename_i bt hbt
    simp only [Option.some.injEq] at hc
    subst hc
    have ihc := codeE_ok sem c n (n + 1) base bc hbc (by omega) C emb.left regs env
    have hjf := emb.right.head
    have hlen : (bc ++ Op.jumpIfFalse n (base + bc.length + 1 + bt.length) :: bt).length = bc.length + 1 + bt.length := by
      simp; omega
    rw [hlen]
    refine ⟨fun u env' h => ?_, fun er env' h => ?_⟩
    · simp only [evalS] at h
      split at h
      · rename_i a env1 ha
        obtain ⟨regs1, hs1, hv1, hk1⟩ := ihc.1 a env1 ha
        split at h
        · rename_i htr
          obtain ⟨regs2, hs2, hk2⟩ := (codeS_ok fuel t n (base + bc.length + 1) bt hbt C emb.right.tail regs1 env1).1 u env' h
          refine ⟨regs2, hs1.trans sem (Steps.cons_at sem hjf (s' := ⟨base + bc.length + 1, regs1, env1⟩)
            (by simp [exec1, hv1, htr]) ?_), fun r hr => by rw [hk2 r hr, hk1 r (by omega) (by omega)]⟩
          simpa [Nat.add_assoc] using hs2
        · rename_i htr
          simp only [Option.some.injEq, Res.ok.injEq] at h
          obtain ⟨_, rfl⟩ := h
          refine ⟨regs1, hs1.trans sem (Steps.one sem ?_), fun r hr => hk1 r (by omega) (by omega)⟩
          rw [step_at sem hjf]
          simp [exec1, hv1, htr, Nat.add_assoc]
      · simp at h
    · simp only [evalS] at h
      split at h
      · rename_i a env1 ha
        obtain ⟨regs1, hs1, hv1, hk1⟩ := ihc.1 a env1 ha
        split at h
        · rename_i htr
          exact Throws.after sem (hs1.trans sem (Steps.one sem (by rw [step_at sem hjf]; simp [exec1, hv1, htr])))
            ((codeS_ok fuel t n (base + bc.length + 1) bt hbt C emb.right.tail regs1 env1).2 _ _ h)
        · simp at h
      · rename_i er1 env1 ha
        simp only [Option.some.injEq, Res.thrown.injEq] at h
        obtain ⟨rfl, rfl⟩ := h
        exact ihc.2 _ _ ha
  | fuel, .ite c t (some f), n, base, body, hc, C, emb, regs, env => by
    simp only [codeS] at hc
    split at hc
    · simp at hc
    split at hc
    · simp at hc
    rename_i hn bc hbc
    split at hc
    · simp at hc
    rename_i bt hbt
    split at hc
    · simp at hc
    rename_i bf hbf
    simp only [Option.some.injEq] at hc
    subst hc
    have ihc := codeE_ok sem c n (n + 1) base bc hbc (by omega) C emb.left regs env
    have hjf := emb.right.head
    have hj := emb.right.tail.right.head
    have hlen : (bc ++ Op.jumpIfFalse n (base + bc.length + 1 + bt.length + 1) ::
        (bt ++ Op.jump (base + bc.length + 1 + bt.length + 1 + bf.length) :: bf)).length
        = bc.length + 1 + bt.length + 1 + bf.length := by
      simp; omega
    rw [hlen]
    refine ⟨fun u env' h => ?_, fun er env' h => ?_⟩
    · simp only [evalS] at h
      split at h
      · rename_i a env1 ha
        obtain ⟨regs1, hs1, hv1, hk1⟩ := ihc.1 a env1 ha
        split at h
        · rename_i htr
          obtain ⟨regs2, hs2, hk2⟩ := (codeS_ok fuel t n (base + bc.length + 1) bt hbt C emb.right.tail.left regs1 env1).1 u env' h
          refine ⟨regs2, hs1.trans sem (Steps.cons_at sem hjf (s' := ⟨base + bc.length + 1, regs1, env1⟩)
            (by simp [exec1, hv1, htr]) (hs2.trans sem (Steps.one sem ?_))),
            fun r hr => by rw [hk2 r hr, hk1 r (by omega) (by omega)]⟩
          rw [step_at sem hj]
          simp [exec1, Nat.add_assoc]
        · rename_i htr
          obtain ⟨regs2, hs2, hk2⟩ := (codeS_ok fuel f n (base + bc.length + 1 + bt.length + 1) bf hbf C
            emb.right.tail.right.tail regs1 env1).1 u env' h
          refine ⟨regs2, hs1.trans sem (Steps.cons_at sem hjf (s' := ⟨base + bc.length + 1 + bt.length + 1, regs1, env1⟩)
            (by simp [exec1, hv1, htr]) ?_), fun r hr => by rw [hk2 r hr, hk1 r (by omega) (by omega)]⟩
          simpa [Nat.add_assoc] using hs2
      · simp at h
    · simp only [evalS] at h
      split at h
      · rename_i a env1 ha
        obtain ⟨regs1, hs1, hv1, hk1⟩ := ihc.1 a env1 ha
        split at h
        · rename_i htr
          exact Throws.after sem (hs1.trans sem (Steps.one sem (by rw [step_at sem hjf]; simp [exec1, hv1, htr])))
            ((codeS_ok fuel t n (base + bc.length + 1) bt hbt C emb.right.tail.left regs1 env1).2 _ _ h)
        · rename_i htr
          exact Throws.after sem (hs1.trans sem (Steps.one sem (by rw [step_at sem hjf]; simp [exec1, hv1, htr])))
            ((codeS_ok fuel f n (base + bc.length + 1 + bt.length + 1) bf hbf C emb.right.tail.right.tail regs1 env1).2 _ _ h)
      · rename_i er1 env1 ha
        simp only [Option.some.injEq, Res.thrown.injEq] at h
        obtain ⟨rfl, rfl⟩ := h
        exact ihc.2 _ _ ha
  | fuel, .block ss, n, base, body, hc, C, emb, regs, env => by
    simp only [codeS] at hc
    split at hc
    · simp at hc
    rename_i bs hbs
    simp only [Option.some.injEq] at hc
    subst hc
    have ih := codeL_ok fuel ss n (base + 1) bs hbs C emb.tail.left regs env
    have hpush := emb.head
    have hpop : C[base + 1 + bs.length]? = some .popScope := emb.tail.right.head
    have hlen : (Op.pushScope :: (bs ++ [Op.popScope])).length = 1 + bs.length + 1 := by simp; omega
    rw [hlen]
    have s0 : Steps sem C ⟨base, regs, env⟩ ⟨base + 1, regs, env⟩ :=
      Steps.one sem (by rw [step_at sem hpush]; simp [exec1])
    refine ⟨fun u env' h => ?_, fun er env' h => ?_⟩
    · simp only [evalS] at h
      obtain ⟨regs1, hs1, hk1⟩ := ih.1 u env' h
      refine ⟨regs1, s0.trans sem (hs1.trans sem (Steps.one sem ?_)), hk1⟩
      rw [step_at sem hpop]
      simp [exec1, Nat.add_assoc]
    · simp only [evalS] at h
      exact Throws.after sem s0 (ih.2 _ _ h)
  | 0, .while_ c b, n, base, body, hc, C, emb, regs, env => by
    refine ⟨fun u env' h => ?_, fun er env' h => ?_⟩ <;> simp [evalS] at h
  | fuel + 1, .while_ c b, n, base, body, hc, C, emb, regs, env => by
    have hc0 := hc
    simp only [codeS] at hc
    split at hc
    · simp at hc
    split at hc
    · simp at hc
    rename_i hn bc hbc
    split at hc
    · simp at hc
    rename_i bb hbb
    simp only [Option.some.injEq] at hc
    subst hc
    have ihc := codeE_ok sem c n (n + 1) base bc hbc (by omega) C emb.left regs env
    have hjf := emb.right.head
    have hj : C[base + bc.length + 1 + bb.length]? = some (.jump base) := emb.right.tail.right.head
    have hlen : (bc ++ Op.jumpIfFalse n (base + bc.length + 1 + bb.length + 1) :: (bb ++ [Op.jump base])).length
        = bc.length + 1 + bb.length + 1 := by
      simp; omega
    refine ⟨fun u env' h => ?_, fun er env' h => ?_⟩
    · simp only [evalS] at h
      split at h
      · rename_i a env1 ha
        obtain ⟨regs1, hs1, hv1, hk1⟩ := ihc.1 a env1 ha
        split at h
        · rename_i htr
          split at h
          · rename_i u1 env2 hb
            obtain ⟨regs2, hs2, hk2⟩ := (codeS_ok fuel b n (base + bc.length + 1) bb hbb C emb.right.tail.left regs1 env1).1 u1 env2 hb
            obtain ⟨regs3, hs3, hk3⟩ := (codeS_ok fuel (.while_ c b) n base _ hc0 C emb regs2 env2).1 u env' h
            refine ⟨regs3, hs1.trans sem (Steps.cons_at sem hjf (s' := ⟨base + bc.length + 1, regs1, env1⟩)
              (by simp [exec1, hv1, htr]) (hs2.trans sem (Steps.cons_at sem hj (s' := ⟨base, regs2, env2⟩)
              (by simp [exec1]) hs3))), fun r hr => by rw [hk3 r hr, hk2 r hr, hk1 r (by omega) (by omega)]⟩
          · rename_i hne
            exact absurd h (by intro h'; exact hne _ _ h')
        · rename_i htr
          simp only [Option.some.injEq, Res.ok.injEq] at h
          obtain ⟨_, rfl⟩ := h
          refine ⟨regs1, hs1.trans sem (Steps.one sem ?_), fun r hr => hk1 r (by omega) (by omega)⟩
          rw [step_at sem hjf, hlen]
          simp [exec1, hv1, htr, Nat.add_assoc]
      · simp at h
    · simp only [evalS] at h
      split at h
      · rename_i a env1 ha
        obtain ⟨regs1, hs1, hv1, hk1⟩ := ihc.1 a env1 ha
        split at h
        · rename_i htr
          have s1 : Steps sem C ⟨base, regs, env⟩ ⟨base + bc.length + 1, regs1, env1⟩ :=
            hs1.trans sem (Steps.one sem (by rw [step_at sem hjf]; simp [exec1, hv1, htr]))
          split at h
          · rename_i u1 env2 hb
            obtain ⟨regs2, hs2, hk2⟩ := (codeS_ok fuel b n (base + bc.length + 1) bb hbb C emb.right.tail.left regs1 env1).1 u1 env2 hb
            exact Throws.after sem (s1.trans sem (hs2.trans sem (Steps.one sem (a := ⟨base + bc.length + 1 + bb.length, regs2, env2⟩) (b := ⟨base, regs2, env2⟩)
              (by rw [step_at sem hj]; simp [exec1]))))
              ((codeS_ok fuel (.while_ c b) n base _ hc0 C emb regs2 env2).2 _ _ h)
          · exact Throws.after sem s1 ((codeS_ok fuel b n (base + bc.length + 1) bb hbb C emb.right.tail.left regs1 env1).2 _ _ h)
        · simp at h
      · rename_i er1 env1 ha
        simp only [Option.some.injEq, Res.thrown.injEq] at h
        obtain ⟨rfl, rfl⟩ := h
        exact ihc.2 _ _ ha
  | 0, .doWhile b c, n, base, body, hc, C, emb, regs, env => by
    refine ⟨fun u env' h => ?_, fun er env' h => ?_⟩ <;> simp [evalS] at h
  | fuel + 1, .doWhile b c, n, base, body, hc, C, emb, regs, env => by
    have hc0 := hc
    simp only [codeS] at hc
    split at hc
    · simp at hc
    rename_i bb hbb
    split at hc
    · simp at hc
    split at hc
    · simp at hc
    rename_i hn bc hbc
    simp only [Option.some.injEq] at hc
    subst hc
    have ihb := codeS_ok fuel b n base bb hbb C emb.left.left regs env
    have hjt : C[base + bb.length + bc.length]? = some (.jumpIfTrue n base) := by
      have := emb.right.head
      simpa [Nat.add_assoc] using this
    have hlen : (bb ++ bc ++ [Op.jumpIfTrue n base]).length = bb.length + bc.length + 1 := by simp; omega
    refine ⟨fun u env' h => ?_, fun er env' h => ?_⟩
    · simp only [evalS] at h
      split at h
      · rename_i u1 env1 hb
        obtain ⟨regs1, hs1, hk1⟩ := ihb.1 u1 env1 hb
        have ihc := codeE_ok sem c n (n + 1) (base + bb.length) bc hbc (by omega) C emb.left.right regs1 env1
        split at h
        · rename_i a env2 ha
          obtain ⟨regs2, hs2, hv2, hk2⟩ := ihc.1 a env2 ha
          split at h
          · rename_i htr
            obtain ⟨regs3, hs3, hk3⟩ := (codeS_ok fuel (.doWhile b c) n base _ hc0 C emb regs2 env2).1 u env' h
            refine ⟨regs3, (hs1.trans sem hs2).trans sem (Steps.cons_at sem hjt (s' := ⟨base, regs2, env2⟩)
              (by simp [exec1, hv2, htr]) hs3),
              fun r hr => by rw [hk3 r hr, hk2 r (by omega) (by omega), hk1 r hr]⟩
          · rename_i htr
            simp only [Option.some.injEq, Res.ok.injEq] at h
            obtain ⟨_, rfl⟩ := h
            refine ⟨regs2, (hs1.trans sem hs2).trans sem (Steps.one sem ?_),
              fun r hr => by rw [hk2 r (by omega) (by omega), hk1 r hr]⟩
            rw [step_at sem hjt, hlen]
            simp [exec1, hv2, htr, Nat.add_assoc]
        · simp at h
      · rename_i hne
        exact absurd h (by intro h'; exact hne _ _ h')
    · simp only [evalS] at h
      split at h
      · rename_i u1 env1 hb
        obtain ⟨regs1, hs1, hk1⟩ := ihb.1 u1 env1 hb
        have ihc := codeE_ok sem c n (n + 1) (base + bb.length) bc hbc (by omega) C emb.left.right regs1 env1
        split at h
        · rename_i a env2 ha
          obtain ⟨regs2, hs2, hv2, hk2⟩ := ihc.1 a env2 ha
          split at h
          · rename_i htr
            exact Throws.after sem ((hs1.trans sem hs2).trans sem (Steps.one sem (b := ⟨base, regs2, env2⟩)
              (by rw [step_at sem hjt]; simp [exec1, hv2, htr])))
              ((codeS_ok fuel (.doWhile b c) n base _ hc0 C emb regs2 env2).2 _ _ h)
          · simp at h
        · rename_i er1 env2 ha
          simp only [Option.some.injEq, Res.thrown.injEq] at h
          obtain ⟨rfl, rfl⟩ := h
          exact Throws.after sem hs1 (ihc.2 _ _ ha)
      · exact ihb.2 _ _ h
termination_by fuel s => (fuel, sizeOf s)

theorem codeL_ok : ∀ (fuel : Nat) (ss : List Stmt) (n base : Nat) (body : List Op), codeL ss n base = some body →
    ∀ C, Embeds C base body → ∀ (regs : Reg → V) (env : Env V),
    (∀ u env', evalL sem fuel ss env = some (.ok u env') → DoneS sem C base body.length n regs env env') ∧
    (∀ er env', evalL sem fuel ss env = some (.thrown er env') → Throws sem C base regs env er env')
  | fuel, [], n, base, body, hc, C, emb, regs, env => by
    simp only [codeL, Option.some.injEq] at hc
    subst hc
    refine ⟨fun u env' h => ?_, fun er env' h => ?_⟩
    · simp only [evalL, Option.some.injEq, Res.ok.injEq] at h
      obtain ⟨_, rfl⟩ := h
      exact ⟨regs, .refl _, fun _ _ => rfl⟩
    · simp [evalL] at h
  | fuel, s :: rest, n, base, body, hc, C, emb, regs, env => by
    simp only [codeL] at hc
    split at hc
    · simp at hc
    rename_i b1 hb1
    split at hc
    · simp at hc
    rename_i b2 hb2
    simp only [Option.some.injEq] at hc
    subst hc
    have ih1 := codeS_ok fuel s n base b1 hb1 C emb.left regs env
    refine ⟨fun u env' h => ?_, fun er env' h => ?_⟩
    · simp only [evalL] at h
      split at h
      · rename_i u1 env1 h1
        obtain ⟨regs1, hs1, hk1⟩ := ih1.1 u1 env1 h1
        obtain ⟨regs2, hs2, hk2⟩ := (codeL_ok fuel rest n (base + b1.length) b2 hb2 C emb.right regs1 env1).1 u env' h
        refine ⟨regs2, hs1.trans sem ?_, fun r hr => by rw [hk2 r hr, hk1 r hr]⟩
        simpa [Nat.add_assoc] using hs2
      · rename_i hne
        exact absurd h (by intro h'; exact hne _ _ h')
    · simp only [evalL] at h
      split at h
      · rename_i u1 env1 h1
        obtain ⟨regs1, hs1, hk1⟩ := ih1.1 u1 env1 h1
        exact Throws.after sem hs1 ((codeL_ok fuel rest n (base + b1.length) b2 hb2 C emb.right regs1 env1).2 _ _ h)
      · exact ih1.2 _ _ h
termination_by fuel ss => (fuel, sizeOf ss)
end

end
end TsrunVerif.Compile
