import TsrunVerif.Model.Compile

/-!
Register demand: `need e` is the number of registers above the next free one that compiling `e`
takes at its deepest point.  The compiler refuses exactly when the demand does not fit into the 255
registers a `u8` can name.
-/
set_option linter.unusedSimpArgs false
set_option linter.unusedVariables false

namespace TsrunVerif.Compile

def need : Expr → Nat
  | .lit _ => 0
  | .var _ => 0
  | .un op e => match typeofVar? op e with
    | some _ => 1
    | none => 1 + need e
  | .bin _ l r => max (1 + need l) (2 + need r)
  | .log _ l r => max (need l) (need r)
  | .cond c t f => max (1 + need c) (max (need t) (need f))
  | .asg _ .assign e => need e
  | .asg _ (.bin _) e => 1 + need e
  | .asg _ .andA e => need e
  | .asg _ .orA e => need e
  | .asg _ .nullishA e => need e
  | .seq a c => max (1 + need a) (need c)
  | .upd _ _ false => 2
  | .upd _ _ true => 1

mutual
def needS : Stmt → Nat
  | .expr e => 1 + need e
  | .ite c t none => max (1 + need c) (needS t)
  | .ite c t (some f) => max (1 + need c) (max (needS t) (needS f))
  | .while_ c b => max (1 + need c) (needS b)
  | .doWhile b c => max (needS b) (1 + need c)
  | .block ss => needL ss
  | .empty => 0
  | .throw_ e => 1 + need e
  | .tryCatch body handler => max (needL body) (needL handler)
def needL : List Stmt → Nat
  | [] => 0
  | s :: rest => max (needS s) (needL rest)
end

theorem isSome_match {α β : Type} (o : Option α) (f : α → Option β) :
    (match o with | none => none | some a => f a).isSome = true ↔ ∃ a, o = some a ∧ (f a).isSome = true := by
  cases o <;> simp

/-- **the compiler refuses exactly when the registers do not suffice** -/
theorem codeE_isSome_iff : ∀ (e : Expr) (dst n base : Nat), n ≤ 255 →
    ((codeE e dst n base).isSome = true ↔ n + need e ≤ 255)
  | .lit l, dst, n, base, hn => by simp [codeE, need]; omega
  | .var x, dst, n, base, hn => by simp [codeE, need]; omega
  | .un op e, dst, n, base, hn => by
    simp only [codeE, need]
    by_cases h : n = 255
    · simp [h]
      cases typeofVar? op e <;> simp <;> omega
    · simp only [h, if_false]
      cases hq : typeofVar? op e with
      | some x => simp; omega
      | none =>
        have ih := codeE_isSome_iff e n (n + 1) base (by omega)
        simp only []
        cases hc : codeE e n (n + 1) base with
        | none => simp [hc] at ih ⊢; omega
        | some be => simp [hc] at ih ⊢; omega
  | .bin op l r, dst, n, base, hn => by
    simp only [codeE, need]
    by_cases h : n = 255
    · simp [h]; omega
    simp only [h, if_false]
    have ihl := codeE_isSome_iff l n (n + 1) base (by omega)
    cases hl : codeE l n (n + 1) base with
    | none => simp [hl] at ihl ⊢; omega
    | some bl =>
      simp [hl] at ihl
      simp only []
      by_cases h1 : n + 1 = 255
      · simp [h1]; omega
      simp only [h1, if_false]
      have ihr := codeE_isSome_iff r (n + 1) (n + 2) (base + bl.length) (by omega)
      cases hr : codeE r (n + 1) (n + 2) (base + bl.length) with
      | none => simp [hr] at ihr ⊢; omega
      | some br => simp [hr] at ihr ⊢; omega
  | .log op l r, dst, n, base, hn => by
    simp only [codeE, need]
    have ihl := codeE_isSome_iff l dst n base hn
    cases hl : codeE l dst n base with
    | none => simp [hl] at ihl ⊢; omega
    | some bl =>
      simp [hl] at ihl
      simp only []
      have ihr := codeE_isSome_iff r dst n (base + bl.length + 1) hn
      cases hr : codeE r dst n (base + bl.length + 1) with
      | none => simp [hr] at ihr ⊢; omega
      | some br => simp [hr] at ihr ⊢; omega
  | .cond c t f, dst, n, base, hn => by
    simp only [codeE, need]
    by_cases h : n = 255
    · simp [h]; omega
    simp only [h, if_false]
    have ihc := codeE_isSome_iff c n (n + 1) base (by omega)
    cases hcc : codeE c n (n + 1) base with
    | none => simp [hcc] at ihc ⊢; omega
    | some bc =>
      simp [hcc] at ihc
      simp only []
      have iht := codeE_isSome_iff t dst n (base + bc.length + 1) hn
      cases ht : codeE t dst n (base + bc.length + 1) with
      | none => simp [ht] at iht ⊢; omega
      | some bt =>
        simp [ht] at iht
        simp only []
        have ihf := codeE_isSome_iff f dst n (base + bc.length + 1 + bt.length + 1) hn
        cases hf : codeE f dst n (base + bc.length + 1 + bt.length + 1) with
        | none => simp [hf] at ihf ⊢; omega
        | some bf => simp [hf] at ihf ⊢; omega
  | .asg x .assign e, dst, n, base, hn => by
    simp only [codeE, need]
    have ih := codeE_isSome_iff e dst n base hn
    cases hc : codeE e dst n base with
    | none => simp [hc] at ih ⊢; omega
    | some be => simp [hc] at ih ⊢; omega
  | .asg x (.bin op) e, dst, n, base, hn => by
    simp only [codeE, need]
    by_cases h : n = 255
    · simp [h]; omega
    simp only [h, if_false]
    have ih := codeE_isSome_iff e n (n + 1) (base + 1) (by omega)
    cases hc : codeE e n (n + 1) (base + 1) with
    | none => simp [hc] at ih ⊢; omega
    | some be => simp [hc] at ih ⊢; omega
  | .asg x .andA e, dst, n, base, hn => by
    simp only [codeE, need]
    have ih := codeE_isSome_iff e dst n (base + 2) hn
    cases hc : codeE e dst n (base + 2) with
    | none => simp [hc] at ih ⊢; omega
    | some be => simp [hc] at ih ⊢; omega
  | .asg x .orA e, dst, n, base, hn => by
    simp only [codeE, need]
    have ih := codeE_isSome_iff e dst n (base + 2) hn
    cases hc : codeE e dst n (base + 2) with
    | none => simp [hc] at ih ⊢; omega
    | some be => simp [hc] at ih ⊢; omega
  | .asg x .nullishA e, dst, n, base, hn => by
    simp only [codeE, need]
    have ih := codeE_isSome_iff e dst n (base + 2) hn
    cases hc : codeE e dst n (base + 2) with
    | none => simp [hc] at ih ⊢; omega
    | some be => simp [hc] at ih ⊢; omega
  | .seq a c, dst, n, base, hn => by
    simp only [codeE, need]
    by_cases h : n = 255
    · simp [h]; omega
    simp only [h, if_false]
    have iha := codeE_isSome_iff a n (n + 1) base (by omega)
    cases ha : codeE a n (n + 1) base with
    | none => simp [ha] at iha ⊢; omega
    | some ba =>
      simp [ha] at iha
      simp only []
      have ihc := codeE_isSome_iff c dst n (base + ba.length) hn
      cases hc : codeE c dst n (base + ba.length) with
      | none => simp [hc] at ihc ⊢; omega
      | some bc => simp [hc] at ihc ⊢; omega
  | .upd x inc false, dst, n, base, hn => by
    simp only [codeE, need]
    by_cases h : n = 255
    · simp [h]
    by_cases h1 : n + 1 = 255
    · simp [h, h1]; omega
    simp [h, h1]; omega
  | .upd x inc true, dst, n, base, hn => by
    simp only [codeE, need]
    by_cases h : n = 255
    · simp [h]
    simp [h]; omega

mutual
theorem codeS_isSome_iff : ∀ (s : Stmt) (n base : Nat), n ≤ 255 →
    ((codeS s n base).isSome = true ↔ n + needS s ≤ 255)
  | .expr e, n, base, hn => by
    simp only [codeS, needS]
    by_cases h : n = 255
    · simp [h]; omega
    simp only [h, if_false]
    have := codeE_isSome_iff e n (n + 1) base (by omega)
    rw [this]
    omega
  | .ite c t none, n, base, hn => by
    simp only [codeS, needS]
    by_cases h : n = 255
    · simp [h]; omega
    simp only [h, if_false]
    have ihc := codeE_isSome_iff c n (n + 1) base (by omega)
    cases hcc : codeE c n (n + 1) base with
    | none => simp [hcc] at ihc ⊢; omega
    | some bc =>
      simp [hcc] at ihc
      simp only []
      have iht := codeS_isSome_iff t n (base + bc.length + 1) hn
      cases ht : codeS t n (base + bc.length + 1) with
      | none => simp [ht] at iht ⊢; omega
      | some bt => simp [ht] at iht ⊢; omega
  | .ite c t (some f), n, base, hn => by
    simp only [codeS, needS]
    by_cases h : n = 255
    · simp [h]; omega
    simp only [h, if_false]
    have ihc := codeE_isSome_iff c n (n + 1) base (by omega)
    cases hcc : codeE c n (n + 1) base with
    | none => simp [hcc] at ihc ⊢; omega
    | some bc =>
      simp [hcc] at ihc
      simp only []
      have iht := codeS_isSome_iff t n (base + bc.length + 1) hn
      cases ht : codeS t n (base + bc.length + 1) with
      | none => simp [ht] at iht ⊢; omega
      | some bt =>
        simp [ht] at iht
        simp only []
        have ihf := codeS_isSome_iff f n (base + bc.length + 1 + bt.length + 1) hn
        cases hf : codeS f n (base + bc.length + 1 + bt.length + 1) with
        | none => simp [hf] at ihf ⊢; omega
        | some bf => simp [hf] at ihf ⊢; omega
  | .while_ c b, n, base, hn => by
    simp only [codeS, needS]
    by_cases h : n = 255
    · simp [h]; omega
    simp only [h, if_false]
    have ihc := codeE_isSome_iff c n (n + 1) base (by omega)
    cases hcc : codeE c n (n + 1) base with
    | none => simp [hcc] at ihc ⊢; omega
    | some bc =>
      simp [hcc] at ihc
      simp only []
      have ihb := codeS_isSome_iff b n (base + bc.length + 1) hn
      cases hb : codeS b n (base + bc.length + 1) with
      | none => simp [hb] at ihb ⊢; omega
      | some bb => simp [hb] at ihb ⊢; omega
  | .doWhile b c, n, base, hn => by
    simp only [codeS, needS]
    have ihb := codeS_isSome_iff b n base hn
    cases hb : codeS b n base with
    | none => simp [hb] at ihb ⊢; omega
    | some bb =>
      simp [hb] at ihb
      simp only []
      by_cases h : n = 255
      · simp [h]; omega
      simp only [h, if_false]
      have ihc := codeE_isSome_iff c n (n + 1) (base + bb.length) (by omega)
      cases hcc : codeE c n (n + 1) (base + bb.length) with
      | none => simp [hcc] at ihc ⊢; omega
      | some bc => simp [hcc] at ihc ⊢; omega
  | .block ss, n, base, hn => by
    simp only [codeS, needS]
    have ih := codeL_isSome_iff ss n (base + 1) hn
    cases hl : codeL ss n (base + 1) with
    | none => simp [hl] at ih ⊢; omega
    | some bs => simp [hl] at ih ⊢; omega
  | .empty, n, base, hn => by simp [codeS, needS]; omega
  | .throw_ e, n, base, hn => by
    simp only [codeS, needS]
    by_cases h : n = 255
    · simp [h]; omega
    simp only [h, if_false]
    have ih := codeE_isSome_iff e n (n + 1) base (by omega)
    cases hc : codeE e n (n + 1) base with
    | none => simp [hc] at ih ⊢; omega
    | some be => simp [hc] at ih ⊢; omega
  | .tryCatch body handler, n, base, hn => by
    simp only [codeS, needS]
    have ihb := codeL_isSome_iff body n (base + 2) hn
    cases hb : codeL body n (base + 2) with
    | none => simp [hb] at ihb ⊢; omega
    | some bb =>
      simp [hb] at ihb
      simp only []
      have ihh := codeL_isSome_iff handler n (base + 2 + bb.length + 3 + 1) hn
      cases hh : codeL handler n (base + 2 + bb.length + 3 + 1) with
      | none => simp [hh] at ihh ⊢; omega
      | some bh => simp [hh] at ihh ⊢; omega

theorem codeL_isSome_iff : ∀ (ss : List Stmt) (n base : Nat), n ≤ 255 →
    ((codeL ss n base).isSome = true ↔ n + needL ss ≤ 255)
  | [], n, base, hn => by simp [codeL, needL]; omega
  | s :: rest, n, base, hn => by
    simp only [codeL, needL]
    have ih1 := codeS_isSome_iff s n base hn
    cases h1 : codeS s n base with
    | none => simp [h1] at ih1 ⊢; omega
    | some b1 =>
      simp [h1] at ih1
      simp only []
      have ih2 := codeL_isSome_iff rest n (base + b1.length) hn
      cases h2 : codeL rest n (base + b1.length) with
      | none => simp [h2] at ih2 ⊢; omega
      | some b2 => simp [h2] at ih2 ⊢; omega
end

/-- an addition chain nested to the right, `a + (a + (a + … ))`, `d` levels -/
def rightNested : Nat → Expr
  | 0 => .var "a"
  | d + 1 => .bin .add (.var "a") (rightNested d)

theorem need_rightNested : ∀ d, need (rightNested d) = 2 * d
  | 0 => by simp [rightNested, need]
  | d + 1 => by simp [rightNested, need, need_rightNested d]; omega

/-- an addition chain nested to the left, `((a + 1) + 1) + …`, `d` levels -/
def leftNested : Nat → Expr
  | 0 => .var "a"
  | d + 1 => .bin .add (leftNested d) (.lit (.num 1))

theorem need_leftNested : ∀ d, need (leftNested d) = if d = 0 then 0 else d + 1
  | 0 => by simp [leftNested, need]
  | d + 1 => by
    simp [leftNested, need, need_leftNested d]
    split <;> omega

end TsrunVerif.Compile
