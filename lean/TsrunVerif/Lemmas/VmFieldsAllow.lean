import TsrunVerif.Gen.VmFields
/-!
Reviewed facts about the extracted field lists of `BytecodeVM` / `TrampolineFrame` and their saved
counterparts: which VM fields are deliberately not saved (and why), and which are saved under
another name.
-/
namespace TsrunVerif.Gen

/-- fields that carry no program state: GC root bookkeeping and allocation pools, rebuilt on resume -/
def transientVmFields : List String := ["register_guard", "register_pool", "arguments_pool"]
def transientFrameFields : List String := ["register_guard"]

/-- saved under another name: `call_stack` is `SavedVmState.frames`; the interpreter's environment
is `interp_env` (a field of the saved state only) -/
def renamed (f : String) : String := if f = "call_stack" then "frames" else f

def vmFieldsCovered : Bool :=
  vmFields.all (fun f => savedVmFields.contains (renamed f) || transientVmFields.contains f)
    && savedVmFields.contains "interp_env"

def frameFieldsCovered : Bool :=
  frameFields.all (fun f => savedFrameFields.contains f || transientFrameFields.contains f)

/-! ### every saved / restored field takes its value from the field of the same name of the SAME record

`save_state` builds a `SavedTrampolineFrame` per suspended caller from `frame.*` and the `SavedVmState` from
`self.*`; `from_saved_state` builds each `TrampolineFrame` from `saved.*` and the VM from `state.*`.
The reviewed exceptions are listed with their reason. -/

/-- a frame is saved from its own fields -/
def saveFrameFaithful : Bool := saveFrameSources.all (fun p => p.2 == "frame." ++ p.1)

/-- the running VM is saved from its own fields; `frames` is `call_stack`; the trampoline frames and the pending
    completion are converted just above the literal (locals of the same name); the environment is the interpreter's;
    the guard is the one the saved objects were put under -/
def saveVmFaithful : Bool := saveVmSources.all (fun p =>
  p.2 == "self." ++ p.1 || p == ("frames", "self.call_stack") || p == ("trampoline_stack", "saved_trampoline_stack")
    || p == ("pending_completion", "pending_completion") || p == ("interp_env", "interp.env") || p == ("guard", "Some"))

/-- a frame is restored from the saved frame's fields; its register guard is created afresh -/
def restoreFrameFaithful : Bool := restoreFrameSources.all (fun p =>
  p.2 == "saved." ++ p.1 || p == ("register_guard", "frame_guard"))

/-- the VM is restored from the saved state's fields; `this` may be overridden by the resumer (generators),
    pools start empty -/
def restoreVmFaithful : Bool := restoreVmSources.all (fun p =>
  p.2 == "state." ++ p.1 || p == ("register_guard", "guard") || p == ("call_stack", "state.frames") || p == ("this_value", "this_value")
    || p == ("trampoline_stack", "trampoline_stack") || p == ("register_pool", "Vec::new") || p == ("arguments_pool", "Vec::new"))

/-- the literals mention every field of their record exactly once -/
def literalsComplete : Bool :=
  saveFrameSources.map (·.1) == savedFrameFields && restoreFrameSources.map (·.1) == frameFields
    && saveVmSources.map (·.1) == savedVmFields.filter (· != "guard") ++ ["guard"] && restoreVmSources.map (·.1) == vmFields

end TsrunVerif.Gen
