import TsrunVerif.Gen.VmFields
/-!
Reviewed facts about the extracted field lists of `BytecodeVM` / `TrampolineFrame` and their saved
counterparts: which VM fields are deliberately not saved (and why), and which are saved under
another name.
-/
namespace TsrunVerif.Gen

/-- fields that carry no program state: GC root bookkeeping and allocation pools, rebuilt on resume -/
def transientVmFields : List String := ["register_guard", "register_pool", "arguments_pool"]
def transientFrameFields : List String := ["register_guard"]

/-- saved under another name: `call_stack` is `SavedVmState.frames`; the interpreter's environment
is `interp_env` (a field of the saved state only) -/
def renamed (f : String) : String := if f = "call_stack" then "frames" else f

def vmFieldsCovered : Bool :=
  vmFields.all (fun f => savedVmFields.contains (renamed f) || transientVmFields.contains f)
    && savedVmFields.contains "interp_env"

def frameFieldsCovered : Bool :=
  frameFields.all (fun f => savedFrameFields.contains f || transientFrameFields.contains f)

end TsrunVerif.Gen
