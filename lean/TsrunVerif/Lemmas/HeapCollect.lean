import TsrunVerif.Lemmas.HeapMark

/-! `collect` reclaims exactly the unreachable slots; the heap invariant. -/
namespace TsrunVerif.Heap

theorem reach_not_pooled (h : Heap) (i : Nat) (hr : Reach h i) : pooledAt h i = false := by
  cases hr with
  | root hi =>
    have := (List.mem_filter.mp hi).2
    simpa using this
  | step _ hj =>
    unfold succs at hj
    split at hj
    · have := (List.mem_filter.mp hj).2
      simpa using this
    · simp at hj

theorem pooledAt_false_iff (h : Heap) (i : Nat) :
    pooledAt h i = false ↔ ∃ s, h.slots[i]? = some s ∧ s.pooled = false := by
  unfold pooledAt
  cases h.slots[i]? with
  | none => simp
  | some s => simp

theorem getElem?_sweepSlots (slots : List Slot) (marked : List Nat) (i : Nat) :
    (sweepSlots slots marked)[i]? =
      (slots[i]?).map (fun s => if s.pooled || marked.contains i then s
                                else { payload := 0, links := [], pooled := true }) := by
  simp [sweepSlots, List.getElem?_mapIdx]

theorem collect_eq_sweep (h : Heap) : ∃ m, mark h = some m ∧ collect h = sweep h m := by
  have := mark_terminates h
  cases hm : mark h with
  | none => simp [hm] at this
  | some m => exact ⟨m, rfl, by simp [collect, hm]⟩

/-- after a collection a slot is non-pooled iff it was reachable from a live guard. -/
theorem collect_exact (h : Heap) (i : Nat) :
    pooledAt (collect h) i = false ↔ Reach h i := by
  obtain ⟨m, hm, hc⟩ := collect_eq_sweep h
  rw [hc]
  constructor
  · intro hp
    obtain ⟨s, hs, hsp⟩ := (pooledAt_false_iff _ _).mp hp
    simp only [sweep, getElem?_sweepSlots] at hs
    cases ho : h.slots[i]? with
    | none => simp [ho] at hs
    | some s0 =>
      simp only [ho, Option.map_some, Option.some.injEq] at hs
      split at hs
      · rename_i hcond
        subst hs
        simp only [Bool.or_eq_true, hsp, Bool.false_eq_true, false_or] at hcond
        exact mark_sound h m hm i (by simpa using hcond)
      · subst hs; simp at hsp
  · intro hr
    have hnp := reach_not_pooled h i hr
    obtain ⟨s0, hs0, hsp0⟩ := (pooledAt_false_iff _ _).mp hnp
    have him := mark_complete h m hm i hr
    apply (pooledAt_false_iff _ _).mpr
    refine ⟨s0, ?_, hsp0⟩
    simp [sweep, getElem?_sweepSlots, hs0, him]

/-- a reachable slot is untouched by a collection. -/
theorem collect_keeps_reachable (h : Heap) (i : Nat) (hr : Reach h i) :
    (collect h).slots[i]? = h.slots[i]? := by
  obtain ⟨m, hm, hc⟩ := collect_eq_sweep h
  have him := mark_complete h m hm i hr
  rw [hc]
  simp only [sweep, getElem?_sweepSlots]
  cases h.slots[i]? with
  | none => rfl
  | some s => simp [him]

/-- an unreachable live slot is reset and pooled by a collection. -/
theorem collect_resets_unreachable (h : Heap) (i : Nat) (s : Slot)
    (hs : h.slots[i]? = some s) (hp : s.pooled = false) (hr : ¬ Reach h i) :
    (collect h).slots[i]? = some { payload := 0, links := [], pooled := true } ∧ i ∈ (collect h).free := by
  obtain ⟨m, hm, hc⟩ := collect_eq_sweep h
  have him : i ∉ m := fun hi => hr (mark_sound h m hm i hi)
  rw [hc]
  constructor
  · simp [sweep, getElem?_sweepSlots, hs, hp, him]
  · simp only [sweep]
    apply List.mem_append.mpr; right
    unfold sweptIdx
    apply List.mem_filter.mpr
    refine ⟨List.mem_range.mpr (List.getElem?_eq_some_iff.mp hs).1, ?_⟩
    simp [hs, hp, him]

/-- a pooled slot stays as it is. -/
theorem collect_keeps_pooled (h : Heap) (i : Nat) (s : Slot)
    (hs : h.slots[i]? = some s) (hp : s.pooled = true) :
    (collect h).slots[i]? = some s := by
  obtain ⟨m, _, hc⟩ := collect_eq_sweep h
  rw [hc]
  simp [sweep, getElem?_sweepSlots, hs, hp]

theorem collect_length (h : Heap) : (collect h).slots.length = h.slots.length := by
  obtain ⟨m, _, hc⟩ := collect_eq_sweep h
  rw [hc]; simp [sweep, sweepSlots]

theorem collect_guards (h : Heap) : (collect h).guards = h.guards := by
  obtain ⟨m, _, hc⟩ := collect_eq_sweep h
  rw [hc]; rfl

theorem collect_alive (h : Heap) : (collect h).alive = h.alive := by
  obtain ⟨m, _, hc⟩ := collect_eq_sweep h
  rw [hc]; rfl

/-! ### the invariant: the free list is exactly the set of pooled slots, without duplicates -/

def Inv (h : Heap) : Prop :=
  h.alive = true →
    h.free.Nodup ∧ ∀ i, i ∈ h.free ↔ ∃ s, h.slots[i]? = some s ∧ s.pooled = true

theorem inv_init : Inv Heap.init := by
  intro _
  simp [Heap.init]

theorem sweptIdx_nodup (slots : List Slot) (m : List Nat) : (sweptIdx slots m).Nodup :=
  List.Nodup.sublist List.filter_sublist List.nodup_range

theorem mem_sweptIdx (slots : List Slot) (m : List Nat) (i : Nat) :
    i ∈ sweptIdx slots m ↔ ∃ s, slots[i]? = some s ∧ s.pooled = false ∧ i ∉ m := by
  unfold sweptIdx
  rw [List.mem_filter]
  constructor
  · rintro ⟨hr, hc⟩
    cases hs : slots[i]? with
    | none => simp [hs] at hc
    | some s => simp [hs] at hc; exact ⟨s, rfl, hc.1, hc.2⟩
  · rintro ⟨s, hs, hp, him⟩
    exact ⟨List.mem_range.mpr (List.getElem?_eq_some_iff.mp hs).1, by simp [hs, hp, him]⟩

theorem inv_collect (h : Heap) (hi : Inv h) : Inv (collect h) := by
  intro ha
  rw [collect_alive] at ha
  obtain ⟨hnd, hiff⟩ := hi ha
  obtain ⟨m, hm, hc⟩ := collect_eq_sweep h
  rw [hc]
  simp only [sweep]
  constructor
  · apply List.nodup_append.mpr
    refine ⟨hnd, sweptIdx_nodup _ _, ?_⟩
    intro a ha1 b hb1 hab
    subst hab
    obtain ⟨s, hs, hp⟩ := (hiff a).mp ha1
    obtain ⟨s', hs', hp', _⟩ := (mem_sweptIdx _ _ _).mp hb1
    rw [hs] at hs'; cases hs'; simp [hp] at hp'
  · intro i
    rw [List.mem_append, getElem?_sweepSlots]
    constructor
    · rintro (h1 | h1)
      · obtain ⟨s, hs, hp⟩ := (hiff i).mp h1
        exact ⟨s, by simp [hs, hp], hp⟩
      · obtain ⟨s, hs, hp, him⟩ := (mem_sweptIdx _ _ _).mp h1
        exact ⟨{ payload := 0, links := [], pooled := true }, by simp [hs, hp, him], rfl⟩
    · rintro ⟨s, hs, hp⟩
      cases ho : h.slots[i]? with
      | none => simp [ho] at hs
      | some s0 =>
        simp only [ho, Option.map_some, Option.some.injEq] at hs
        by_cases hp0 : s0.pooled = true
        · left; exact (hiff i).mpr ⟨s0, ho, hp0⟩
        · right
          have hp0' : s0.pooled = false := by simpa using hp0
          apply (mem_sweptIdx _ _ _).mpr
          refine ⟨s0, ho, hp0', ?_⟩
          intro him
          simp [hp0', him] at hs
          subst hs; simp [hp0'] at hp

end TsrunVerif.Heap
