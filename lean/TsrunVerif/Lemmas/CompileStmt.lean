import TsrunVerif.Lemmas.Compile

/-!
Statements: the VM with handler dispatch (`stepH`) simulates `evalS` on the code `codeS` describes,
for every fuel (loop iteration bound), including `throw` and `try … catch`.
-/
set_option linter.unusedSimpArgs false
set_option linter.unusedVariables false

namespace TsrunVerif.Compile

section
variable {V Err : Type} (sem : Sem V Err)

/-- steps of the VM with handler dispatch -/
inductive StepsH (C : List Op) : St V → St V → Prop where
  | refl (s : St V) : StepsH C s s
  | cons {s s' s'' : St V} : stepH sem C s = .next s' → StepsH C s' s'' → StepsH C s s''

theorem StepsH.trans {C : List Op} {a b c : St V} (h₁ : StepsH sem C a b) (h₂ : StepsH sem C b c) : StepsH sem C a c := by
  induction h₁ with
  | refl => exact h₂
  | cons hs _ ih => exact .cons hs (ih h₂)

theorem stepH_of_next {C : List Op} {a b : St V} (h : step sem C a = .next b) : stepH sem C a = .next b := by
  simp [stepH, h]

theorem StepsH.one {C : List Op} {a b : St V} (h : step sem C a = .next b) : StepsH sem C a b :=
  .cons (stepH_of_next sem h) (.refl b)

theorem StepsH.cons_at {C : List Op} {pc : Nat} {op : Op} {regs : Reg → V} {env : Env V} {H : List Nat} {s' s'' : St V}
    (h : C[pc]? = some op) (he : exec1 sem op ⟨pc, regs, env, H⟩ = .next s') (hs : StepsH sem C s' s'') :
    StepsH sem C ⟨pc, regs, env, H⟩ s'' :=
  .cons (stepH_of_next sem (by rw [step_at sem h, he])) hs

theorem Steps.toH {C : List Op} {a b : St V} (h : Steps sem C a b) : StepsH sem C a b := by
  induction h with
  | refl => exact .refl _
  | cons hs _ ih => exact .cons (stepH_of_next sem hs) ih

/-- the VM reaches an instruction that raises `er` with the try stack as it was -/
def ThrowsH (C : List Op) (base : Nat) (regs : Reg → V) (env : Env V) (H : List Nat) (er : Err) (env' : Env V) : Prop :=
  ∃ pc regs', StepsH sem C ⟨base, regs, env, H⟩ ⟨pc, regs', env', H⟩ ∧
    step sem C ⟨pc, regs', env', H⟩ = .throw er ⟨pc, regs', env', H⟩

theorem ThrowsH.after {C : List Op} {base pc : Nat} {regs regs' : Reg → V} {env env' env'' : Env V} {H : List Nat} {er : Err}
    (h₁ : StepsH sem C ⟨base, regs, env, H⟩ ⟨pc, regs', env', H⟩) (h₂ : ThrowsH sem C pc regs' env' H er env'') :
    ThrowsH sem C base regs env H er env'' := by
  obtain ⟨pc', r', hs, ht⟩ := h₂
  exact ⟨pc', r', h₁.trans sem hs, ht⟩

/-- `codeE_ok` over the dispatching VM -/
theorem codeE_okH (e : Expr) (dst n base : Nat) (body : List Op) (hc : codeE e dst n base = some body) (hd : dst < n)
    (C : List Op) (emb : Embeds C base body) (regs : Reg → V) (env : Env V) (H : List Nat) :
    (∀ v env', evalE sem e env = .ok v env' → ∃ regs', StepsH sem C ⟨base, regs, env, H⟩ ⟨base + body.length, regs', env', H⟩ ∧
        regs' dst = v ∧ ∀ r, r < n → r ≠ dst → regs' r = regs r) ∧
    (∀ er env', evalE sem e env = .thrown er env' → ThrowsH sem C base regs env H er env') := by
  have h := codeE_ok sem e dst n base body hc hd C emb regs env H
  refine ⟨fun v env' hv => ?_, fun er env' hv => ?_⟩
  · obtain ⟨regs', hs, h1, h2⟩ := h.1 v env' hv
    exact ⟨regs', hs.toH sem, h1, h2⟩
  · obtain ⟨pc, regs', hs, ht⟩ := h.2 er env' hv
    exact ⟨pc, regs', hs.toH sem, ht⟩

/-- the VM reaches the end of the statement's code (with the try stack as it was) -/
def DoneS (C : List Op) (base len : Nat) (regs : Reg → V) (env : Env V) (H : List Nat) (env' : Env V) : Prop :=
  ∃ regs', StepsH sem C ⟨base, regs, env, H⟩ ⟨base + len, regs', env', H⟩

mutual
theorem codeS_ok : ∀ (fuel : Nat) (s : Stmt) (n base : Nat) (body : List Op), codeS s n base = some body →
    ∀ C, Embeds C base body → ∀ (regs : Reg → V) (env : Env V) (H : List Nat),
    (∀ u env', evalS sem fuel s env = some (.ok u env') → DoneS sem C base body.length regs env H env') ∧
    (∀ er env', evalS sem fuel s env = some (.thrown er env') → ThrowsH sem C base regs env H er env')
  | fuel, .expr e, n, base, body, hc, C, emb, regs, env, H => by
    simp only [codeS] at hc
    split at hc
    · simp at hc
    have ih := codeE_okH sem e n (n + 1) base body hc (by omega) C emb regs env H
    refine ⟨fun u env' h => ?_, fun er env' h => ?_⟩
    · simp only [evalS] at h
      split at h <;> simp at h
      rename_i a env1 ha
      subst h
      obtain ⟨regs1, hs1, _, hk1⟩ := ih.1 a env1 ha
      exact ⟨regs1, hs1⟩
    · simp only [evalS] at h
      split at h <;> simp at h
      rename_i er1 env1 ha
      obtain ⟨rfl, rfl⟩ := h
      exact ih.2 _ _ ha
  | fuel, .empty, n, base, body, hc, C, emb, regs, env, H => by
    simp only [codeS, Option.some.injEq] at hc
    subst hc
    refine ⟨fun u env' h => ?_, fun er env' h => ?_⟩
    · simp only [evalS, Option.some.injEq, Res.ok.injEq] at h
      obtain ⟨_, rfl⟩ := h
      exact ⟨regs, .refl _⟩
    · simp [evalS] at h
  | fuel, .ite c t none, n, base, body, hc, C, emb, regs, env, H => by
    simp only [codeS] at hc
    split at hc
    · simp at hc
    split at hc
    · simp at hc
    rename_i hn bc hbc
    split at hc
    · simp at hc
    rename_i bt hbt
    simp only [Option.some.injEq] at hc
    subst hc
    have ihc := codeE_okH sem c n (n + 1) base bc hbc (by omega) C emb.left regs env H
    have hjf := emb.right.head
    have hlen : (bc ++ Op.jumpIfFalse n (base + bc.length + 1 + bt.length) :: bt).length = bc.length + 1 + bt.length := by
      simp; omega
    rw [hlen]
    refine ⟨fun u env' h => ?_, fun er env' h => ?_⟩
    · simp only [evalS] at h
      split at h
      · rename_i a env1 ha
        obtain ⟨regs1, hs1, hv1, hk1⟩ := ihc.1 a env1 ha
        split at h
        · rename_i htr
          obtain ⟨regs2, hs2⟩ := (codeS_ok fuel t n (base + bc.length + 1) bt hbt C emb.right.tail regs1 env1 H).1 u env' h
          refine ⟨regs2, hs1.trans sem (StepsH.cons_at sem hjf (s' := ⟨base + bc.length + 1, regs1, env1, H⟩)
            (by simp [exec1, hv1, htr]) ?_)⟩
          simpa [Nat.add_assoc] using hs2
        · rename_i htr
          simp only [Option.some.injEq, Res.ok.injEq] at h
          obtain ⟨_, rfl⟩ := h
          refine ⟨regs1, hs1.trans sem (StepsH.one sem ?_)⟩
          rw [step_at sem hjf]
          simp [exec1, hv1, htr, Nat.add_assoc]
      · simp at h
    · simp only [evalS] at h
      split at h
      · rename_i a env1 ha
        obtain ⟨regs1, hs1, hv1, hk1⟩ := ihc.1 a env1 ha
        split at h
        · rename_i htr
          exact ThrowsH.after sem (hs1.trans sem (StepsH.one sem (by rw [step_at sem hjf]; simp [exec1, hv1, htr])))
            ((codeS_ok fuel t n (base + bc.length + 1) bt hbt C emb.right.tail regs1 env1 H).2 _ _ h)
        · simp at h
      · rename_i er1 env1 ha
        simp only [Option.some.injEq, Res.thrown.injEq] at h
        obtain ⟨rfl, rfl⟩ := h
        exact ihc.2 _ _ ha
  | fuel, .ite c t (some f), n, base, body, hc, C, emb, regs, env, H => by
    simp only [codeS] at hc
    split at hc
    · simp at hc
    split at hc
    · simp at hc
    rename_i hn bc hbc
    split at hc
    · simp at hc
    rename_i bt hbt
    split at hc
    · simp at hc
    rename_i bf hbf
    simp only [Option.some.injEq] at hc
    subst hc
    have ihc := codeE_okH sem c n (n + 1) base bc hbc (by omega) C emb.left regs env H
    have hjf := emb.right.head
    have hj := emb.right.tail.right.head
    have hlen : (bc ++ Op.jumpIfFalse n (base + bc.length + 1 + bt.length + 1) ::
        (bt ++ Op.jump (base + bc.length + 1 + bt.length + 1 + bf.length) :: bf)).length
        = bc.length + 1 + bt.length + 1 + bf.length := by
      simp; omega
    rw [hlen]
    refine ⟨fun u env' h => ?_, fun er env' h => ?_⟩
    · simp only [evalS] at h
      split at h
      · rename_i a env1 ha
        obtain ⟨regs1, hs1, hv1, hk1⟩ := ihc.1 a env1 ha
        split at h
        · rename_i htr
          obtain ⟨regs2, hs2⟩ := (codeS_ok fuel t n (base + bc.length + 1) bt hbt C emb.right.tail.left regs1 env1 H).1 u env' h
          refine ⟨regs2, hs1.trans sem (StepsH.cons_at sem hjf (s' := ⟨base + bc.length + 1, regs1, env1, H⟩)
            (by simp [exec1, hv1, htr]) (hs2.trans sem (StepsH.one sem ?_)))⟩
          rw [step_at sem hj]
          simp [exec1, Nat.add_assoc]
        · rename_i htr
          obtain ⟨regs2, hs2⟩ := (codeS_ok fuel f n (base + bc.length + 1 + bt.length + 1) bf hbf C
            emb.right.tail.right.tail regs1 env1 H).1 u env' h
          refine ⟨regs2, hs1.trans sem (StepsH.cons_at sem hjf (s' := ⟨base + bc.length + 1 + bt.length + 1, regs1, env1, H⟩)
            (by simp [exec1, hv1, htr]) ?_)⟩
          simpa [Nat.add_assoc] using hs2
      · simp at h
    · simp only [evalS] at h
      split at h
      · rename_i a env1 ha
        obtain ⟨regs1, hs1, hv1, hk1⟩ := ihc.1 a env1 ha
        split at h
        · rename_i htr
          exact ThrowsH.after sem (hs1.trans sem (StepsH.one sem (by rw [step_at sem hjf]; simp [exec1, hv1, htr])))
            ((codeS_ok fuel t n (base + bc.length + 1) bt hbt C emb.right.tail.left regs1 env1 H).2 _ _ h)
        · rename_i htr
          exact ThrowsH.after sem (hs1.trans sem (StepsH.one sem (by rw [step_at sem hjf]; simp [exec1, hv1, htr])))
            ((codeS_ok fuel f n (base + bc.length + 1 + bt.length + 1) bf hbf C emb.right.tail.right.tail regs1 env1 H).2 _ _ h)
      · rename_i er1 env1 ha
        simp only [Option.some.injEq, Res.thrown.injEq] at h
        obtain ⟨rfl, rfl⟩ := h
        exact ihc.2 _ _ ha
  | fuel, .block ss, n, base, body, hc, C, emb, regs, env, H => by
    simp only [codeS] at hc
    split at hc
    · simp at hc
    rename_i bs hbs
    simp only [Option.some.injEq] at hc
    subst hc
    have ih := codeL_ok fuel ss n (base + 1) bs hbs C emb.tail.left regs env H
    have hpush := emb.head
    have hpop : C[base + 1 + bs.length]? = some .popScope := emb.tail.right.head
    have hlen : (Op.pushScope :: (bs ++ [Op.popScope])).length = 1 + bs.length + 1 := by simp; omega
    rw [hlen]
    have s0 : StepsH sem C ⟨base, regs, env, H⟩ ⟨base + 1, regs, env, H⟩ :=
      StepsH.one sem (by rw [step_at sem hpush]; simp [exec1])
    refine ⟨fun u env' h => ?_, fun er env' h => ?_⟩
    · simp only [evalS] at h
      obtain ⟨regs1, hs1⟩ := ih.1 u env' h
      refine ⟨regs1, s0.trans sem (hs1.trans sem (StepsH.one sem ?_))⟩
      rw [step_at sem hpop]
      simp [exec1, Nat.add_assoc]
    · simp only [evalS] at h
      exact ThrowsH.after sem s0 (ih.2 _ _ h)
  | 0, .while_ c b, n, base, body, hc, C, emb, regs, env, H => by
    refine ⟨fun u env' h => ?_, fun er env' h => ?_⟩ <;> simp [evalS] at h
  | fuel + 1, .while_ c b, n, base, body, hc, C, emb, regs, env, H => by
    have hc0 := hc
    simp only [codeS] at hc
    split at hc
    · simp at hc
    split at hc
    · simp at hc
    rename_i hn bc hbc
    split at hc
    · simp at hc
    rename_i bb hbb
    simp only [Option.some.injEq] at hc
    subst hc
    have ihc := codeE_okH sem c n (n + 1) base bc hbc (by omega) C emb.left regs env H
    have hjf := emb.right.head
    have hj : C[base + bc.length + 1 + bb.length]? = some (.jump base) := emb.right.tail.right.head
    have hlen : (bc ++ Op.jumpIfFalse n (base + bc.length + 1 + bb.length + 1) :: (bb ++ [Op.jump base])).length
        = bc.length + 1 + bb.length + 1 := by
      simp; omega
    refine ⟨fun u env' h => ?_, fun er env' h => ?_⟩
    · simp only [evalS] at h
      split at h
      · rename_i a env1 ha
        obtain ⟨regs1, hs1, hv1, hk1⟩ := ihc.1 a env1 ha
        split at h
        · rename_i htr
          split at h
          · rename_i u1 env2 hb
            obtain ⟨regs2, hs2⟩ := (codeS_ok fuel b n (base + bc.length + 1) bb hbb C emb.right.tail.left regs1 env1 H).1 u1 env2 hb
            obtain ⟨regs3, hs3⟩ := (codeS_ok fuel (.while_ c b) n base _ hc0 C emb regs2 env2 H).1 u env' h
            refine ⟨regs3, hs1.trans sem (StepsH.cons_at sem hjf (s' := ⟨base + bc.length + 1, regs1, env1, H⟩)
              (by simp [exec1, hv1, htr]) (hs2.trans sem (StepsH.cons_at sem hj (s' := ⟨base, regs2, env2, H⟩)
              (by simp [exec1]) hs3)))⟩
          · rename_i hne
            exact absurd h (by intro h'; exact hne _ _ h')
        · rename_i htr
          simp only [Option.some.injEq, Res.ok.injEq] at h
          obtain ⟨_, rfl⟩ := h
          refine ⟨regs1, hs1.trans sem (StepsH.one sem ?_)⟩
          rw [step_at sem hjf, hlen]
          simp [exec1, hv1, htr, Nat.add_assoc]
      · simp at h
    · simp only [evalS] at h
      split at h
      · rename_i a env1 ha
        obtain ⟨regs1, hs1, hv1, hk1⟩ := ihc.1 a env1 ha
        split at h
        · rename_i htr
          have s1 : StepsH sem C ⟨base, regs, env, H⟩ ⟨base + bc.length + 1, regs1, env1, H⟩ :=
            hs1.trans sem (StepsH.one sem (by rw [step_at sem hjf]; simp [exec1, hv1, htr]))
          split at h
          · rename_i u1 env2 hb
            obtain ⟨regs2, hs2⟩ := (codeS_ok fuel b n (base + bc.length + 1) bb hbb C emb.right.tail.left regs1 env1 H).1 u1 env2 hb
            exact ThrowsH.after sem (s1.trans sem (hs2.trans sem (StepsH.one sem (a := ⟨base + bc.length + 1 + bb.length, regs2, env2, H⟩) (b := ⟨base, regs2, env2, H⟩)
              (by rw [step_at sem hj]; simp [exec1]))))
              ((codeS_ok fuel (.while_ c b) n base _ hc0 C emb regs2 env2 H).2 _ _ h)
          · exact ThrowsH.after sem s1 ((codeS_ok fuel b n (base + bc.length + 1) bb hbb C emb.right.tail.left regs1 env1 H).2 _ _ h)
        · simp at h
      · rename_i er1 env1 ha
        simp only [Option.some.injEq, Res.thrown.injEq] at h
        obtain ⟨rfl, rfl⟩ := h
        exact ihc.2 _ _ ha
  | 0, .doWhile b c, n, base, body, hc, C, emb, regs, env, H => by
    refine ⟨fun u env' h => ?_, fun er env' h => ?_⟩ <;> simp [evalS] at h
  | fuel + 1, .doWhile b c, n, base, body, hc, C, emb, regs, env, H => by
    have hc0 := hc
    simp only [codeS] at hc
    split at hc
    · simp at hc
    rename_i bb hbb
    split at hc
    · simp at hc
    split at hc
    · simp at hc
    rename_i hn bc hbc
    simp only [Option.some.injEq] at hc
    subst hc
    have ihb := codeS_ok fuel b n base bb hbb C emb.left.left regs env H
    have hjt : C[base + bb.length + bc.length]? = some (.jumpIfTrue n base) := by
      have := emb.right.head
      simpa [Nat.add_assoc] using this
    have hlen : (bb ++ bc ++ [Op.jumpIfTrue n base]).length = bb.length + bc.length + 1 := by simp; omega
    refine ⟨fun u env' h => ?_, fun er env' h => ?_⟩
    · simp only [evalS] at h
      split at h
      · rename_i u1 env1 hb
        obtain ⟨regs1, hs1⟩ := ihb.1 u1 env1 hb
        have ihc := codeE_okH sem c n (n + 1) (base + bb.length) bc hbc (by omega) C emb.left.right regs1 env1 H
        split at h
        · rename_i a env2 ha
          obtain ⟨regs2, hs2, hv2, hk2⟩ := ihc.1 a env2 ha
          split at h
          · rename_i htr
            obtain ⟨regs3, hs3⟩ := (codeS_ok fuel (.doWhile b c) n base _ hc0 C emb regs2 env2 H).1 u env' h
            refine ⟨regs3, (hs1.trans sem hs2).trans sem (StepsH.cons_at sem hjt (s' := ⟨base, regs2, env2, H⟩)
              (by simp [exec1, hv2, htr]) hs3)⟩
          · rename_i htr
            simp only [Option.some.injEq, Res.ok.injEq] at h
            obtain ⟨_, rfl⟩ := h
            refine ⟨regs2, (hs1.trans sem hs2).trans sem (StepsH.one sem ?_)⟩
            rw [step_at sem hjt, hlen]
            simp [exec1, hv2, htr, Nat.add_assoc]
        · simp at h
      · rename_i hne
        exact absurd h (by intro h'; exact hne _ _ h')
    · simp only [evalS] at h
      split at h
      · rename_i u1 env1 hb
        obtain ⟨regs1, hs1⟩ := ihb.1 u1 env1 hb
        have ihc := codeE_okH sem c n (n + 1) (base + bb.length) bc hbc (by omega) C emb.left.right regs1 env1 H
        split at h
        · rename_i a env2 ha
          obtain ⟨regs2, hs2, hv2, hk2⟩ := ihc.1 a env2 ha
          split at h
          · rename_i htr
            exact ThrowsH.after sem ((hs1.trans sem hs2).trans sem (StepsH.one sem (b := ⟨base, regs2, env2, H⟩)
              (by rw [step_at sem hjt]; simp [exec1, hv2, htr])))
              ((codeS_ok fuel (.doWhile b c) n base _ hc0 C emb regs2 env2 H).2 _ _ h)
          · simp at h
        · rename_i er1 env2 ha
          simp only [Option.some.injEq, Res.thrown.injEq] at h
          obtain ⟨rfl, rfl⟩ := h
          exact ThrowsH.after sem hs1 (ihc.2 _ _ ha)
      · exact ihb.2 _ _ h
  | fuel, .throw_ e, n, base, body, hc, C, emb, regs, env, H => by
    simp only [codeS] at hc
    split at hc
    · simp at hc
    split at hc
    · simp at hc
    rename_i hn be hbe
    simp only [Option.some.injEq] at hc
    subst hc
    have ih := codeE_okH sem e n (n + 1) base be hbe (by omega) C emb.left regs env H
    have hthrow := emb.right.head
    refine ⟨fun u env' h => ?_, fun er env' h => ?_⟩
    · simp only [evalS] at h
      split at h <;> simp at h
    · simp only [evalS] at h
      split at h
      · rename_i v env1 hv
        simp only [Option.some.injEq, Res.thrown.injEq] at h
        obtain ⟨rfl, rfl⟩ := h
        obtain ⟨regs1, hs1, hv1, _⟩ := ih.1 v env1 hv
        refine ⟨base + be.length, regs1, hs1, ?_⟩
        rw [step_at sem hthrow]
        simp [exec1, hv1]
      · rename_i er1 env1 hv
        simp only [Option.some.injEq, Res.thrown.injEq] at h
        obtain ⟨rfl, rfl⟩ := h
        exact ih.2 _ _ hv
  | fuel, .tryCatch tb hb, n, base, body, hc, C, emb, regs, env, H => by
    simp only [codeS] at hc
    split at hc
    · simp at hc
    rename_i bb hbb
    split at hc
    · simp at hc
    rename_i bh hbh
    simp only [Option.some.injEq] at hc
    subst hc
    -- the pieces of the code
    have hpush := emb.head
    have hscope := emb.tail.head
    have embb : Embeds C (base + 2) bb := by simpa [Nat.add_assoc] using emb.tail.tail.left
    have hrest := emb.tail.tail.right
    have hpops : C[base + 2 + bb.length]? = some .popScope := by simpa [Nat.add_assoc] using hrest.head
    have hpopt : C[base + 2 + bb.length + 1]? = some .popTry := by simpa [Nat.add_assoc] using hrest.tail.head
    have hjmp : C[base + 2 + bb.length + 2]? = some (.jump (base + 2 + bb.length + 3 + 1 + bh.length + 2)) := by
      simpa [Nat.add_assoc] using hrest.tail.tail.head
    have hcs : C[base + 2 + bb.length + 3]? = some .pushScope := by simpa [Nat.add_assoc] using hrest.tail.tail.tail.head
    have embh : Embeds C (base + 2 + bb.length + 3 + 1) bh := by
      simpa [Nat.add_assoc] using hrest.tail.tail.tail.tail.left
    have hrest2 := hrest.tail.tail.tail.tail.right
    have hpops2 : C[base + 2 + bb.length + 3 + 1 + bh.length]? = some .popScope := by
      simpa [Nat.add_assoc] using hrest2.head
    have hjmp2 : C[base + 2 + bb.length + 3 + 1 + bh.length + 1]? = some (.jump (base + 2 + bb.length + 3 + 1 + bh.length + 2)) := by
      simpa [Nat.add_assoc] using hrest2.tail.head
    have hlen : (Op.pushTry (base + 2 + bb.length + 3) :: Op.pushScope ::
        (bb ++ Op.popScope :: Op.popTry :: Op.jump (base + 2 + bb.length + 3 + 1 + bh.length + 2) :: Op.pushScope ::
          (bh ++ [Op.popScope, Op.jump (base + 2 + bb.length + 3 + 1 + bh.length + 2)]))).length
        = 2 + bb.length + 3 + 1 + bh.length + 2 := by
      simp; omega
    rw [hlen]
    -- entering the try block
    have s0 : StepsH sem C ⟨base, regs, env, H⟩ ⟨base + 2, regs, env, (base + 2 + bb.length + 3) :: H⟩ :=
      StepsH.cons_at sem hpush (s' := ⟨base + 1, regs, env, (base + 2 + bb.length + 3) :: H⟩) (by simp [exec1])
        (StepsH.one sem (by rw [step_at sem hscope]; simp [exec1]))
    have ihb := codeL_ok fuel tb n (base + 2) bb hbb C embb regs env ((base + 2 + bb.length + 3) :: H)
    -- the handler, entered from a raise inside the try block
    have caught : ∀ (pc : Nat) (regs' : Reg → V) (env1 : Env V) (er : Err),
        step sem C ⟨pc, regs', env1, (base + 2 + bb.length + 3) :: H⟩ = .throw er ⟨pc, regs', env1, (base + 2 + bb.length + 3) :: H⟩ →
        StepsH sem C ⟨pc, regs', env1, (base + 2 + bb.length + 3) :: H⟩ ⟨base + 2 + bb.length + 3 + 1, regs', env1, H⟩ := by
      intro pc regs' env1 er ht
      refine StepsH.cons (s' := ⟨base + 2 + bb.length + 3, regs', env1, H⟩) (by simp [stepH, ht]) ?_
      exact StepsH.one sem (by rw [step_at sem hcs]; simp [exec1])
    refine ⟨fun u env' h => ?_, fun er env' h => ?_⟩
    · simp only [evalS] at h
      split at h
      · rename_i er1 env1 hb1
        obtain ⟨pc, regs', hs1, ht⟩ := ihb.2 er1 env1 hb1
        obtain ⟨regs2, hs2⟩ := (codeL_ok fuel hb n (base + 2 + bb.length + 3 + 1) bh hbh C embh regs' env1 H).1 u env' h
        refine ⟨regs2, s0.trans sem (hs1.trans sem ((caught pc regs' env1 er1 ht).trans sem (hs2.trans sem ?_)))⟩
        refine StepsH.cons_at sem hpops2 (s' := ⟨base + 2 + bb.length + 3 + 1 + bh.length + 1, regs2, env', H⟩) (by simp [exec1]) ?_
        refine StepsH.one sem ?_
        rw [step_at sem hjmp2]
        simp [exec1, Nat.add_assoc]
      · rename_i hne
        obtain ⟨regs1, hs1⟩ := ihb.1 u env' h
        refine ⟨regs1, s0.trans sem (hs1.trans sem ?_)⟩
        refine StepsH.cons_at sem hpops (s' := ⟨base + 2 + bb.length + 1, regs1, env', (base + 2 + bb.length + 3) :: H⟩) (by simp [exec1]) ?_
        refine StepsH.cons_at sem hpopt (s' := ⟨base + 2 + bb.length + 1 + 1, regs1, env', H⟩) (by simp [exec1]) ?_
        refine StepsH.one sem ?_
        rw [show base + 2 + bb.length + 1 + 1 = base + 2 + bb.length + 2 by omega, step_at sem hjmp]
        simp [exec1, Nat.add_assoc]
    · simp only [evalS] at h
      split at h
      · rename_i er1 env1 hb1
        obtain ⟨pc, regs', hs1, ht⟩ := ihb.2 er1 env1 hb1
        exact ThrowsH.after sem (s0.trans sem (hs1.trans sem (caught pc regs' env1 er1 ht)))
          ((codeL_ok fuel hb n (base + 2 + bb.length + 3 + 1) bh hbh C embh regs' env1 H).2 _ _ h)
      · rename_i hne
        exact absurd h (by intro h'; exact hne _ _ h')
termination_by fuel s => (fuel, sizeOf s)

theorem codeL_ok : ∀ (fuel : Nat) (ss : List Stmt) (n base : Nat) (body : List Op), codeL ss n base = some body →
    ∀ C, Embeds C base body → ∀ (regs : Reg → V) (env : Env V) (H : List Nat),
    (∀ u env', evalL sem fuel ss env = some (.ok u env') → DoneS sem C base body.length regs env H env') ∧
    (∀ er env', evalL sem fuel ss env = some (.thrown er env') → ThrowsH sem C base regs env H er env')
  | fuel, [], n, base, body, hc, C, emb, regs, env, H => by
    simp only [codeL, Option.some.injEq] at hc
    subst hc
    refine ⟨fun u env' h => ?_, fun er env' h => ?_⟩
    · simp only [evalL, Option.some.injEq, Res.ok.injEq] at h
      obtain ⟨_, rfl⟩ := h
      exact ⟨regs, .refl _⟩
    · simp [evalL] at h
  | fuel, s :: rest, n, base, body, hc, C, emb, regs, env, H => by
    simp only [codeL] at hc
    split at hc
    · simp at hc
    rename_i b1 hb1
    split at hc
    · simp at hc
    rename_i b2 hb2
    simp only [Option.some.injEq] at hc
    subst hc
    have ih1 := codeS_ok fuel s n base b1 hb1 C emb.left regs env H
    refine ⟨fun u env' h => ?_, fun er env' h => ?_⟩
    · simp only [evalL] at h
      split at h
      · rename_i u1 env1 h1
        obtain ⟨regs1, hs1⟩ := ih1.1 u1 env1 h1
        obtain ⟨regs2, hs2⟩ := (codeL_ok fuel rest n (base + b1.length) b2 hb2 C emb.right regs1 env1 H).1 u env' h
        refine ⟨regs2, hs1.trans sem ?_⟩
        simpa [Nat.add_assoc] using hs2
      · rename_i hne
        exact absurd h (by intro h'; exact hne _ _ h')
    · simp only [evalL] at h
      split at h
      · rename_i u1 env1 h1
        obtain ⟨regs1, hs1⟩ := ih1.1 u1 env1 h1
        exact ThrowsH.after sem hs1 ((codeL_ok fuel rest n (base + b1.length) b2 hb2 C emb.right regs1 env1 H).2 _ _ h)
      · exact ih1.2 _ _ h
termination_by fuel ss => (fuel, sizeOf ss)
end

end
end TsrunVerif.Compile
