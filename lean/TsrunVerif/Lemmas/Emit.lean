import TsrunVerif.Model.Emit
/-! Helper lemmas for M-Emit. -/
namespace TsrunVerif.Emit

theorem Obj.get_set (o : Obj) (k k' : Key) (v : EVal) :
    (o.set k v).get k' = if k = k' then some v else o.get k' := by
  induction o with
  | nil =>
    simp only [Obj.set, Obj.get]
  | cons p rest ih =>
    obtain ⟨kp, vp⟩ := p
    simp only [Obj.set]
    by_cases h : kp = k
    · subst h
      simp only [if_true, Obj.get]
      by_cases h2 : kp = k' <;> simp [h2]
    · simp only [if_neg h, Obj.get, ih]
      by_cases h2 : kp = k'
      · subst h2
        have : ¬ k = kp := fun e => h e.symm
        simp only [if_true, if_neg this]
      · simp only [if_neg h2]

/-- relation between TypeScript's constant tracking and the lowered code's value register -/
def Rel : Option EVal → Option Int → Option EVal → Prop
  | none, ep, reg => ep = none ∧ reg = none
  | some (.num n), ep, reg => ep = some n ∧ reg = some (.num n)
  | some (.str s), ep, reg => ep = none ∧ reg = some (.str s)

theorem lower_emit_gen (ms : List Member) :
    ∀ (prev : Option EVal) (o : Obj) (ep : Option Int) (reg : Option EVal),
      Rel prev ep reg → wellFormedFrom prev ms = true →
      (ms.foldl lowerStep (o, reg)).1 = (ms.foldl emitStep (o, ep)).1 := by
  induction ms with
  | nil => intro prev o ep reg _ _; rfl
  | cons m ms ih =>
    intro prev o ep reg hr hw
    simp only [List.foldl_cons]
    cases hinit : m.init with
    | val v =>
      simp only [wellFormedFrom, hinit] at hw
      cases v with
      | num n =>
        have h1 : lowerStep (o, reg) m = ((o.set (.name m.name) (.num n)).set (.idx n) (.str m.name), some (.num n)) := by
          simp only [lowerStep, hinit]
        have h2 : emitStep (o, ep) m = ((o.set (.name m.name) (.num n)).set (.idx n) (.str m.name), some n) := by
          simp only [emitStep, hinit]
        rw [h1, h2]
        exact ih (some (.num n)) _ (some n) (some (.num n)) ⟨rfl, rfl⟩ hw
      | str s =>
        have h1 : lowerStep (o, reg) m = (o.set (.name m.name) (.str s), some (.str s)) := by
          simp only [lowerStep, hinit]
        have h2 : emitStep (o, ep) m = (o.set (.name m.name) (.str s), none) := by
          simp only [emitStep, hinit]
        rw [h1, h2]
        exact ih (some (.str s)) _ none (some (.str s)) ⟨rfl, rfl⟩ hw
    | auto =>
      cases prev with
      | none =>
        obtain ⟨he, hg⟩ := hr
        subst he; subst hg
        simp only [wellFormedFrom, hinit] at hw
        have h1 : lowerStep (o, none) m = ((o.set (.name m.name) (.num 0)).set (.idx 0) (.str m.name), some (.num 0)) := by
          simp only [lowerStep, hinit]
        have h2 : emitStep (o, none) m = ((o.set (.name m.name) (.num 0)).set (.idx 0) (.str m.name), some 0) := by
          simp only [emitStep, hinit]
        rw [h1, h2]
        exact ih (some (.num 0)) _ (some 0) (some (.num 0)) ⟨rfl, rfl⟩ hw
      | some pv =>
        cases pv with
        | num n =>
          obtain ⟨he, hg⟩ := hr
          subst he; subst hg
          simp only [wellFormedFrom, hinit] at hw
          have h1 : lowerStep (o, some (.num n)) m =
              ((o.set (.name m.name) (.num (n + 1))).set (.idx (n + 1)) (.str m.name), some (.num (n + 1))) := by
            simp only [lowerStep, hinit, jsPlusOne]
          have h2 : emitStep (o, some n) m =
              ((o.set (.name m.name) (.num (n + 1))).set (.idx (n + 1)) (.str m.name), some (n + 1)) := by
            simp only [emitStep, hinit]
          rw [h1, h2]
          exact ih (some (.num (n + 1))) _ (some (n + 1)) (some (.num (n + 1))) ⟨rfl, rfl⟩ hw
        | str s =>
          simp only [wellFormedFrom, hinit] at hw
          exact absurd hw (by decide)

/-! evaluated members: what tsc's constant evaluation assigns -/
def vals (prev : Option Int) : List Member → List (String × EVal)
  | [] => []
  | m :: ms =>
    let v : EVal := match m.init with
      | .val v => v
      | .auto => match prev with
        | some n => .num (n + 1)
        | none => .num 0
    (m.name, v) :: vals (match v with | .num n => some n | .str _ => none) ms

def write (o : Obj) (p : String × EVal) : Obj :=
  match p.2 with
  | .num n => (o.set (.name p.1) (.num n)).set (.idx n) (.str p.1)
  | .str s => o.set (.name p.1) (.str s)

theorem emit_fold_vals (ms : List Member) : ∀ (o : Obj) (prev : Option Int),
    (ms.foldl emitStep (o, prev)).1 = (vals prev ms).foldl write o := by
  induction ms with
  | nil => intro o prev; rfl
  | cons m ms ih =>
    intro o prev
    simp only [List.foldl_cons, vals]
    cases hinit : m.init with
    | val v =>
      cases v with
      | num n =>
        have h2 : emitStep (o, prev) m = ((o.set (.name m.name) (.num n)).set (.idx n) (.str m.name), some n) := by
          simp only [emitStep, hinit]
        rw [h2, ih]; rfl
      | str s =>
        have h2 : emitStep (o, prev) m = (o.set (.name m.name) (.str s), none) := by
          simp only [emitStep, hinit]
        rw [h2, ih]; rfl
    | auto =>
      cases prev with
      | none =>
        have h2 : emitStep (o, none) m = ((o.set (.name m.name) (.num 0)).set (.idx 0) (.str m.name), some 0) := by
          simp only [emitStep, hinit]
        rw [h2, ih]; rfl
      | some n =>
        have h2 : emitStep (o, some n) m =
            ((o.set (.name m.name) (.num (n + 1))).set (.idx (n + 1)) (.str m.name), some (n + 1)) := by
          simp only [emitStep, hinit]
        rw [h2, ih]; rfl

theorem write_get_name (o : Obj) (p : String × EVal) (x : String) :
    (write o p).get (.name x) = if p.1 = x then some p.2 else o.get (.name x) := by
  obtain ⟨nm, v⟩ := p
  cases v with
  | num n =>
    simp only [write, Obj.get_set]
    have : ¬ (Key.idx n = Key.name x) := by intro h; cases h
    simp only [if_neg this]
    by_cases h : nm = x
    · subst h; simp
    · have : ¬ (Key.name nm = Key.name x) := by intro e; cases e; exact h rfl
      simp only [if_neg this, if_neg h]
  | str s =>
    simp only [write, Obj.get_set]
    by_cases h : nm = x
    · subst h; simp
    · have : ¬ (Key.name nm = Key.name x) := by intro e; cases e; exact h rfl
      simp only [if_neg this, if_neg h]

theorem write_get_idx (o : Obj) (p : String × EVal) (n : Int) :
    (write o p).get (.idx n) = if p.2 = .num n then some (.str p.1) else o.get (.idx n) := by
  obtain ⟨nm, v⟩ := p
  cases v with
  | num k =>
    simp only [write, Obj.get_set]
    by_cases h : k = n
    · subst h; simp
    · have h1 : ¬ (Key.idx k = Key.idx n) := by intro e; cases e; exact h rfl
      have h2 : ¬ (EVal.num k = EVal.num n) := by intro e; cases e; exact h rfl
      have h3 : ¬ (Key.name nm = Key.idx n) := by intro e; cases e
      simp only [if_neg h1, if_neg h2, if_neg h3]
  | str s =>
    simp only [write, Obj.get_set]
    have h3 : ¬ (Key.name nm = Key.idx n) := by intro e; cases e
    have h2 : ¬ (EVal.str s = EVal.num n) := by intro e; cases e
    simp only [if_neg h3, if_neg h2]

/-- the last pair satisfying `q`, if any -/
def lastWith (q : String × EVal → Bool) : List (String × EVal) → Option (String × EVal)
  | [] => none
  | p :: ps => match lastWith q ps with
    | some r => some r
    | none => if q p then some p else none

theorem writeAll_get_name (ps : List (String × EVal)) : ∀ (o : Obj) (x : String),
    (ps.foldl write o).get (.name x) =
      match lastWith (fun p => decide (p.1 = x)) ps with
      | some p => some p.2
      | none => o.get (.name x) := by
  induction ps with
  | nil => intro o x; rfl
  | cons p ps ih =>
    intro o x
    simp only [List.foldl_cons, lastWith]
    rw [ih]
    cases h : lastWith (fun p => decide (p.1 = x)) ps with
    | some r => rfl
    | none =>
      simp only [write_get_name]
      by_cases hx : p.1 = x
      · simp [hx]
      · simp [hx]

theorem writeAll_get_idx (ps : List (String × EVal)) : ∀ (o : Obj) (n : Int),
    (ps.foldl write o).get (.idx n) =
      match lastWith (fun p => decide (p.2 = .num n)) ps with
      | some p => some (.str p.1)
      | none => o.get (.idx n) := by
  induction ps with
  | nil => intro o n; rfl
  | cons p ps ih =>
    intro o n
    simp only [List.foldl_cons, lastWith]
    rw [ih]
    cases h : lastWith (fun p => decide (p.2 = .num n)) ps with
    | some r => rfl
    | none =>
      simp only [write_get_idx]
      by_cases hx : p.2 = .num n
      · simp [hx]
      · simp [hx]

namespace Ns

theorem Store.get_set (s : Store) (x y : String) (v : Int) :
    (s.set x v).get y = if x = y then some v else s.get y := by
  induction s with
  | nil => simp only [Store.set, Store.get]
  | cons p rest ih =>
    obtain ⟨z, w⟩ := p
    simp only [Store.set]
    by_cases h : z = x
    · subst h; simp only [if_true, Store.get]
      by_cases h2 : z = y <;> simp [h2]
    · simp only [if_neg h, Store.get, ih]
      by_cases h2 : z = y
      · subst h2
        have : ¬ x = z := fun e => h e.symm
        simp only [if_true, if_neg this]
      · simp only [if_neg h2]

/-- simulation invariant between the alias scope and tsc's resolution -/
def Sim (a : AliasSt) (e : EmitSt) : Prop :=
  a.obj = e.obj ∧ ∀ x, match lookupB a.env x with
    | some .alias => resolve e.res x = some .prop
    | some (.val v) => resolve e.res x = some .loc ∧ e.locals.get x = some v
    | none => resolve e.res x = none

theorem eval_sim (a : AliasSt) (e : EmitSt) (h : Sim a e) (ex : Expr) :
    evalAlias a ex = evalEmit e ex := by
  induction ex with
  | lit n => rfl
  | var x =>
    simp only [evalAlias, evalEmit]
    have hx := h.2 x
    cases hl : lookupB a.env x with
    | none => rw [hl] at hx; simp only at hx; rw [hx]
    | some b =>
      rw [hl] at hx
      cases b with
      | alias => simp only at hx; rw [hx, h.1]
      | val v => simp only at hx; rw [hx.1]; simp only [hx.2, Option.getD]
  | add p q ihp ihq => simp only [evalAlias, evalEmit, ihp, ihq]

theorem lookupB_setB (env : List (String × Binding)) (x y : String) (v : Int) :
    lookupB (setB env x v) y =
      if x = y then (match lookupB env x with | some _ => some (.val v) | none => none)
      else lookupB env y := by
  induction env with
  | nil => simp [setB, lookupB]
  | cons p rest ih =>
    obtain ⟨z, b⟩ := p
    simp only [setB]
    by_cases hz : z = x
    · subst hz
      simp only [if_true, lookupB]
      by_cases hy : z = y
      · simp [hy]
      · simp [hy]
    · simp only [if_neg hz, lookupB, ih]
      by_cases hy : z = y
      · subst hy
        have : ¬ x = z := fun e => hz e.symm
        simp [this]
      · simp only [if_neg hy]

theorem step_sim (a : AliasSt) (e : EmitSt) (h : Sim a e) (st : Stmt) :
    Sim (stepAlias a st) (stepEmit e st) := by
  cases st with
  | exportVar x ex =>
    simp only [stepAlias, stepEmit]
    refine ⟨?_, ?_⟩
    · simp only [eval_sim a e h, h.1]
    · intro y
      simp only [lookupB, resolve]
      by_cases hxy : x = y
      · simp [hxy]
      · simp only [if_neg hxy]; exact h.2 y
  | localVar x ex =>
    simp only [stepAlias, stepEmit]
    refine ⟨h.1, ?_⟩
    intro y
    simp only [lookupB, resolve]
    by_cases hxy : x = y
    · subst hxy
      simp [Store.get_set, eval_sim a e h]
    · simp only [if_neg hxy]
      have hy := h.2 y
      cases hl : lookupB a.env y with
      | none => rw [hl] at hy; simpa using hy
      | some b =>
        rw [hl] at hy
        cases b with
        | alias => simpa using hy
        | val v =>
          simp only at hy ⊢
          refine ⟨hy.1, ?_⟩
          rw [Store.get_set, if_neg hxy]; exact hy.2
  | assign x ex =>
    simp only [stepAlias, stepEmit]
    have hx := h.2 x
    cases hl : lookupB a.env x with
    | none =>
      rw [hl] at hx; simp only at hx
      simp only [hx]; exact h
    | some b =>
      rw [hl] at hx
      cases b with
      | alias =>
        simp only at hx
        simp only [hx]
        refine ⟨?_, h.2⟩
        simp only [eval_sim a e h, h.1]
      | val v =>
        simp only at hx
        simp only [hx.1]
        refine ⟨h.1, ?_⟩
        intro y
        rw [lookupB_setB]
        by_cases hxy : x = y
        · subst hxy
          simp only [if_true, hl]
          refine ⟨hx.1, ?_⟩
          simp [Store.get_set, eval_sim a e h]
        · simp only [if_neg hxy]
          have hy := h.2 y
          cases hl2 : lookupB a.env y with
          | none => rw [hl2] at hy; simpa using hy
          | some b2 =>
            rw [hl2] at hy
            cases b2 with
            | alias => simpa using hy
            | val w =>
              simp only at hy ⊢
              refine ⟨hy.1, ?_⟩
              rw [Store.get_set, if_neg hxy]; exact hy.2

theorem sim_init (obj : Store) (exported : List String) :
    Sim { obj := obj, env := exported.map (fun x => (x, Binding.alias)) }
        { obj := obj, locals := [], res := exported.map (fun x => (x, Res.prop)) } := by
  refine ⟨rfl, ?_⟩
  intro y
  induction exported with
  | nil => simp [lookupB, resolve]
  | cons x xs ih =>
    simp only [List.map_cons, lookupB, resolve]
    by_cases hxy : x = y
    · simp [hxy]
    · simp only [if_neg hxy]; exact ih

theorem body_sim (body : List Stmt) : ∀ (a : AliasSt) (e : EmitSt), Sim a e →
    Sim (body.foldl stepAlias a) (body.foldl stepEmit e) := by
  induction body with
  | nil => intro a e h; exact h
  | cons s rest ih => intro a e h; exact ih _ _ (step_sim a e h s)

end Ns

theorem Ns.store_props (props : List (String × Int)) : ∀ (this : List (String × Int)) (x : String),
    Ns.Store.get (ctorPrologue this props) x =
      match (props.reverse.find? (fun p => decide (p.1 = x))) with
      | some p => some p.2
      | none => Ns.Store.get this x := by
  induction props with
  | nil => intro this x; rfl
  | cons p ps ih =>
    intro this x
    simp only [ctorPrologue, List.foldl_cons] at ih ⊢
    rw [ih]
    simp only [List.reverse_cons, List.find?_append]
    cases h : List.find? (fun p => decide (p.1 = x)) ps.reverse with
    | some r => simp
    | none =>
      simp only [Option.none_or, List.find?_cons, List.find?_nil, Ns.Store.get_set]
      by_cases hx : p.1 = x
      · simp [hx]
      · simp [hx]

end TsrunVerif.Emit
