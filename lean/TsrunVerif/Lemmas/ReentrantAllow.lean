/-! committed list of natives that re-enter the interpreter (hand-reviewed): for each of them a
single host `step()` runs the whole callback — the C06 known finding "bounded step" is recorded
per site in known_findings.json.  A native that is not on this list and calls back into the
interpreter breaks `reentrant_allowed`. -/
namespace TsrunVerif.Gen

def allowedReentrant : List String :=
  ["array.rs::array_map",
   "array.rs::array_filter",
   "array.rs::array_foreach",
   "array.rs::array_reduce",
   "array.rs::array_find",
   "array.rs::array_find_index",
   "array.rs::array_every",
   "array.rs::array_some",
   "array.rs::array_sort",
   "array.rs::array_from",
   "array.rs::array_reduce_right",
   "array.rs::array_flat_map",
   "array.rs::array_find_last",
   "array.rs::array_find_last_index",
   "array.rs::array_to_sorted",
   "function.rs::function_call",
   "function.rs::function_apply",
   "generator.rs::generator_next",
   "generator.rs::generator_throw",
   "map.rs::map_foreach",
   "map.rs::map_group_by",
   "object.rs::object_group_by",
   "promise.rs::trigger_handler",
   "promise.rs::promise_constructor",
   "promise.rs::promise_finally",
   "proxy.rs::reflect_apply",
   "proxy.rs::reflect_construct",
   "proxy.rs::proxy_get",
   "proxy.rs::proxy_set",
   "proxy.rs::proxy_has",
   "proxy.rs::proxy_delete_property",
   "proxy.rs::proxy_get_own_property_descriptor",
   "proxy.rs::proxy_define_property",
   "proxy.rs::proxy_get_prototype_of",
   "proxy.rs::proxy_set_prototype_of",
   "proxy.rs::proxy_is_extensible",
   "proxy.rs::proxy_prevent_extensions",
   "proxy.rs::proxy_own_keys",
   "proxy.rs::proxy_apply",
   "proxy.rs::proxy_construct",
   "set.rs::set_foreach",
   "string.rs::string_replace"]

end TsrunVerif.Gen
