import TsrunVerif.Lemmas.HeapCollect

/-! every public operation preserves the invariant and leaves reachable slots alone. -/
namespace TsrunVerif.Heap

theorem getElem?_setAt {α} (l : List α) (i j : Nat) (f : α → α) :
    (setAt l i f)[j]? = if j = i then (l[i]?).map f else l[j]? := by
  unfold setAt
  cases hi : l[i]? with
  | none =>
    by_cases hji : j = i
    · subst hji; simp [hi]
    · simp [hji]
  | some a =>
    have hlt : i < l.length := (List.getElem?_eq_some_iff.mp hi).1
    by_cases hji : j = i
    · subst hji; simp [List.getElem?_set, hlt]
    · have : ¬ i = j := fun e => hji e.symm
      simp [List.getElem?_set, hji, this]

theorem length_setAt {α} (l : List α) (i : Nat) (f : α → α) : (setAt l i f).length = l.length := by
  unfold setAt; split <;> simp

/-- the invariant only looks at `alive`, `free`, and the pooled flags. -/
theorem inv_of_same (h h' : Heap) (hi : Inv h) (ha : h'.alive = h.alive) (hf : h'.free = h.free)
    (hs : ∀ i : Nat, (h'.slots[i]?).map (fun s : Slot => s.pooled) = (h.slots[i]?).map (fun s : Slot => s.pooled)) : Inv h' := by
  intro hal
  rw [ha] at hal
  obtain ⟨hnd, hiff⟩ := hi hal
  rw [hf]
  refine ⟨hnd, ?_⟩
  intro i
  rw [hiff i]
  have := hs i
  constructor
  · rintro ⟨s, hs1, hp⟩
    rw [hs1] at this
    cases h2 : h'.slots[i]? with
    | none => simp [h2] at this
    | some s' => simp [h2] at this; exact ⟨s', rfl, by rw [this]; exact hp⟩
  · rintro ⟨s, hs1, hp⟩
    rw [hs1] at this
    cases h2 : h.slots[i]? with
    | none => simp [h2] at this
    | some s' => simp [h2] at this; exact ⟨s', rfl, by rw [← this]; exact hp⟩

theorem pooled_setAt_same (slots : List Slot) (a : Nat) (f : Slot → Slot) (hf : ∀ s, (f s).pooled = s.pooled) (i : Nat) :
    ((setAt slots a f)[i]?).map (fun s : Slot => s.pooled) = (slots[i]?).map (fun s : Slot => s.pooled) := by
  rw [getElem?_setAt]
  split
  · rename_i h; subst h
    cases slots[i]? with
    | none => rfl
    | some s => simp [hf]
  · rfl

theorem alloc_eq (h : Heap) (g : Nat) :
    alloc h g =
      ({ (allocCore (allocPre h)).1 with
          guards := setAt (allocCore (allocPre h)).1.guards g
            (fun gd => { gd with roots := gd.roots ++ [(allocCore (allocPre h)).2] }) },
        (allocCore (allocPre h)).2) := rfl

theorem inv_allocPre (h : Heap) (hi : Inv h) : Inv (allocPre h) := by
  unfold allocPre
  simp only
  have h1 : Inv { h with netAllocs := h.netAllocs + 1 } := inv_of_same _ _ hi rfl rfl (fun _ => rfl)
  split
  · exact inv_collect _ h1
  · exact h1

theorem getLast?_mem {l : List Nat} {a : Nat} (h : l.getLast? = some a) : a ∈ l :=
  List.mem_of_getLast? h

theorem dropLast_getLast {l : List Nat} {a : Nat} (h : l.getLast? = some a) : l = l.dropLast ++ [a] := by
  have hne : l ≠ [] := by intro e; subst e; simp at h
  have := List.dropLast_concat_getLast hne
  rw [List.getLast?_eq_some_getLast hne] at h
  cases h
  exact this.symm

theorem inv_allocCore (h : Heap) (hi : Inv h) : Inv (allocCore h).1 := by
  intro hal
  unfold allocCore at hal ⊢
  cases hl : h.free.getLast? with
  | some idx =>
    simp only [hl] at hal ⊢
    obtain ⟨hnd, hiff⟩ := hi hal
    have hsplit := dropLast_getLast hl
    have hnd' : (h.free.dropLast ++ [idx]).Nodup := by rw [← hsplit]; exact hnd
    have hnd2 := List.nodup_append.mp hnd'
    refine ⟨hnd2.1, ?_⟩
    intro i
    rw [getElem?_setAt]
    by_cases hii : i = idx
    · subst hii
      constructor
      · intro hmem
        exact absurd rfl (hnd2.2.2 i hmem i (by simp))
      · rintro ⟨s, hs, hp⟩
        simp only [if_true] at hs
        cases ho : h.slots[i]? with
        | none => simp [ho] at hs
        | some s0 => simp [ho] at hs; subst hs; simp [emptySlot] at hp
    · simp only [hii, if_false]
      rw [← hiff i]
      constructor
      · intro hmem; rw [hsplit]; simp [hmem]
      · intro hmem
        rw [hsplit] at hmem
        rcases List.mem_append.mp hmem with h1 | h1
        · exact h1
        · simp at h1; exact absurd h1 hii
  | none =>
    simp only [hl] at hal ⊢
    obtain ⟨hnd, hiff⟩ := hi hal
    refine ⟨hnd, ?_⟩
    intro i
    rw [hiff i]
    constructor
    · rintro ⟨s, hs, hp⟩
      refine ⟨s, ?_, hp⟩
      have hlt := (List.getElem?_eq_some_iff.mp hs).1
      rw [List.getElem?_append_left hlt]; exact hs
    · rintro ⟨s, hs, hp⟩
      by_cases hlt : i < h.slots.length
      · rw [List.getElem?_append_left hlt] at hs; exact ⟨s, hs, hp⟩
      · have hge : h.slots.length ≤ i := Nat.le_of_not_lt hlt
        rw [List.getElem?_append_right hge] at hs
        cases hk : i - h.slots.length with
        | zero => simp [hk] at hs; subst hs; simp [emptySlot] at hp
        | succ k => simp [hk] at hs

theorem inv_alloc (h : Heap) (g : Nat) (hi : Inv h) : Inv (alloc h g).1 := by
  rw [alloc_eq]
  exact inv_of_same _ _ (inv_allocCore _ (inv_allocPre h hi)) rfl rfl (fun _ => rfl)

theorem inv_step (h : Heap) (op : Op) (hi : Inv h) : Inv (step h op) := by
  cases op with
  | mkGuard => exact inv_of_same _ _ hi rfl rfl (fun _ => rfl)
  | dropGuard g => exact inv_of_same _ _ hi rfl rfl (fun _ => rfl)
  | alloc g =>
    simp only [step]
    split
    · exact inv_alloc h g hi
    · exact hi
  | guard g s =>
    simp only [step]
    split
    · exact inv_of_same _ _ hi rfl rfl (fun _ => rfl)
    · exact hi
  | unguard g s => exact inv_of_same _ _ hi rfl rfl (fun _ => rfl)
  | clear g => exact inv_of_same _ _ hi rfl rfl (fun _ => rfl)
  | link a b =>
    simp only [step]
    split
    · exact inv_of_same _ _ hi rfl rfl (pooled_setAt_same _ _ _ (fun _ => rfl))
    · exact hi
  | unlink a p =>
    simp only [step]
    split
    · exact inv_of_same _ _ hi rfl rfl (pooled_setAt_same _ _ _ (fun _ => rfl))
    · exact hi
  | write a v =>
    simp only [step]
    split
    · exact inv_of_same _ _ hi rfl rfl (pooled_setAt_same _ _ _ (fun _ => rfl))
    · exact hi
  | collect =>
    simp only [step]
    split
    · exact inv_collect h hi
    · exact hi
  | setThreshold n =>
    simp only [step]
    split
    · exact inv_of_same _ _ hi rfl rfl (fun _ => rfl)
    · exact hi
  | dropHeap => intro hal; simp [step] at hal
  | handleOp => exact hi

end TsrunVerif.Heap
