import TsrunVerif.Model.Path

namespace TsrunVerif.Path

/-- An ordinary path segment: what may remain after normalisation. -/
def Ordinary (s : List Char) : Prop :=
  s ≠ [] ∧ s ≠ ['.'] ∧ s ≠ ['.', '.'] ∧ '/' ∉ s

theorem splitSlash_ne_nil (p : List Char) : splitSlash p ≠ [] := by
  induction p with
  | nil => simp [splitSlash]
  | cons c cs ih =>
    simp only [splitSlash]
    split
    · simp
    · split <;> simp

theorem splitSlash_append (a b : List Char) :
    splitSlash (a ++ '/' :: b) = splitSlash a ++ splitSlash b := by
  induction a with
  | nil => simp [splitSlash]
  | cons c cs ih =>
    simp only [List.cons_append, splitSlash]
    split
    · simp [ih]
    · rw [ih]
      have hne := splitSlash_ne_nil cs
      cases h : splitSlash cs with
      | nil => exact absurd h hne
      | cons s ss => simp

theorem splitSlash_noSlash (p : List Char) : ∀ s ∈ splitSlash p, '/' ∉ s := by
  induction p with
  | nil => simp [splitSlash]
  | cons c cs ih =>
    simp only [splitSlash]
    split
    · intro s hs
      rcases List.mem_cons.mp hs with h | h
      · subst h; simp
      · exact ih s h
    · rename_i hc
      cases h : splitSlash cs with
      | nil => exact absurd h (splitSlash_ne_nil cs)
      | cons s ss =>
        rw [h] at ih
        intro t ht
        rcases List.mem_cons.mp ht with h' | h'
        · subst h'
          have := ih s (by simp)
          intro hm
          rcases List.mem_cons.mp hm with h'' | h''
          · exact hc h''.symm
          · exact this h''
        · exact ih t (by simp [h'])

/-- a slash-free string splits into itself. -/
theorem splitSlash_of_noSlash (s : List Char) (h : '/' ∉ s) : splitSlash s = [s] := by
  induction s with
  | nil => simp [splitSlash]
  | cons c cs ih =>
    have hc : c ≠ '/' := by
      intro e; apply h; simp [e]
    have hcs : '/' ∉ cs := by
      intro e; apply h; simp [e]
    simp [splitSlash, hc, ih hcs]

theorem splitSlash_join (l : List (List Char)) (hne : l ≠ [])
    (h : ∀ s ∈ l, '/' ∉ s) : splitSlash (joinSlash l) = l := by
  induction l with
  | nil => exact absurd rfl hne
  | cons s t ih =>
    cases t with
    | nil => simpa [joinSlash] using splitSlash_of_noSlash s (h s (by simp))
    | cons t r =>
      simp only [joinSlash]
      rw [splitSlash_append, splitSlash_of_noSlash s (h s (by simp)),
        ih (by simp) (fun x hx => h x (by simp [hx]))]
      simp

/-! ### the fold -/

theorem foldl_normStep_ordinary (l acc : List (List Char))
    (hl : ∀ s ∈ l, '/' ∉ s) (hacc : ∀ s ∈ acc, Ordinary s) :
    ∀ s ∈ l.foldl normStep acc, Ordinary s := by
  induction l generalizing acc with
  | nil => simpa using hacc
  | cons x xs ih =>
    simp only [List.foldl_cons]
    apply ih
    · intro s hs; exact hl s (by simp [hs])
    · unfold normStep
      split
      · exact hacc
      · split
        · intro s hs
          exact hacc s (List.dropLast_subset _ hs)
        · rename_i h1 h2
          intro s hs
          rcases List.mem_append.mp hs with h | h
          · exact hacc s h
          · simp at h; subst h
            refine ⟨?_, ?_, h2, hl s (by simp)⟩
            · intro e; exact h1 (Or.inl e)
            · intro e; exact h1 (Or.inr e)

theorem normSegs_ordinary (l : List (List Char)) (hl : ∀ s ∈ l, '/' ∉ s) :
    ∀ s ∈ normSegs l, Ordinary s :=
  foldl_normStep_ordinary l [] hl (by simp)

theorem foldl_normStep_of_ordinary (l acc : List (List Char)) (hl : ∀ s ∈ l, Ordinary s) :
    l.foldl normStep acc = acc ++ l := by
  induction l generalizing acc with
  | nil => simp
  | cons x xs ih =>
    have hx := hl x (by simp)
    have : normStep acc x = acc ++ [x] := by
      unfold normStep
      rw [if_neg (by rintro (h | h); exact hx.1 h; exact hx.2.1 h), if_neg hx.2.2.1]
    simp only [List.foldl_cons, this]
    rw [ih _ (fun s hs => hl s (by simp [hs]))]
    simp

theorem normSegs_of_ordinary (l : List (List Char)) (hl : ∀ s ∈ l, Ordinary s) :
    normSegs l = l := by
  simpa [normSegs] using foldl_normStep_of_ordinary l [] hl

/-- the fold from an arbitrary accumulator splits off the accumulator as long as
nothing pops into it … not true in general, so we use the weaker, always-true
append law on the *input*. -/
theorem foldl_normStep_append (a b acc : List (List Char)) :
    (a ++ b).foldl normStep acc = b.foldl normStep (a.foldl normStep acc) := by
  simp [List.foldl_append]

/-! ### normalize -/

theorem startsWithSlash_cons (p : List Char) : startsWithSlash ('/' :: p) = true := rfl

theorem startsWithSlash_append (a b : List Char) (h : startsWithSlash a = true) :
    startsWithSlash (a ++ b) = true := by
  cases a with
  | nil => simp [startsWithSlash] at h
  | cons c cs => simpa [startsWithSlash] using h

/-- `normalize` of an absolute string is `/` followed by ordinary segments. -/
theorem normalize_abs_shape (p : List Char) (h : startsWithSlash p = true) :
    ∃ l, normalize p = '/' :: joinSlash l ∧ ∀ s ∈ l, Ordinary s := by
  refine ⟨normSegs (splitSlash p), ?_, normSegs_ordinary _ (splitSlash_noSlash p)⟩
  simp [normalize, h]

/-- a canonical absolute path is a fixed point of `normalize`. -/
theorem normalize_canonical (l : List (List Char)) (hl : ∀ s ∈ l, Ordinary s) :
    normalize ('/' :: joinSlash l) = '/' :: joinSlash l := by
  have hsplit : normSegs (splitSlash ('/' :: joinSlash l)) = l := by
    simp only [splitSlash, if_true]
    cases l with
    | nil => simp [joinSlash, splitSlash, normSegs, normStep]
    | cons s t =>
      rw [splitSlash_join (s :: t) (by simp) (fun x hx => (hl x hx).2.2.2)]
      simp only [normSegs, List.foldl_cons]
      have : normStep [] ([] : List Char) = [] := by simp [normStep]
      rw [this]
      exact normSegs_of_ordinary (s :: t) hl
  simp [normalize, startsWithSlash, hsplit]

end TsrunVerif.Path
