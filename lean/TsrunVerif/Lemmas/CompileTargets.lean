import TsrunVerif.Model.Compile

/-!
Jump targets stay inside the construct: every target an emitted instruction names (jumps, the catch
target of `PushTry`) is at most the end of the construct's own code.  Hence the VM's program
counter never leaves the code, whatever the program does - also when it never terminates.
-/
set_option linter.unusedSimpArgs false
set_option linter.unusedVariables false

namespace TsrunVerif.Compile

/-- the code positions an instruction can transfer control to (besides the next instruction) -/
def opTargets : Op → List Nat
  | .jump t => [t]
  | .jumpIfTrue _ t | .jumpIfFalse _ t | .jumpIfNotNullish _ t => [t]
  | .pushTry t => [t]
  | _ => []

/-- all targets of `body` are at most `B` -/
def TgtLe (body : List Op) (B : Nat) : Prop := ∀ op ∈ body, ∀ t ∈ opTargets op, t ≤ B

theorem TgtLe.nil (B : Nat) : TgtLe [] B := by intro op h; simp at h

theorem TgtLe.append {a b : List Op} {B : Nat} (ha : TgtLe a B) (hb : TgtLe b B) : TgtLe (a ++ b) B := by
  intro op h t ht
  rcases List.mem_append.mp h with h | h
  · exact ha op h t ht
  · exact hb op h t ht

theorem TgtLe.cons {op : Op} {b : List Op} {B : Nat} (ho : ∀ t ∈ opTargets op, t ≤ B) (hb : TgtLe b B) : TgtLe (op :: b) B := by
  intro op' h t ht
  rcases List.mem_cons.mp h with h | h
  · subst h; exact ho t ht
  · exact hb op' h t ht

theorem TgtLe.mono {b : List Op} {B B' : Nat} (h : TgtLe b B) (hB : B ≤ B') : TgtLe b B' := by
  intro op ho t ht
  exact Nat.le_trans (h op ho t ht) hB

theorem tgt_lit (dst : Reg) (l : Lit) : opTargets (litOp dst l) = [] := by
  cases l with
  | num z => simp only [litOp]; split <;> rfl
  | _ => rfl

theorem tgt_skip (op : LogOp) (c t : Nat) : opTargets (retarget (skipOp op c) t) = [t] := by
  cases op <;> rfl

theorem codeE_targets : ∀ (e : Expr) (dst n base : Nat) (body : List Op), codeE e dst n base = some body →
    TgtLe body (base + body.length)
  | .lit l, dst, n, base, body, hc => by
    simp only [codeE, Option.some.injEq] at hc
    subst hc
    exact TgtLe.cons (by simp [tgt_lit]) (TgtLe.nil _)
  | .var x, dst, n, base, body, hc => by
    simp only [codeE, Option.some.injEq] at hc
    subst hc
    exact TgtLe.cons (by simp [opTargets]) (TgtLe.nil _)
  | .un op e, dst, n, base, body, hc => by
    simp only [codeE] at hc
    split at hc
    · simp at hc
    split at hc
    · simp at hc
    rename_i hn be hbe
    simp only [Option.some.injEq] at hc
    subst hc
    cases hq : typeofVar? op e with
    | some x =>
      simp only [hq, Option.some.injEq] at hbe
      subst hbe
      exact TgtLe.cons (by simp [opTargets]) (TgtLe.cons (by simp [opTargets]) (TgtLe.nil _))
    | none =>
      simp only [hq] at hbe
      have ih := codeE_targets e n (n + 1) base be hbe
      exact TgtLe.append (ih.mono (by simp <;> omega)) (TgtLe.cons (by simp [opTargets]) (TgtLe.nil _))
  | .bin op l r, dst, n, base, body, hc => by
    simp only [codeE] at hc
    split at hc
    · simp at hc
    split at hc
    · simp at hc
    rename_i hn bl hbl
    split at hc
    · simp at hc
    split at hc
    · simp at hc
    rename_i hn1 br hbr
    simp only [Option.some.injEq] at hc
    subst hc
    have ihl := codeE_targets l n (n + 1) base bl hbl
    have ihr := codeE_targets r (n + 1) (n + 2) (base + bl.length) br hbr
    exact TgtLe.append (TgtLe.append (ihl.mono (by simp <;> omega)) (ihr.mono (by simp <;> omega)))
      (TgtLe.cons (by simp [opTargets]) (TgtLe.nil _))
  | .log op l r, dst, n, base, body, hc => by
    simp only [codeE] at hc
    split at hc
    · simp at hc
    rename_i bl hbl
    split at hc
    · simp at hc
    rename_i br hbr
    simp only [Option.some.injEq] at hc
    subst hc
    have ihl := codeE_targets l dst n base bl hbl
    have ihr := codeE_targets r dst n (base + bl.length + 1) br hbr
    exact TgtLe.append (ihl.mono (by simp <;> omega))
      (TgtLe.cons (by simp [tgt_skip] <;> omega) (ihr.mono (by simp <;> omega)))
  | .cond c t f, dst, n, base, body, hc => by
    simp only [codeE] at hc
    split at hc
    · simp at hc
    split at hc
    · simp at hc
    rename_i hn bc hbc
    split at hc
    · simp at hc
    rename_i bt hbt
    split at hc
    · simp at hc
    rename_i bf hbf
    simp only [Option.some.injEq] at hc
    subst hc
    have ihc := codeE_targets c n (n + 1) base bc hbc
    have iht := codeE_targets t dst n (base + bc.length + 1) bt hbt
    have ihf := codeE_targets f dst n (base + bc.length + 1 + bt.length + 1) bf hbf
    exact TgtLe.append (ihc.mono (by simp <;> omega)) (TgtLe.cons (by simp [opTargets] <;> omega)
      (TgtLe.append (iht.mono (by simp <;> omega)) (TgtLe.cons (by simp [opTargets] <;> omega) (ihf.mono (by simp <;> omega)))))
  | .asg x .assign e, dst, n, base, body, hc => by
    simp only [codeE] at hc
    split at hc
    · simp at hc
    rename_i be hbe
    simp only [Option.some.injEq] at hc
    subst hc
    exact TgtLe.append ((codeE_targets e dst n base be hbe).mono (by simp <;> omega)) (TgtLe.cons (by simp [opTargets]) (TgtLe.nil _))
  | .asg x (.bin op) e, dst, n, base, body, hc => by
    simp only [codeE] at hc
    split at hc
    · simp at hc
    split at hc
    · simp at hc
    rename_i hn be hbe
    simp only [Option.some.injEq] at hc
    subst hc
    exact TgtLe.cons (by simp [opTargets]) (TgtLe.append ((codeE_targets e n (n + 1) (base + 1) be hbe).mono (by simp <;> omega))
      (TgtLe.cons (by simp [opTargets]) (TgtLe.cons (by simp [opTargets]) (TgtLe.nil _))))
  | .asg x .andA e, dst, n, base, body, hc => by
    simp only [codeE] at hc
    split at hc
    · simp at hc
    rename_i be hbe
    simp only [Option.some.injEq] at hc
    subst hc
    exact TgtLe.cons (by simp [opTargets]) (TgtLe.cons (by simp [opTargets] <;> omega)
      (TgtLe.append ((codeE_targets e dst n (base + 2) be hbe).mono (by simp <;> omega)) (TgtLe.cons (by simp [opTargets]) (TgtLe.nil _))))
  | .asg x .orA e, dst, n, base, body, hc => by
    simp only [codeE] at hc
    split at hc
    · simp at hc
    rename_i be hbe
    simp only [Option.some.injEq] at hc
    subst hc
    exact TgtLe.cons (by simp [opTargets]) (TgtLe.cons (by simp [opTargets] <;> omega)
      (TgtLe.append ((codeE_targets e dst n (base + 2) be hbe).mono (by simp <;> omega)) (TgtLe.cons (by simp [opTargets]) (TgtLe.nil _))))
  | .asg x .nullishA e, dst, n, base, body, hc => by
    simp only [codeE] at hc
    split at hc
    · simp at hc
    rename_i be hbe
    simp only [Option.some.injEq] at hc
    subst hc
    exact TgtLe.cons (by simp [opTargets]) (TgtLe.cons (by simp [opTargets] <;> omega)
      (TgtLe.append ((codeE_targets e dst n (base + 2) be hbe).mono (by simp <;> omega)) (TgtLe.cons (by simp [opTargets]) (TgtLe.nil _))))
  | .seq a c, dst, n, base, body, hc => by
    simp only [codeE] at hc
    split at hc
    · simp at hc
    split at hc
    · simp at hc
    rename_i hn ba hba
    split at hc
    · simp at hc
    rename_i bc hbc
    simp only [Option.some.injEq] at hc
    subst hc
    exact TgtLe.append ((codeE_targets a n (n + 1) base ba hba).mono (by simp <;> omega))
      ((codeE_targets c dst n (base + ba.length) bc hbc).mono (by simp <;> omega))
  | .upd x inc false, dst, n, base, body, hc => by
    simp only [codeE] at hc
    split at hc
    · simp at hc
    split at hc
    · simp at hc
    simp only [Option.some.injEq] at hc
    subst hc
    intro op hop t ht
    simp only [List.mem_cons, List.mem_nil_iff, or_false] at hop
    rcases hop with rfl | rfl | rfl | rfl | rfl | rfl | rfl <;> simp [opTargets] at ht
  | .upd x inc true, dst, n, base, body, hc => by
    simp only [codeE] at hc
    split at hc
    · simp at hc
    simp only [Option.some.injEq] at hc
    subst hc
    intro op hop t ht
    simp only [List.mem_cons, List.mem_nil_iff, or_false] at hop
    rcases hop with rfl | rfl | rfl | rfl | rfl <;> simp [opTargets] at ht

mutual
theorem codeS_targets : ∀ (s : Stmt) (n base : Nat) (body : List Op), codeS s n base = some body →
    TgtLe body (base + body.length)
  | .expr e, n, base, body, hc => by
    simp only [codeS] at hc
    split at hc
    · simp at hc
    exact codeE_targets e n (n + 1) base body hc
  | .ite c t none, n, base, body, hc => by
    simp only [codeS] at hc
    split at hc
    · simp at hc
    split at hc
    · simp at hc
    rename_i hn bc hbc
    split at hc
    · simp at hc
    rename_i bt hbt
    simp only [Option.some.injEq] at hc
    subst hc
    have ihc := codeE_targets c n (n + 1) base bc hbc
    have iht := codeS_targets t n (base + bc.length + 1) bt hbt
    exact TgtLe.append (ihc.mono (by simp <;> omega)) (TgtLe.cons (by simp [opTargets] <;> omega) (iht.mono (by simp <;> omega)))
  | .ite c t (some f), n, base, body, hc => by
    simp only [codeS] at hc
    split at hc
    · simp at hc
    split at hc
    · simp at hc
    rename_i hn bc hbc
    split at hc
    · simp at hc
    rename_i bt hbt
    split at hc
    · simp at hc
    rename_i bf hbf
    simp only [Option.some.injEq] at hc
    subst hc
    have ihc := codeE_targets c n (n + 1) base bc hbc
    have iht := codeS_targets t n (base + bc.length + 1) bt hbt
    have ihf := codeS_targets f n (base + bc.length + 1 + bt.length + 1) bf hbf
    exact TgtLe.append (ihc.mono (by simp <;> omega)) (TgtLe.cons (by simp [opTargets] <;> omega)
      (TgtLe.append (iht.mono (by simp <;> omega)) (TgtLe.cons (by simp [opTargets] <;> omega) (ihf.mono (by simp <;> omega)))))
  | .while_ c b, n, base, body, hc => by
    simp only [codeS] at hc
    split at hc
    · simp at hc
    split at hc
    · simp at hc
    rename_i hn bc hbc
    split at hc
    · simp at hc
    rename_i bb hbb
    simp only [Option.some.injEq] at hc
    subst hc
    have ihc := codeE_targets c n (n + 1) base bc hbc
    have ihb := codeS_targets b n (base + bc.length + 1) bb hbb
    exact TgtLe.append (ihc.mono (by simp <;> omega)) (TgtLe.cons (by simp [opTargets] <;> omega)
      (TgtLe.append (ihb.mono (by simp <;> omega)) (TgtLe.cons (by simp [opTargets] <;> omega) (TgtLe.nil _))))
  | .doWhile b c, n, base, body, hc => by
    simp only [codeS] at hc
    split at hc
    · simp at hc
    rename_i bb hbb
    split at hc
    · simp at hc
    split at hc
    · simp at hc
    rename_i hn bc hbc
    simp only [Option.some.injEq] at hc
    subst hc
    have ihb := codeS_targets b n base bb hbb
    have ihc := codeE_targets c n (n + 1) (base + bb.length) bc hbc
    exact TgtLe.append (TgtLe.append (ihb.mono (by simp <;> omega)) (ihc.mono (by simp <;> omega)))
      (TgtLe.cons (by simp [opTargets] <;> omega) (TgtLe.nil _))
  | .block ss, n, base, body, hc => by
    simp only [codeS] at hc
    split at hc
    · simp at hc
    rename_i bs hbs
    simp only [Option.some.injEq] at hc
    subst hc
    exact TgtLe.cons (by simp [opTargets]) (TgtLe.append ((codeL_targets ss n (base + 1) bs hbs).mono (by simp <;> omega))
      (TgtLe.cons (by simp [opTargets]) (TgtLe.nil _)))
  | .empty, n, base, body, hc => by
    simp only [codeS, Option.some.injEq] at hc
    subst hc
    exact TgtLe.nil _
  | .throw_ e, n, base, body, hc => by
    simp only [codeS] at hc
    split at hc
    · simp at hc
    split at hc
    · simp at hc
    rename_i hn be hbe
    simp only [Option.some.injEq] at hc
    subst hc
    exact TgtLe.append ((codeE_targets e n (n + 1) base be hbe).mono (by simp <;> omega)) (TgtLe.cons (by simp [opTargets]) (TgtLe.nil _))
  | .tryCatch tb hb, n, base, body, hc => by
    simp only [codeS] at hc
    split at hc
    · simp at hc
    rename_i bb hbb
    split at hc
    · simp at hc
    rename_i bh hbh
    simp only [Option.some.injEq] at hc
    subst hc
    have ihb := codeL_targets tb n (base + 2) bb hbb
    have ihh := codeL_targets hb n (base + 2 + bb.length + 3 + 1) bh hbh
    refine TgtLe.cons (by simp [opTargets] <;> omega) (TgtLe.cons (by simp [opTargets]) (TgtLe.append (ihb.mono (by simp <;> omega)) ?_))
    refine TgtLe.cons (by simp [opTargets]) (TgtLe.cons (by simp [opTargets]) (TgtLe.cons (by simp [opTargets] <;> omega) (TgtLe.cons (by simp [opTargets]) ?_)))
    exact TgtLe.append (ihh.mono (by simp <;> omega)) (TgtLe.cons (by simp [opTargets]) (TgtLe.cons (by simp [opTargets] <;> omega) (TgtLe.nil _)))

theorem codeL_targets : ∀ (ss : List Stmt) (n base : Nat) (body : List Op), codeL ss n base = some body →
    TgtLe body (base + body.length)
  | [], n, base, body, hc => by
    simp only [codeL, Option.some.injEq] at hc
    subst hc
    exact TgtLe.nil _
  | s :: rest, n, base, body, hc => by
    simp only [codeL] at hc
    split at hc
    · simp at hc
    rename_i b1 hb1
    split at hc
    · simp at hc
    rename_i b2 hb2
    simp only [Option.some.injEq] at hc
    subst hc
    exact TgtLe.append ((codeS_targets s n base b1 hb1).mono (by simp <;> omega))
      ((codeL_targets rest n (base + b1.length) b2 hb2).mono (by simp <;> omega))
end

end TsrunVerif.Compile
