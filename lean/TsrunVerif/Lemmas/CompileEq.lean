import TsrunVerif.Lemmas.Compile

/-!
`compileE` / `compileS` (the line-by-line mirror of the Rust compiler: register allocator, jump
placeholders, `patch_jump`) emit exactly the structured code `codeE` / `codeS`, and leave the
register allocator as they found it (stack discipline), when started with an empty free list.
-/
set_option linter.unusedSimpArgs false
set_option linter.unusedVariables false

namespace TsrunVerif.Compile
open TsrunVerif.RegAlloc

/-- what a compile function did to the builder: appended `body`, restored the allocator -/
def Rel (b b' : B) (body : List Op) : Prop :=
  b'.code = b.code ++ body ∧ b'.ra.next = b.ra.next ∧ b'.ra.free = [] ∧ b'.ra.saved = b.ra.saved ∧
    b.ra.maxUsed ≤ b'.ra.maxUsed

theorem alloc_eq (b : B) (hf : b.ra.free = []) :
    b.alloc = if b.ra.next = 255 then none else
      some (b.ra.next, { b with ra := { b.ra with next := b.ra.next + 1, maxUsed := max b.ra.maxUsed (b.ra.next + 1) } }) := by
  simp only [B.alloc, RegAlloc.alloc, hf]
  by_cases h : b.ra.next = 255
  · simp [h]
  · simp [h]

theorem alloc_some {b b1 : B} {r : Reg} (hf : b.ra.free = []) (h : b.alloc = some (r, b1)) :
    b.ra.next ≠ 255 ∧ r = b.ra.next ∧ b1.code = b.code ∧ b1.ra.next = b.ra.next + 1 ∧ b1.ra.free = [] ∧
      b1.ra.saved = b.ra.saved ∧ b.ra.maxUsed ≤ b1.ra.maxUsed := by
  rw [alloc_eq b hf] at h
  split at h
  · simp at h
  · rename_i hne
    simp only [Option.some.injEq, Prod.mk.injEq] at h
    obtain ⟨rfl, rfl⟩ := h
    exact ⟨hne, rfl, rfl, rfl, hf, rfl, Nat.le_max_left _ _⟩

theorem alloc_none {b : B} (hf : b.ra.free = []) (h : b.alloc = none) : b.ra.next = 255 := by
  rw [alloc_eq b hf] at h
  split at h
  · assumption
  · simp at h

theorem free_top {b : B} {r : Reg} (h : b.ra.next = r + 1) :
    (b.free r).code = b.code ∧ (b.free r).ra.next = r ∧ (b.free r).ra.free = b.ra.free ∧
      (b.free r).ra.saved = b.ra.saved ∧ (b.free r).ra.maxUsed = b.ra.maxUsed := by
  simp [B.free, RegAlloc.free, h]

@[simp] theorem emit_code (b : B) (op : Op) : (b.emit op).code = b.code ++ [op] := rfl
@[simp] theorem emit_ra (b : B) (op : Op) : (b.emit op).ra = b.ra := rfl
@[simp] theorem patch_ra (b : B) (i : Nat) : (b.patch i).ra = b.ra := rfl

theorem modify_mid (pre rest : List Op) (ph : Op) (f : Op → Op) :
    (pre ++ ph :: rest).modify pre.length f = pre ++ f ph :: rest := by
  induction pre with
  | nil => simp [List.modify]
  | cons x xs ih => simp [List.modify_cons, ih]

@[simp] theorem patchTo_ra (b : B) (i t : Nat) : (b.patchTo i t).ra = b.ra := rfl
@[simp] theorem patchTry_ra (b : B) (i t : Nat) : (b.patchTry i t).ra = b.ra := rfl

theorem modify_at (l pre rest : List Op) (ph : Op) (f : Op → Op) (i : Nat) (hl : l = pre ++ ph :: rest)
    (hi : i = pre.length) : l.modify i f = pre ++ f ph :: rest := by
  subst hl hi
  exact modify_mid pre rest ph f

theorem patch_code (b : B) (pre rest : List Op) (ph : Op) (h : b.code = pre ++ ph :: rest) :
    (b.patch pre.length).code = pre ++ retarget ph (pre.length + 1 + rest.length) :: rest := by
  simp only [B.patch, h, modify_mid]
  have : (pre ++ ph :: rest).length = pre.length + 1 + rest.length := by simp; omega
  rw [this]

end TsrunVerif.Compile

namespace TsrunVerif.Compile
open TsrunVerif.RegAlloc

theorem free_facts (b1 : B) (n : Nat) (h : b1.ra.next = n + 1) :
    (b1.free n).code = b1.code ∧ (b1.free n).ra.next = n ∧ (b1.free n).ra.free = b1.ra.free ∧
      (b1.free n).ra.saved = b1.ra.saved ∧ (b1.free n).ra.maxUsed = b1.ra.maxUsed := by
  simp [B.free, RegAlloc.free, h]

/-- both refuse, or both succeed with the same code and the allocator restored -/
def Agree (r : Option B) (c : Option (List Op)) (b : B) : Prop :=
  (r = none ∧ c = none) ∨ ∃ b' body, r = some b' ∧ c = some body ∧ Rel b b' body

/-- the builder after a successful `alloc` -/
def B.bump (b : B) : B :=
  { b with ra := { b.ra with next := b.ra.next + 1, maxUsed := max b.ra.maxUsed (b.ra.next + 1) } }

@[simp] theorem bump_code (b : B) : b.bump.code = b.code := rfl
@[simp] theorem bump_next (b : B) : b.bump.ra.next = b.ra.next + 1 := rfl
@[simp] theorem bump_free (b : B) : b.bump.ra.free = b.ra.free := rfl
@[simp] theorem bump_saved (b : B) : b.bump.ra.saved = b.ra.saved := rfl
@[simp] theorem bump_max (b : B) : b.bump.ra.maxUsed = max b.ra.maxUsed (b.ra.next + 1) := rfl

theorem alloc_eq' (b : B) (hf : b.ra.free = []) :
    b.alloc = if b.ra.next = 255 then none else some (b.ra.next, b.bump) := alloc_eq b hf

theorem compileE_eq : ∀ (e : Expr) (dst : Reg) (b : B), b.ra.free = [] →
    Agree (compileE e dst b) (codeE e dst b.ra.next b.code.length) b
  | .lit l, dst, b, hf => by
    refine Or.inr ⟨b.emit (litOp dst l), [litOp dst l], by simp [compileE], by simp [codeE], ?_⟩
    simp [Rel, hf]
  | .var x, dst, b, hf => by
    refine Or.inr ⟨b.emit (.getVar dst x), [.getVar dst x], by simp [compileE], by simp [codeE], ?_⟩
    simp [Rel, hf]
  | .un op e, dst, b, hf => by
    simp only [compileE, codeE, alloc_eq' b hf]
    by_cases hn : b.ra.next = 255
    · exact Or.inl (by simp [hn])
    · simp only [hn, if_false, Option.bind_eq_bind, Option.bind_some]
      cases hq : typeofVar? op e with
      | some x =>
        refine Or.inr ⟨_, _, rfl, rfl, ?_⟩
        simp [Rel, B.free, RegAlloc.free, hf]
        omega
      | none =>
        have ih := compileE_eq e b.ra.next b.bump (by simpa using hf)
        rw [bump_next, bump_code] at ih
        rcases ih with ⟨h1, h2⟩ | ⟨b1, be, h1, h2, hr⟩
        · exact Or.inl (by simp [h1, h2])
        · refine Or.inr ⟨(b1.emit (.un op dst b.ra.next)).free b.ra.next, be ++ [.un op dst b.ra.next],
            by simp [h1], by simp [h2], ?_⟩
          obtain ⟨r1, r2, r3, r4, r5⟩ := hr
          simp only [bump_code, bump_next, bump_saved, bump_max] at r1 r2 r3 r4 r5
          simp [Rel, B.free, RegAlloc.free, r1, r2, r3, r4]
          omega
  | .bin op l r, dst, b, hf => by
    simp only [compileE, codeE, alloc_eq' b hf]
    by_cases hn : b.ra.next = 255
    · exact Or.inl (by simp [hn])
    simp only [hn, if_false, Option.bind_eq_bind, Option.bind_some]
    have ihl := compileE_eq l b.ra.next b.bump (by simpa using hf)
    rw [bump_next, bump_code] at ihl
    rcases ihl with ⟨h1, h2⟩ | ⟨b1, bl, h1, h2, hr1⟩
    · exact Or.inl (by simp [h1, h2])
    obtain ⟨c1, n1, f1, s1, m1⟩ := hr1
    simp only [bump_code, bump_next, bump_saved, bump_max] at c1 n1 f1 s1 m1
    simp only [h1, h2, Option.bind_some, alloc_eq' b1 f1, n1]
    by_cases hn1 : b.ra.next + 1 = 255
    · exact Or.inl (by simp [hn1])
    simp only [hn1, if_false, Option.bind_some]
    have ihr := compileE_eq r (b.ra.next + 1) b1.bump (by simpa using f1)
    rw [bump_next, bump_code, n1, c1, List.length_append] at ihr
    rcases ihr with ⟨h3, h4⟩ | ⟨b2, br, h3, h4, hr2⟩
    · exact Or.inl (by simp [h3, h4])
    obtain ⟨c2, n2, f2, s2, m2⟩ := hr2
    simp only [bump_code, bump_next, bump_saved, bump_max] at c2 n2 f2 s2 m2
    refine Or.inr ⟨((b2.emit (.bin op dst b.ra.next (b.ra.next + 1))).free (b.ra.next + 1)).free b.ra.next,
      bl ++ br ++ [.bin op dst b.ra.next (b.ra.next + 1)], by simp [h3], by simp [h4], ?_⟩
    simp [Rel, B.free, RegAlloc.free, c2, n2, n1, f2, s2, c1, s1]
    omega
  | .log op l r, dst, b, hf => by
    simp only [compileE, codeE]
    have ihl := compileE_eq l dst b hf
    rcases ihl with ⟨h1, h2⟩ | ⟨b1, bl, h1, h2, hr1⟩
    · exact Or.inl (by simp [h1, h2])
    obtain ⟨c1, n1, f1, s1, m1⟩ := hr1
    simp only [h1, h2, Option.bind_eq_bind, Option.bind_some]
    have ihr := compileE_eq r dst (b1.emit (skipOp op dst)) (by simpa using f1)
    simp only [emit_ra, emit_code, n1, c1, List.length_append, List.length_singleton] at ihr
    rcases ihr with ⟨h3, h4⟩ | ⟨b2, br, h3, h4, hr2⟩
    · exact Or.inl (by simp [h3, h4])
    obtain ⟨c2, n2, f2, s2, m2⟩ := hr2
    simp only [emit_ra, emit_code, List.length_append] at c2 n2 f2 s2 m2
    refine Or.inr ⟨b2.patch b1.code.length, bl ++ retarget (skipOp op dst) (b.code.length + bl.length + 1 + br.length) :: br,
      by simp [h3], by simp [h4], ?_⟩
    have hp := patch_code b2 (b.code ++ bl) br (skipOp op dst) (by rw [c2, c1]; simp)
    simp only [List.length_append] at hp
    refine ⟨?_, by simp [n2, n1], by simp [f2], by simp [s2, s1], by simp; omega⟩
    rw [c1, List.length_append, hp]
    simp
  | .cond c t f, dst, b, hf => by
    simp only [compileE, codeE, alloc_eq' b hf]
    by_cases hn : b.ra.next = 255
    · exact Or.inl (by simp [hn])
    simp only [hn, if_false, Option.bind_eq_bind, Option.bind_some]
    have ihc := compileE_eq c b.ra.next b.bump (by simpa using hf)
    rw [bump_next, bump_code] at ihc
    rcases ihc with ⟨h1, h2⟩ | ⟨b1, bc, h1, h2, hr1⟩
    · exact Or.inl (by simp [h1, h2])
    obtain ⟨c1, n1, f1, s1, m1⟩ := hr1
    simp only [bump_code, bump_next, bump_saved, bump_max] at c1 n1 f1 s1 m1
    simp only [h1, h2, Option.bind_some]
    obtain ⟨c3, n3, f3, s3, m3⟩ := free_facts (b1.emit (.jumpIfFalse b.ra.next 0)) b.ra.next (by simpa using n1)
    simp only [emit_code, emit_ra] at c3 n3 f3 s3 m3
    have iht := compileE_eq t dst ((b1.emit (.jumpIfFalse b.ra.next 0)).free b.ra.next) (by rw [f3, f1])
    rw [n3, c3, c1, List.length_append, List.length_append, List.length_singleton] at iht
    rcases iht with ⟨h3, h4⟩ | ⟨b4, bt, h3, h4, hr4⟩
    · exact Or.inl (by simp [h3, h4])
    obtain ⟨c4, n4, f4, s4, m4⟩ := hr4
    rw [c3] at c4
    rw [n3] at n4
    rw [s3] at s4
    rw [m3] at m4
    simp only [h3, h4, Option.bind_some]
    have hp6 := patch_code (b4.emit (.jump 0)) (b.code ++ bc) (bt ++ [.jump 0]) (.jumpIfFalse b.ra.next 0)
      (by rw [emit_code, c4, c1]; simp)
    rw [List.length_append, List.length_append, List.length_singleton] at hp6
    have hidx1 : b1.code.length = b.code.length + bc.length := by rw [c1, List.length_append]
    have ihf := compileE_eq f dst ((b4.emit (.jump 0)).patch b1.code.length) (by simpa using f4)
    rw [hidx1, patch_ra, emit_ra, n4, hp6] at ihf
    have hl6 : (b.code ++ bc ++ retarget (Op.jumpIfFalse b.ra.next 0) (b.code.length + bc.length + 1 + (bt.length + 1)) ::
        (bt ++ [Op.jump 0])).length = b.code.length + bc.length + 1 + bt.length + 1 := by
      simp; omega
    rw [hl6] at ihf
    rw [hidx1]
    rcases ihf with ⟨h5, h6⟩ | ⟨b7, bf, h5, h6, hr7⟩
    · exact Or.inl (by simp [h5, h6])
    obtain ⟨c7, n7, f7, s7, m7⟩ := hr7
    simp only [patch_ra, emit_ra] at n7 f7 s7 m7
    rw [hp6] at c7
    have hidx4 : b4.code.length = b.code.length + bc.length + 1 + bt.length := by
      rw [c4, c1]; simp; omega
    have hp8 := patch_code b7 (b.code ++ bc ++ retarget (Op.jumpIfFalse b.ra.next 0) (b.code.length + bc.length + 1 + (bt.length + 1)) :: bt)
      bf (.jump 0) (by rw [c7]; simp)
    have hl8 : (b.code ++ bc ++ retarget (Op.jumpIfFalse b.ra.next 0) (b.code.length + bc.length + 1 + (bt.length + 1)) :: bt).length
        = b.code.length + bc.length + 1 + bt.length := by
      simp; omega
    rw [hl8] at hp8
    refine Or.inr ⟨b7.patch b4.code.length,
      bc ++ .jumpIfFalse b.ra.next (b.code.length + bc.length + 1 + bt.length + 1) ::
        (bt ++ .jump (b.code.length + bc.length + 1 + bt.length + 1 + bf.length) :: bf), by simp [h5], by simp [h6], ?_⟩
    refine ⟨?_, by simp [n7, n4], by simp [f7], by simp [s7, s4, s1], by simp; omega⟩
    rw [hidx4, hp8]
    simp [retarget, Nat.add_assoc]
  | .seq a c, dst, b, hf => by
    simp only [compileE, codeE, alloc_eq' b hf]
    by_cases hn : b.ra.next = 255
    · exact Or.inl (by simp [hn])
    simp only [hn, if_false, Option.bind_eq_bind, Option.bind_some]
    have iha := compileE_eq a b.ra.next b.bump (by simpa using hf)
    rw [bump_next, bump_code] at iha
    rcases iha with ⟨h1, h2⟩ | ⟨b1, ba, h1, h2, hr1⟩
    · exact Or.inl (by simp [h1, h2])
    obtain ⟨c1, n1, f1, s1, m1⟩ := hr1
    simp only [bump_code, bump_next, bump_saved, bump_max] at c1 n1 f1 s1 m1
    simp only [h1, h2, Option.bind_some]
    obtain ⟨c3, n3, f3, s3, m3⟩ := free_facts b1 b.ra.next n1
    have ihc := compileE_eq c dst (b1.free b.ra.next) (by rw [f3, f1])
    rw [n3, c3, c1, List.length_append] at ihc
    rcases ihc with ⟨h3, h4⟩ | ⟨b4, bc, h3, h4, hr4⟩
    · exact Or.inl (by simp [h3, h4])
    obtain ⟨c4, n4, f4, s4, m4⟩ := hr4
    refine Or.inr ⟨b4, ba ++ bc, h3, by simp [h4], ?_⟩
    refine ⟨by rw [c4, c3, c1]; simp, by rw [n4, n3], f4, by rw [s4, s3, s1], by rw [m3] at m4; omega⟩
  | .asg x .assign e, dst, b, hf => by
    simp only [compileE, codeE]
    have ihe := compileE_eq e dst b hf
    rcases ihe with ⟨h1, h2⟩ | ⟨b1, be, h1, h2, hr⟩
    · exact Or.inl (by simp [h1, h2])
    obtain ⟨c1, n1, f1, s1, m1⟩ := hr
    refine Or.inr ⟨b1.emit (.setVar x dst), be ++ [.setVar x dst], by simp [h1], by simp [h2], ?_⟩
    exact ⟨by simp [c1], by simp [n1], by simp [f1], by simp [s1], by simpa using m1⟩
  | .asg x (.bin op) e, dst, b, hf => by
    simp only [compileE, codeE, alloc_eq' (b.emit (.getVar dst x)) (by simpa using hf), emit_ra]
    by_cases hn : b.ra.next = 255
    · exact Or.inl (by simp [hn])
    simp only [hn, if_false, Option.bind_eq_bind, Option.bind_some]
    have ihe := compileE_eq e b.ra.next (b.emit (.getVar dst x)).bump (by simpa using hf)
    rw [bump_next, bump_code, emit_ra, emit_code, List.length_append, List.length_singleton] at ihe
    rcases ihe with ⟨h1, h2⟩ | ⟨b1, be, h1, h2, hr⟩
    · exact Or.inl (by simp [h1, h2])
    obtain ⟨c1, n1, f1, s1, m1⟩ := hr
    simp only [bump_code, bump_next, bump_saved, bump_max, emit_ra, emit_code] at c1 n1 f1 s1 m1
    refine Or.inr ⟨((b1.emit (.bin op dst dst b.ra.next)).free b.ra.next).emit (.setVar x dst),
      .getVar dst x :: (be ++ [.bin op dst dst b.ra.next, .setVar x dst]), by simp [h1], by simp [h2], ?_⟩
    simp [Rel, B.free, RegAlloc.free, c1, n1, f1, s1]
    omega
  | .asg x .andA e, dst, b, hf => by
    simp only [compileE, codeE]
    have ihe := compileE_eq e dst ((b.emit (.getVar dst x)).emit (.jumpIfFalse dst 0)) (by simpa using hf)
    simp only [emit_ra, emit_code, List.length_append, List.length_singleton] at ihe
    rcases ihe with ⟨h1, h2⟩ | ⟨b2, be, h1, h2, hr⟩
    · exact Or.inl (by simp [h1, h2])
    obtain ⟨c2, n2, f2, s2, m2⟩ := hr
    simp only [emit_ra, emit_code] at c2 n2 f2 s2 m2
    have hp := patch_code b2 (b.code ++ [.getVar dst x]) be (.jumpIfFalse dst 0) (by rw [c2]; simp)
    rw [List.length_append, List.length_singleton] at hp
    refine Or.inr ⟨(b2.patch (b.code.length + 1)).emit (.setVar x dst),
      .getVar dst x :: .jumpIfFalse dst (b.code.length + 2 + be.length) :: (be ++ [.setVar x dst]), by simp [h1], by simp [h2], ?_⟩
    refine ⟨?_, by simp [n2], by simp [f2], by simp [s2], by simp; omega⟩
    rw [emit_code, hp]
    simp [retarget, Nat.add_assoc]
  | .asg x .orA e, dst, b, hf => by
    simp only [compileE, codeE]
    have ihe := compileE_eq e dst ((b.emit (.getVar dst x)).emit (.jumpIfTrue dst 0)) (by simpa using hf)
    simp only [emit_ra, emit_code, List.length_append, List.length_singleton] at ihe
    rcases ihe with ⟨h1, h2⟩ | ⟨b2, be, h1, h2, hr⟩
    · exact Or.inl (by simp [h1, h2])
    obtain ⟨c2, n2, f2, s2, m2⟩ := hr
    simp only [emit_ra, emit_code] at c2 n2 f2 s2 m2
    have hp := patch_code b2 (b.code ++ [.getVar dst x]) be (.jumpIfTrue dst 0) (by rw [c2]; simp)
    rw [List.length_append, List.length_singleton] at hp
    refine Or.inr ⟨(b2.patch (b.code.length + 1)).emit (.setVar x dst),
      .getVar dst x :: .jumpIfTrue dst (b.code.length + 2 + be.length) :: (be ++ [.setVar x dst]), by simp [h1], by simp [h2], ?_⟩
    refine ⟨?_, by simp [n2], by simp [f2], by simp [s2], by simp; omega⟩
    rw [emit_code, hp]
    simp [retarget, Nat.add_assoc]
  | .asg x .nullishA e, dst, b, hf => by
    simp only [compileE, codeE]
    have ihe := compileE_eq e dst ((b.emit (.getVar dst x)).emit (.jumpIfNotNullish dst 0)) (by simpa using hf)
    simp only [emit_ra, emit_code, List.length_append, List.length_singleton] at ihe
    rcases ihe with ⟨h1, h2⟩ | ⟨b2, be, h1, h2, hr⟩
    · exact Or.inl (by simp [h1, h2])
    obtain ⟨c2, n2, f2, s2, m2⟩ := hr
    simp only [emit_ra, emit_code] at c2 n2 f2 s2 m2
    have hp := patch_code b2 (b.code ++ [.getVar dst x]) be (.jumpIfNotNullish dst 0) (by rw [c2]; simp)
    rw [List.length_append, List.length_singleton] at hp
    refine Or.inr ⟨(b2.patch (b.code.length + 1)).emit (.setVar x dst),
      .getVar dst x :: .jumpIfNotNullish dst (b.code.length + 2 + be.length) :: (be ++ [.setVar x dst]), by simp [h1], by simp [h2], ?_⟩
    refine ⟨?_, by simp [n2], by simp [f2], by simp [s2], by simp; omega⟩
    rw [emit_code, hp]
    simp [retarget, Nat.add_assoc]
  | .upd x inc false, dst, b, hf => by
    simp only [compileE, codeE, emit_ra, alloc_eq' ((b.emit (.getVar dst x)).emit (.un .plus dst dst)) (by simpa using hf)]
    by_cases hn : b.ra.next = 255
    · exact Or.inl (by simp [hn])
    simp only [hn, if_false, Option.bind_eq_bind, Option.bind_some]
    rw [alloc_eq' _ (by simpa using hf)]
    simp only [emit_ra, bump_next]
    by_cases hn1 : b.ra.next + 1 = 255
    · exact Or.inl (by simp [hn1])
    simp only [hn1, if_false, Option.bind_some]
    refine Or.inr ⟨_, _, rfl, rfl, ?_⟩
    simp [Rel, B.free, RegAlloc.free, hf]
    omega
  | .upd x inc true, dst, b, hf => by
    simp only [compileE, codeE, emit_ra, alloc_eq' ((b.emit (.getVar dst x)).emit (.un .plus dst dst)) (by simpa using hf)]
    by_cases hn : b.ra.next = 255
    · exact Or.inl (by simp [hn])
    simp only [hn, if_false, Option.bind_eq_bind, Option.bind_some]
    refine Or.inr ⟨_, _, rfl, rfl, ?_⟩
    simp [Rel, B.free, RegAlloc.free, hf]
    omega

theorem save_restore (b b1 : B) (body : List Op) (hf : b.ra.free = [])
    (hr : Rel { b with ra := RegAlloc.save b.ra } b1 body) :
    Rel b { b1 with ra := RegAlloc.restore b1.ra } body := by
  obtain ⟨c1, n1, f1, s1, m1⟩ := hr
  simp only [RegAlloc.save] at c1 n1 f1 s1 m1
  refine ⟨c1, ?_, ?_, ?_, ?_⟩ <;> simp [RegAlloc.restore, s1, f1, m1]

mutual
theorem compileS_eq : ∀ (s : Stmt) (b : B), b.ra.free = [] →
    Agree (compileS s b) (codeS s b.ra.next b.code.length) b
  | s, b, hf => by
    have ih := compileInner_eq s { b with ra := RegAlloc.save b.ra } (by simpa [RegAlloc.save] using hf)
    simp only [RegAlloc.save] at ih
    rw [compileS]
    rcases ih with ⟨h1, h2⟩ | ⟨b1, body, h1, h2, hr⟩
    · exact Or.inl (by simp [RegAlloc.save, h1, h2])
    · exact Or.inr ⟨{ b1 with ra := RegAlloc.restore b1.ra }, body, by simp [RegAlloc.save, h1], h2,
        save_restore b b1 body hf hr⟩
termination_by s => (sizeOf s, 1)

theorem compileInner_eq : ∀ (s : Stmt) (b : B), b.ra.free = [] →
    Agree (compileInner s b) (codeS s b.ra.next b.code.length) b
  | .expr e, b, hf => by
    simp only [compileInner, codeS, alloc_eq' b hf]
    by_cases hn : b.ra.next = 255
    · exact Or.inl (by simp [hn])
    simp only [hn, if_false, Option.bind_eq_bind, Option.bind_some]
    have ih := compileE_eq e b.ra.next b.bump (by simpa using hf)
    rw [bump_next, bump_code] at ih
    rcases ih with ⟨h1, h2⟩ | ⟨b1, be, h1, h2, hr⟩
    · exact Or.inl (by simp [h1, h2])
    obtain ⟨c1, n1, f1, s1, m1⟩ := hr
    simp only [bump_code, bump_next, bump_saved, bump_max] at c1 n1 f1 s1 m1
    refine Or.inr ⟨b1.free b.ra.next, be, by simp [h1], h2, ?_⟩
    simp [Rel, B.free, RegAlloc.free, c1, n1, f1, s1]
    omega
  | .empty, b, hf => by
    exact Or.inr ⟨b, [], by simp [compileInner], by simp [codeS], by simp [Rel, hf]⟩
  | .block ss, b, hf => by
    simp only [compileInner, codeS]
    have ih := compileL_eq ss (b.emit .pushScope) (by simpa using hf)
    simp only [emit_ra, emit_code, List.length_append, List.length_singleton] at ih
    rcases ih with ⟨h1, h2⟩ | ⟨b1, bs, h1, h2, hr⟩
    · exact Or.inl (by simp [h1, h2])
    obtain ⟨c1, n1, f1, s1, m1⟩ := hr
    simp only [emit_ra, emit_code] at c1 n1 f1 s1 m1
    refine Or.inr ⟨b1.emit .popScope, .pushScope :: (bs ++ [.popScope]), by simp [h1], by simp [h2], ?_⟩
    exact ⟨by simp [c1], by simp [n1], by simp [f1], by simp [s1], by simpa using m1⟩
  | .ite c t none, b, hf => by
    simp only [compileInner, codeS, alloc_eq' b hf]
    by_cases hn : b.ra.next = 255
    · exact Or.inl (by simp [hn])
    simp only [hn, if_false, Option.bind_eq_bind, Option.bind_some]
    have ihc := compileE_eq c b.ra.next b.bump (by simpa using hf)
    rw [bump_next, bump_code] at ihc
    rcases ihc with ⟨h1, h2⟩ | ⟨b1, bc, h1, h2, hr1⟩
    · exact Or.inl (by simp [h1, h2])
    obtain ⟨c1, n1, f1, s1, m1⟩ := hr1
    simp only [bump_code, bump_next, bump_saved, bump_max] at c1 n1 f1 s1 m1
    simp only [h1, h2, Option.bind_some]
    obtain ⟨c3, n3, f3, s3, m3⟩ := free_facts (b1.emit (.jumpIfFalse b.ra.next 0)) b.ra.next (by simpa using n1)
    simp only [emit_code, emit_ra] at c3 n3 f3 s3 m3
    have iht := compileS_eq t ((b1.emit (.jumpIfFalse b.ra.next 0)).free b.ra.next) (by rw [f3, f1])
    rw [n3, c3, c1, List.length_append, List.length_append, List.length_singleton] at iht
    have hidx1 : b1.code.length = b.code.length + bc.length := by rw [c1, List.length_append]
    rw [hidx1]
    rcases iht with ⟨h3, h4⟩ | ⟨b4, bt, h3, h4, hr4⟩
    · exact Or.inl (by simp [h3, h4])
    obtain ⟨c4, n4, f4, s4, m4⟩ := hr4
    rw [c3] at c4
    rw [n3] at n4
    rw [s3] at s4
    rw [m3] at m4
    have hp := patch_code b4 (b.code ++ bc) bt (.jumpIfFalse b.ra.next 0) (by rw [c4, c1]; simp)
    rw [List.length_append] at hp
    refine Or.inr ⟨b4.patch (b.code.length + bc.length),
      bc ++ .jumpIfFalse b.ra.next (b.code.length + bc.length + 1 + bt.length) :: bt, by simp [h3], by simp [h4], ?_⟩
    refine ⟨?_, by simp [n4], by simp [f4], by simp [s4, s1], by simp; omega⟩
    rw [hp]
    simp [retarget]
  | .ite c t (some f), b, hf => by
    simp only [compileInner, codeS, alloc_eq' b hf]
    by_cases hn : b.ra.next = 255
    · exact Or.inl (by simp [hn])
    simp only [hn, if_false, Option.bind_eq_bind, Option.bind_some]
    have ihc := compileE_eq c b.ra.next b.bump (by simpa using hf)
    rw [bump_next, bump_code] at ihc
    rcases ihc with ⟨h1, h2⟩ | ⟨b1, bc, h1, h2, hr1⟩
    · exact Or.inl (by simp [h1, h2])
    obtain ⟨c1, n1, f1, s1, m1⟩ := hr1
    simp only [bump_code, bump_next, bump_saved, bump_max] at c1 n1 f1 s1 m1
    simp only [h1, h2, Option.bind_some]
    obtain ⟨c3, n3, f3, s3, m3⟩ := free_facts (b1.emit (.jumpIfFalse b.ra.next 0)) b.ra.next (by simpa using n1)
    simp only [emit_code, emit_ra] at c3 n3 f3 s3 m3
    have iht := compileS_eq t ((b1.emit (.jumpIfFalse b.ra.next 0)).free b.ra.next) (by rw [f3, f1])
    rw [n3, c3, c1, List.length_append, List.length_append, List.length_singleton] at iht
    rcases iht with ⟨h3, h4⟩ | ⟨b4, bt, h3, h4, hr4⟩
    · exact Or.inl (by simp [h3, h4])
    obtain ⟨c4, n4, f4, s4, m4⟩ := hr4
    rw [c3] at c4
    rw [n3] at n4
    rw [s3] at s4
    rw [m3] at m4
    simp only [h3, h4, Option.bind_some]
    have hp6 := patch_code (b4.emit (.jump 0)) (b.code ++ bc) (bt ++ [.jump 0]) (.jumpIfFalse b.ra.next 0)
      (by rw [emit_code, c4, c1]; simp)
    rw [List.length_append, List.length_append, List.length_singleton] at hp6
    have hidx1 : b1.code.length = b.code.length + bc.length := by rw [c1, List.length_append]
    have ihf := compileS_eq f ((b4.emit (.jump 0)).patch b1.code.length) (by simpa using f4)
    rw [hidx1, patch_ra, emit_ra, n4, hp6] at ihf
    have hl6 : (b.code ++ bc ++ retarget (Op.jumpIfFalse b.ra.next 0) (b.code.length + bc.length + 1 + (bt.length + 1)) ::
        (bt ++ [Op.jump 0])).length = b.code.length + bc.length + 1 + bt.length + 1 := by
      simp; omega
    rw [hl6] at ihf
    rw [hidx1]
    rcases ihf with ⟨h5, h6⟩ | ⟨b7, bf, h5, h6, hr7⟩
    · exact Or.inl (by simp [h5, h6])
    obtain ⟨c7, n7, f7, s7, m7⟩ := hr7
    simp only [patch_ra, emit_ra] at n7 f7 s7 m7
    rw [hp6] at c7
    have hidx4 : b4.code.length = b.code.length + bc.length + 1 + bt.length := by
      rw [c4, c1]; simp; omega
    have hp8 := patch_code b7 (b.code ++ bc ++ retarget (Op.jumpIfFalse b.ra.next 0) (b.code.length + bc.length + 1 + (bt.length + 1)) :: bt)
      bf (.jump 0) (by rw [c7]; simp)
    have hl8 : (b.code ++ bc ++ retarget (Op.jumpIfFalse b.ra.next 0) (b.code.length + bc.length + 1 + (bt.length + 1)) :: bt).length
        = b.code.length + bc.length + 1 + bt.length := by
      simp; omega
    rw [hl8] at hp8
    refine Or.inr ⟨b7.patch b4.code.length,
      bc ++ .jumpIfFalse b.ra.next (b.code.length + bc.length + 1 + bt.length + 1) ::
        (bt ++ .jump (b.code.length + bc.length + 1 + bt.length + 1 + bf.length) :: bf), by simp [h5], by simp [h6], ?_⟩
    refine ⟨?_, by simp [n7, n4], by simp [f7], by simp [s7, s4, s1], by simp; omega⟩
    rw [hidx4, hp8]
    simp [retarget, Nat.add_assoc]
  | .while_ c body, b, hf => by
    simp only [compileInner, codeS, alloc_eq' b hf]
    by_cases hn : b.ra.next = 255
    · exact Or.inl (by simp [hn])
    simp only [hn, if_false, Option.bind_eq_bind, Option.bind_some]
    have ihc := compileE_eq c b.ra.next b.bump (by simpa using hf)
    rw [bump_next, bump_code] at ihc
    rcases ihc with ⟨h1, h2⟩ | ⟨b1, bc, h1, h2, hr1⟩
    · exact Or.inl (by simp [h1, h2])
    obtain ⟨c1, n1, f1, s1, m1⟩ := hr1
    simp only [bump_code, bump_next, bump_saved, bump_max] at c1 n1 f1 s1 m1
    simp only [h1, h2, Option.bind_some]
    obtain ⟨c3, n3, f3, s3, m3⟩ := free_facts (b1.emit (.jumpIfFalse b.ra.next 0)) b.ra.next (by simpa using n1)
    simp only [emit_code, emit_ra] at c3 n3 f3 s3 m3
    have ihb := compileS_eq body ((b1.emit (.jumpIfFalse b.ra.next 0)).free b.ra.next) (by rw [f3, f1])
    rw [n3, c3, c1, List.length_append, List.length_append, List.length_singleton] at ihb
    have hidx1 : b1.code.length = b.code.length + bc.length := by rw [c1, List.length_append]
    rw [hidx1]
    rcases ihb with ⟨h3, h4⟩ | ⟨b4, bb, h3, h4, hr4⟩
    · exact Or.inl (by simp [h3, h4])
    obtain ⟨c4, n4, f4, s4, m4⟩ := hr4
    rw [c3] at c4
    rw [n3] at n4
    rw [s3] at s4
    rw [m3] at m4
    have hp := patch_code (b4.emit (.jump b.code.length)) (b.code ++ bc) (bb ++ [.jump b.code.length]) (.jumpIfFalse b.ra.next 0)
      (by rw [emit_code, c4, c1]; simp)
    rw [List.length_append, List.length_append, List.length_singleton] at hp
    refine Or.inr ⟨(b4.emit (.jump b.code.length)).patch (b.code.length + bc.length),
      bc ++ .jumpIfFalse b.ra.next (b.code.length + bc.length + 1 + bb.length + 1) :: (bb ++ [.jump b.code.length]),
      by simp [h3], by simp [h4], ?_⟩
    refine ⟨?_, by simp [n4], by simp [f4], by simp [s4, s1], by simp; omega⟩
    rw [hp]
    simp [retarget, Nat.add_assoc]
  | .doWhile body c, b, hf => by
    simp only [compileInner, codeS]
    have ihb := compileS_eq body b hf
    rcases ihb with ⟨h1, h2⟩ | ⟨b1, bb, h1, h2, hr1⟩
    · exact Or.inl (by simp [h1, h2])
    obtain ⟨c1, n1, f1, s1, m1⟩ := hr1
    simp only [h1, h2, Option.bind_eq_bind, Option.bind_some, alloc_eq' b1 f1, n1]
    by_cases hn : b.ra.next = 255
    · exact Or.inl (by simp [hn])
    simp only [hn, if_false, Option.bind_some]
    have ihc := compileE_eq c b.ra.next b1.bump (by simpa using f1)
    rw [bump_next, bump_code, n1, c1, List.length_append] at ihc
    rcases ihc with ⟨h3, h4⟩ | ⟨b2, bc, h3, h4, hr2⟩
    · exact Or.inl (by simp [h3, h4])
    obtain ⟨c2, n2, f2, s2, m2⟩ := hr2
    simp only [bump_code, bump_next, bump_saved, bump_max] at c2 n2 f2 s2 m2
    refine Or.inr ⟨(b2.emit (.jumpIfTrue b.ra.next b.code.length)).free b.ra.next,
      bb ++ bc ++ [.jumpIfTrue b.ra.next b.code.length], by simp [h3], by simp [h4], ?_⟩
    simp [Rel, B.free, RegAlloc.free, c2, n2, n1, f2, s2, c1, s1]
    omega
  | .throw_ e, b, hf => by
    simp only [compileInner, codeS, alloc_eq' b hf]
    by_cases hn : b.ra.next = 255
    · exact Or.inl (by simp [hn])
    simp only [hn, if_false, Option.bind_eq_bind, Option.bind_some]
    have ih := compileE_eq e b.ra.next b.bump (by simpa using hf)
    rw [bump_next, bump_code] at ih
    rcases ih with ⟨h1, h2⟩ | ⟨b1, be, h1, h2, hr⟩
    · exact Or.inl (by simp [h1, h2])
    obtain ⟨c1, n1, f1, s1, m1⟩ := hr
    simp only [bump_code, bump_next, bump_saved, bump_max] at c1 n1 f1 s1 m1
    refine Or.inr ⟨(b1.emit (.throw_ b.ra.next)).free b.ra.next, be ++ [.throw_ b.ra.next], by simp [h1], by simp [h2], ?_⟩
    simp [Rel, B.free, RegAlloc.free, c1, n1, f1, s1]
    omega
  | .tryCatch body handler, b, hf => by
    simp only [compileInner, codeS]
    have ihb := compileL_eq body ((b.emit (.pushTry 0)).emit .pushScope) (by simpa using hf)
    simp only [emit_ra, emit_code, List.length_append, List.length_singleton] at ihb
    rcases ihb with ⟨h1, h2⟩ | ⟨b2, bb, h1, h2, hr2⟩
    · exact Or.inl (by simp [h1, h2])
    obtain ⟨c2, n2, f2, s2, m2⟩ := hr2
    simp only [emit_ra, emit_code] at c2 n2 f2 s2 m2
    simp only [h1, h2, Option.bind_eq_bind, Option.bind_some]
    have ihh := compileL_eq handler ((((b2.emit .popScope).emit .popTry).emit (.jump 0)).emit .pushScope) (by simpa using f2)
    simp only [emit_ra, emit_code, n2, c2, List.length_append, List.length_singleton] at ihh
    have hbase : b.code.length + 1 + 1 + bb.length + 1 + 1 + 1 + 1 = b.code.length + 2 + bb.length + 3 + 1 := by omega
    rw [hbase] at ihh
    rcases ihh with ⟨h3, h4⟩ | ⟨b6, bh, h3, h4, hr6⟩
    · exact Or.inl (by simp [c2, h3, h4])
    obtain ⟨c6, n6, f6, s6, m6⟩ := hr6
    simp only [emit_ra, emit_code] at c6 n6 f6 s6 m6
    have hcomp : compileL handler ((((b2.emit .popScope).emit .popTry).emit (.jump 0)).emit .pushScope) = some b6 := by
      rw [← h3]
    simp only [hcomp, h4, Option.bind_some]
    -- the code before the three patches
    have c8 : ((b6.emit .popScope).emit (.jump 0)).code =
        b.code ++ .pushTry 0 :: .pushScope :: (bb ++ .popScope :: .popTry :: .jump 0 :: .pushScope :: (bh ++ [.popScope, .jump 0])) := by
      simp [c6, c2]
    have l2 : ((b2.emit .popScope).emit .popTry).code.length = b.code.length + 2 + bb.length + 2 := by
      simp [c2]; omega
    have l7 : (b6.emit .popScope).code.length = b.code.length + 2 + bb.length + 3 + 1 + bh.length + 1 := by
      simp [c6, c2]; omega
    have l8 : ((b6.emit .popScope).emit (.jump 0)).code.length = b.code.length + 2 + bb.length + 3 + 1 + bh.length + 2 := by
      simp [c6, c2]; omega
    have l4 : (((b2.emit .popScope).emit .popTry).emit (.jump 0)).code.length = b.code.length + 2 + bb.length + 3 := by
      simp [c2]; omega
    rw [l2, l7, l8, l4]
    have c9 : (((b6.emit .popScope).emit (.jump 0)).patchTo (b.code.length + 2 + bb.length + 2)
          (b.code.length + 2 + bb.length + 3 + 1 + bh.length + 2)).code =
        b.code ++ .pushTry 0 :: .pushScope :: (bb ++ .popScope :: .popTry ::
          .jump (b.code.length + 2 + bb.length + 3 + 1 + bh.length + 2) :: .pushScope :: (bh ++ [.popScope, .jump 0])) := by
      simp only [B.patchTo, c8]
      rw [modify_at _ (b.code ++ .pushTry 0 :: .pushScope :: (bb ++ [.popScope, .popTry])) (.pushScope :: (bh ++ [.popScope, .jump 0]))
        (.jump 0) _ _ (by simp) (by simp; omega)]
      simp [retarget]
    have c10 : ((((b6.emit .popScope).emit (.jump 0)).patchTo (b.code.length + 2 + bb.length + 2)
          (b.code.length + 2 + bb.length + 3 + 1 + bh.length + 2)).patchTo (b.code.length + 2 + bb.length + 3 + 1 + bh.length + 1)
          (b.code.length + 2 + bb.length + 3 + 1 + bh.length + 2)).code =
        b.code ++ .pushTry 0 :: .pushScope :: (bb ++ .popScope :: .popTry ::
          .jump (b.code.length + 2 + bb.length + 3 + 1 + bh.length + 2) :: .pushScope ::
            (bh ++ [.popScope, .jump (b.code.length + 2 + bb.length + 3 + 1 + bh.length + 2)])) := by
      rw [B.patchTo, c9]
      simp only []
      rw [modify_at _ (b.code ++ .pushTry 0 :: .pushScope :: (bb ++ .popScope :: .popTry ::
          .jump (b.code.length + 2 + bb.length + 3 + 1 + bh.length + 2) :: .pushScope :: (bh ++ [.popScope]))) [] (.jump 0) _ _
        (by simp) (by simp; omega)]
      simp [retarget]
    refine Or.inr ⟨_, _, rfl, rfl, ?_⟩
    refine ⟨?_, by simp [n6, n2], by simp [f6], by simp [s6, s2], by simp; omega⟩
    rw [B.patchTry, c10]
    simp only []
    rw [modify_at _ b.code (.pushScope :: (bb ++ .popScope :: .popTry ::
        .jump (b.code.length + 2 + bb.length + 3 + 1 + bh.length + 2) :: .pushScope ::
          (bh ++ [.popScope, .jump (b.code.length + 2 + bb.length + 3 + 1 + bh.length + 2)]))) (.pushTry 0) _ _
      (by simp) rfl]
termination_by s => (sizeOf s, 0)

theorem compileL_eq : ∀ (ss : List Stmt) (b : B), b.ra.free = [] →
    Agree (compileL ss b) (codeL ss b.ra.next b.code.length) b
  | [], b, hf => Or.inr ⟨b, [], by simp [compileL], by simp [codeL], by simp [Rel, hf]⟩
  | s :: rest, b, hf => by
    simp only [compileL, codeL]
    have ih1 := compileS_eq s b hf
    rcases ih1 with ⟨h1, h2⟩ | ⟨b1, body1, h1, h2, hr1⟩
    · exact Or.inl (by simp [h1, h2])
    obtain ⟨c1, n1, f1, s1, m1⟩ := hr1
    have ih2 := compileL_eq rest b1 f1
    rw [n1, c1, List.length_append] at ih2
    rcases ih2 with ⟨h3, h4⟩ | ⟨b2, body2, h3, h4, hr2⟩
    · exact Or.inl (by simp [h1, h2, h3, h4])
    obtain ⟨c2, n2, f2, s2, m2⟩ := hr2
    refine Or.inr ⟨b2, body1 ++ body2, by simp [h1, h3], by simp [h2, h4], ?_⟩
    exact ⟨by rw [c2, c1]; simp, by rw [n2, n1], f2, by rw [s2, s1], by omega⟩
termination_by ss => (sizeOf ss, 0)
end

end TsrunVerif.Compile
