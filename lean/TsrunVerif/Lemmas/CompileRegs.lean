import TsrunVerif.Lemmas.CompileNeed

/-!
Every register an emitted instruction names lies inside the window the construct was given: the
destination, or one of the `need e` registers above the next free one.  Hence a register file of
`needS s` registers (the chunk's `register_count`) is never indexed out of range.
-/
set_option linter.unusedSimpArgs false
set_option linter.unusedVariables false

namespace TsrunVerif.Compile

/-- the registers an instruction reads or writes -/
def opRegs : Op → List Nat
  | .loadNull d | .loadUndef d | .loadBool d _ | .loadInt d _ | .loadConstNum d _ | .loadConstStr d _ => [d]
  | .getVar d _ | .tryGetVar d _ => [d]
  | .setVar _ s => [s]
  | .move d s => [d, s]
  | .un _ d s => [d, s]
  | .bin _ d l r => [d, l, r]
  | .jump _ => []
  | .jumpIfTrue c _ | .jumpIfFalse c _ | .jumpIfNotNullish c _ => [c]
  | .pushScope | .popScope | .pushTry _ | .popTry | .halt => []
  | .throw_ s => [s]

/-- all registers of `body` are `dst` or in `[n, n + k)` -/
def RegsIn (body : List Op) (dst n k : Nat) : Prop :=
  ∀ op ∈ body, ∀ r ∈ opRegs op, r = dst ∨ (n ≤ r ∧ r < n + k)

theorem RegsIn.nil (dst n k : Nat) : RegsIn [] dst n k := by intro op h; simp at h

theorem RegsIn.append {a b : List Op} {dst n k : Nat} (ha : RegsIn a dst n k) (hb : RegsIn b dst n k) :
    RegsIn (a ++ b) dst n k := by
  intro op h r hr
  rcases List.mem_append.mp h with h | h
  · exact ha op h r hr
  · exact hb op h r hr

theorem RegsIn.cons {op : Op} {b : List Op} {dst n k : Nat} (ho : ∀ r ∈ opRegs op, r = dst ∨ (n ≤ r ∧ r < n + k))
    (hb : RegsIn b dst n k) : RegsIn (op :: b) dst n k := by
  intro op' h r hr
  rcases List.mem_cons.mp h with h | h
  · subst h; exact ho r hr
  · exact hb op' h r hr

theorem RegsIn.mono {b : List Op} {dst n k k' : Nat} (h : RegsIn b dst n k) (hk : k ≤ k') : RegsIn b dst n k' := by
  intro op ho r hr
  rcases h op ho r hr with h | h
  · exact Or.inl h
  · exact Or.inr ⟨h.1, by omega⟩

/-- a sub-expression compiled into the fresh register `n` with `n + 1` as the next free one -/
theorem RegsIn.sub {b : List Op} {dst n k : Nat} (h : RegsIn b n (n + 1) k) : RegsIn b dst n (1 + k) := by
  intro op ho r hr
  rcases h op ho r hr with h | h
  · exact Or.inr ⟨by omega, by omega⟩
  · exact Or.inr ⟨by omega, by omega⟩

/-- the same, one register further up (the right operand of a binary operator) -/
theorem RegsIn.sub2 {b : List Op} {dst n k : Nat} (h : RegsIn b (n + 1) (n + 2) k) : RegsIn b dst n (2 + k) := by
  intro op ho r hr
  rcases h op ho r hr with h | h
  · exact Or.inr ⟨by omega, by omega⟩
  · exact Or.inr ⟨by omega, by omega⟩

theorem regs_lit (dst : Reg) (l : Lit) : opRegs (litOp dst l) = [dst] := by
  cases l with
  | num z => simp only [litOp]; split <;> rfl
  | _ => rfl

theorem regs_retarget_skip (op : LogOp) (c t : Nat) : opRegs (retarget (skipOp op c) t) = [c] := by
  cases op <;> rfl

/-- **no instruction names a register outside the construct's window** -/
theorem codeE_regs : ∀ (e : Expr) (dst n base : Nat) (body : List Op), codeE e dst n base = some body →
    RegsIn body dst n (need e)
  | .lit l, dst, n, base, body, hc => by
    simp only [codeE, Option.some.injEq] at hc
    subst hc
    exact RegsIn.cons (by simp [regs_lit]) (RegsIn.nil _ _ _)
  | .var x, dst, n, base, body, hc => by
    simp only [codeE, Option.some.injEq] at hc
    subst hc
    exact RegsIn.cons (by simp [opRegs]) (RegsIn.nil _ _ _)
  | .un op e, dst, n, base, body, hc => by
    simp only [codeE] at hc
    split at hc
    · simp at hc
    split at hc
    · simp at hc
    rename_i hn be hbe
    simp only [Option.some.injEq] at hc
    subst hc
    simp only [need]
    cases hq : typeofVar? op e with
    | some x =>
      simp only [hq, Option.some.injEq] at hbe
      subst hbe
      refine RegsIn.cons (by simp [opRegs]) (RegsIn.cons (by simp [opRegs]) (RegsIn.nil _ _ _))
    | none =>
      simp only [hq] at hbe
      have ih := codeE_regs e n (n + 1) base be hbe
      exact RegsIn.append ih.sub (RegsIn.cons (by simp [opRegs]; omega) (RegsIn.nil _ _ _))
  | .bin op l r, dst, n, base, body, hc => by
    simp only [codeE] at hc
    split at hc
    · simp at hc
    split at hc
    · simp at hc
    rename_i hn bl hbl
    split at hc
    · simp at hc
    split at hc
    · simp at hc
    rename_i hn1 br hbr
    simp only [Option.some.injEq] at hc
    subst hc
    simp only [need]
    have ihl := (codeE_regs l n (n + 1) base bl hbl).sub (dst := dst)
    have ihr := (codeE_regs r (n + 1) (n + 2) (base + bl.length) br hbr).sub2 (dst := dst)
    exact RegsIn.append (RegsIn.append (ihl.mono (by omega)) (ihr.mono (by omega)))
      (RegsIn.cons (by simp [opRegs]; omega) (RegsIn.nil _ _ _))
  | .log op l r, dst, n, base, body, hc => by
    simp only [codeE] at hc
    split at hc
    · simp at hc
    rename_i bl hbl
    split at hc
    · simp at hc
    rename_i br hbr
    simp only [Option.some.injEq] at hc
    subst hc
    simp only [need]
    have ihl := codeE_regs l dst n base bl hbl
    have ihr := codeE_regs r dst n (base + bl.length + 1) br hbr
    exact RegsIn.append (ihl.mono (by omega)) (RegsIn.cons (by simp [regs_retarget_skip]) (ihr.mono (by omega)))
  | .cond c t f, dst, n, base, body, hc => by
    simp only [codeE] at hc
    split at hc
    · simp at hc
    split at hc
    · simp at hc
    rename_i hn bc hbc
    split at hc
    · simp at hc
    rename_i bt hbt
    split at hc
    · simp at hc
    rename_i bf hbf
    simp only [Option.some.injEq] at hc
    subst hc
    simp only [need]
    have ihc := (codeE_regs c n (n + 1) base bc hbc).sub (dst := dst)
    have iht := codeE_regs t dst n (base + bc.length + 1) bt hbt
    have ihf := codeE_regs f dst n (base + bc.length + 1 + bt.length + 1) bf hbf
    exact RegsIn.append (ihc.mono (by omega)) (RegsIn.cons (by simp [opRegs]; omega)
      (RegsIn.append (iht.mono (by omega)) (RegsIn.cons (by simp [opRegs]) (ihf.mono (by omega)))))
  | .asg x .assign e, dst, n, base, body, hc => by
    simp only [codeE] at hc
    split at hc
    · simp at hc
    rename_i be hbe
    simp only [Option.some.injEq] at hc
    subst hc
    simp only [need]
    exact RegsIn.append (codeE_regs e dst n base be hbe) (RegsIn.cons (by simp [opRegs]) (RegsIn.nil _ _ _))
  | .asg x (.bin op) e, dst, n, base, body, hc => by
    simp only [codeE] at hc
    split at hc
    · simp at hc
    split at hc
    · simp at hc
    rename_i hn be hbe
    simp only [Option.some.injEq] at hc
    subst hc
    simp only [need]
    have ih := (codeE_regs e n (n + 1) (base + 1) be hbe).sub (dst := dst)
    exact RegsIn.cons (by simp [opRegs]) (RegsIn.append ih
      (RegsIn.cons (by simp [opRegs]; omega) (RegsIn.cons (by simp [opRegs]) (RegsIn.nil _ _ _))))
  | .asg x .andA e, dst, n, base, body, hc => by
    simp only [codeE] at hc
    split at hc
    · simp at hc
    rename_i be hbe
    simp only [Option.some.injEq] at hc
    subst hc
    simp only [need]
    exact RegsIn.cons (by simp [opRegs]) (RegsIn.cons (by simp [opRegs])
      (RegsIn.append (codeE_regs e dst n (base + 2) be hbe) (RegsIn.cons (by simp [opRegs]) (RegsIn.nil _ _ _))))
  | .asg x .orA e, dst, n, base, body, hc => by
    simp only [codeE] at hc
    split at hc
    · simp at hc
    rename_i be hbe
    simp only [Option.some.injEq] at hc
    subst hc
    simp only [need]
    exact RegsIn.cons (by simp [opRegs]) (RegsIn.cons (by simp [opRegs])
      (RegsIn.append (codeE_regs e dst n (base + 2) be hbe) (RegsIn.cons (by simp [opRegs]) (RegsIn.nil _ _ _))))
  | .asg x .nullishA e, dst, n, base, body, hc => by
    simp only [codeE] at hc
    split at hc
    · simp at hc
    rename_i be hbe
    simp only [Option.some.injEq] at hc
    subst hc
    simp only [need]
    exact RegsIn.cons (by simp [opRegs]) (RegsIn.cons (by simp [opRegs])
      (RegsIn.append (codeE_regs e dst n (base + 2) be hbe) (RegsIn.cons (by simp [opRegs]) (RegsIn.nil _ _ _))))
  | .seq a c, dst, n, base, body, hc => by
    simp only [codeE] at hc
    split at hc
    · simp at hc
    split at hc
    · simp at hc
    rename_i hn ba hba
    split at hc
    · simp at hc
    rename_i bc hbc
    simp only [Option.some.injEq] at hc
    subst hc
    simp only [need]
    have iha := (codeE_regs a n (n + 1) base ba hba).sub (dst := dst)
    have ihc := codeE_regs c dst n (base + ba.length) bc hbc
    exact RegsIn.append (iha.mono (by omega)) (ihc.mono (by omega))
  | .upd x inc false, dst, n, base, body, hc => by
    simp only [codeE] at hc
    split at hc
    · simp at hc
    split at hc
    · simp at hc
    simp only [Option.some.injEq] at hc
    subst hc
    intro op hop r hr
    simp only [List.mem_cons, List.mem_nil_iff, or_false] at hop
    rcases hop with rfl | rfl | rfl | rfl | rfl | rfl | rfl <;> simp [opRegs, need] at hr ⊢ <;> omega
  | .upd x inc true, dst, n, base, body, hc => by
    simp only [codeE] at hc
    split at hc
    · simp at hc
    simp only [Option.some.injEq] at hc
    subst hc
    intro op hop r hr
    simp only [List.mem_cons, List.mem_nil_iff, or_false] at hop
    rcases hop with rfl | rfl | rfl | rfl | rfl <;> simp [opRegs, need] at hr ⊢ <;> omega

/-- all registers of `body` are in `[n, n + k)` -/
def Win (body : List Op) (n k : Nat) : Prop :=
  ∀ op ∈ body, ∀ r ∈ opRegs op, n ≤ r ∧ r < n + k

theorem Win.nil (n k : Nat) : Win [] n k := by intro op h; simp at h

theorem Win.append {a b : List Op} {n k : Nat} (ha : Win a n k) (hb : Win b n k) : Win (a ++ b) n k := by
  intro op h r hr
  rcases List.mem_append.mp h with h | h
  · exact ha op h r hr
  · exact hb op h r hr

theorem Win.cons {op : Op} {b : List Op} {n k : Nat} (ho : ∀ r ∈ opRegs op, n ≤ r ∧ r < n + k) (hb : Win b n k) :
    Win (op :: b) n k := by
  intro op' h r hr
  rcases List.mem_cons.mp h with h | h
  · subst h; exact ho r hr
  · exact hb op' h r hr

theorem Win.mono {b : List Op} {n k k' : Nat} (h : Win b n k) (hk : k ≤ k') : Win b n k' := by
  intro op ho r hr
  have := h op ho r hr
  exact ⟨this.1, by omega⟩

theorem RegsIn.win {b : List Op} {n k : Nat} (h : RegsIn b n (n + 1) k) : Win b n (1 + k) := by
  intro op ho r hr
  rcases h op ho r hr with h | h <;> omega

mutual
theorem codeS_regs : ∀ (s : Stmt) (n base : Nat) (body : List Op), codeS s n base = some body → Win body n (needS s)
  | .expr e, n, base, body, hc => by
    simp only [codeS] at hc
    split at hc
    · simp at hc
    simp only [needS]
    exact (codeE_regs e n (n + 1) base body hc).win
  | .ite c t none, n, base, body, hc => by
    simp only [codeS] at hc
    split at hc
    · simp at hc
    split at hc
    · simp at hc
    rename_i hn bc hbc
    split at hc
    · simp at hc
    rename_i bt hbt
    simp only [Option.some.injEq] at hc
    subst hc
    simp only [needS]
    have ihc := (codeE_regs c n (n + 1) base bc hbc).win
    have iht := codeS_regs t n (base + bc.length + 1) bt hbt
    exact Win.append (ihc.mono (by omega)) (Win.cons (by simp [opRegs]; omega) (iht.mono (by omega)))
  | .ite c t (some f), n, base, body, hc => by
    simp only [codeS] at hc
    split at hc
    · simp at hc
    split at hc
    · simp at hc
    rename_i hn bc hbc
    split at hc
    · simp at hc
    rename_i bt hbt
    split at hc
    · simp at hc
    rename_i bf hbf
    simp only [Option.some.injEq] at hc
    subst hc
    simp only [needS]
    have ihc := (codeE_regs c n (n + 1) base bc hbc).win
    have iht := codeS_regs t n (base + bc.length + 1) bt hbt
    have ihf := codeS_regs f n (base + bc.length + 1 + bt.length + 1) bf hbf
    exact Win.append (ihc.mono (by omega)) (Win.cons (by simp [opRegs]; omega)
      (Win.append (iht.mono (by omega)) (Win.cons (by simp [opRegs]) (ihf.mono (by omega)))))
  | .while_ c b, n, base, body, hc => by
    simp only [codeS] at hc
    split at hc
    · simp at hc
    split at hc
    · simp at hc
    rename_i hn bc hbc
    split at hc
    · simp at hc
    rename_i bb hbb
    simp only [Option.some.injEq] at hc
    subst hc
    simp only [needS]
    have ihc := (codeE_regs c n (n + 1) base bc hbc).win
    have ihb := codeS_regs b n (base + bc.length + 1) bb hbb
    exact Win.append (ihc.mono (by omega)) (Win.cons (by simp [opRegs]; omega)
      (Win.append (ihb.mono (by omega)) (Win.cons (by simp [opRegs]) (Win.nil _ _))))
  | .doWhile b c, n, base, body, hc => by
    simp only [codeS] at hc
    split at hc
    · simp at hc
    rename_i bb hbb
    split at hc
    · simp at hc
    split at hc
    · simp at hc
    rename_i hn bc hbc
    simp only [Option.some.injEq] at hc
    subst hc
    simp only [needS]
    have ihb := codeS_regs b n base bb hbb
    have ihc := (codeE_regs c n (n + 1) (base + bb.length) bc hbc).win
    exact Win.append (Win.append (ihb.mono (by omega)) (ihc.mono (by omega)))
      (Win.cons (by simp [opRegs]; omega) (Win.nil _ _))
  | .block ss, n, base, body, hc => by
    simp only [codeS] at hc
    split at hc
    · simp at hc
    rename_i bs hbs
    simp only [Option.some.injEq] at hc
    subst hc
    simp only [needS]
    exact Win.cons (by simp [opRegs]) (Win.append (codeL_regs ss n (base + 1) bs hbs) (Win.cons (by simp [opRegs]) (Win.nil _ _)))
  | .empty, n, base, body, hc => by
    simp only [codeS, Option.some.injEq] at hc
    subst hc
    exact Win.nil _ _
  | .throw_ e, n, base, body, hc => by
    simp only [codeS] at hc
    split at hc
    · simp at hc
    split at hc
    · simp at hc
    rename_i hn be hbe
    simp only [Option.some.injEq] at hc
    subst hc
    simp only [needS]
    exact Win.append (codeE_regs e n (n + 1) base be hbe).win (Win.cons (by simp [opRegs]; omega) (Win.nil _ _))
  | .tryCatch tb hb, n, base, body, hc => by
    simp only [codeS] at hc
    split at hc
    · simp at hc
    rename_i bb hbb
    split at hc
    · simp at hc
    rename_i bh hbh
    simp only [Option.some.injEq] at hc
    subst hc
    simp only [needS]
    have ihb := codeL_regs tb n (base + 2) bb hbb
    have ihh := codeL_regs hb n (base + 2 + bb.length + 3 + 1) bh hbh
    refine Win.cons (by simp [opRegs]) (Win.cons (by simp [opRegs]) (Win.append (ihb.mono (by omega)) ?_))
    refine Win.cons (by simp [opRegs]) (Win.cons (by simp [opRegs]) (Win.cons (by simp [opRegs]) (Win.cons (by simp [opRegs]) ?_)))
    exact Win.append (ihh.mono (by omega)) (Win.cons (by simp [opRegs]) (Win.cons (by simp [opRegs]) (Win.nil _ _)))

theorem codeL_regs : ∀ (ss : List Stmt) (n base : Nat) (body : List Op), codeL ss n base = some body → Win body n (needL ss)
  | [], n, base, body, hc => by
    simp only [codeL, Option.some.injEq] at hc
    subst hc
    exact Win.nil _ _
  | s :: rest, n, base, body, hc => by
    simp only [codeL] at hc
    split at hc
    · simp at hc
    rename_i b1 hb1
    split at hc
    · simp at hc
    rename_i b2 hb2
    simp only [Option.some.injEq] at hc
    subst hc
    simp only [needL]
    exact Win.append ((codeS_regs s n base b1 hb1).mono (by omega)) ((codeL_regs rest n (base + b1.length) b2 hb2).mono (by omega))
end

end TsrunVerif.Compile
