/-! committed allowlists for `Gen/Globals.lean` (hand-written, reviewed). -/
namespace TsrunVerif.Gen

/-- process-global mutable state that is allowed: none. -/
def allowedGlobals : List String := []

/-- iterations over address-keyed tables whose order cannot reach an observable result:
the GC marker visiting the bindings of an environment (marking is order-insensitive). -/
def allowedAddrKeyedIterations : List String :=
  ["src/value.rs:for binding in env_data.bindings.values() {"]

end TsrunVerif.Gen
