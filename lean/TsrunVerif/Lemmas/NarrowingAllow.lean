/-! committed, reviewed list of the narrowing casts in the compiler (`Gen/Narrowing.lean` is regenerated from
/repo/src/compiler on every run).  Each site was read: the value cast is bounded by an explicit check before it
(`reserve_registers` / `alloc_register` refuse more than 255 registers, `add_constant` refuses more than 65535
constants, argument / element / parameter counts are compared with 255 before the loop that casts the index,
scope depths are clamped with `min(u8::MAX)`, jump targets are instruction counts of a chunk whose length is
checked).  A narrowing cast that is not on this list breaks `narrowing_reviewed`. -/
namespace TsrunVerif.Gen

/-- with multiplicity: a function that casts the same expression twice is listed twice -/
def reviewedNarrowing : List String :=
  ["builder.rs::emit_jump_to::target as JumpTarget",
   "builder.rs::patch_jump::self.code.len() as JumpTarget",
   "builder.rs::patch_jump_to::self.scope_depth.min(u8::MAXasusize) as u8",
   "builder.rs::patch_jump_to::self.scope_depth.min(u8::MAXasusize) as u8",
   "builder.rs::add_constant::self.constants.len() as ConstantIndex",
   "compile_expr.rs::compile_array_expression::i as u8",
   "compile_expr.rs::compile_array_expression::count as u16",
   "compile_expr.rs::compile_arguments::i as u8",
   "compile_expr.rs::compile_arguments::argc as u8",
   "compile_expr.rs::compile_tagged_template::i as u8",
   "compile_expr.rs::compile_tagged_template::exprs_count as u8",
   "compile_expr.rs::compile_arrow_expression_body::idx as u8",
   "compile_expr.rs::compile_arrow_expression_body::idx as u8",
   "compile_expr.rs::compile_arrow_expression_body::idx as u8",
   "compile_expr.rs::compile_arrow_expression_body::idx as u8",
   "compile_pattern.rs::compile_array_pattern_binding::i as u8",
   "compile_pattern.rs::compile_array_pattern_assignment::i as u8",
   "compile_stmt.rs::compile_function_body::idx as u8",
   "compile_stmt.rs::compile_function_body::params.len() as u8",
   "compile_stmt.rs::compile_function_body::params.len() as u8",
   "compile_stmt.rs::compile_class_body_with_name::param_index as u8",
   "compile_stmt.rs::compile_class_method::param_index as u8",
   "compile_stmt.rs::compile_constructor_body::idx as u8",
   "mod.rs::set_continue_target::target as JumpTarget",
   "mod.rs::add_break_jump::ctx.try_depth as u8",
   "mod.rs::add_continue_jump::unwrap_or(0) as u8",
   "mod.rs::add_continue_jump::ctx.continue_scope_depth.min(u8::MAXasusize) as u8"]

end TsrunVerif.Gen
