import TsrunVerif.Model.Heap

/-! Soundness, completeness and termination of the explicit-stack marker. -/
namespace TsrunVerif.Heap

/-- reachability from the roots of live guards through links of non-pooled slots. -/
inductive Reach (h : Heap) : Nat → Prop
  | root {i} : i ∈ rootsOf h → Reach h i
  | step {i j} : Reach h i → j ∈ succs h i → Reach h j

theorem markLoop_sound (h : Heap) :
    ∀ (fuel : Nat) (stack marked m : List Nat),
      (∀ i ∈ stack, Reach h i) → (∀ i ∈ marked, Reach h i) →
      markLoop h fuel stack marked = some m → ∀ i ∈ m, Reach h i := by
  intro fuel
  induction fuel with
  | zero =>
    intro stack marked m hs hm hr
    cases stack with
    | nil => simp [markLoop] at hr; subst hr; exact hm
    | cons a t => simp [markLoop] at hr
  | succ f ih =>
    intro stack marked m hs hm hr
    cases stack with
    | nil => simp [markLoop] at hr; subst hr; exact hm
    | cons a t =>
      simp only [markLoop] at hr
      split at hr
      · exact ih t marked m (fun i hi => hs i (by simp [hi])) hm hr
      · refine ih _ _ m ?_ ?_ hr
        · intro i hi
          rcases List.mem_append.mp hi with h1 | h1
          · exact Reach.step (hs a (by simp)) (List.mem_filter.mp h1).1
          · exact hs i (by simp [h1])
        · intro i hi
          rcases List.mem_cons.mp hi with h1 | h1
          · subst h1; exact hs i (by simp)
          · exact hm i h1

/-- grey/black invariant: successors of marked nodes are marked or on the stack. -/
def Closedish (h : Heap) (stack marked : List Nat) : Prop :=
  ∀ i ∈ marked, ∀ j ∈ succs h i, j ∈ marked ∨ j ∈ stack

theorem markLoop_mono (h : Heap) :
    ∀ (fuel : Nat) (stack marked m : List Nat),
      markLoop h fuel stack marked = some m → ∀ i ∈ marked, i ∈ m := by
  intro fuel
  induction fuel with
  | zero =>
    intro stack marked m hr
    cases stack with
    | nil => simp [markLoop] at hr; subst hr; exact fun _ h => h
    | cons a t => simp [markLoop] at hr
  | succ f ih =>
    intro stack marked m hr
    cases stack with
    | nil => simp [markLoop] at hr; subst hr; exact fun _ h => h
    | cons a t =>
      simp only [markLoop] at hr
      split at hr
      · exact ih t marked m hr
      · intro i hi
        exact ih _ _ m hr i (by simp [hi])

theorem markLoop_closed (h : Heap) :
    ∀ (fuel : Nat) (stack marked m : List Nat),
      Closedish h stack marked →
      markLoop h fuel stack marked = some m →
      (Closedish h [] m ∧ ∀ i ∈ stack, i ∈ m) := by
  intro fuel
  induction fuel with
  | zero =>
    intro stack marked m hc hr
    cases stack with
    | nil => simp [markLoop] at hr; subst hr; exact ⟨hc, by simp⟩
    | cons a t => simp [markLoop] at hr
  | succ f ih =>
    intro stack marked m hc hr
    cases stack with
    | nil => simp [markLoop] at hr; subst hr; exact ⟨hc, by simp⟩
    | cons a t =>
      simp only [markLoop] at hr
      split at hr
      · rename_i hmem
        have hc' : Closedish h t marked := by
          intro i hi j hj
          rcases hc i hi j hj with h1 | h1
          · exact Or.inl h1
          · rcases List.mem_cons.mp h1 with h2 | h2
            · subst h2; exact Or.inl hmem
            · exact Or.inr h2
        obtain ⟨h1, h2⟩ := ih t marked m hc' hr
        refine ⟨h1, ?_⟩
        intro i hi
        rcases List.mem_cons.mp hi with h3 | h3
        · subst h3; exact markLoop_mono h f t marked m hr i hmem
        · exact h2 i h3
      · rename_i hmem
        have hc' : Closedish h ((succs h a).filter (fun j => !(marked.contains j)) ++ t) (a :: marked) := by
          intro i hi j hj
          rcases List.mem_cons.mp hi with h1 | h1
          · subst h1
            by_cases hjm : j ∈ marked
            · exact Or.inl (by simp [hjm])
            · right
              apply List.mem_append.mpr; left
              apply List.mem_filter.mpr
              exact ⟨hj, by simp [hjm]⟩
          · rcases hc i h1 j hj with h2 | h2
            · exact Or.inl (by simp [h2])
            · rcases List.mem_cons.mp h2 with h3 | h3
              · subst h3; exact Or.inl (by simp)
              · exact Or.inr (by simp [h3])
        obtain ⟨h1, h2⟩ := ih _ _ m hc' hr
        refine ⟨h1, ?_⟩
        intro i hi
        rcases List.mem_cons.mp hi with h3 | h3
        · subst h3
          exact markLoop_mono h f _ _ m hr i (by simp)
        · exact h2 i (by simp [h3])

theorem mark_sound (h : Heap) (m : List Nat) (hm : mark h = some m) :
    ∀ i ∈ m, Reach h i :=
  markLoop_sound h _ _ _ m (fun _ hi => Reach.root hi) (by simp) hm

theorem mark_complete (h : Heap) (m : List Nat) (hm : mark h = some m) :
    ∀ i, Reach h i → i ∈ m := by
  obtain ⟨hc, hroots⟩ := markLoop_closed h _ _ _ m (by intro i hi; simp at hi) hm
  intro i hr
  induction hr with
  | root hi => exact hroots _ hi
  | step _ hj ih =>
    rcases hc _ ih _ hj with h1 | h1
    · exact h1
    · simp at h1

/-! ### termination: `markFuel` is enough -/

theorem succs_lt (h : Heap) (i j : Nat) (hj : j ∈ succs h i) : j < h.slots.length := by
  unfold succs at hj
  split at hj
  · have := (List.mem_filter.mp hj).2
    unfold pooledAt at this
    split at this
    · rename_i s' hs'
      exact (List.getElem?_eq_some_iff.mp hs').1
    · simp at this
  · simp at hj

theorem succs_length_le (h : Heap) (i : Nat) : (succs h i).length ≤ outdeg h i := by
  unfold succs outdeg
  split
  · exact List.length_filter_le _ _
  · simp

theorem rootsOf_lt (h : Heap) (i : Nat) (hi : i ∈ rootsOf h) : i < h.slots.length := by
  unfold rootsOf at hi
  have := (List.mem_filter.mp hi).2
  unfold pooledAt at this
  split at this
  · rename_i s' hs'
    exact (List.getElem?_eq_some_iff.mp hs').1
  · simp at this

/-- removing an unmarked in-range index from the unmarked set lowers the weight by its share. -/
theorem sum_filter_remove (f : Nat → Nat) (l : List Nat) (hnd : l.Nodup) (marked : List Nat) (a : Nat)
    (ha : a ∈ l) (ham : a ∉ marked) :
    ((l.filter (fun i => !((a :: marked).contains i))).map f).sum + f a
      = ((l.filter (fun i => !(marked.contains i))).map f).sum := by
  induction l with
  | nil => simp at ha
  | cons x xs ih =>
    have hnd' := (List.nodup_cons.mp hnd)
    by_cases hxa : x = a
    · subst hxa
      have hnot : x ∉ xs := hnd'.1
      have heq : xs.filter (fun i => !((x :: marked).contains i)) = xs.filter (fun i => !(marked.contains i)) := by
        apply List.filter_congr
        intro y hy
        have : y ≠ x := fun e => hnot (e ▸ hy)
        simp [this]
      have h1 : (x :: xs).filter (fun i => !((x :: marked).contains i))
          = xs.filter (fun i => !(marked.contains i)) := by
        rw [List.filter_cons_of_neg (by simp), heq]
      have h2 : (x :: xs).filter (fun i => !(marked.contains i))
          = x :: xs.filter (fun i => !(marked.contains i)) := by
        rw [List.filter_cons_of_pos (by simp [ham])]
      rw [h1, h2]
      simp only [List.map_cons, List.sum_cons]
      omega
    · have ha' : a ∈ xs := by
        rcases List.mem_cons.mp ha with h1 | h1
        · exact absurd h1.symm hxa
        · exact h1
      have := ih hnd'.2 ha'
      by_cases hxm : x ∈ marked
      · simp [hxm, hxa] at this ⊢
        exact this
      · simp [hxm, hxa] at this ⊢
        omega

theorem weight_cons (h : Heap) (marked : List Nat) (a : Nat) (ha : a < h.slots.length) (ham : a ∉ marked) :
    weight h (a :: marked) + (outdeg h a + 1) = weight h marked := by
  unfold weight
  exact sum_filter_remove (fun i => outdeg h i + 1) _ List.nodup_range marked a (List.mem_range.mpr ha) ham

theorem markLoop_terminates (h : Heap) :
    ∀ (fuel : Nat) (stack marked : List Nat),
      stack.length + weight h marked ≤ fuel → (∀ i ∈ stack, i < h.slots.length) →
      (markLoop h fuel stack marked).isSome := by
  intro fuel
  induction fuel with
  | zero =>
    intro stack marked hf _
    cases stack with
    | nil => simp [markLoop]
    | cons a t => simp at hf
  | succ f ih =>
    intro stack marked hf hlt
    cases stack with
    | nil => simp [markLoop]
    | cons a t =>
      simp only [markLoop]
      split
      · apply ih
        · simp at hf; omega
        · intro i hi; exact hlt i (by simp [hi])
      · rename_i ham
        apply ih
        · have hw := weight_cons h marked a (hlt a (by simp)) ham
          have hl : ((succs h a).filter (fun j => !(marked.contains j))).length ≤ outdeg h a :=
            Nat.le_trans (List.length_filter_le _ _) (succs_length_le h a)
          simp only [List.length_append, List.length_cons] at hf ⊢
          omega
        · intro i hi
          rcases List.mem_append.mp hi with h1 | h1
          · exact succs_lt h a i (List.mem_filter.mp h1).1
          · exact hlt i (by simp [h1])

theorem mark_terminates (h : Heap) : (mark h).isSome := by
  unfold mark
  apply markLoop_terminates
  · unfold markFuel; omega
  · exact rootsOf_lt h

end TsrunVerif.Heap
