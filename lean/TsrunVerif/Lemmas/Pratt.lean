import TsrunVerif.Model.Pratt

/-! Lemmas for M-Pratt: fuel monotonicity, the loop lemma, parse ∘ yield. -/
namespace TsrunVerif.Pratt

variable (t : Tbl)

theorem parseBin_succ (f m : Nat) (ts : List Tok) :
    parseBin t (f+1) m ts = (match parseUn t f ts with
      | none => none
      | some (l, rest) => loop t f m l rest) := by rw [parseBin]; rfl

theorem loop_op (f m : Nat) (left : E) (k : Nat) (rest : List Tok) :
    loop t (f+1) m left (.op k :: rest) =
      if t.prec k < m then some (left, .op k :: rest)
      else match parseBin t f (t.inner k) rest with
        | none => none
        | some (r, rest') => loop t f m (.bin k left r) rest' := by rw [loop]; rfl

/-- the head of `ts` is not a binary operator -/
def NoOp : List Tok → Prop
  | .op _ :: _ => False
  | _ => True

theorem loop_noop (f m : Nat) (left : E) (ts : List Tok) (h : NoOp ts) :
    loop t (f+1) m left ts = some (left, ts) := by
  match ts, h with
  | [], _ => rw [loop] <;> nofun
  | .atom _ :: _, _ => rw [loop] <;> nofun
  | .pre _ :: _, _ => rw [loop] <;> nofun
  | .lp :: _, _ => rw [loop] <;> nofun
  | .rp :: _, _ => rw [loop] <;> nofun

theorem parseUn_atom (f n : Nat) (rest : List Tok) :
    parseUn t (f+1) (.atom n :: rest) = some (.atom n, rest) := by rw [parseUn]

theorem parseUn_pre (f u : Nat) (rest : List Tok) :
    parseUn t (f+1) (.pre u :: rest) = (match parseUn t f rest with
       | none => none
       | some (e, rest') => some (.un u e, rest')) := by rw [parseUn]; rfl

theorem parseUn_lp (f : Nat) (rest : List Tok) :
    parseUn t (f+1) (.lp :: rest) = (match parseBin t f 0 rest with
       | some (e, .rp :: rest') => some (.paren e, rest')
       | _ => none) := by rw [parseUn]; rfl

theorem parseUn_other (f : Nat) (ts : List Tok)
    (h : match ts with | .atom _ :: _ => False | .pre _ :: _ => False | .lp :: _ => False | _ => True) :
    parseUn t (f+1) ts = none := by
  match ts, h with
  | [], _ => rw [parseUn] <;> nofun
  | .op _ :: _, _ => rw [parseUn] <;> nofun
  | .rp :: _, _ => rw [parseUn] <;> nofun

/-- more fuel never changes a successful parse -/
theorem mono_succ : ∀ f : Nat,
    (∀ m ts x, parseBin t f m ts = some x → parseBin t (f+1) m ts = some x) ∧
    (∀ m l ts x, loop t f m l ts = some x → loop t (f+1) m l ts = some x) ∧
    (∀ ts x, parseUn t f ts = some x → parseUn t (f+1) ts = some x) := by
  intro f
  induction f with
  | zero =>
    refine ⟨?_, ?_, ?_⟩ <;> intros <;> simp [parseBin, loop, parseUn] at *
  | succ f ih =>
    obtain ⟨ihB, ihL, ihU⟩ := ih
    refine ⟨?_, ?_, ?_⟩
    · intro m ts x h
      rw [parseBin_succ] at h ⊢
      cases hu : parseUn t f ts with
      | none => simp [hu] at h
      | some p =>
        obtain ⟨l, rest⟩ := p
        simp only [hu] at h
        rw [ihU _ _ hu]
        exact ihL _ _ _ _ h
    · intro m l ts x h
      by_cases hno : NoOp ts
      · rw [loop_noop t _ _ _ _ hno] at h ⊢; exact h
      · match ts, hno with
        | .op k :: rest, _ =>
          rw [loop_op] at h ⊢
          by_cases hp : t.prec k < m
          · simp only [hp, if_true] at h ⊢; exact h
          · simp only [hp, if_false] at h ⊢
            cases hb : parseBin t f (t.inner k) rest with
            | none => simp [hb] at h
            | some p =>
              obtain ⟨r, rest'⟩ := p
              simp only [hb] at h
              rw [ihB _ _ _ hb]
              exact ihL _ _ _ _ h
        | [], hno => simp [NoOp] at hno
        | .atom _ :: _, hno => simp [NoOp] at hno
        | .pre _ :: _, hno => simp [NoOp] at hno
        | .lp :: _, hno => simp [NoOp] at hno
        | .rp :: _, hno => simp [NoOp] at hno
    · intro ts x h
      match ts, h with
      | .atom n :: rest, h => rw [parseUn_atom] at h ⊢; exact h
      | .pre u :: rest, h =>
        rw [parseUn_pre] at h ⊢
        cases hu : parseUn t f rest with
        | none => simp [hu] at h
        | some p =>
          obtain ⟨e, rest'⟩ := p
          simp only [hu] at h
          rw [ihU _ _ hu]; exact h
      | .lp :: rest, h =>
        rw [parseUn_lp] at h ⊢
        cases hb : parseBin t f 0 rest with
        | none => simp [hb] at h
        | some p =>
          obtain ⟨e, rest'⟩ := p
          rw [ihB _ _ _ hb]
          simp only [hb] at h
          exact h
      | [], h => rw [parseUn_other t _ _ (by simp)] at h; simp at h
      | .op _ :: _, h => rw [parseUn_other t _ _ (by simp)] at h; simp at h
      | .rp :: _, h => rw [parseUn_other t _ _ (by simp)] at h; simp at h

theorem monoB {f g : Nat} (hfg : f ≤ g) {m ts x} (h : parseBin t f m ts = some x) :
    parseBin t g m ts = some x := by
  induction hfg with
  | refl => exact h
  | step _ ih => exact (mono_succ t _).1 _ _ _ ih

theorem monoL {f g : Nat} (hfg : f ≤ g) {m l ts x} (h : loop t f m l ts = some x) :
    loop t g m l ts = some x := by
  induction hfg with
  | refl => exact h
  | step _ ih => exact (mono_succ t _).2.1 _ _ _ _ ih

theorem monoU {f g : Nat} (hfg : f ≤ g) {ts x} (h : parseUn t f ts = some x) :
    parseUn t g ts = some x := by
  induction hfg with
  | refl => exact h
  | step _ ih => exact (mono_succ t _).2.2 _ _ ih

/-- the loop stops in front of `rest` at level `m` -/
def Stops (m : Nat) : List Tok → Prop
  | .op k :: _ => t.prec k < m
  | _ => True

theorem Stops.mono {a b : Nat} (hab : a ≤ b) : ∀ {rest}, Stops t a rest → Stops t b rest
  | .op _ :: _, h => Nat.lt_of_lt_of_le h hab
  | [], _ => trivial
  | .atom _ :: _, _ => trivial
  | .pre _ :: _, _ => trivial
  | .lp :: _, _ => trivial
  | .rp :: _, _ => trivial

theorem loop_stops {m left rest} (h : Stops t m rest) : loop t 1 m left rest = some (left, rest) := by
  match rest, h with
  | .op k :: rest, h => simp only [Stops] at h; rw [loop_op]; simp [h]
  | [], _ => exact loop_noop t _ _ _ _ (by simp [NoOp])
  | .atom _ :: _, _ => exact loop_noop t _ _ _ _ (by simp [NoOp])
  | .pre _ :: _, _ => exact loop_noop t _ _ _ _ (by simp [NoOp])
  | .lp :: _, _ => exact loop_noop t _ _ _ _ (by simp [NoOp])
  | .rp :: _, _ => exact loop_noop t _ _ _ _ (by simp [NoOp])

/-- left operand of `k` was finished by the loop before `k` -/
def leftCond (k : Nat) : E → Prop
  | .bin k' _ _ => t.prec k < t.inner k'
  | _ => True
/-- right operand of `k` was parsed by `parseBin (inner k)` -/
def rightCond (k : Nat) : E → Prop
  | .bin k' _ _ => t.inner k ≤ t.prec k'
  | _ => True
/-- trees the parser can produce -/
def WF : E → Prop
  | .atom _ => True
  | .paren e => WF e
  | .un _ e => e.isBin = false ∧ WF e
  | .bin k l r => WF l ∧ leftCond t k l ∧ WF r ∧ rightCond t k r
def rootCond (m : Nat) : E → Prop
  | .bin k _ _ => m ≤ t.prec k
  | _ => True
/-- what may follow a tree so that the parser returns exactly it -/
def StopsAfter (e : E) (rest : List Tok) : Prop :=
  match e with
  | .bin k _ _ => Stops t (t.inner k) rest
  | _ => True

theorem prec_le_inner (k : Nat) : t.prec k ≤ t.inner k := by
  unfold Tbl.inner; split <;> omega

/-- the main lemma: parsing the yield of a well-formed tree `e` at level `m` behaves like the loop
    continued with `e` in hand -/
theorem parse_yield_aux : ∀ e : E, WF t e →
    (e.isBin = false → ∀ rest, ∃ N, parseUn t N (yield e ++ rest) = some (e, rest)) ∧
    (∀ m rest x, rootCond t m e → StopsAfter t e rest →
        (∃ N, loop t N m e rest = some x) → ∃ N, parseBin t N m (yield e ++ rest) = some x) := by
  intro e
  induction e with
  | atom n =>
    intro _
    refine ⟨fun _ rest => ⟨1, by simp [yield, parseUn]⟩, ?_⟩
    intro m rest x _ _ ⟨N, hN⟩
    refine ⟨N + 1, ?_⟩
    rw [parseBin]
    have : parseUn t N (yield (.atom n) ++ rest) = some (.atom n, rest) := by
      cases N with
      | zero => simp [loop] at hN
      | succ N => simp [yield, parseUn]
    simp only [this]; exact hN
  | paren e ih =>
    intro hwf
    have hU : ∀ rest, ∃ N, parseUn t N (yield (.paren e) ++ rest) = some (.paren e, rest) := by
      intro rest
      obtain ⟨_, ihB⟩ := ih hwf
      have hroot : rootCond t 0 e := by cases e <;> simp [rootCond]
      have hstop : StopsAfter t e (.rp :: rest) := by cases e <;> simp [StopsAfter, Stops]
      obtain ⟨N, hN⟩ := ihB 0 (.rp :: rest) (e, .rp :: rest) hroot hstop ⟨1, loop_stops t (by simp [Stops])⟩
      refine ⟨N + 1, ?_⟩
      have : yield (.paren e) ++ rest = .lp :: (yield e ++ .rp :: rest) := by simp [yield]
      rw [this, parseUn]; simp only [hN]
    refine ⟨fun _ => hU, ?_⟩
    intro m rest x _ _ ⟨N, hN⟩
    obtain ⟨M, hM⟩ := hU rest
    refine ⟨max N M + 1, ?_⟩
    rw [parseBin, monoU t (Nat.le_max_right N M) hM]
    exact monoL t (Nat.le_max_left N M) hN
  | un u e ih =>
    intro hwf
    obtain ⟨hnb, hwfe⟩ := hwf
    have hU : ∀ rest, ∃ N, parseUn t N (yield (.un u e) ++ rest) = some (.un u e, rest) := by
      intro rest
      obtain ⟨ihU, _⟩ := ih hwfe
      obtain ⟨N, hN⟩ := ihU hnb rest
      refine ⟨N + 1, ?_⟩
      have : yield (.un u e) ++ rest = .pre u :: (yield e ++ rest) := by simp [yield]
      rw [this, parseUn]; simp only [hN]
    refine ⟨fun _ => hU, ?_⟩
    intro m rest x _ _ ⟨N, hN⟩
    obtain ⟨M, hM⟩ := hU rest
    refine ⟨max N M + 1, ?_⟩
    rw [parseBin, monoU t (Nat.le_max_right N M) hM]
    exact monoL t (Nat.le_max_left N M) hN
  | bin k l r ihl ihr =>
    intro hwf
    obtain ⟨hwl, hlc, hwr, hrc⟩ := hwf
    refine ⟨fun h => by simp [E.isBin] at h, ?_⟩
    intro m rest x hroot hstop ⟨N, hN⟩
    simp only [rootCond] at hroot
    simp only [StopsAfter] at hstop
    -- right operand: parsed by parseBin (inner k), returns exactly (r, rest)
    have hr : ∃ M, parseBin t M (t.inner k) (yield r ++ rest) = some (r, rest) := by
      refine (ihr hwr).2 (t.inner k) rest (r, rest) ?_ ?_ ⟨1, loop_stops t hstop⟩
      · cases r <;> simp_all [rootCond, rightCond]
      · cases r with
        | bin k' _ _ =>
          simp only [StopsAfter]
          simp only [rightCond] at hrc
          exact Stops.mono t (Nat.le_trans hrc (prec_le_inner t k')) hstop
        | _ => simp [StopsAfter]
    obtain ⟨M, hM⟩ := hr
    -- the loop with `l` in hand takes `op k`, parses `r`, continues with `bin k l r`
    have hloop : ∃ K, loop t K m l (.op k :: (yield r ++ rest)) = some x := by
      refine ⟨max N M + 1, ?_⟩
      rw [loop]
      simp only [Nat.not_lt.mpr hroot, if_false]
      rw [monoB t (Nat.le_max_right N M) hM]
      exact monoL t (Nat.le_max_left N M) hN
    have hyield : yield (.bin k l r) ++ rest = yield l ++ (.op k :: (yield r ++ rest)) := by
      simp [yield]
    rw [hyield]
    refine (ihl hwl).2 m _ x ?_ ?_ hloop
    · cases l with
      | bin k' _ _ =>
        simp only [rootCond]
        simp only [leftCond] at hlc
        have := prec_le_inner t k'
        unfold Tbl.inner at hlc this
        split at hlc <;> omega
      | _ => simp [rootCond]
    · cases l with
      | bin k' _ _ => simpa [StopsAfter, Stops, leftCond] using hlc
      | _ => simp [StopsAfter]

/-- every well-formed tree is recovered from its tokens, whatever follows (as long as the loop stops there) -/
theorem parse_yield (e : E) (m : Nat) (rest : List Tok) (hwf : WF t e) (hroot : rootCond t m e)
    (hstop : Stops t m rest) : ∃ N, ∀ f, N ≤ f → parseBin t f m (yield e ++ rest) = some (e, rest) := by
  have hsa : StopsAfter t e rest := by
    cases e with
    | bin k _ _ =>
      simp only [StopsAfter]; simp only [rootCond] at hroot
      exact Stops.mono t (Nat.le_trans hroot (prec_le_inner t k)) hstop
    | _ => simp [StopsAfter]
  obtain ⟨N, hN⟩ := (parse_yield_aux t e hwf).2 m rest (e, rest) hroot hsa ⟨1, loop_stops t hstop⟩
  exact ⟨N, fun f hf => monoB t hf hN⟩

/-! ### minimal parenthesisation produces well-formed trees and erases to the abstract tree -/

theorem erase_wrapAt (lvl : Nat) (e : E) : erase (wrapAt t lvl e) = erase e := by
  cases e <;> simp [wrapAt, erase]
  split <;> simp [erase]

theorem erase_wrapLeft (k : Nat) (e : E) : erase (wrapLeft t k e) = erase e := by
  cases e <;> simp [wrapLeft, erase]
  split <;> simp [erase]

theorem erase_parenthesize : ∀ a : A, erase (parenthesize t a) = a := by
  intro a
  induction a with
  | atom n => rfl
  | un u e ih =>
    simp only [parenthesize]
    split <;> simp [erase, ih]
  | bin k l r ihl ihr =>
    simp [parenthesize, erase, erase_wrapAt, erase_wrapLeft, ihl, ihr]

theorem wf_parenthesize : ∀ a : A, WF t (parenthesize t a) := by
  intro a
  induction a with
  | atom n => simp [parenthesize, WF]
  | un u e ih =>
    simp only [parenthesize]
    split
    · simp [WF, E.isBin, ih]
    · rename_i h; simp [WF, ih]; simpa using h
  | bin k l r ihl ihr =>
    simp only [parenthesize, WF]
    refine ⟨?_, ?_, ?_, ?_⟩
    · generalize parenthesize t l = l' at ihl
      cases l' <;> simp_all [wrapLeft, WF]
      split <;> simp_all [WF]
    · generalize parenthesize t l = l'
      cases l' with
      | bin k' a b =>
        simp only [wrapLeft]
        by_cases h : t.prec k < t.inner k' <;> simp [h, leftCond]
      | _ => simp [wrapLeft, leftCond]
    · generalize parenthesize t r = r' at ihr
      cases r' <;> simp_all [wrapAt, WF]
      split <;> simp_all [WF]
    · generalize parenthesize t r = r'
      cases r' with
      | bin k' a b =>
        simp only [wrapAt]
        by_cases h : t.prec k' < t.inner k
        · simp [h, rightCond]
        · simp only [h, if_false, rightCond]; omega
      | _ => simp [wrapAt, rightCond]

end TsrunVerif.Pratt

namespace TsrunVerif.Pratt

/-- two levels cut the operators at the same place -/
def SameCut (t1 t2 : Tbl) (m1 m2 : Nat) : Prop := ∀ k, t1.prec k < m1 ↔ t2.prec k < m2

theorem sameCut_inner {t1 t2 : Tbl} (h : ∀ a b, t1.prec a < t1.prec b ↔ t2.prec a < t2.prec b)
    (hr : ∀ a, t1.rassoc a = t2.rassoc a) (k : Nat) : SameCut t1 t2 (t1.inner k) (t2.inner k) := by
  intro a
  unfold Tbl.inner
  rw [← hr k]
  cases t1.rassoc k with
  | true => simpa using h a k
  | false =>
    have := h k a
    simp only [Bool.false_eq_true, if_false]
    omega

/-- the parse depends on the table only through the ORDER of the precedence numbers and the
    associativity flags: order-isomorphic tables parse every token list alike (at every fuel) -/
theorem parse_iso_aux {t1 t2 : Tbl} (h : ∀ a b, t1.prec a < t1.prec b ↔ t2.prec a < t2.prec b)
    (hr : ∀ a, t1.rassoc a = t2.rassoc a) : ∀ f : Nat,
    (∀ m1 m2 ts, SameCut t1 t2 m1 m2 → parseBin t1 f m1 ts = parseBin t2 f m2 ts) ∧
    (∀ m1 m2 l ts, SameCut t1 t2 m1 m2 → loop t1 f m1 l ts = loop t2 f m2 l ts) ∧
    (∀ ts, parseUn t1 f ts = parseUn t2 f ts) := by
  intro f
  induction f with
  | zero => refine ⟨?_, ?_, ?_⟩ <;> intros <;> simp [parseBin, loop, parseUn]
  | succ f ih =>
    obtain ⟨ihB, ihL, ihU⟩ := ih
    refine ⟨?_, ?_, ?_⟩
    · intro m1 m2 ts hc
      rw [parseBin_succ, parseBin_succ, ihU ts]
      cases parseUn t2 f ts with
      | none => rfl
      | some p => obtain ⟨l, rest⟩ := p; exact ihL _ _ _ _ hc
    · intro m1 m2 l ts hc
      by_cases hno : NoOp ts
      · rw [loop_noop _ _ _ _ _ hno, loop_noop _ _ _ _ _ hno]
      · match ts, hno with
        | .op k :: rest, _ =>
          rw [loop_op, loop_op]
          by_cases hp : t1.prec k < m1
          · have hp2 : t2.prec k < m2 := (hc k).1 hp
            simp [hp, hp2]
          · have hp2 : ¬ t2.prec k < m2 := fun x => hp ((hc k).2 x)
            simp only [hp, hp2, if_false]
            rw [ihB _ _ rest (sameCut_inner h hr k)]
            cases parseBin t2 f (t2.inner k) rest with
            | none => rfl
            | some p => obtain ⟨r, rest'⟩ := p; exact ihL _ _ _ _ hc
        | [], hno => simp [NoOp] at hno
        | .atom _ :: _, hno => simp [NoOp] at hno
        | .pre _ :: _, hno => simp [NoOp] at hno
        | .lp :: _, hno => simp [NoOp] at hno
        | .rp :: _, hno => simp [NoOp] at hno
    · intro ts
      match ts with
      | .atom n :: rest => rw [parseUn_atom, parseUn_atom]
      | .pre u :: rest => rw [parseUn_pre, parseUn_pre, ihU rest]
      | .lp :: rest =>
        rw [parseUn_lp, parseUn_lp, ihB 0 0 rest (fun k => by simp)]
      | [] => rw [parseUn_other _ _ _ (by simp), parseUn_other _ _ _ (by simp)]
      | .op _ :: _ => rw [parseUn_other _ _ _ (by simp), parseUn_other _ _ _ (by simp)]
      | .rp :: _ => rw [parseUn_other _ _ _ (by simp), parseUn_other _ _ _ (by simp)]

theorem parse_iso {t1 t2 : Tbl} (h : ∀ a b, t1.prec a < t1.prec b ↔ t2.prec a < t2.prec b)
    (hr : ∀ a, t1.rassoc a = t2.rassoc a) (f : Nat) (ts : List Tok) :
    parseBin t1 f 0 ts = parseBin t2 f 0 ts :=
  (parse_iso_aux h hr f).1 0 0 ts (fun k => by simp)

end TsrunVerif.Pratt
