import TsrunVerif.Model.Erase
/-! Lemmas for M-Erase: erasure yields plain programs, is idempotent, fixes plain programs. -/
namespace TsrunVerif.Erase

theorem plain_stripParam (p : Param) : plainParam (stripParam p) = true := by
  simp [plainParam, stripParam]

theorem all_plain_stripParam (ps : List Param) : (ps.map stripParam).all plainParam = true := by
  induction ps with
  | nil => rfl
  | cons p ps ih => simp [List.all_cons, plain_stripParam, ih] 

mutual
theorem plain_stripE : ∀ e : Expr, plainE (stripE e) = true
  | .num _ => by simp [stripE, plainE]
  | .str _ => by simp [stripE, plainE]
  | .var _ => by simp [stripE, plainE]
  | .bin _ a b => by simp [stripE, plainE, plain_stripE a, plain_stripE b]
  | .assign a b => by simp [stripE, plainE, plain_stripE a, plain_stripE b]
  | .call f _ args => by simp [stripE, plainE, plain_stripE f, plain_stripEs args]
  | .newE _ _ args => by simp [stripE, plainE, plain_stripEs args]
  | .arrow _ ps _ body => by
      simp only [stripE, plainE, plain_stripE body, all_plain_stripParam, plainRet, List.isEmpty_nil, Bool.and_self]
  | .asyncArrow _ ps _ body => by
      simp only [stripE, plainE, plain_stripE body, all_plain_stripParam, plainRet, List.isEmpty_nil, Bool.and_self]
  | .asT e _ => by simp [stripE, plain_stripE e]
  | .satisfies e _ => by simp [stripE, plain_stripE e]
  | .angle _ e => by simp [stripE, plain_stripE e]
  | .nonNull e => by simp [stripE, plain_stripE e]
  | .member e _ => by simp [stripE, plainE, plain_stripE e]
  | .index e i => by simp [stripE, plainE, plain_stripE e, plain_stripE i]
  | .arrLit es => by simp [stripE, plainE, plain_stripEs es]
  | .objLit ps => by simp [stripE, plainE, plain_stripPs ps]
  | .tmpl _ es => by simp [stripE, plainE, plain_stripEs es]
  | .paren e => by simp [stripE, plainE, plain_stripE e]
  | .cond c a b => by simp [stripE, plainE, plain_stripE c, plain_stripE a, plain_stripE b]
theorem plain_stripEs : ∀ es : List Expr, plainEs (stripEs es) = true
  | [] => by simp [stripEs, plainEs]
  | e :: es => by simp [stripEs, plainEs, plain_stripE e, plain_stripEs es]
theorem plain_stripPs : ∀ ps : List (String × Expr), plainPs (stripPs ps) = true
  | [] => by simp [stripPs, plainPs]
  | (_, e) :: ps => by simp [stripPs, plainPs, plain_stripE e, plain_stripPs ps]
end

mutual
theorem plain_stripMember : ∀ (m m' : Member), stripMember m = some m' → plainMember m' = true
  | .field md st name opt definite ty init, m', h => by
      simp only [stripMember, Option.some.injEq] at h
      subst h
      simp [plainMember, plainMods, noMods, plain_stripE]
  | .method md st name tps ps ret ov locals body, m', h => by
      simp only [stripMember, Option.some.injEq] at h
      subst h
      simp [plainMember, plainMods, noMods, plain_stripE, plainRet, plain_stripSs locals]
      intro x _; exact plain_stripParam x
  | .indexSig k kt vt, _, h => by simp [stripMember] at h
  | .declareField _ _, _, h => by simp [stripMember] at h
  | .staticBlock body, m', h => by
      simp only [stripMember, Option.some.injEq] at h
      subst h
      simp [plainMember, plain_stripSs body]
theorem plain_stripMs : ∀ ms : List Member, plainMs (stripMs ms) = true
  | [] => by simp [stripMs, plainMs]
  | m :: ms => by
      simp only [stripMs]
      cases h : stripMember m with
      | none => exact plain_stripMs ms
      | some m' => simp [plainMs, plain_stripMember m m' h, plain_stripMs ms]
theorem plain_stripS : ∀ (s s' : Stmt), stripS s = some s' → plainS s' = true
  | .decl kw x d ty init, s', h => by
      simp only [stripS, Option.some.injEq] at h; subst h
      simp [plainS, plain_stripE]
  | .fn name tps ps ret ov body result, s', h => by
      simp only [stripS, Option.some.injEq] at h; subst h
      simp [plainS, plain_stripE, plainRet, plain_stripSs body]
      intro x _; exact plain_stripParam x
  | .cls name tps impls members, s', h => by
      simp only [stripS, Option.some.injEq] at h; subst h
      simp only [plainS, List.isEmpty_nil, Bool.true_and]
      exact plain_stripMs members
  | .expr e, s', h => by
      simp only [stripS, Option.some.injEq] at h; subst h
      simp [plainS, plain_stripE]
  | .ifS c thn els, s', h => by
      simp only [stripS, Option.some.injEq] at h; subst h
      simp [plainS, plain_stripE, plain_stripSs thn, plain_stripSs els]
  | .typeAlias _ _ _, _, h => by simp [stripS] at h
  | .iface _ _ _ _, _, h => by simp [stripS] at h
  | .declareVar _ _, _, h => by simp [stripS] at h
  | .declareFn _ _ _, _, h => by simp [stripS] at h
theorem plain_stripSs : ∀ ss : List Stmt, plainSs (stripSs ss) = true
  | [] => by simp [stripSs, plainSs]
  | s :: ss => by
      simp only [stripSs]
      cases h : stripS s with
      | none => exact plain_stripSs ss
      | some s' => simp [plainSs, plain_stripS s s' h, plain_stripSs ss]
end

/-! erasure fixes plain programs -/

theorem stripParam_of_plain (p : Param) (h : plainParam p = true) : stripParam p = p := by
  cases p with
  | mk name ty opt dflt =>
    simp only [plainParam, Bool.and_eq_true, Option.isNone_iff_eq_none, Bool.not_eq_eq_eq_not, Bool.not_true] at h
    simp [stripParam, h.1, h.2]

theorem map_stripParam_of_plain (ps : List Param) (h : ps.all plainParam = true) : ps.map stripParam = ps := by
  induction ps with
  | nil => rfl
  | cons p ps ih =>
    simp only [List.all_cons, Bool.and_eq_true] at h
    simp [stripParam_of_plain p h.1, ih h.2]

theorem plainRet_eq (r : Ret) (h : plainRet r = true) : r = .none := by
  cases r <;> simp_all [plainRet]

mutual
theorem stripE_of_plain : ∀ e : Expr, plainE e = true → stripE e = e
  | .num _, _ => by simp [stripE]
  | .str _, _ => by simp [stripE]
  | .var _, _ => by simp [stripE]
  | .bin _ a b, h => by
      simp only [plainE, Bool.and_eq_true] at h
      simp [stripE, stripE_of_plain a h.1, stripE_of_plain b h.2]
  | .assign a b, h => by
      simp only [plainE, Bool.and_eq_true] at h
      simp [stripE, stripE_of_plain a h.1, stripE_of_plain b h.2]
  | .call f targs args, h => by
      simp only [plainE, Bool.and_eq_true, List.isEmpty_iff] at h
      simp [stripE, stripE_of_plain f h.1.1, stripEs_of_plain args h.2, h.1.2]
  | .newE _ targs args, h => by
      simp only [plainE, Bool.and_eq_true, List.isEmpty_iff] at h
      simp [stripE, stripEs_of_plain args h.2, h.1]
  | .arrow tps ps ret body, h => by
      simp only [plainE, Bool.and_eq_true, List.isEmpty_iff] at h
      simp [stripE, stripE_of_plain body h.2, map_stripParam_of_plain ps h.1.1.2, h.1.1.1, plainRet_eq ret h.1.2]
  | .asyncArrow tps ps ret body, h => by
      simp only [plainE, Bool.and_eq_true, List.isEmpty_iff] at h
      simp [stripE, stripE_of_plain body h.2, map_stripParam_of_plain ps h.1.1.2, h.1.1.1, plainRet_eq ret h.1.2]
  | .asT _ _, h => by simp [plainE] at h
  | .satisfies _ _, h => by simp [plainE] at h
  | .angle _ _, h => by simp [plainE] at h
  | .nonNull _, h => by simp [plainE] at h
  | .member e _, h => by
      simp only [plainE] at h
      simp [stripE, stripE_of_plain e h]
  | .index e i, h => by
      simp only [plainE, Bool.and_eq_true] at h
      simp [stripE, stripE_of_plain e h.1, stripE_of_plain i h.2]
  | .arrLit es, h => by
      simp only [plainE] at h
      simp [stripE, stripEs_of_plain es h]
  | .objLit ps, h => by
      simp only [plainE] at h
      simp [stripE, stripPs_of_plain ps h]
  | .tmpl _ es, h => by
      simp only [plainE] at h
      simp [stripE, stripEs_of_plain es h]
  | .paren e, h => by
      simp only [plainE] at h
      simp [stripE, stripE_of_plain e h]
  | .cond c a b, h => by
      simp only [plainE, Bool.and_eq_true] at h
      simp [stripE, stripE_of_plain c h.1.1, stripE_of_plain a h.1.2, stripE_of_plain b h.2]
theorem stripEs_of_plain : ∀ es : List Expr, plainEs es = true → stripEs es = es
  | [], _ => by simp [stripEs]
  | e :: es, h => by
      simp only [plainEs, Bool.and_eq_true] at h
      simp [stripEs, stripE_of_plain e h.1, stripEs_of_plain es h.2]
theorem stripPs_of_plain : ∀ ps : List (String × Expr), plainPs ps = true → stripPs ps = ps
  | [], _ => by simp [stripPs]
  | (k, e) :: ps, h => by
      simp only [plainPs, Bool.and_eq_true] at h
      simp [stripPs, stripE_of_plain e h.1, stripPs_of_plain ps h.2]
end

theorem mods_eq (m : Mods) (h : plainMods m = true) : m = noMods := by
  cases m with
  | mk a r o =>
    simp only [plainMods, Bool.and_eq_true, Option.isNone_iff_eq_none, Bool.not_eq_eq_eq_not, Bool.not_true] at h
    simp [noMods, h.1.1, h.1.2, h.2]

mutual
theorem stripMember_of_plain : ∀ m : Member, plainMember m = true → stripMember m = some m
  | .field md st name opt definite ty init, h => by
      simp only [plainMember, Bool.and_eq_true, Option.isNone_iff_eq_none, Bool.not_eq_eq_eq_not, Bool.not_true] at h
      simp [stripMember, stripE_of_plain init h.2, mods_eq md h.1.1.1.1, h.1.1.1.2, h.1.1.2, h.1.2]
  | .method md st name tps ps ret ov locals body, h => by
      simp only [plainMember, Bool.and_eq_true, List.isEmpty_iff] at h
      simp [stripMember, stripE_of_plain body h.2, stripSs_of_plain locals h.1.2, mods_eq md h.1.1.1.1.1.1, h.1.1.1.1.1.2,
        map_stripParam_of_plain ps h.1.1.1.1.2, plainRet_eq ret h.1.1.1.2, h.1.1.2]
  | .indexSig _ _ _, h => by simp [plainMember] at h
  | .declareField _ _, h => by simp [plainMember] at h
  | .staticBlock body, h => by
      simp only [plainMember] at h
      simp [stripMember, stripSs_of_plain body h]
theorem stripMs_of_plain : ∀ ms : List Member, plainMs ms = true → stripMs ms = ms
  | [], _ => by simp [stripMs]
  | m :: ms, h => by
      simp only [plainMs, Bool.and_eq_true] at h
      simp [stripMs, stripMember_of_plain m h.1, stripMs_of_plain ms h.2]
theorem stripS_of_plain : ∀ s : Stmt, plainS s = true → stripS s = some s
  | .decl kw x d ty init, h => by
      simp only [plainS, Bool.and_eq_true, Option.isNone_iff_eq_none, Bool.not_eq_eq_eq_not, Bool.not_true] at h
      simp [stripS, stripE_of_plain init h.2, h.1.1, h.1.2]
  | .fn name tps ps ret ov body result, h => by
      simp only [plainS, Bool.and_eq_true, List.isEmpty_iff] at h
      simp [stripS, stripE_of_plain result h.2, stripSs_of_plain body h.1.2, h.1.1.2, plainRet_eq ret h.1.1.1.2,
        map_stripParam_of_plain ps h.1.1.1.1.2, h.1.1.1.1.1]
  | .cls name tps impls members, h => by
      simp only [plainS, Bool.and_eq_true, List.isEmpty_iff] at h
      simp [stripS, stripMs_of_plain members h.2, h.1.1, h.1.2]
  | .expr e, h => by
      simp only [plainS] at h
      simp [stripS, stripE_of_plain e h]
  | .ifS c thn els, h => by
      simp only [plainS, Bool.and_eq_true] at h
      simp [stripS, stripE_of_plain c h.1.1, stripSs_of_plain thn h.1.2, stripSs_of_plain els h.2]
  | .typeAlias _ _ _, h => by simp [plainS] at h
  | .iface _ _ _ _, h => by simp [plainS] at h
  | .declareVar _ _, h => by simp [plainS] at h
  | .declareFn _ _ _, h => by simp [plainS] at h
theorem stripSs_of_plain : ∀ ss : List Stmt, plainSs ss = true → stripSs ss = ss
  | [], _ => by simp [stripSs]
  | s :: ss, h => by
      simp only [plainSs, Bool.and_eq_true] at h
      simp [stripSs, stripS_of_plain s h.1, stripSs_of_plain ss h.2]
end

end TsrunVerif.Erase
