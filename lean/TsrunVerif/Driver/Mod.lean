import TsrunVerif.Model.Mod
import TsrunVerif.Model.Path

namespace TsrunVerif.Driver
open TsrunVerif.Mod

/-- universe: resolved path ↔ number. -/
def idOf (tbl : List String) (p : String) : Nat × List String :=
  match tbl.idxOf? p with
  | some i => (i, tbl)
  | none => (tbl.length, tbl ++ [p])

def resolveStr (spec importer : String) : String :=
  String.ofList (TsrunVerif.Path.resolve spec.toList (some importer.toList))

def sortStrs (l : List String) : List String := (l.toArray.qsort (· < ·)).toList

/-- line: `mainPath \t mainSpecs(,) \t path=spec,spec;path=… \t policy;policy…`
policy item: `all` or `<k>` (k-th of the sorted request list), optionally `+path+path` extras.
output: events `N:p,p` (sorted requested paths) · `X:p,p` (one execution round, sorted) · `R` (entry program runs). -/
partial def modLine (line : String) : String :=
  match line.splitOn "\t" with
  | [mainPath, mainSpecs, mods, policy] =>
    let specsOf (s : String) : List String := (s.splitOn ",").filter (· ≠ "")
    let modList : List (String × List String) := ((mods.splitOn ";").filter (· ≠ "")).map (fun m =>
      match m.splitOn "=" with
      | [p, s] => (p, specsOf s)
      | _ => (m, []))
    -- number all paths
    let tbl0 : List String := modList.map (·.1)
    let (mainDeps, tbl1) := (specsOf mainSpecs).foldl (fun (acc : List Nat × List String) s =>
      let (i, t) := idOf acc.2 (resolveStr s mainPath); (acc.1 ++ [i], t)) ([], tbl0)
    let (depTable, tbl) := modList.foldl (fun (acc : List (List Nat) × List String) m =>
      let (ds, t) := m.2.foldl (fun (a : List Nat × List String) s =>
        let (i, t) := idOf a.2 (resolveStr s m.1); (a.1 ++ [i], t)) ([], acc.2)
      (acc.1 ++ [ds], t)) ([], tbl1)
    let deps : Nat → List Nat := fun m => depTable.getD m []
    let known (i : Nat) : Bool := i < modList.length
    let name (i : Nat) : String := tbl.getD i "?"
    let showSet (pre : String) (l : List Nat) : String := pre ++ ",".intercalate (sortStrs (l.map name))
    let pol := (policy.splitOn ";").filter (· ≠ "")
    -- execute rounds, collecting X events
    let rec rounds (fuel : Nat) (st : St) (evs : List String) : St × List String :=
      match fuel with
      | 0 => (st, evs)
      | f + 1 =>
        let r := readyList deps st
        if r.isEmpty then (st, evs) else rounds f (round deps id st) (evs ++ [showSet "X:" r])
    let rec host (fuel : Nat) (st : St) (reqs : List Nat) (pol : List String) (evs : List String) : List String :=
      match fuel with
      | 0 => evs ++ ["fuel"]
      | fuel + 1 =>
        let evs := evs ++ [showSet "N:" reqs]
        let (item, pol') := match pol with
          | p :: t => (p, t)
          | [] => ("all", [])
        let parts := item.splitOn "+"
        let sel := parts.headD "all"
        let extras := parts.drop 1
        let sortedReqs := (sortStrs (reqs.map name)).filterMap (fun p => tbl.idxOf? p)
        let chosen := if sel == "all" then sortedReqs
          else match sel.toNat? with
            | some k => if sortedReqs.isEmpty then [] else [sortedReqs.getD (k % sortedReqs.length) 0]
            | none => sortedReqs
        let extraIds := extras.filterMap (fun p => tbl.idxOf? p)
        let st := (chosen ++ extraIds).foldl (fun s m => if known m then provide s m else s) st
        -- step(): setup_vm_from_program
        let u := mainUnprovided mainDeps st
        if !u.isEmpty then host fuel st u pol' evs
        else
          let (st', xs) := rounds (st.pending.length + 1) st []
          let evs := evs ++ xs
          let u2 := unprovided deps st'
          if !u2.isEmpty then host fuel st' u2 pol' evs
          else
            let still := mainMissing mainDeps st'
            if !still.isEmpty then host fuel st' (still.filter (fun d => !st'.pending.contains d)) pol' evs
            else evs ++ ["R"]
    let st0 : St := { loaded := [], pending := [] }
    let miss := mainMissing mainDeps st0
    let evs := if miss.isEmpty then ["R"] else host 60 st0 miss pol []
    "|".intercalate evs
  | _ => "bad-case"

end TsrunVerif.Driver
