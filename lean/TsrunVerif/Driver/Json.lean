import TsrunVerif.Model.Json

namespace TsrunVerif.Driver
open TsrunVerif.Json TsrunVerif.Num

def skipWs : List Char → List Char
  | c :: t => if c = ' ' ∨ c = '\n' ∨ c = '\t' ∨ c = '\r' then skipWs t else c :: t
  | [] => []

/-- split a string body at its closing quote (respecting backslashes): (body, rest after quote). -/
def takeStr : List Char → List Char → Option (List Char × List Char)
  | [], _ => none
  | '"' :: t, acc => some (acc.reverse, t)
  | '\\' :: c :: t, acc => takeStr t (c :: '\\' :: acc)
  | c :: t, acc => takeStr t (c :: acc)

def numChars (s : List Char) : List Char × List Char :=
  (s.takeWhile (fun c => c.isDigit || c = '.' || c = 'e' || c = 'E' || c = '+' || c = '-'),
   s.dropWhile (fun c => c.isDigit || c = '.' || c = 'e' || c = 'E' || c = '+' || c = '-'))

mutual
  partial def parseValue (s : List Char) : Option (Json × List Char) :=
    match skipWs s with
    | 'n' :: 'u' :: 'l' :: 'l' :: t => some (.null, t)
    | 't' :: 'r' :: 'u' :: 'e' :: t => some (.bool true, t)
    | 'f' :: 'a' :: 'l' :: 's' :: 'e' :: t => some (.bool false, t)
    | '"' :: t =>
      match takeStr t [] with
      | some (body, rest) => (unescape body).map (fun s => (.str s, rest))
      | none => none
    | '[' :: t =>
      match skipWs t with
      | ']' :: r => some (.arr [], r)
      | t' => parseElems t' []
    | '{' :: t =>
      match skipWs t with
      | '}' :: r => some (.obj [], r)
      | t' => parseMembers t' []
    | c :: t =>
      if c = '-' ∨ c.isDigit then
        let (neg, body) := if c = '-' then (true, t) else (false, c :: t)
        let (nc, rest) := numChars body
        match parseDecimal nc with
        | some (d, x) =>
          let bits := decToBits d x
          some (.num (if neg then bits + 2 ^ 63 else bits), rest)
        | none => none
      else none
    | [] => none
  partial def parseElems (s : List Char) (acc : List Json) : Option (Json × List Char) :=
    match parseValue s with
    | some (v, rest) =>
      match skipWs rest with
      | ',' :: r => parseElems r (v :: acc)
      | ']' :: r => some (.arr (v :: acc).reverse, r)
      | _ => none
    | none => none
  partial def parseMembers (s : List Char) (acc : List (List Char × Json)) : Option (Json × List Char) :=
    match skipWs s with
    | '"' :: t =>
      match takeStr t [] with
      | some (body, rest) =>
        match unescape body, skipWs rest with
        | some k, ':' :: r =>
          match parseValue r with
          | some (v, rest2) =>
            match skipWs rest2 with
            | ',' :: r2 => parseMembers r2 ((k, v) :: acc)
            | '}' :: r2 => some (.obj ((k, v) :: acc).reverse, r2)
            | _ => none
          | none => none
        | _, _ => none
      | none => none
    | _ => none
end

def parseJson (s : List Char) : Option Json :=
  match parseValue s with
  | some (v, rest) => if (skipWs rest).isEmpty then some v else none
  | none => none

partial def printJson : Json → List Char
  | .null => "null".toList
  | .bool true => "true".toList
  | .bool false => "false".toList
  | .num bits => numberToString (decode bits)
  | .str s => '"' :: escape s ++ ['"']
  | .arr l => '[' :: (",".toList.intercalate (l.map printJson)) ++ [']']
  | .obj kvs => '{' :: (",".toList.intercalate (kvs.map (fun p => '"' :: escape p.1 ++ '"' :: ':' :: printJson p.2))) ++ ['}']

/-- serde_json's map keeps one entry per key (last value wins, first position irrelevant:
the harness compares objects as maps). -/
partial def dedupe : Json → Json
  | .arr l => .arr (l.map dedupe)
  | .obj kvs =>
    let kvs := kvs.map (fun p => (p.1, dedupe p.2))
    .obj (kvs.foldl (fun acc p => (acc.filter (fun q => q.1 != p.1)) ++ [p]) [])
  | j => j

/-- extended JSON (markers `{"$":"u"|"f"|"y"|"nan"|"inf"|"ninf"}`) → a script-built value. -/
partial def extToJs : Json → Js
  | .obj [(['$'], .str tag)] =>
    if tag = ['u'] then .undef else if tag = ['f'] then .func else if tag = ['y'] then .symbol
    else if tag = "nan".toList then .num (2047 * 2 ^ 52 + 2 ^ 51)
    else if tag = "inf".toList then .num (2047 * 2 ^ 52)
    else if tag = "ninf".toList then .num (2 ^ 63 + 2047 * 2 ^ 52)
    else .undef
  | .arr l => .arr (l.map extToJs)
  | .obj kvs => .obj (kvs.map (fun p => (propertyKey p.1, extToJs p.2)))
  | j => fromJson j

def jsonExtLine (line : String) : String :=
  match line.toList with
  | 'P' :: ' ' :: t =>
    match parseJson t with
    | some d => String.ofList (printJson (toJson (extToJs d)))
    | none => "parse-error"
  | _ => "bad-case"

/-- lines: `P <json>` parse → fromJson → toJson → print;  `K <text>` key canonicalisation;
`E <json string body>` unescape then escape. -/
def jsonLine (line : String) : String :=
  let cs := line.toList
  match cs with
  | 'P' :: ' ' :: t =>
    match parseJson t with
    | some d => String.ofList (printJson (toJson (fromJson (dedupe d))))
    | none => "parse-error"
  | 'K' :: ' ' :: t =>
    match propertyKey t with
    | .index n => s!"index {n}"
    | .str s => s!"str {String.ofList s}"
  | 'E' :: ' ' :: t =>
    match unescape t with
    | some s => String.ofList (escape s)
    | none => "parse-error"
  | _ => "bad-case"

end TsrunVerif.Driver
