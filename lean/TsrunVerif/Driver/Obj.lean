import TsrunVerif.Model.Obj

/-! line protocol of M-Obj.
`chain\t<obj>|<obj>|…\t<key>,<key>,…` — objects nearest first, an object is `key:val:e` / `key:val:n` items
separated by commas (empty for no properties) → `<for-in keys>;<lookup of every key>;<has of every key>`.
`bound\t<this>:<args>|<this>:<args>|…\t<call args>` — bind layers INNERMOST first (`_` for undefined this)
→ `<this>;<args of a call>;<args of new>;<depth>`. -/
namespace TsrunVerif.Driver
open TsrunVerif.Obj

def parseProp (s : String) : Option PropE :=
  match s.splitOn ":" with
  | [k, v, e] => v.toInt?.map (fun i => { key := k, val := i, enumerable := e == "e" })
  | _ => none

def parseObj (s : String) : Option O :=
  if s = "" then some [] else (s.splitOn ",").mapM parseProp

def ints (s : String) : Option (List Int) :=
  if s = "" then some [] else (s.splitOn ",").mapM (·.toInt?)

def showInts (l : List Int) : String := ",".intercalate (l.map toString)

def objLine (line : String) : String :=
  match line.splitOn "\t" with
  | ["chain", objs, keys] =>
    (match (objs.splitOn "|").mapM parseObj with
     | some chain =>
       let ks := if keys = "" then [] else keys.splitOn ","
       let look := ks.map (fun k => match lookup chain k with | some v => toString v | none => "undefined")
       let hs := ks.map (fun k => toString (has chain k))
       s!"{",".intercalate (forInKeys chain)};{",".intercalate look};{",".intercalate hs}"
     | none => "bad-case")
  | ["bound", layers, args] =>
    let parseLayer (s : String) : Option (Option Int × List Int) :=
      match s.splitOn ":" with
      | [t, a] => (ints a).map (fun l => (if t = "_" then none else t.toInt?, l))
      | _ => none
    (match (if layers = "" then some [] else (layers.splitOn "|").mapM parseLayer), ints args with
     | some ls, some as =>
       let f := ls.foldl (fun acc (l : Option Int × List Int) => Fn.bound acc l.1 l.2) (Fn.target 0)
       let c := resolveCall f none as
       let n := resolveNew f as
       let th := match c.2.1 with | some t => toString t | none => "u"
       s!"{th};{showInts c.2.2};{showInts n.2};{depth f}"
     | _, _ => "bad-case")
  | _ => "bad-case"

end TsrunVerif.Driver
