import TsrunVerif.Model.Heap

namespace TsrunVerif.Driver
open TsrunVerif.Heap

/-- mutator view: handle table (handle index → slot) and guard liveness on top of M-Heap. -/
structure World where
  heap : Heap
  handles : List (Option Nat)
  deriving Inhabited

def joinWith (sep : String) (l : List String) : String := sep.intercalate l

def viewSlot (w : World) (slot : Nat) : String :=
  match w.heap.slots[slot]? with
  | some s => s!"{slot}:{s.payload}:[{joinWith "," (s.links.map toString)}]"
  | none => "?"

def view (w : World) (h : Nat) : String :=
  if !w.heap.alive then "dead" else
  match w.handles[h]? with
  | some (some slot) => viewSlot w slot
  | _ => "-"

def statsStr (w : World) : String :=
  if !w.heap.alive then "dead" else
  let (t, p, l) := stats w.heap
  s!"{t},{p},{l}"

def dump (w : World) : String :=
  let gl := w.heap.guards.map (fun g => if g.alive then toString g.roots.length else "x")
  let hs := (List.range w.handles.length).filterMap (fun h =>
    match w.handles[h]? with
    | some (some _) => some s!"h{h}={view w h}"
    | _ => none)
  joinWith " " ([statsStr w, s!"g[{joinWith "," gl}]"] ++ hs)

def nums (s : String) : List Nat := (s.splitOn ",").filterMap (·.toNat?)

def guardAlive (w : World) (g : Nat) : Bool :=
  match w.heap.guards[g]? with
  | some gd => gd.alive
  | none => false

def handleSlot (w : World) (h : Nat) : Option Nat :=
  match w.handles[h]? with
  | some (some s) => some s
  | _ => none

def guardLen (w : World) (g : Nat) : Nat :=
  match w.heap.guards[g]? with
  | some gd => gd.roots.length
  | none => 0

def heapOp (w : World) (op : String) : World × String :=
  let k := (op.take 1).toString
  let a := nums (op.drop 1).toString
  match k, a with
  | "G", [] =>
    if w.heap.alive then
      let w := { w with heap := step w.heap .mkGuard }; (w, statsStr w)
    else (w, "bad-op")
  | "D", [g] =>
    if guardAlive w g then
      let w := { w with heap := step w.heap (.dropGuard g) }; (w, statsStr w)
    else (w, "bad-op")
  | "A", [g] =>
    if w.heap.alive && guardAlive w g then
      let (hp, idx) := alloc w.heap g
      let w := { heap := hp, handles := w.handles ++ [some idx] }
      (w, s!"{statsStr w} {view w (w.handles.length - 1)}")
    else (w, "bad-op")
  | "g", [g, h] =>
    match guardAlive w g, handleSlot w h with
    | true, some s =>
      let w := { w with heap := step w.heap (.guard g s) }; (w, toString (guardLen w g))
    | _, _ => (w, "bad-op")
  | "u", [g, h] =>
    match guardAlive w g, handleSlot w h with
    | true, some s =>
      let found := (match w.heap.guards[g]? with
        | some gd => (position gd.roots s).isSome
        | none => false)
      let w := { w with heap := step w.heap (.unguard g s) }
      (w, s!"{found} {guardLen w g}")
    | _, _ => (w, "bad-op")
  | "c", [g] =>
    if guardAlive w g then
      let w := { w with heap := step w.heap (.clear g) }; (w, toString (guardLen w g))
    else (w, "bad-op")
  | "L", [x, y] =>
    if !w.heap.alive then (w, "dead") else
    match handleSlot w x, handleSlot w y with
    | some sa, some sb =>
      let w := { w with heap := step w.heap (.link sa sb) }; (w, view w x)
    | _, _ => (w, "bad-op")
  | "U", [x, p] =>
    if !w.heap.alive then (w, "dead") else
    match handleSlot w x with
    | some sa => let w := { w with heap := step w.heap (.unlink sa p) }; (w, view w x)
    | none => (w, "bad-op")
  | "W", [x, v] =>
    if !w.heap.alive then (w, "dead") else
    match handleSlot w x with
    | some sa => let w := { w with heap := step w.heap (.write sa v) }; (w, view w x)
    | none => (w, "bad-op")
  | "K", [h] =>
    match handleSlot w h with
    | some s =>
      let w := { heap := step w.heap .handleOp, handles := w.handles ++ [some s] }
      (w, view w (w.handles.length - 1))
    | none => (w, "bad-op")
  | "X", [h] =>
    match handleSlot w h with
    | some _ =>
      let w := { heap := step w.heap .handleOp, handles := w.handles.set h none }
      (w, statsStr w)
    | none => (w, "bad-op")
  | "C", [] =>
    if !w.heap.alive then (w, "dead") else
    match mark w.heap with
    | none => (w, "model-out-of-fuel")
    | some _ => let w := { w with heap := step w.heap .collect }; (w, dump w)
  | "T", [n] =>
    if !w.heap.alive then (w, "dead") else
    ({ w with heap := step w.heap (.setThreshold n) }, "ok")
  | "H", [] => ({ w with heap := step w.heap .dropHeap }, "dead")
  | "S", [] => (w, dump w)
  | _, _ => (w, "bad-op")

def heapLine (line : String) : String :=
  let ops := (line.splitOn ";").filter (· ≠ "")
  let (_, outs) := ops.foldl (fun (acc : World × List String) op =>
    let (w, o) := heapOp acc.1 op
    (w, o :: acc.2)) (({ heap := Heap.init, handles := [] } : World), [])
  joinWith "|" outs.reverse

end TsrunVerif.Driver
